# sourced by every script: offline Go environment for the harness module
export GOFLAGS=-mod=mod GOPROXY=off GOSUMDB=off GOTOOLCHAIN=local GOWORK=off
export VERIF_ROOT="${VERIF_ROOT:-/verif}"
export REPO_GO=/repo/code/go/0chain.net
