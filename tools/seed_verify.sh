#!/bin/bash
# usage: tools/seed_verify.sh <seed dir containing patch.diff, demo/, meta.json> <name>
# Independently confirms a seeded change in a fresh scratch worktree of /repo (outside /repo and /verif):
# demo passes without the patch; with the patch: go build ./... ok, pinned suite passes, demo fails.
set -u
seed=$(readlink -f "$1"); name=$2
export GOFLAGS=-mod=mod GOPROXY=off GOSUMDB=off GOTOOLCHAIN=local GOWORK=off
d=/tmp/seedv/$name
rm -rf "$d"; mkdir -p /tmp/seedv
git -C /repo worktree add --detach "$d" HEAD >/dev/null 2>&1 || { echo "worktree failed"; exit 2; }
trap 'git -C /repo worktree remove --force "$d" >/dev/null 2>&1; rm -rf "$d"' EXIT
m=$d/code/go/0chain.net
echo 'replace github.com/linxGnu/grocksdb => /tmp/seedkit/grocksdb' >> $m/go.mod
place_demo() {
  runner=""
  for r in run_demo.sh run.sh; do [ -f "$seed/demo/$r" ] && runner=$r && break; done
  if [ -n "$runner" ]; then
    # the author's own runner, re-pointed at this scratch worktree
    mkdir -p "$d/SEED"; cp -r "$seed/demo" "$d/SEED/demo"
    orig=$(grep -o '/tmp/seed/[A-Za-z0-9_]*' "$seed/demo/$runner" | head -1)
    sed -i "s|$orig|$d|g" "$d/SEED/demo/$runner"
    DEMO="sh $d/SEED/demo/$runner"
    return 0
  fi
  if ls "$seed"/demo/*_test.go >/dev/null 2>&1 && ! ls "$seed"/demo/main.go >/dev/null 2>&1; then
    # test-file demos: README must say where; convention: meta.json "demo_pkg"
    pkg=${SEED_DEMO_PKG:-}; [ -n "$pkg" ] || pkg=$(python3 -c "
import json,re
m=json.load(open('$seed/meta.json'))
p=m.get('demo_pkg','')
if not p:
    c=re.findall(r' \./([A-Za-z0-9_/]+?)/?(?:\s|$)', m.get('demo_cmd','')+' ')
    p=c[-1] if c else ''
print(p)")
    [ -n "$pkg" ] || { echo "test demo without demo_pkg"; return 1; }
    mkdir -p "$m/$pkg"; cp "$seed"/demo/*_test.go "$m/$pkg/"
    DEMO="go test -vet=off -count=1 -run TestSeed ./$pkg/"
  else
    mkdir -p $m/cmd_seed_demo
    if ls "$seed"/demo/main.go >/dev/null 2>&1; then cp "$seed"/demo/main.go $m/cmd_seed_demo/; elif ls "$seed"/demo/*.go >/dev/null 2>&1; then cp "$seed"/demo/*.go $m/cmd_seed_demo/; else cp "$seed"/demo/*/*.go $m/cmd_seed_demo/; fi
    DEMO="go run ./cmd_seed_demo"
  fi
}
place_demo || exit 2
cd $m
failed() { grep -qE "^(--- FAIL|FAIL)" "$1" && return 0; return 1; }
echo "== demo WITHOUT patch"; timeout 900 $DEMO > /tmp/seedv/$name.without.log 2>&1; r0=$?; failed /tmp/seedv/$name.without.log && r0=1; tail -2 /tmp/seedv/$name.without.log; echo "exit=$r0"
# the pinned suite must be judged WITHOUT the demonstration file in a pinned package
[ -n "${pkg:-}" ] && rm -f "$m/$pkg"/seed_*_test.go "$m/$pkg"/*seed*_test.go
git -C "$d" apply "$seed/patch.diff" || { echo "patch does not apply"; exit 2; }
echo "== build WITH patch"; go build ./... 2>&1 | grep -v '^WARNING' | tail -3; rb=${PIPESTATUS[0]}
echo "== pinned suite WITH patch"
go test -vet=off -count=1 ./chaincore/client/... ./chaincore/node/... ./conductor/conductrpc/stats/... ./core/cache/... ./core/config/... ./core/encryption/... ./core/sortedmap/... ./core/util/entitywrapper/... ./core/util/orderbuffer/... ./core/viper/... ./sharder/blockdb/... > /tmp/seedv/$name.suite.log 2>&1; rs=$?
grep -E "^(FAIL|---)" /tmp/seedv/$name.suite.log | grep -v TestPullingEntityCache | head -5
place_demo >/dev/null
echo "== demo WITH patch"; timeout 900 $DEMO > /tmp/seedv/$name.with.log 2>&1; r1=$?; failed /tmp/seedv/$name.with.log && r1=1; tail -2 /tmp/seedv/$name.with.log; echo "exit=$r1"
echo "RESULT name=$name demo_without=$r0 build=$rb suite=$rs demo_with=$r1"
[ $r0 -eq 0 ] && [ $rb -eq 0 ] && [ $r1 -ne 0 ] && { [ $rs -eq 0 ] || ! grep -E "^(FAIL[[:space:]]+[^[:space:]]|--- FAIL)" /tmp/seedv/$name.suite.log | grep -qv "TestPullingEntityCache\|chaincore/node"; } && { echo "SEED CONFIRMED"; exit 0; }
echo "SEED NOT CONFIRMED"; exit 1
