#!/bin/bash
# usage: tools/detect.sh <PropId> <patch.diff> [quick|thorough]
# Runs the property's check against /repo + the given patch WITHOUT touching /repo: the patched
# copies of the affected files are fed to the build through the overlay. Evidence/replays of the
# run go to a scratch directory. Exit 0 iff the check reported a VIOLATION (= detected).
set -u
cd "$(dirname "$0")/.."
. ./env.sh
id=$1; diff=$(readlink -f "$2"); tier=${3:-quick}
suf=mut$$; d=$PWD/.work/$suf; mkdir -p "$d/src" "$d/out"
trap 'rm -rf "$d" .bin/*.'"$suf"'* .work/overlay.'"$suf"'.json .work/seams.'"$suf" EXIT
files=$(git -C /repo apply --numstat "$diff" | cut -f3) || { echo "detect: patch does not apply to /repo"; exit 2; }
for f in $files; do mkdir -p "$d/src/$(dirname "$f")"; [ -f "/repo/$f" ] && cp "/repo/$f" "$d/src/$f"; done
patch -s -p1 -d "$d/src" < "$diff" || { echo "detect: patch failed"; exit 2; }
python3 - "$d" $files > "$d/extra.json" <<'PY'
import json, sys
d = sys.argv[1]
print(json.dumps({"Replace": {"/repo/" + f: d + "/src/" + f for f in sys.argv[2:]}}))
PY
VERIF_FIRST_VIOLATION=1 VERIF_EXTRA_OVERLAY="$d/extra.json" VERIF_BIN_SUFFIX=$suf VERIF_OUT="$d/out" VERIF_MUT_SRC="$d/src" ./check.sh "$id" "$tier" > "$d/log" 2>&1
rc=$?
grep -E "VIOLATION|KNOWN-FINDING|INTERNAL|^  key=|^C[0-9]+ " "$d/log" | head -20
if [ $rc -eq 1 ] && grep -q "^VIOLATION property=$id " "$d/log"; then echo "DETECTED $id by $(basename "$diff")"; exit 0; fi
echo "NOT DETECTED $id by $(basename "$diff") (rc=$rc)"; tail -5 "$d/log"; exit 1
