#!/usr/bin/env python3
"""parts.py list <id>  -> lines 'cmd<TAB>part<TAB>race<TAB>args' for property id
   parts.py builds      -> lines 'cmd<TAB>race' of every binary to build
   parts.py merge <id> <tier> -> merge evidence/parts/<id>.*.json into evidence/<id>.json"""
import json, glob, os, sys
OUT = os.environ.get("VERIF_OUT", "/verif")
def allparts():
    for f in sorted(glob.glob("/verif/cmd/*/META.json")):
        cmd = os.path.basename(os.path.dirname(f))
        for c in json.load(open(f))["checks"]:
            if c.get("disabled"): continue
            yield cmd, c
mode = sys.argv[1]
if mode == "list":
    for cmd, c in allparts():
        if c["id"] == sys.argv[2]:
            print("\t".join([cmd, c.get("part", "main"), str(c.get("race", 0)), c.get("args", "")]))
elif mode == "builds":
    for s in sorted({(cmd, str(c.get("race", 0))) for cmd, c in allparts()}):
        print("\t".join(s))
elif mode == "merge":
    pid, tier = sys.argv[2], sys.argv[3]
    want = [c.get("part", "main") for cmd, c in allparts() if c["id"] == pid]
    evs = []
    for part in want:
        path = f"{OUT}/evidence/parts/{pid}.{part}.json"
        if not os.path.exists(path):
            sys.exit(f"merge: missing part evidence {path}")
        evs.append((part, json.load(open(path))))
    cov = {"states": 0, "transitions": 0, "traces_validated_against_impl": 0, "evaluations": 0,
           "distinct_nontrivial": 0, "samples": [], "exhaustive": True, "parts": {}, "rule": ""}
    out = {"property_id": pid, "tier": tier, "seed": evs[0][1]["seed"], "level": "model_checking",
           "coverage": cov, "assumptions": [], "wall_s": 0.0, "violations": 0}
    rules = []
    for part, e in evs:
        c = e["coverage"]
        for k in ("states", "transitions", "traces_validated_against_impl", "evaluations", "distinct_nontrivial"):
            cov[k] += int(c.get(k, 0))
        cov["samples"] += [{"part": part, "case": s} for s in c.get("samples", [])[:4]]
        cov["exhaustive"] = cov["exhaustive"] and bool(c.get("exhaustive", False))
        cov["parts"][part] = {k: v for k, v in c.items() if k != "samples"}
        rules.append(f"[{part}] {c.get('rule','')}")
        out["assumptions"] += [a for a in e.get("assumptions", []) if a not in out["assumptions"]]
        out["wall_s"] += e.get("wall_s", 0)
        out["violations"] += e.get("violations", 0)
    cov["rule"] = " ".join(rules)
    tmp = f"{OUT}/evidence/.{pid}.{os.getpid()}.tmp"
    json.dump(out, open(tmp, "w"), indent=1)
    os.replace(tmp, f"{OUT}/evidence/{pid}.json")
