#!/usr/bin/env python3
"""Generate MANIFEST.json from cmd/*/META.json (which checks exist, their wording) and
manifest_src.json (hooks, engines, notes, reasons for unclaimed properties)."""
import json, glob, os
src = json.load(open("/verif/manifest_src.json"))
props = [json.loads(l)["id"] for l in open("/verif/properties.jsonl")]
parts = {}
for f in sorted(glob.glob("/verif/cmd/*/META.json")):
    cmd = os.path.basename(os.path.dirname(f))
    for c in json.load(open(f))["checks"]:
        if c.get("disabled"): continue
        c["cmd"] = cmd
        parts.setdefault(c["id"], []).append(c)
checks, na = [], []
for p in props:
    if p in parts:
        ps = parts[p]
        join = lambda k, sep: sep.join(dict.fromkeys(x[k] for x in ps if x.get(k)))
        checks.append({
            "property_id": p,
            "quick_cmd": f"./check.sh {p} quick",
            "thorough_cmd": f"./check.sh {p} thorough",
            "evidence_file": f"/verif/evidence/{p}.json",
            "replay_cmd_template": "./check.sh replay {path}",
            "engine": join("engine", "+"),
            "level_claimed": {"category": "model_checking", "text": join("text", " | "), "design_ref": "DESIGN.md §3 " + p},
            "level_note": join("note", " | "),
            "technique": join("technique", "; "),
        })
    else:
        na.append({"property_id": p, "reason": src["na_reasons"].get(p, src["default_na_reason"])})
served = {}
for p, ps in parts.items():
    for x in ps:
        for e in x.get("engine", "enum").split("+"):
            served.setdefault(e, set()).add(p)
for e in src["engines"]:
    e["serves_properties"] = sorted(served.get(e["name"], []))
m = {"version": 1, "setup_cmd": "./setup.sh", "hooks": src["hooks"], "engines": src["engines"],
     "checks": checks, "not_applicable": na, "notes": src["notes"]}
json.dump(m, open("/verif/MANIFEST.json", "w"), indent=1)
print(f"MANIFEST.json: {len(checks)} checks, {len(na)} not_applicable")
