#!/usr/bin/env python3
"""Generate MANIFEST.json from checks.tsv (which checks exist) + manifest_src.json (wording)."""
import json
src = json.load(open("/verif/manifest_src.json"))
props = [json.loads(l)["id"] for l in open("/verif/properties.jsonl")]
have = {}
for l in open("/verif/checks.tsv"):
    l = l.rstrip("\n")
    if not l or l.startswith("#"): continue
    f = l.split("\t")
    have[f[0]] = f
checks, na = [], []
for p in props:
    meta = src["properties"].get(p, {})
    if p in have and meta.get("claim", True):
        checks.append({
            "property_id": p,
            "quick_cmd": f"./check.sh {p} quick",
            "thorough_cmd": f"./check.sh {p} thorough",
            "evidence_file": f"/verif/evidence/{p}.json",
            "replay_cmd_template": "./check.sh replay {path}",
            "engine": meta.get("engine", "enum"),
            "level_claimed": {"category": "model_checking", "text": meta["text"], "design_ref": meta.get("design_ref", "DESIGN.md §3 " + p)},
            "level_note": meta["note"],
            "technique": meta["technique"],
        })
    else:
        na.append({"property_id": p, "reason": meta.get("na_reason", src["default_na_reason"])})
m = {
    "version": 1,
    "setup_cmd": "./setup.sh",
    "hooks": src["hooks"],
    "engines": src["engines"],
    "checks": checks,
    "not_applicable": na,
    "notes": src["notes"],
}
json.dump(m, open("/verif/MANIFEST.json", "w"), indent=1)
print(f"MANIFEST.json: {len(checks)} checks, {len(na)} not_applicable")
