#!/bin/bash
# usage: [DETECT_PAR=4] tools/detect_all.sh [PropId ...]
# Runs every detect/<id>/*.diff and seeded/<id>/patch.diff through tools/detect.sh (overlay; /repo is
# not touched) and writes detect/RESULTS.md. Partial runs (ids given) are merged into the existing file.
cd "$(dirname "$0")/.."
ids=${*:-$(ls detect | grep '^C')}
out=detect/RESULTS.md
tmp=$(mktemp -d)
one() { # <id> <diff>
  id=$1; d=$2
  name=$(basename "$d"); case "$d" in seeded/*) name="$d";; esac
  res=$(./tools/detect.sh "$id" "$d" 2>&1 | grep -E "^(DETECTED|NOT DETECTED)|^  key=" | sort -u | awk '/DETECTED/{v=$0;next}{if(n<5){k=k" "$0;n++}}END{print k" "v}' | tr '\n' ' ')
  echo "| $id | $name | $res |"
}
export -f one
for id in $ids; do
  for d in detect/$id/*.diff seeded/$id*/patch.diff; do [ -f "$d" ] && echo "$id $d"; done
done | xargs -P "${DETECT_PAR:-4}" -L 1 bash -c 'one $0 $1' | tee "$tmp/rows"
{ echo "# Detection runs (tools/detect_all.sh, $(date -u +%FT%TZ))"; echo
  echo "Every row: the property's check run (quick tier) against /repo plus the diff, through the build overlay."
  echo "DETECTED = the check printed a VIOLATION line for that property and exited 1."; echo
  echo "| property | change | result |"; echo "|---|---|---|"; } > "$tmp/head"
if [ $# -gt 0 ] && [ -f "$out" ]; then
  { cat "$tmp/head"; { grep '^| C' "$out" | grep -v -F -f <(cut -d'|' -f2,3 "$tmp/rows" | sed 's/^/|/'); cat "$tmp/rows"; } | sort -u; } > "$out.m"; mv "$out.m" "$out"
else
  { cat "$tmp/head"; sort "$tmp/rows"; } > "$out"
fi
rm -rf "$tmp"
grep -c "| DETECTED" "$out" | sed 's/^/detected rows: /'; grep "NOT DETECTED" "$out" | sed 's/^/MISS: /'
