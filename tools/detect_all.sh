#!/bin/bash
# usage: tools/detect_all.sh [PropId ...]   run every detect/<id>/*.diff through tools/detect.sh, write detect/RESULTS.md
cd "$(dirname "$0")/.."
ids=${*:-$(ls detect | grep '^C')}
out=detect/RESULTS.md
tmp=$(mktemp)
for id in $ids; do
  for d in detect/$id/*.diff; do
    [ -f "$d" ] || continue
    res=$(./tools/detect.sh "$id" "$d" 2>&1 | grep -E "^(DETECTED|NOT DETECTED)|^  key=" | tr '\n' ' ')
    echo "| $id | $(basename "$d") | $res |" | tee -a "$tmp"
  done
done
{ echo "# Detection runs (tools/detect_all.sh, $(date -u +%FT%TZ))"; echo; echo "| property | mutation | result |"; echo "|---|---|---|"; sort "$tmp"; } > "$out.new"
if [ $# -gt 0 ] && [ -f "$out" ]; then # partial run: merge with previous results
  { head -4 "$out.new"; { grep '^| C' "$out" | grep -v -F -f <(cut -d'|' -f2,3 "$tmp" | sed 's/^/|/') ; cat "$tmp"; } | sort -u; } > "$out.m"; mv "$out.m" "$out"; rm -f "$out.new"
else
  mv "$out.new" "$out"
fi
rm -f "$tmp"
