#!/bin/bash
# usage: tools/run_all.sh [quick|thorough] [ids...]   runs every claimed check, prints one line per property
cd "$(dirname "$0")/.."
tier=${1:-quick}; shift
ids=${*:-$(python3 -c "import json; print(' '.join(c['property_id'] for c in json.load(open('MANIFEST.json'))['checks']))")}
mkdir -p .work/runall
for id in $ids; do
  t0=$(date +%s.%N)
  ./check.sh $id $tier > .work/runall/$id.$tier.log 2>&1; rc=$?
  t1=$(date +%s.%N)
  printf "%s rc=%d wall=%.0fs %s\n" $id $rc $(echo "$t1 - $t0" | bc) "$(grep -c '^KNOWN-FINDING' .work/runall/$id.$tier.log) known, $(grep -c '^VIOLATION' .work/runall/$id.$tier.log) violations, $(grep -c 'exhaustive=false' .work/runall/$id.$tier.log) capped"
done
