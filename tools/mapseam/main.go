// mapseam: the map-iteration seam (DESIGN §1.2 "maporder"), general form.
// For each configured repository package, every `for k, v := range X` (X an identifier or selector
// chain, := form) in non-test, non-generated files is rewritten on the same line to iterate over
// vmap.KeysOf(X), which compiles only when X is a map with an ordered key type. The package is then
// compiled; sites the compiler rejects (X is a slice, string, channel, map with a struct key ...)
// are reverted, until the package compiles. Outside an exploration vmap.KeysOf returns the keys in
// sorted order (one of the orders Go may produce); an explorer enumerates other orders.
// Results are cached by the hash of the package's sources.
//
// usage: mapseam -out <seam dir> [-mut <dir with patched copies>] [-overlay <base overlay json>] pkg...
package main

import (
	"crypto/sha256"
	"encoding/hex"
	"encoding/json"
	"flag"
	"fmt"
	"go/ast"
	"go/parser"
	"go/token"
	"os"
	"os/exec"
	"path/filepath"
	"regexp"
	"sort"
	"strings"
)

const repoGo = "/repo/code/go/0chain.net/"

type site struct {
	File       string
	Line       int
	Start, End int // byte span [for ... {]
	New        string
	X          string
	Off        bool
}

func exprOK(e ast.Expr) bool {
	switch v := e.(type) {
	case *ast.Ident:
		return true
	case *ast.SelectorExpr:
		return exprOK(v.X)
	case *ast.ParenExpr:
		return exprOK(v.X)
	case *ast.StarExpr:
		return exprOK(v.X)
	}
	return false
}

func main() {
	out := flag.String("out", "", "seam output dir")
	mut := flag.String("mut", "", "dir with patched copies (relative to /repo)")
	baseOv := flag.String("overlay", "", "base overlay json (other seams + shims)")
	flag.Parse()
	report := map[string]any{}
	replace := map[string]string{}
	baseReplace := map[string]string{}
	if *baseOv != "" {
		var ov struct{ Replace map[string]string }
		if b, err := os.ReadFile(*baseOv); err == nil {
			_ = json.Unmarshal(b, &ov)
			baseReplace = ov.Replace
		}
	}
	for _, pkg := range flag.Args() {
		dir := repoGo + pkg
		ents, err := os.ReadDir(dir)
		if err != nil {
			fail("%v", err)
		}
		var files []string
		h := sha256.New()
		h.Write([]byte("mapseam-v4\n"))
		srcOf := map[string][]byte{}
		for _, e := range ents {
			n := e.Name()
			if !strings.HasSuffix(n, ".go") || strings.HasSuffix(n, "_test.go") || strings.HasSuffix(n, "_gen.go") {
				continue
			}
			p := filepath.Join(dir, n)
			src := p
			if *mut != "" {
				if mp := filepath.Join(*mut, strings.TrimPrefix(p, "/repo/")); exists(mp) {
					src = mp
				}
			}
			// a file already rewritten by an earlier seam (clock, keytap ...) is taken in that form:
			// this seam's replacement supersedes the earlier one in the final overlay
			if rp, ok := baseReplace[p]; ok && exists(rp) {
				src = rp
			}
			b, err := os.ReadFile(src)
			if err != nil {
				fail("%v", err)
			}
			srcOf[p] = b
			files = append(files, p)
			h.Write([]byte(p))
			h.Write(b)
		}
		sort.Strings(files)
		key := hex.EncodeToString(h.Sum(nil))[:20]
		cacheDir := filepath.Join("/verif/.work/mapseam-cache", key)
		pkgOut := filepath.Join(*out, "src")
		if exists(filepath.Join(cacheDir, "done.json")) {
			// cached: copy files into place
			var done map[string]any
			b, _ := os.ReadFile(filepath.Join(cacheDir, "done.json"))
			_ = json.Unmarshal(b, &done)
			for _, f := range files {
				c := filepath.Join(cacheDir, filepath.Base(f))
				if exists(c) {
					dst := filepath.Join(pkgOut, strings.TrimPrefix(f, "/repo/"))
					copyFile(c, dst)
					replace[f] = dst
				}
			}
			report[pkg] = done["sites"]
			continue
		}
		// find candidate sites
		var sites []*site
		fset := token.NewFileSet()
		for _, f := range files {
			af, err := parser.ParseFile(fset, f, srcOf[f], 0)
			if err != nil {
				fail("parse %s: %v", f, err)
			}
			ast.Inspect(af, func(n ast.Node) bool {
				rs, ok := n.(*ast.RangeStmt)
				if !ok || rs.Tok != token.DEFINE || rs.Key == nil || !exprOK(rs.X) {
					return true
				}
				start := fset.Position(rs.For).Offset
				end := fset.Position(rs.Body.Lbrace).Offset + 1
				if fset.Position(rs.For).Line != fset.Position(rs.Body.Lbrace).Line {
					return true
				}
				x := string(srcOf[f][fset.Position(rs.X.Pos()).Offset:fset.Position(rs.X.End()).Offset])
				k := "_"
				if id, ok := rs.Key.(*ast.Ident); ok {
					k = id.Name
				} else {
					return true
				}
				v := "_"
				if rs.Value != nil {
					id, ok := rs.Value.(*ast.Ident)
					if !ok {
						return true
					}
					v = id.Name
				}
				var nw string
				switch {
				case v == "_" && k == "_":
					return true
				case v == "_":
					nw = fmt.Sprintf("for _, %s := range vmap.KeysOf(%s) {", k, x)
				case k == "_":
					nw = fmt.Sprintf("for _, verifK := range vmap.KeysOf(%s) { %s, verifOK := %s[verifK]; if !verifOK { continue };", x, v, x)
				default:
					nw = fmt.Sprintf("for _, %s := range vmap.KeysOf(%s) { %s, verifOK := %s[%s]; if !verifOK { continue };", k, x, v, x, k)
				}
				sites = append(sites, &site{File: f, Line: fset.Position(rs.For).Line, Start: start, End: end, New: nw, X: x})
				return true
			})
		}
		// compile-and-revert
		render := func() map[string]string {
			outFiles := map[string]string{}
			for _, f := range files {
				src := srcOf[f]
				var ss []*site
				for _, s := range sites {
					if s.File == f && !s.Off {
						ss = append(ss, s)
					}
				}
				if len(ss) == 0 {
					continue
				}
				sort.Slice(ss, func(i, j int) bool { return ss[i].Start > ss[j].Start })
				b := append([]byte{}, src...)
				for _, s := range ss {
					b = append(append(append([]byte{}, b[:s.Start]...), []byte(s.New)...), b[s.End:]...)
				}
				txt := string(b)
				// add the import (after the package clause's first import block or as a new import)
				if i := strings.Index(txt, "import ("); i >= 0 {
					txt = txt[:i] + "import (\n\tvmap \"verif/lib/vmap\"" + txt[i+len("import ("):]
					// keep line numbers: the added line shifts everything by one; account for it when mapping errors
				} else {
					pi := strings.Index(txt, "\n") // after package line
					txt = txt[:pi] + "; import vmap \"verif/lib/vmap\"" + txt[pi:]
				}
				dst := filepath.Join(pkgOut, strings.TrimPrefix(f, "/repo/"))
				outFiles[f] = dst
				must(os.MkdirAll(filepath.Dir(dst), 0o755))
				must(os.WriteFile(dst, []byte(txt), 0o644))
			}
			return outFiles
		}
		errRe := regexp.MustCompile(`(?m)^([^\s:]+\.go):(\d+):(\d+): (.*)$`)
		for iter := 0; ; iter++ {
			of := render()
			ov := map[string]string{}
			if *baseOv != "" {
				var base struct{ Replace map[string]string }
				b, _ := os.ReadFile(*baseOv)
				_ = json.Unmarshal(b, &base)
				for k, v := range base.Replace {
					ov[k] = v
				}
			}
			if *mut != "" { // patched copies of files of this package that have no rewrite
				for _, f := range files {
					if mp := filepath.Join(*mut, strings.TrimPrefix(f, "/repo/")); exists(mp) {
						ov[f] = mp
					}
				}
			}
			for k, v := range of {
				ov[k] = v
			}
			ovPath := filepath.Join(*out, "mapseam.try.json")
			jb, _ := json.Marshal(map[string]any{"Replace": ov})
			must(os.WriteFile(ovPath, jb, 0o644))
			cmd := exec.Command("go", "build", "-tags", "verif", "-overlay", ovPath, "-o", os.DevNull, "0chain.net/"+pkg)
			cmd.Dir = "/verif"
			outb, err := cmd.CombinedOutput()
			if err == nil {
				break
			}
			bad := 0
			for _, m := range errRe.FindAllStringSubmatch(string(outb), -1) {
				var line int
				fmt.Sscanf(m[2], "%d", &line)
				for _, s := range sites {
					dst := of[s.File]
					if s.Off || dst == "" {
						continue
					}
					shift := 0
					if strings.Contains(string(srcOf[s.File]), "import (") {
						shift = 1
					}
					if (m[1] == dst || filepath.Base(m[1]) == filepath.Base(dst)) && line == s.Line+shift {
						s.Off = true
						bad++
					}
				}
			}
			if bad == 0 || iter > 20 {
				fail("package %s does not compile with the map seam and no site can be blamed:\n%s", pkg, outb)
			}
		}
		// final render, cache it
		of := render()
		must(os.MkdirAll(cacheDir, 0o755))
		var kept, reverted []string
		for _, s := range sites {
			d := fmt.Sprintf("%s:%d range %s", filepath.Base(s.File), s.Line, s.X)
			if s.Off {
				reverted = append(reverted, d)
			} else {
				kept = append(kept, d)
			}
		}
		for f, dst := range of {
			copyFile(dst, filepath.Join(cacheDir, filepath.Base(f)))
			replace[f] = dst
		}
		// remove stale outputs of files that no longer have sites
		for _, f := range files {
			if _, ok := of[f]; !ok {
				os.Remove(filepath.Join(pkgOut, strings.TrimPrefix(f, "/repo/")))
			}
		}
		jb, _ := json.Marshal(map[string]any{"sites": kept, "not_maps": len(reverted)})
		must(os.WriteFile(filepath.Join(cacheDir, "done.json"), jb, 0o644))
		report[pkg] = kept
	}
	os.Remove(filepath.Join(*out, "mapseam.try.json"))
	writeJSON(filepath.Join(*out, "maporder.json"), map[string]any{"Replace": replace})
	writeJSON(filepath.Join(*out, "maporder.sites.json"), report)
}

func writeJSON(p string, v any) {
	b, _ := json.Marshal(v)
	tmp := fmt.Sprintf("%s.%d.tmp", p, os.Getpid())
	must(os.WriteFile(tmp, b, 0o644))
	must(os.Rename(tmp, p))
}
func copyFile(src, dst string) {
	b, err := os.ReadFile(src)
	must(err)
	must(os.MkdirAll(filepath.Dir(dst), 0o755))
	if old, err := os.ReadFile(dst); err == nil && string(old) == string(b) {
		return
	}
	tmp := fmt.Sprintf("%s.%d.tmp", dst, os.Getpid())
	must(os.WriteFile(tmp, b, 0o644))
	must(os.Rename(tmp, dst))
}
func exists(p string) bool { _, err := os.Stat(p); return err == nil }
func must(err error) {
	if err != nil {
		fail("%v", err)
	}
}
func fail(f string, a ...any) {
	fmt.Fprintf(os.Stderr, "mapseam: "+f+"\n", a...)
	os.Exit(2)
}
