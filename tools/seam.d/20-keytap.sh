#!/usr/bin/env python3
"""keytap seam: copy of chaincore/chain/state/state_context.go (current /repo file, or the
mutated copy of a detection run) with one observing call inserted at the top of the state-access
methods of StateContext. Fails loudly if a method cannot be found."""
import os, re, sys, json
rel = "code/go/0chain.net/chaincore/chain/state/state_context.go"
mut = os.environ.get("VERIF_MUT_SRC", "")
src = os.path.join(mut, rel) if mut and os.path.exists(os.path.join(mut, rel)) else os.path.join("/repo", rel)
suffix = os.environ.get("VERIF_BIN_SUFFIX", "")
out_dir = os.path.join("/verif/.work", "seams." + suffix if suffix else "seams")
text = open(src).read()
taps = [
    (r"func \(sc \*StateContext\) SetClientState\(clientID string, s \*state\.State\) \(util\.Key, error\) \{\n", '\tverifTap("set_client", clientID, s)\n'),
    (r"func \(sc \*StateContext\) GetClientState\(clientID string\) \(\*state\.State, error\) \{\n", '\tverifTap("get_client", clientID, nil)\n'),
    (r"func \(sc \*StateContext\) GetTrieNode\(key datastore\.Key, v util\.MPTSerializable\) error \{\n", '\tverifTap("get", key, v)\n'),
    (r"func \(sc \*StateContext\) InsertTrieNode\(key datastore\.Key, node util\.MPTSerializable\) \(datastore\.Key, error\) \{\n", '\tverifTap("insert", key, node)\n'),
    (r"func \(sc \*StateContext\) DeleteTrieNode\(key datastore\.Key\) \(datastore\.Key, error\) \{\n", '\tverifTap("delete", key, nil)\n'),
    (r"func \(sc \*StateContext\) AddTransfer\(t \*state\.Transfer\) error \{\n", '\tverifTap("add_transfer", "", t)\n'),
    (r"func \(sc \*StateContext\) EmitError\(err error\) \{\n", '\tverifTap("emit_error", "", err)\n'),
    (r"func \(sc \*StateContext\) AddSignedTransfer\(st \*state\.SignedTransfer\) \{\n", '\tverifTap("add_signed_transfer", "", st)\n'),
]
for pat, ins in taps:
    m = re.search(pat, text)
    if not m:
        sys.exit("keytap: cannot find " + pat)
    text = text[:m.end()] + ins + text[m.end():]
dst = os.path.join(out_dir, "src", rel)
os.makedirs(os.path.dirname(dst), exist_ok=True)
old = open(dst).read() if os.path.exists(dst) else None
if old != text:
    tmp = dst + f".{os.getpid()}.tmp"
    open(tmp, "w").write(text)
    os.replace(tmp, dst)
j = os.path.join(out_dir, "keytap.json")
tmp = j + f".{os.getpid()}.tmp"
json.dump({"Replace": {"/repo/" + rel: dst}}, open(tmp, "w"))
os.replace(tmp, j)
