#!/bin/bash
# sync seam driver (called by check.sh before every build, cwd=/verif): builds tools/seamgen when
# its sources changed, then regenerates .work/seams[.<suffix>]/{src/...,sync.json} from the current
# (or, in a detection run, mutated: VERIF_MUT_SRC) repository sources. Fast and idempotent.
set -eu
cd "$(dirname "$0")/../.."
. ./env.sh
mkdir -p .bin .work
bin=.bin/seamgen
stale=0
[ -x "$bin" ] || stale=1
if [ $stale = 0 ]; then for f in tools/seamgen/*.go; do [ "$f" -nt "$bin" ] && stale=1; done; fi
if [ $stale = 1 ]; then
  tmp=$bin.$$.tmp
  go build -o "$tmp" ./tools/seamgen 2>&1 | grep -v '^WARNING' >&2 || true
  [ -x "$tmp" ] || { echo "seamgen: build failed" >&2; exit 2; }
  mv -f "$tmp" "$bin"
fi
exec "$bin"
