#!/bin/bash
# second pass of the sync seam for files that other seam generators (20-keytap, 40-clock) rewrite as
# well: must run after them and before 50-maporder (which compiles with all seams). See
# tools/seamgen/sync.chained.conf. 10-sync.sh has already built .bin/seamgen.
set -eu
cd "$(dirname "$0")/../.."
. ./env.sh
[ -x .bin/seamgen ] || ./tools/seam.d/10-sync.sh >/dev/null
exec .bin/seamgen -chained
