#!/usr/bin/env python3
"""clock seam: time.Now() in smartcontract/stakepool/stakepool.go (the only wall-clock read on a
contract execution path besides metrics in multisigsc) becomes vtime.Now(). If the call is gone
(e.g. the code now uses the transaction time) nothing is rewritten and the site is reported absent."""
import os, re, json
rel = "code/go/0chain.net/smartcontract/stakepool/stakepool.go"
mut = os.environ.get("VERIF_MUT_SRC", "")
suffix = os.environ.get("VERIF_BIN_SUFFIX", "")
out_dir = os.path.join("/verif/.work", "seams." + suffix if suffix else "seams")
src = os.path.join(mut, rel) if mut and os.path.exists(os.path.join(mut, rel)) else os.path.join("/repo", rel)
text = open(src).read()
n = text.count("time.Now()")
rep = {}
if n:
    new = text.replace("time.Now()", "vtime.Now()").replace("import (\n", 'import (\n\tvtime "verif/lib/vtime"\n', 1)
    if not re.search(r"\btime\.", new.replace("vtime.", "")):
        new += "\nvar _ = time.Second\n"
    dst = os.path.join(out_dir, "src", rel)
    os.makedirs(os.path.dirname(dst), exist_ok=True)
    if not os.path.exists(dst) or open(dst).read() != new:
        tmp = dst + f".{os.getpid()}.tmp"
        open(tmp, "w").write(new)
        os.replace(tmp, dst)
    rep["/repo/" + rel] = dst
os.makedirs(out_dir, exist_ok=True)
for name, obj in (("clock.json", {"Replace": rep}), ("clock.sites.json", {"stakepool/stakepool.go": n})):
    p = os.path.join(out_dir, name)
    tmp = p + f".{os.getpid()}.tmp"
    json.dump(obj, open(tmp, "w"))
    os.replace(tmp, p)
