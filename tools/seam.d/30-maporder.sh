#!/usr/bin/env python3
"""maporder seam: in the contracts' settings-update code, `for k, v := range X` over a
map[string]string becomes iteration over vmap.Keys(X) (order chosen by the explorer; sorted by
default). Sites are matched by pattern in the CURRENT source (or the mutated copy of a detection
run); a site that no longer matches (e.g. because the code now sorts its keys) is skipped and
listed as absent in .work/seams*/maporder.sites.json, which the C06/C48 checks put into evidence."""
import os, re, sys, json
root = "code/go/0chain.net/smartcontract/"
sites = {  # file -> regex of the map expression being ranged over
    "zcnsc/nodes.go": r"cfg\.Fields",
    "minersc/settings.go": r"changes\.Fields",
    "minersc/globals.go": r"inputMap\.Fields",
    "storagesc/config_settigns.go": r"changes\.Fields|newChanges\.Fields",
    "vestingsc/config.go": r"changes\.Fields",
    "faucetsc/models.go": r"fields",
}
mut = os.environ.get("VERIF_MUT_SRC", "")
suffix = os.environ.get("VERIF_BIN_SUFFIX", "")
out_dir = os.path.join("/verif/.work", "seams." + suffix if suffix else "seams")
rep, report = {}, {}
for f, mexpr in sites.items():
    rel = root + f
    src = os.path.join(mut, rel) if mut and os.path.exists(os.path.join(mut, rel)) else os.path.join("/repo", rel)
    text = open(src).read()
    pat = re.compile(r"for (\w+), (\w+) := range (" + mexpr + r") \{\n")
    n = 0
    def sub(m):
        global n
        n += 1
        k, v, e = m.group(1), m.group(2), m.group(3)
        return f"for _, {k} := range vmap.Keys({e}) {{\n\t\t{v} := {e}[{k}]\n"
    new = pat.sub(sub, text)
    report[f] = n
    if n == 0:
        continue
    new = new.replace("import (\n", 'import (\n\tvmap "verif/lib/vmap"\n', 1)
    dst = os.path.join(out_dir, "src", rel)
    os.makedirs(os.path.dirname(dst), exist_ok=True)
    if not os.path.exists(dst) or open(dst).read() != new:
        tmp = dst + f".{os.getpid()}.tmp"
        open(tmp, "w").write(new)
        os.replace(tmp, dst)
    rep["/repo/" + rel] = dst
os.makedirs(out_dir, exist_ok=True)
for name, obj in (("maporder.json", {"Replace": rep}), ("maporder.sites.json", report)):
    p = os.path.join(out_dir, name)
    tmp = p + f".{os.getpid()}.tmp"
    json.dump(obj, open(tmp, "w"))
    os.replace(tmp, p)
