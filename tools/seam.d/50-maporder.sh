#!/bin/bash
# maporder seam (general form): see tools/mapseam/main.go. Runs AFTER the other seams are generated
# (needs their overlay to compile the packages), results cached by source hash.
set -u
cd /verif
. ./env.sh
suffix=${VERIF_BIN_SUFFIX:-}
out=.work/seams${suffix:+.$suffix}
mkdir -p "$out"
bin=.bin/mapseam
if [ ! -x "$bin" ] || [ tools/mapseam/main.go -nt "$bin" ]; then
  go build -o "$bin" ./tools/mapseam || exit 2
fi
# base overlay = shims + the other seams (without a previous maporder.json)
rm -f "$out/maporder.json"
base=$(VERIF_OVERLAY_NAME=overlay.mapseam${suffix:+.$suffix}.json python3 tools/overlay.py) || exit 2
"$bin" -out "$PWD/$out" ${VERIF_MUT_SRC:+-mut "$VERIF_MUT_SRC"} -overlay "$base" \
  smartcontract/stakepool smartcontract/minersc smartcontract/storagesc smartcontract/zcnsc smartcontract/faucetsc \
  smartcontract/vestingsc smartcontract/multisigsc smartcontract/partitions smartcontract/provider
