#!/bin/bash
# usage: tools/seed_round.sh <name e.g. C10b> [demo package]   confirm a freshly delivered seed in /tmp/seed/<name>/SEED and run detection
cd "$(dirname "$0")/.."
name=$1; id=${name:0:3}; mkdir -p .work/r2
SEED_DEMO_PKG=${2:-} ./tools/seed_verify.sh /tmp/seed/$name/SEED $name > .work/r2/$name.verify.txt 2>&1
./tools/detect.sh $id /tmp/seed/$name/SEED/patch.diff > .work/r2/$name.detect.txt 2>&1
echo "== $name: $(tail -1 .work/r2/$name.verify.txt) | $(grep -E 'DETECTED' .work/r2/$name.detect.txt) | $(grep -E 'key=' .work/r2/$name.detect.txt | sort -u | head -3 | tr '\n' ' ')"
