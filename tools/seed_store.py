#!/usr/bin/env python3
"""seed_store.py <id> <src SEED dir or -> <detected_by|-> <before:yes|no|pending> [strengthening text]
Copies a confirmed seeded change into seeded/<id>/ and writes meta.json (origin, confirmation, detection)."""
import json, os, shutil, sys
name, src, det, before = sys.argv[1:5]
pid = name[:3]  # C08b = second seeded change for C08
strength = sys.argv[5] if len(sys.argv) > 5 else ""
dst = f"/verif/seeded/{name}"
if src != "-":
    os.makedirs(dst, exist_ok=True)
    shutil.copy(f"{src}/patch.diff", f"{dst}/patch.diff")
    if os.path.isdir(f"{dst}/demo"): shutil.rmtree(f"{dst}/demo")
    shutil.copytree(f"{src}/demo", f"{dst}/demo")
    shutil.copy(f"{src}/meta.json", f"{dst}/meta.orig.json")
m = json.load(open(f"{dst}/meta.orig.json"))
m["origin"] = f"independent sub-agent given only the property text and its own scratch worktree (/tmp/seed/{name}); nothing from /verif"
m["confirmed_by_coordinator"] = {
    "how": f"tools/seed_verify.sh in a fresh scratch worktree (/tmp/seedv/{name}, removed afterwards): demo passes without the patch; with the patch `go build ./...` succeeds, the 11 pinned packages pass (demo file not in place), demo fails",
    "result": "SEED CONFIRMED"}
cr = {"cmd": f"./tools/detect.sh {pid} seeded/{name}/patch.diff (overlay of the patched files; /repo untouched)"}
if before == "pending":
    cr["detected_by"] = None; cr["status"] = "not detected yet; strengthening pending"
else:
    cr["detected_by"] = det; cr["detected_before_strengthening"] = before == "yes"
    if strength: cr["strengthening"] = strength
m["checks_run"] = cr
json.dump(m, open(f"{dst}/meta.json", "w"), indent=1)
print("stored", dst)
