#!/opt/veriftools/pyvenv/bin/python
"""Validate MANIFEST.json and every evidence/*.json against the given schemas."""
import json, sys, glob, jsonschema
ok = True
def v(path, schema):
    global ok
    try:
        jsonschema.validate(json.load(open(path)), json.load(open(schema)))
    except Exception as e:
        ok = False
        print("INVALID", path, str(e).splitlines()[0])
v("/verif/MANIFEST.json", "/root/.vp/MANIFEST.schema.json")
for f in sorted(glob.glob("/verif/evidence/*.json")):
    v(f, "/root/.vp/EVIDENCE.schema.json")
m = json.load(open("/verif/MANIFEST.json"))
props = [json.loads(l)["id"] for l in open("/verif/properties.jsonl")]
claimed = [c["property_id"] for c in m["checks"]]
na = [n["property_id"] for n in m.get("not_applicable", [])]
for p in props:
    if (p in claimed) == (p in na):
        ok = False; print("property", p, "must be in exactly one of checks / not_applicable")
print("valid" if ok else "NOT VALID", f"claimed={len(claimed)} not_applicable={len(na)}")
sys.exit(0 if ok else 1)
