#!/usr/bin/env python3
"""Write .work/overlay.json: every file under /verif/shims/<rel path> is ADDED to the build at
<target root>/<rel path>. Target roots: shims/0chain.net/... -> /repo/code/go/0chain.net/...,
shims/modcache/<module@ver>/... -> $GOMODCACHE/<module@ver>/... . Files produced by the seam
rewriters (tools/seamgen, from /repo's *current* sources) are listed in .work/seams/*.json and merged in.
Nothing under /repo is touched."""
import json, os, sys, glob, subprocess
root = os.environ.get("VERIF_ROOT", "/verif")
work = os.path.join(root, ".work")
os.makedirs(work, exist_ok=True)
modcache = subprocess.run(["go", "env", "GOMODCACHE"], capture_output=True, text=True).stdout.strip() or "/root/go/pkg/mod"
rep = {}
base = os.path.join(root, "shims")
for d, _, files in os.walk(base):
    for f in files:
        if not f.endswith(".go"):
            continue
        src = os.path.join(d, f)
        rel = os.path.relpath(src, base)
        if rel.startswith("0chain.net/"):
            dst = os.path.join("/repo/code/go", rel)
        elif rel.startswith("modcache/"):
            dst = os.path.join(modcache, rel[len("modcache/"):])
        else:
            continue
        if os.path.exists(dst):
            sys.exit(f"overlay: shim {rel} would replace an existing file {dst}; shims are add-only")
        rep[dst] = src
for j in sorted(glob.glob(os.path.join(work, "seams", "*.json"))):
    rep.update(json.load(open(j))["Replace"])
extra = os.environ.get("VERIF_EXTRA_OVERLAY")
name = "overlay.json"
if extra:
    rep.update(json.load(open(extra))["Replace"])
    name = "overlay." + os.environ.get("VERIF_BIN_SUFFIX", "x") + ".json"
out = os.path.join(work, name)
tmp = out + f".{os.getpid()}.tmp"
json.dump({"Replace": rep}, open(tmp, "w"), indent=1, sort_keys=True)
os.replace(tmp, out)
print(out)
