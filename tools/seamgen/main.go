// seamgen generates the `sync` seam (DESIGN.md §1.2): for every non-test Go file of the packages
// listed in sync.conf it takes the CURRENT source (from $VERIF_MUT_SRC/<path relative to /repo> if
// such a patched copy exists, else from /repo) and, by byte-exact edits guided by go/ast (nothing
// is re-printed, line numbers are preserved),
//
//	import "sync"               ->  import sync "verif/lib/vsync"
//	import "sync/atomic"        ->  import atomic "verif/lib/vatomic"
//	import "go.uber.org/atomic" ->  import atomic "verif/lib/vatomic/uber"
//	go f(a, b)                  ->  { _vsf1, _vsa1_0, _vsa1_1 := f, a, b; sync.Go(func() { _vsf1(_vsa1_0, _vsa1_1) }) }
//	go func() {...}()           ->  sync.Go(func() {...})
//
// (function value and arguments are evaluated at the spawn site, as the language requires).
// Output: <seams>/sync/src/<path relative to /repo> (a directory private to this seam) and <seams>/sync.json = {"Replace": {orig: copy}},
// where <seams> = $VERIF_ROOT/.work/seams, or .work/seams.$VERIF_BIN_SUFFIX for a detection run.
// Idempotent: files are only rewritten when their content changes. /repo is never written.
package main

import (
	"bytes"
	"encoding/json"
	"fmt"
	"go/ast"
	"go/parser"
	"go/token"
	"os"
	"path/filepath"
	"sort"
	"strconv"
	"strings"
)

const repoRoot = "/repo"
const goRoot = "/repo/code/go/0chain.net"

var importMap = map[string][2]string{ // original path -> {default local name, replacement path}
	"sync":               {"sync", "verif/lib/vsync"},
	"sync/atomic":        {"atomic", "verif/lib/vatomic"},
	"go.uber.org/atomic": {"atomic", "verif/lib/vatomic/uber"},
}

type edit struct {
	start, end int
	text       string
}

func apply(src []byte, edits []edit) []byte {
	sort.Slice(edits, func(i, j int) bool { return edits[i].start > edits[j].start })
	for _, e := range edits {
		src = append(src[:e.start:e.start], append([]byte(e.text), src[e.end:]...)...)
	}
	return src
}

func die(format string, a ...any) {
	fmt.Fprintf(os.Stderr, "seamgen: "+format+"\n", a...)
	os.Exit(1)
}

// rewriteImports renames the imports; returns the local name of vsync in this file ("" if not imported).
func rewriteImports(fset *token.FileSet, f *ast.File, src []byte) ([]byte, string, bool) {
	var edits []edit
	vsyncName := ""
	for _, spec := range f.Imports {
		p, _ := strconv.Unquote(spec.Path.Value)
		m, ok := importMap[p]
		if !ok {
			continue
		}
		start, end := fset.Position(spec.Path.Pos()).Offset, fset.Position(spec.Path.End()).Offset
		text := strconv.Quote(m[1])
		name := m[0]
		if spec.Name != nil {
			name = spec.Name.Name
		} else {
			text = m[0] + " " + text
		}
		if p == "sync" && name != "_" && name != "." {
			vsyncName = name
		}
		edits = append(edits, edit{start, end, text})
	}
	return apply(src, edits), vsyncName, len(edits) > 0
}

func isLeafGo(g *ast.GoStmt) bool {
	leaf := true
	ast.Inspect(g.Call, func(n ast.Node) bool {
		if _, ok := n.(*ast.GoStmt); ok {
			leaf = false
		}
		return leaf
	})
	return leaf
}

func isConstLike(e ast.Expr) bool {
	switch v := e.(type) {
	case *ast.BasicLit:
		return true
	case *ast.Ident:
		return v.Name == "nil" || v.Name == "true" || v.Name == "false"
	case *ast.FuncLit:
		return false
	}
	return false
}

// rewriteGo rewrites the innermost `go` statements of one parse; the caller iterates to a fixpoint.
func rewriteGo(fset *token.FileSet, f *ast.File, src []byte, vs string, counter *int) ([]byte, int) {
	var edits []edit
	off := func(p token.Pos) int { return fset.Position(p).Offset }
	ast.Inspect(f, func(n ast.Node) bool {
		g, ok := n.(*ast.GoStmt)
		if !ok || !isLeafGo(g) {
			return true
		}
		call := g.Call
		orig := src[off(g.Pos()):off(g.End())]
		var text string
		if fl, ok := call.Fun.(*ast.FuncLit); ok && len(call.Args) == 0 {
			text = vs + ".Go(" + string(src[off(fl.Pos()):off(fl.End())]) + ")"
		} else {
			*counter++
			id := *counter
			fn := fmt.Sprintf("_vsf%d", id)
			lhs, rhs := []string{fn}, []string{string(src[off(call.Fun.Pos()):off(call.Fun.End())])}
			var args []string
			for i, a := range call.Args {
				at := string(src[off(a.Pos()):off(a.End())])
				if isConstLike(a) {
					args = append(args, at)
					continue
				}
				an := fmt.Sprintf("_vsa%d_%d", id, i)
				lhs, rhs = append(lhs, an), append(rhs, at)
				args = append(args, an)
			}
			ell := ""
			if call.Ellipsis.IsValid() {
				ell = "..."
			}
			text = "{ " + strings.Join(lhs, ", ") + " := " + strings.Join(rhs, ", ") + "; " + vs + ".Go(func() { " + fn + "(" + strings.Join(args, ", ") + ell + ") }) }"
		}
		if d := bytes.Count(orig, []byte("\n")) - strings.Count(text, "\n"); d > 0 {
			// keep the line numbers of everything after the statement
			pad := strings.Repeat("\n", d)
			if strings.HasSuffix(text, " }") {
				text = text[:len(text)-1] + pad + "}"
			} else {
				text = text[:len(text)-1] + pad + ")"
			}
		}
		edits = append(edits, edit{off(g.Pos()), off(g.End()), text})
		return false
	})
	return apply(src, edits), len(edits)
}

// Rewrite returns the rewritten source, or nil when the file needs no rewriting.
func Rewrite(name string, src []byte) []byte {
	fset := token.NewFileSet()
	f, err := parser.ParseFile(fset, name, src, parser.ParseComments)
	if err != nil {
		die("parse %s: %v", name, err)
	}
	out, vs, changed := rewriteImports(fset, f, src)
	hasGo := false
	ast.Inspect(f, func(n ast.Node) bool {
		if _, ok := n.(*ast.GoStmt); ok {
			hasGo = true
		}
		return !hasGo
	})
	if hasGo {
		if vs == "" {
			vs = "vsync_seam"
			pos := fset.Position(f.Name.End()).Offset
			// offsets of the package clause are unchanged by the import edits (imports come later)
			out = append(out[:pos:pos], append([]byte(`; import vsync_seam "verif/lib/vsync"`), out[pos:]...)...)
		}
		counter := 0
		for iter := 0; ; iter++ {
			fs2 := token.NewFileSet()
			f2, err := parser.ParseFile(fs2, name, out, parser.ParseComments)
			if err != nil {
				die("re-parse %s: %v", name, err)
			}
			var n int
			out, n = rewriteGo(fs2, f2, out, vs, &counter)
			if n == 0 {
				break
			}
			changed = true
			if iter > 50 {
				die("%s: go-statement rewrite does not converge", name)
			}
		}
	}
	if !changed {
		return nil
	}
	if _, err := parser.ParseFile(token.NewFileSet(), name, out, parser.ParseComments); err != nil {
		die("rewritten %s does not parse: %v", name, err)
	}
	if bytes.Count(out, []byte("\n")) != bytes.Count(src, []byte("\n")) {
		die("rewritten %s changed the number of lines", name)
	}
	return out
}

func writeIfChanged(path string, data []byte) {
	if old, err := os.ReadFile(path); err == nil && bytes.Equal(old, data) {
		return
	}
	if err := os.MkdirAll(filepath.Dir(path), 0o755); err != nil {
		die("%v", err)
	}
	tmp := fmt.Sprintf("%s.%d.tmp", path, os.Getpid())
	if err := os.WriteFile(tmp, data, 0o644); err != nil {
		die("%v", err)
	}
	if err := os.Rename(tmp, path); err != nil {
		die("%v", err)
	}
}

func main() {
	root := os.Getenv("VERIF_ROOT")
	if root == "" {
		root = "/verif"
	}
	if len(os.Args) == 3 && os.Args[1] == "-file" { // debugging aid: rewrite one file to stdout
		src, err := os.ReadFile(os.Args[2])
		if err != nil {
			die("%v", err)
		}
		out := Rewrite(os.Args[2], src)
		if out == nil {
			out = src
		}
		os.Stdout.Write(out)
		return
	}
	seams := filepath.Join(root, ".work", "seams")
	if s := os.Getenv("VERIF_BIN_SUFFIX"); s != "" {
		seams += "." + s
	}
	if len(os.Args) == 2 && os.Args[1] == "-chained" {
		// files that ANOTHER seam generator rewrites as well (e.g. chaincore/chain/state/state_context.go,
		// keytap seam): the input is that generator's output, so both rewrites end up in one copy; the
		// result is listed in zz-sync-chained.json, which tools/overlay.py merges last.
		generate(root, seams, "sync.chained.conf", "sync-chained", "zz-sync-chained.json", true)
		return
	}
	generate(root, seams, "sync.conf", "sync", "sync.json", false)
}

// otherSeamCopy returns the copy of orig produced by another seam generator, if any.
func otherSeamCopy(seams, orig string) string {
	found := ""
	js, _ := filepath.Glob(filepath.Join(seams, "*.json"))
	sort.Strings(js)
	for _, j := range js {
		if b := filepath.Base(j); b == "sync.json" || b == "zz-sync-chained.json" {
			continue
		}
		data, err := os.ReadFile(j)
		if err != nil {
			continue
		}
		var m struct{ Replace map[string]string }
		if json.Unmarshal(data, &m) != nil {
			continue
		}
		if c, ok := m.Replace[orig]; ok {
			if found != "" && found != c {
				die("%s is rewritten by two other seams (%s, %s): cannot chain", orig, found, c)
			}
			found = c
		}
	}
	return found
}

func generate(root, seams, confName, sub, jsonName string, chained bool) {
	mut := os.Getenv("VERIF_MUT_SRC")
	conf, err := os.ReadFile(filepath.Join(root, "tools", "seamgen", confName))
	if err != nil {
		die("%v", err)
	}
	replace := map[string]string{}
	for _, line := range strings.Split(string(conf), "\n") {
		line = strings.TrimSpace(line)
		if line == "" || strings.HasPrefix(line, "#") {
			continue
		}
		target := filepath.Join(goRoot, line)
		var files []string
		if strings.HasSuffix(line, ".go") {
			files = []string{target}
		} else {
			ents, err := os.ReadDir(target)
			if err != nil {
				die("%v", err)
			}
			for _, e := range ents {
				n := e.Name()
				if !e.IsDir() && strings.HasSuffix(n, ".go") && !strings.HasSuffix(n, "_test.go") {
					files = append(files, filepath.Join(target, n))
				}
			}
		}
		for _, orig := range files {
			rel, _ := filepath.Rel(repoRoot, orig)
			from := orig
			if mut != "" {
				if _, err := os.Stat(filepath.Join(mut, rel)); err == nil {
					from = filepath.Join(mut, rel)
				}
			}
			if chained {
				if c := otherSeamCopy(seams, orig); c != "" {
					from = c // that generator already honoured VERIF_MUT_SRC
				}
			}
			src, err := os.ReadFile(from)
			if err != nil {
				die("%v", err)
			}
			out := Rewrite(from, src)
			if out == nil {
				continue
			}
			dst := filepath.Join(seams, sub, "src", rel)
			writeIfChanged(dst, out)
			replace[orig] = dst
		}
	}
	// drop stale copies of earlier runs
	_ = filepath.Walk(filepath.Join(seams, sub, "src"), func(p string, info os.FileInfo, err error) error {
		if err != nil || info.IsDir() {
			return nil
		}
		rel, _ := filepath.Rel(filepath.Join(seams, sub, "src"), p)
		if replace[filepath.Join(repoRoot, rel)] != p {
			_ = os.Remove(p)
		}
		return nil
	})
	data, _ := json.MarshalIndent(map[string]any{"Replace": replace}, "", " ")
	writeIfChanged(filepath.Join(seams, jsonName), append(data, '\n'))
	fmt.Printf("seamgen: %d files rewritten into %s/%s\n", len(replace), seams, sub)
}
