//go:build verif

package miner

import (
	"context"

	"0chain.net/chaincore/block"
	"0chain.net/chaincore/chain"
	"0chain.net/chaincore/round"
	"0chain.net/chaincore/threshold/bls"
	"0chain.net/core/cache"
)

// Forwarding wrappers / field accessors for the verification harness (cmd/minerproto).
// No logic of their own.

// --- C33 ---------------------------------------------------------------------------------------

func VerifVerifyVRFShare(r *Round, vrfs *round.VRFShare, blsMsg string, dkg *bls.DKG) bool {
	return verifyVRFShare(r, vrfs, blsMsg, dkg)
}

func (mc *Chain) VerifComputeRoundRandomSeed(ctx context.Context, pr round.RoundI, r *Round, rbo string) error {
	return mc.computeRoundRandomSeed(ctx, pr, r, rbo)
}

func (mc *Chain) VerifHandleVRFShare(ctx context.Context, msg *BlockMessage) {
	mc.handleVRFShare(ctx, msg)
}

// VerifCachedVRFShares returns the shares parked in the round's VRF share cache.
func (r *Round) VerifCachedVRFShares() []*round.VRFShare { return r.vrfSharesCache.getAll() }

// --- C31 ---------------------------------------------------------------------------------------

func (mc *Chain) VerifProcessVerifyBlock(ctx context.Context, b *block.Block) error {
	return mc.processVerifyBlock(ctx, b)
}

func (mc *Chain) VerifHandleVerificationTicketMessage(ctx context.Context, msg *BlockMessage) {
	mc.handleVerificationTicketMessage(ctx, msg)
}

func (mc *Chain) VerifHandleNotarizationMessage(ctx context.Context, msg *BlockMessage) {
	mc.handleNotarizationMessage(ctx, msg)
}

func (mc *Chain) VerifHandleNotarizedBlockMessage(ctx context.Context, msg *BlockMessage) {
	mc.handleNotarizedBlockMessage(ctx, msg)
}

func (mc *Chain) VerifNotarizationProcess(ctx context.Context, not *Notarization) error {
	return mc.notarizationProcess(ctx, not)
}

func (mc *Chain) VerifProcessNotarization(ctx context.Context, not *Notarization) {
	mc.processNotarization(ctx, not)
}

// VerifNotarizationQueue is the channel the NotarizationProcessWorker drains.
func (mc *Chain) VerifNotarizationQueue() chan *Notarization { return mc.notarizationBlockProcessC }

func (mc *Chain) VerifCheckBlockNotarization(ctx context.Context, r *Round, b *block.Block, broadcast bool) bool {
	return mc.checkBlockNotarization(ctx, r, b, broadcast)
}

// --- C45 ---------------------------------------------------------------------------------------

func (mc *Chain) VerifGenerateBlock(ctx context.Context, b *block.Block, bsh chain.BlockStateHandler, waitOver bool, waitC chan struct{}) error {
	return mc.generateBlock(ctx, b, bsh, waitOver, waitC)
}

func (mc *Chain) VerifVerifySmartContracts(ctx context.Context, b *block.Block) error {
	return mc.verifySmartContracts(ctx, b)
}

// VerifResetNotarizationState empties the per-block notarization bookkeeping (an explorer re-uses
// one miner chain object for many scenarios about the same block hash).
func (mc *Chain) VerifResetNotarizationState() {
	mc.nbpMutex.Lock()
	mc.notarizationBlockProcessMap = make(map[string]struct{})
	mc.nbpMutex.Unlock()
	mc.nbmMutex.Lock()
	mc.notarizingBlocksTasks = make(map[string]chan struct{})
	mc.notarizingBlocksResults = cache.NewLRUCache[string, bool](1000)
	mc.nbmMutex.Unlock()
	for len(mc.notarizationBlockProcessC) > 0 {
		<-mc.notarizationBlockProcessC
	}
}
