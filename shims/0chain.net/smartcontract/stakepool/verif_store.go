//go:build verif

package stakepool

import "github.com/0chain/common/core/currency"

// Export shims for the verification harness (cmd/store, C10): forwarding calls only.

// VerifEquallyDistributeRewards forwards to equallyDistributeRewards.
func VerifEquallyDistributeRewards(coins currency.Coin, pools []*DelegatePool, spUpdate *StakePoolReward) error {
	return equallyDistributeRewards(coins, pools, spUpdate)
}
