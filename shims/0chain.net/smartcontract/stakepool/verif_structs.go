//go:build verif

package stakepool

import (
	cstate "0chain.net/chaincore/chain/state"
)

// VerifStructsGetRandPools forwards to the unexported StakePool.getRandPools, a contract path
// gated by the "demeter" hard fork (C43).
func (sp *StakePool) VerifStructsGetRandPools(balances cstate.StateContextI, seed int64, n int) []*DelegatePool {
	return sp.getRandPools(balances, seed, n)
}
