//go:build verif

package storagesc

// VerifMiscConfigKey is the plaintext key of the storage settings node.
func VerifMiscConfigKey() string { return scConfigKey(ADDRESS) }

// VerifMiscSettingChangesKey is the plaintext key of the staged settings changes.
func VerifMiscSettingChangesKey() string { return settingChangesKey }

// VerifMiscValidate forwards to the contract's own validation of the storage settings.
func (conf *Config) VerifMiscValidate() error { return conf.validate() }
