//go:build verif

package storagesc

// Export shims for the verification harness (cmd/store, C08): constructors of the package's
// unexported stored types, nothing else.

// VerifStoreTypes returns a constructor per unexported msgp-serialized type.
func VerifStoreTypes() map[string]func() interface{} {
	return map[string]func() interface{}{
		"challengePool":           func() interface{} { return new(challengePool) },
		"freeStorageAssigner":     func() interface{} { return new(freeStorageAssigner) },
		"freeStorageMarker":       func() interface{} { return new(freeStorageMarker) },
		"freeStorageUpgradeInput": func() interface{} { return new(freeStorageUpgradeInput) },
		"fundedPools":             func() interface{} { return new(fundedPools) },
		"readPool":                func() interface{} { return new(readPool) },
		"readPoolLockRequest":     func() interface{} { return new(readPoolLockRequest) },
		"stakePool":               func() interface{} { return new(stakePool) },
	}
}
