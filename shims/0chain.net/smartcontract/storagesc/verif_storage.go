//go:build verif

package storagesc

// Export shim for the storage-contract scenario (cmd/storage): decoders that expose the fields of
// unexported node types as plain data, and the contract's own key builders. Forwarding calls and
// field copies only; no contract logic is re-implemented here.

import (
	"0chain.net/core/common"
	"0chain.net/smartcontract/stakepool/spenum"
	"github.com/0chain/common/core/currency"
)

// VerifBlobberAlloc is a copy of the fields of one BlobberAllocation.
type VerifBlobberAlloc struct {
	BlobberID       string
	Size            int64
	UsedSize        int64
	AllocationRoot  string
	WritePrice      currency.Coin
	ReadPrice       currency.Coin
	Offer           currency.Coin // BlobberAllocation.Offer()
	Integral        currency.Coin // ChallengePoolIntegralValue
	ChallengeReward currency.Coin
	Penalty         currency.Coin
	Returned        currency.Coin
	ReadReward      currency.Coin
	LatestFinalized common.Timestamp
	LatestSuccess   common.Timestamp
	OpenChallenges  int64
	TotalChallenges int64
	LWMTimestamp    common.Timestamp
	LWMSize         int64
	HasLWM          bool
}

// VerifAlloc is a copy of the fields of one StorageAllocation.
type VerifAlloc struct {
	ID                string
	Version           string
	Owner             string
	OwnerPublicKey    string
	Size              int64
	DataShards        int
	ParityShards      int
	Expiration        common.Timestamp
	StartTime         common.Timestamp
	WritePool         currency.Coin
	MovedToChallenge  currency.Coin
	MovedBack         currency.Coin
	MovedToValidators currency.Coin
	Finalized         bool
	Canceled          bool
	ThirdParty        bool
	UsedSize          int64
	OpenChallenges    int64
	Blobbers          []VerifBlobberAlloc
}

// VerifDecodeAllocation decodes an allocation node.
func VerifDecodeAllocation(b []byte) (*VerifAlloc, error) {
	sa := &StorageAllocation{}
	if _, err := sa.UnmarshalMsg(b); err != nil {
		return nil, err
	}
	a := sa.mustBase()
	out := &VerifAlloc{ID: a.ID, Version: sa.Entity().GetVersion(), Owner: a.Owner, OwnerPublicKey: a.OwnerPublicKey, Size: a.Size,
		DataShards: a.DataShards, ParityShards: a.ParityShards, Expiration: a.Expiration, StartTime: a.StartTime,
		WritePool: a.WritePool, MovedToChallenge: a.MovedToChallenge, MovedBack: a.MovedBack,
		MovedToValidators: a.MovedToValidators, Finalized: a.Finalized, Canceled: a.Canceled, ThirdParty: a.ThirdPartyExtendable}
	if a.Stats != nil {
		out.UsedSize = a.Stats.UsedSize
		out.OpenChallenges = a.Stats.OpenChallenges
	}
	for _, d := range a.BlobberAllocs {
		v := VerifBlobberAlloc{BlobberID: d.BlobberID, Size: d.Size, AllocationRoot: d.AllocationRoot,
			WritePrice: d.Terms.WritePrice, ReadPrice: d.Terms.ReadPrice, Offer: d.Offer(),
			Integral: d.ChallengePoolIntegralValue, ChallengeReward: d.ChallengeReward, Penalty: d.Penalty,
			Returned: d.Returned, ReadReward: d.ReadReward, LatestFinalized: d.LatestFinalizedChallCreatedAt,
			LatestSuccess: d.LatestSuccessfulChallCreatedAt}
		if d.Stats != nil {
			v.UsedSize = d.Stats.UsedSize
			v.OpenChallenges = d.Stats.OpenChallenges
			v.TotalChallenges = d.Stats.TotalChallenges
		}
		if d.LastWriteMarker != nil {
			w := d.LastWriteMarker.mustBase()
			v.HasLWM, v.LWMTimestamp, v.LWMSize = true, w.Timestamp, w.Size
		}
		out.Blobbers = append(out.Blobbers, v)
	}
	return out, nil
}

// VerifDecodeChallengePool decodes a challenge-pool node.
func VerifDecodeChallengePool(b []byte) (id string, balance currency.Coin, err error) {
	cp := newChallengePool()
	if _, err = cp.UnmarshalMsg(b); err != nil {
		return "", 0, err
	}
	return cp.ID, cp.Balance, nil
}

// VerifDelegatePool is a copy of one delegate pool.
type VerifDelegatePool struct {
	ID         string
	DelegateID string
	Balance    currency.Coin
	Reward     currency.Coin
	Status     int
}

// VerifStakePool is a copy of a storage stake pool.
type VerifStakePool struct {
	Pools          []VerifDelegatePool // ordered by id
	Reward         currency.Coin
	TotalOffers    currency.Coin
	Killed         bool
	DelegateWallet string
	ServiceCharge  float64
}

// VerifDecodeStakePool decodes a storage stake-pool node.
func VerifDecodeStakePool(b []byte) (*VerifStakePool, error) {
	sp := newStakePool()
	if _, err := sp.UnmarshalMsg(b); err != nil {
		return nil, err
	}
	out := &VerifStakePool{Reward: sp.Reward, TotalOffers: sp.TotalOffers, Killed: sp.HasBeenKilled,
		DelegateWallet: sp.Settings.DelegateWallet, ServiceCharge: sp.Settings.ServiceChargeRatio}
	for _, id := range sp.OrderedPoolIds() {
		p := sp.Pools[id]
		out.Pools = append(out.Pools, VerifDelegatePool{ID: id, DelegateID: p.DelegateID, Balance: p.Balance, Reward: p.Reward, Status: int(p.Status)})
	}
	return out, nil
}

// VerifDecodeReadPool decodes a read-pool node.
func VerifDecodeReadPool(b []byte) (currency.Coin, error) {
	rp := new(readPool)
	if _, err := rp.UnmarshalMsg(b); err != nil {
		return 0, err
	}
	return rp.Balance, nil
}

// VerifBlobber is a copy of the fields of a blobber node.
type VerifBlobber struct {
	ID           string
	Version      string
	Capacity     int64
	Allocated    int64
	SavedData    int64
	WritePrice   currency.Coin
	ReadPrice    currency.Coin
	Killed       bool
	ShutDown     bool
	NotAvailable bool
	ProviderType int
}

// VerifDecodeBlobber decodes a blobber node.
func VerifDecodeBlobber(b []byte) (*VerifBlobber, error) {
	sn := &StorageNode{}
	if _, err := sn.UnmarshalMsg(b); err != nil {
		return nil, err
	}
	n := sn.mustBase()
	return &VerifBlobber{ID: n.ID, Version: sn.Entity().GetVersion(), Capacity: n.Capacity, Allocated: n.Allocated, SavedData: n.SavedData,
		WritePrice: n.Terms.WritePrice, ReadPrice: n.Terms.ReadPrice, Killed: n.IsKilled(), ShutDown: n.IsShutDown(),
		NotAvailable: n.NotAvailable, ProviderType: int(n.ProviderType)}, nil
}

// VerifAssigner is a copy of a free-storage assigner node.
type VerifAssigner struct {
	ClientID        string
	PublicKey       string
	IndividualLimit currency.Coin
	TotalLimit      currency.Coin
	CurrentRedeemed currency.Coin
	RedeemedNonces  []int64
}

// VerifDecodeAssigner decodes a free-storage assigner node.
func VerifDecodeAssigner(b []byte) (*VerifAssigner, error) {
	a := new(freeStorageAssigner)
	if _, err := a.UnmarshalMsg(b); err != nil {
		return nil, err
	}
	return &VerifAssigner{ClientID: a.ClientId, PublicKey: a.PublicKey, IndividualLimit: a.IndividualLimit,
		TotalLimit: a.TotalLimit, CurrentRedeemed: a.CurrentRedeemed, RedeemedNonces: append([]int64{}, a.RedeemedNonces...)}, nil
}

// Key builders of the contract.
func VerifChallengePoolKey(allocID string) string { return challengePoolKey(ADDRESS, allocID) }
func VerifStakePoolKey(p spenum.Provider, id string) string { return stakePoolKey(p, id) }
func VerifReadPoolKey(clientID string) string    { return readPoolKey(ADDRESS, clientID) }
func VerifAssignerKey(name string) string        { return freeStorageAssignerKey(ADDRESS, name) }
func VerifBlobberKey(id string) string           { return blobberKey(id) }
func VerifAllocChallengesKey(allocID string) string {
	return (&AllocationChallenges{AllocationID: allocID}).GetKey(ADDRESS)
}
func VerifReadConnectionKey(blobberID, clientID, allocID string) string {
	return (&ReadConnection{ReadMarker: &ReadMarker{BlobberID: blobberID, ClientID: clientID, AllocationID: allocID}}).GetKey(ADDRESS)
}

// VerifConfigView is a copy of the configuration fields the oracles need.
type VerifConfigView struct {
	TimeUnitNs         int64
	CancellationCharge float64
	OwnerID            string
	ValidatorReward    float64
	MaxChallengeRounds int64
	ReadPoolFraction   float64
}

// VerifDecodeConfig decodes the contract's configuration node.
func VerifDecodeConfig(b []byte) (*VerifConfigView, error) {
	c := newConfig()
	if _, err := c.UnmarshalMsg(b); err != nil {
		return nil, err
	}
	return &VerifConfigView{TimeUnitNs: int64(c.TimeUnit), CancellationCharge: c.CancellationCharge, OwnerID: c.OwnerId,
		ValidatorReward: c.ValidatorReward, MaxChallengeRounds: c.MaxChallengeCompletionRounds,
		ReadPoolFraction: c.FreeAllocationSettings.ReadPoolFraction}, nil
}

func VerifConfigKey() string { return scConfigKey(ADDRESS) }

// VerifWriteMarkerV1HashData forwards to writeMarkerV1.GetHashData (the string a client signs).
func VerifWriteMarkerV1HashData(allocRoot, prevRoot, fileMetaRoot, allocID, blobberID, clientID string, size int64, ts common.Timestamp) string {
	return (&writeMarkerV1{AllocationRoot: allocRoot, PreviousAllocationRoot: prevRoot, FileMetaRoot: fileMetaRoot,
		AllocationID: allocID, Size: size, BlobberID: blobberID, Timestamp: ts, ClientID: clientID}).GetHashData()
}

func VerifStorageChallengeKey(challengeID string) string { return storageChallengeKey(ADDRESS, challengeID) }
