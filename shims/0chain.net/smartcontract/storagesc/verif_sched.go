//go:build verif

package storagesc

import (
	cstate "0chain.net/chaincore/chain/state"
)

// VerifSchedGetBlobbersByIDs forwards to getBlobbersByIDs (the concurrent fan-out read used by
// allocation creation/update), for the C06 part "sched".
func VerifSchedGetBlobbersByIDs(ids []string, balances cstate.CommonStateContextI) ([]*StorageNode, error) {
	return getBlobbersByIDs(ids, balances)
}
