//go:build verif

package storagesc

import (
	"0chain.net/smartcontract/provider"
	"0chain.net/smartcontract/stakepool"
	"github.com/0chain/common/core/currency"
)

// VerifMinerscDecodeStakePool decodes a storage-contract stake pool node (unexported type) and
// returns its embedded stake pool and total offers (C11/C23 monitors).
func VerifMinerscDecodeStakePool(b []byte) (*stakepool.StakePool, currency.Coin, error) {
	sp := newStakePool()
	if _, err := sp.UnmarshalMsg(b); err != nil {
		return nil, 0, err
	}
	return sp.StakePool, sp.TotalOffers, nil
}

// VerifMinerscBlobberProvider returns the provider header of a decoded blobber node.
func VerifMinerscBlobberProvider(sn *StorageNode) provider.Provider {
	return sn.mustBase().Provider
}

// VerifMinerscConfigKey is the state key of the storage contract's configuration node.
func VerifMinerscConfigKey() string { return scConfigKey(ADDRESS) }
