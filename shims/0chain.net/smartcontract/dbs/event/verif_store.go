//go:build verif

package event

// Export shims for the verification harness (cmd/store, C20 part "merge"): forwarding calls only.

// VerifMergeEvents forwards to mergeEvents.
func VerifMergeEvents(round int64, block string, events []Event) ([]Event, error) {
	return mergeEvents(round, block, events)
}
