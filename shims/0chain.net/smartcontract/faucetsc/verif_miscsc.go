//go:build verif

package faucetsc

// VerifGlobalKey is the plaintext key of the faucet global node.
func VerifGlobalKey() string { return globalNodeKey }

// VerifValidate forwards to the contract's own configuration validation.
func (gn *GlobalNode) VerifValidate() error { return gn.validate() }
