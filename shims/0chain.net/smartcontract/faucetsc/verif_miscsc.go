//go:build verif

package faucetsc

// VerifMiscGlobalKey is the plaintext key of the faucet global node.
func VerifMiscGlobalKey() string { return globalNodeKey }

// VerifMiscValidate forwards to the contract's own configuration validation.
func (gn *GlobalNode) VerifMiscValidate() error { return gn.validate() }
