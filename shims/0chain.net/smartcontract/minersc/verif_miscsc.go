//go:build verif

package minersc

// VerifMiscValidate forwards to the contract's own validation of the miner settings node.
func (gn *GlobalNode) VerifMiscValidate() error { return gn.validate() }
