//go:build verif

package minersc

import "github.com/0chain/common/core/currency"

// VerifMinerscSplitByShareRatio forwards to the unexported GlobalNode.splitByShareRatio (C22).
func (gn *GlobalNode) VerifMinerscSplitByShareRatio(fees currency.Coin) (miner, sharders currency.Coin, err error) {
	return gn.splitByShareRatio(fees)
}
