//go:build verif

package minersc

import (
	cstate "0chain.net/chaincore/chain/state"
	"0chain.net/chaincore/transaction"
)

// VerifStructsReduce forwards to the unexported SimpleNodes.reduce (C39).
func VerifStructsReduce(sns SimpleNodes, limit int, xPercent float64, pmbrss int64, pmbnp Pooler) int {
	return sns.reduce(limit, xPercent, pmbrss, pmbnp)
}

// VerifStructsReduceNodes forwards to the unexported DKGMinerNodes.reduceNodes (C39).
func (dkgmn *DKGMinerNodes) VerifStructsReduceNodes(final bool, gn *GlobalNode, balances cstate.StateContextI) error {
	return dkgmn.reduceNodes(final, gn, balances)
}

// VerifStructsReduceShardersList forwards to the unexported reduceShardersList (C39).
func (msc *MinerSmartContract) VerifStructsReduceShardersList(keep, all *MinerNodes, gn *GlobalNode,
	balances cstate.StateContextI) ([]*MinerNode, error) {
	return msc.reduceShardersList(keep, all, gn, balances)
}

// VerifStructsAddHardFork forwards to the unexported contract function addHardFork (C43).
func (msc *MinerSmartContract) VerifStructsAddHardFork(txn *transaction.Transaction, input []byte, gn *GlobalNode,
	balances cstate.StateContextI) (string, error) {
	return msc.addHardFork(txn, input, gn, balances)
}
