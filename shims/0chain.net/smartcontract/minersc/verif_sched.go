//go:build verif

package minersc

import (
	cstate "0chain.net/chaincore/chain/state"
)

// VerifSchedGetSharderNodes is the fan-out read of payFees (fees.go: GetItemsByIDs over the rewarded
// sharder ids with getSharderNode), for the C06 part "sched".
func VerifSchedGetSharderNodes(ids []string, balances cstate.CommonStateContextI) ([]*MinerNode, error) {
	return cstate.GetItemsByIDs(ids, getSharderNode, balances)
}

// VerifSchedGetMinerNodes is the fan-out read of getMinersList-style lookups (models.go: GetItemsByIDs
// with the miner-node getter used there).
func VerifSchedGetMinerNodes(ids []string, balances cstate.CommonStateContextI) ([]*MinerNode, error) {
	return cstate.GetItemsByIDs(ids, getMinerNode, balances)
}
