//go:build verif

package partitions

// Export shims for the verification harness (cmd/store, C08): constructors of the package's
// unexported stored types, nothing else.

// VerifStoreTypes returns a constructor per unexported msgp-serialized type.
func VerifStoreTypes() map[string]func() interface{} {
	return map[string]func() interface{}{
		"item":      func() interface{} { return new(item) },
		"location":  func() interface{} { return new(location) },
		"partition": func() interface{} { return new(partition) },
	}
}
