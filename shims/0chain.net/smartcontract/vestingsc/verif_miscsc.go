//go:build verif

package vestingsc

import (
	"0chain.net/core/common"
	"github.com/0chain/common/core/currency"
)

// Field accessors for the unexported vesting pool node (decoding is done by the repository's own
// generated UnmarshalMsg); nothing here re-implements contract logic.

type VerifMiscDest struct {
	ID             string
	Amount, Vested currency.Coin
	Last, Move     common.Timestamp
}

type VerifMiscPool struct {
	ID                  string
	Balance             currency.Coin
	StartTime, ExpireAt common.Timestamp
	ClientID            string
	Dests               []VerifMiscDest
}

// VerifMiscPoolKeyPrefix is the plaintext key prefix of vesting pool nodes.
func VerifMiscPoolKeyPrefix() string { return poolKey(ADDRESS, "") }

// VerifMiscDecodePool decodes a stored vesting pool node.
func VerifMiscDecodePool(b []byte) (*VerifMiscPool, error) {
	vp := newVestingPool()
	if _, err := vp.UnmarshalMsg(b); err != nil {
		return nil, err
	}
	out := &VerifMiscPool{ID: vp.ID, Balance: vp.Balance, StartTime: vp.StartTime, ExpireAt: vp.ExpireAt, ClientID: vp.ClientID}
	for _, d := range vp.Destinations {
		out.Dests = append(out.Dests, VerifMiscDest{ID: d.ID, Amount: d.Amount, Vested: d.Vested, Last: d.Last, Move: d.Move})
	}
	return out, nil
}

// VerifMiscConfigKey is the plaintext key of the vesting settings node.
func VerifMiscConfigKey() string { return scConfigKey(ADDRESS) }

// VerifMiscValidateConfig decodes a stored settings node and runs the contract's own validate on it.
func VerifMiscValidateConfig(b []byte) error {
	c := new(config)
	if _, err := c.UnmarshalMsg(b); err != nil {
		return err
	}
	return c.validate()
}

// VerifMiscConfigOwner returns the owner recorded in a stored settings node.
func VerifMiscConfigOwner(b []byte) (string, error) {
	c := new(config)
	if _, err := c.UnmarshalMsg(b); err != nil {
		return "", err
	}
	return c.OwnerId, nil
}

// VerifMiscUnlock runs the real destination.unlock (not dry) on a destination with the given fields
// and returns the destination afterwards and the amount to pay.
func VerifMiscUnlock(d VerifMiscDest, now, end common.Timestamp) (VerifMiscDest, currency.Coin, error) {
	x := &destination{ID: d.ID, Amount: d.Amount, Vested: d.Vested, Last: d.Last, Move: d.Move}
	amt, err := x.unlock(now, end, false)
	return VerifMiscDest{ID: x.ID, Amount: x.Amount, Vested: x.Vested, Last: x.Last, Move: x.Move}, amt, err
}
