//go:build verif

package vestingsc

import (
	"0chain.net/core/common"
	"github.com/0chain/common/core/currency"
)

// Field accessors for the unexported vesting pool node (decoding is done by the repository's own
// generated UnmarshalMsg); nothing here re-implements contract logic.

type VerifDest struct {
	ID             string
	Amount, Vested currency.Coin
	Last, Move     common.Timestamp
}

type VerifPool struct {
	ID                  string
	Balance             currency.Coin
	StartTime, ExpireAt common.Timestamp
	ClientID            string
	Dests               []VerifDest
}

// VerifPoolKeyPrefix is the plaintext key prefix of vesting pool nodes.
func VerifPoolKeyPrefix() string { return poolKey(ADDRESS, "") }

// VerifDecodePool decodes a stored vesting pool node.
func VerifDecodePool(b []byte) (*VerifPool, error) {
	vp := newVestingPool()
	if _, err := vp.UnmarshalMsg(b); err != nil {
		return nil, err
	}
	out := &VerifPool{ID: vp.ID, Balance: vp.Balance, StartTime: vp.StartTime, ExpireAt: vp.ExpireAt, ClientID: vp.ClientID}
	for _, d := range vp.Destinations {
		out.Dests = append(out.Dests, VerifDest{ID: d.ID, Amount: d.Amount, Vested: d.Vested, Last: d.Last, Move: d.Move})
	}
	return out, nil
}

// VerifConfigKey is the plaintext key of the vesting settings node.
func VerifConfigKey() string { return scConfigKey(ADDRESS) }

// VerifValidateConfig decodes a stored settings node and runs the contract's own validate on it.
func VerifValidateConfig(b []byte) error {
	c := new(config)
	if _, err := c.UnmarshalMsg(b); err != nil {
		return err
	}
	return c.validate()
}

// VerifConfigOwner returns the owner recorded in a stored settings node.
func VerifConfigOwner(b []byte) (string, error) {
	c := new(config)
	if _, err := c.UnmarshalMsg(b); err != nil {
		return "", err
	}
	return c.OwnerId, nil
}

// VerifUnlock runs the real destination.unlock (not dry) on a destination with the given fields
// and returns the destination afterwards and the amount to pay.
func VerifUnlock(d VerifDest, now, end common.Timestamp) (VerifDest, currency.Coin, error) {
	x := &destination{ID: d.ID, Amount: d.Amount, Vested: d.Vested, Last: d.Last, Move: d.Move}
	amt, err := x.unlock(now, end, false)
	return VerifDest{ID: x.ID, Amount: x.Amount, Vested: x.Vested, Last: x.Last, Move: x.Move}, amt, err
}
