//go:build verif

package vestingsc

// Export shims for the verification harness (cmd/store, C08): constructors of the package's
// unexported stored types, nothing else.

// VerifStoreTypes returns a constructor per unexported msgp-serialized type.
func VerifStoreTypes() map[string]func() interface{} {
	return map[string]func() interface{}{
		"config":       func() interface{} { return new(config) },
		"clientPools":  func() interface{} { return new(clientPools) },
		"destination":  func() interface{} { return new(destination) },
		"destinations": func() interface{} { return new(destinations) },
		"poolRequest":  func() interface{} { return new(poolRequest) },
		"stopRequest":  func() interface{} { return new(stopRequest) },
		"vestingPool":  func() interface{} { return new(vestingPool) },
	}
}
