//go:build verif

package multisigsc

// Export shims for the verification harness (cmd/store, C08): constructors of the package's
// unexported stored types, nothing else.

// VerifStoreTypes returns a constructor per unexported msgp-serialized type.
func VerifStoreTypes() map[string]func() interface{} {
	return map[string]func() interface{}{
		"expirationQueue": func() interface{} { return new(expirationQueue) },
		"proposal":        func() interface{} { return new(proposal) },
		"proposalRef":     func() interface{} { return new(proposalRef) },
	}
}
