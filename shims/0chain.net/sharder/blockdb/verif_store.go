//go:build verif

package blockdb

// Export shims for the verification harness (cmd/store, C26): forwarding calls only.

// VerifNewFixedKeyArrayIndex forwards to newFixedKeyArrayIndex.
func VerifNewFixedKeyArrayIndex(keyLength int8) Index { return newFixedKeyArrayIndex(keyLength) }

// VerifNewMapIndex forwards to newMapIndex.
func VerifNewMapIndex() Index { return newMapIndex() }
