//go:build verif

package round

// VerifStructsComputeMinerRanks forwards to the unexported computeMinerRanks (C35).
func VerifStructsComputeMinerRanks(seed int64, minersNum int) []int {
	return computeMinerRanks(seed, minersNum)
}
