//go:build verif

package round

// VerifPeek returns the raw round state (phase, finalizing state, timeout count, number of VRF
// shares held) without taking any lock and without passing a scheduling point; used by the sched
// checks (C37) to observe the state between operations even when a lock has been leaked.
func (r *Round) VerifPeek() (phase Phase, fin FinalizingState, timeoutCount int, shares int) {
	return r.phase, r.finalizingState, r.timeoutCounter.count, len(r.shares)
}
