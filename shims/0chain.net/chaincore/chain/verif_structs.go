//go:build verif

package chain

import (
	"context"

	"0chain.net/chaincore/block"
	"0chain.net/chaincore/round"
)

// VerifStructsFinalizeRound forwards to the unexported finalizeRound (C36).
func (c *Chain) VerifStructsFinalizeRound(ctx context.Context, r round.RoundI) {
	c.finalizeRound(ctx, r)
}

// VerifStructsFinalizeBlockProcess forwards to the unexported finalizeBlockProcess (C36).
func (c *Chain) VerifStructsFinalizeBlockProcess(ctx context.Context, fb *block.Block, bsh BlockStateHandler) error {
	return c.finalizeBlockProcess(ctx, fb, bsh)
}

// VerifStructsMbRoundOffset forwards to the unexported mbRoundOffset (C40).
func VerifStructsMbRoundOffset(rn int64) int64 { return mbRoundOffset(rn) }

// VerifStructsDeleteRound forwards to the unexported deleteRound (C36: re-populating rounds).
func (c *Chain) VerifStructsDeleteRound(ctx context.Context, r round.RoundI) { c.deleteRound(ctx, r) }
