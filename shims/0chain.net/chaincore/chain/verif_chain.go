//go:build verif

package chain

import (
	"container/ring"
	"context"

	"0chain.net/chaincore/block"
	"0chain.net/chaincore/round"
	"github.com/0chain/common/core/util"
)

// Forwarding wrappers / field accessors for the verification harness (no logic of their own).

func (c *Chain) VerifFinalizeBlock(ctx context.Context, fb *block.Block, bsh BlockStateHandler) error {
	return c.finalizeBlock(ctx, fb, bsh)
}

func (c *Chain) VerifPruneClientState(ctx context.Context) { c.pruneClientState(ctx) }

func (c *Chain) VerifPNodeDB() *util.PNodeDB { return c.stateDB.(*util.PNodeDB) }

// VerifResetTo makes gb the latest finalized block again and empties the block/round registries
// and the block-summary ring (an explorer runs many histories on one chain object).
func (c *Chain) VerifResetTo(gb *block.Block, gr round.RoundI) {
	c.blocksMutex.Lock()
	c.blocks = map[string]*block.Block{gb.Hash: gb}
	c.blocksMutex.Unlock()
	c.roundsMutex.Lock()
	c.rounds = map[int64]round.RoundI{gr.GetRoundNumber(): gr}
	c.roundsMutex.Unlock()
	c.BlockChain = ring.New(c.BlockChain.Len())
	c.SetLatestFinalizedBlock(gb)
	c.SetLatestDeterministicBlock(gb)
}

// VerifPendingLFBTickets is the number of received LFB tickets not yet taken by the worker.
func (c *Chain) VerifPendingLFBTickets() int { return len(c.updateLFBTicket) + len(c.broadcastLFBTicket) }
