//go:build verif

package chain

import (
	"context"

	"0chain.net/chaincore/block"
	"0chain.net/chaincore/round"
)

// Field setters for cmd/minerproto (no logic of their own).

// VerifSetCurrentRound sets the current round (SetCurrentRound only moves forward; an explorer
// re-uses one chain object for many scenarios).
func (c *Chain) VerifSetCurrentRound(r int64) {
	c.roundsMutex.Lock()
	c.setCurrentRound(r)
	c.roundsMutex.Unlock()
}

// VerifResetRoundsBlocks empties the round and block registries except for the given genesis
// round/block (cheap variant of VerifResetTo: the block-summary ring and LFB are left alone).
func (c *Chain) VerifResetRoundsBlocks(gb *block.Block, gr round.RoundI) {
	c.blocksMutex.Lock()
	c.blocks = map[string]*block.Block{gb.Hash: gb}
	c.blocksMutex.Unlock()
	c.roundsMutex.Lock()
	c.rounds = map[int64]round.RoundI{gr.GetRoundNumber(): gr}
	c.roundsMutex.Unlock()
}

// VerifStartBlockFetchWorker starts the block fetch worker as Chain.SetupWorkers does.
func (c *Chain) VerifStartBlockFetchWorker(ctx context.Context) {
	go c.blockFetcher.StartBlockFetchWorker(ctx, c)
}
