//go:build verif

package state

// VerifTap, when set, is told the plaintext key of every state access made through a
// StateContext (the keytap seam in tools/seam.d/20-keytap.sh inserts the calls). It observes
// only; it never changes behaviour.
var VerifTap func(op string, key string, obj interface{})

func verifTap(op, key string, obj interface{}) {
	if VerifTap != nil {
		VerifTap(op, key, obj)
	}
}
