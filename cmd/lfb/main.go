// C41: LFB tickets are authentic and never move backwards.
// The real LFBTicketHandler (HTTP body -> verifyLFBTicket -> AddReceivedLFBTicket) and the real
// StartLFBTicketWorker event loop are driven with every sequence of ticket / local-broadcast
// events up to the depth bound. The worker is a single-goroutine event loop, so with one event
// delivered at a time (barrier: queue drained, then a GetLatestLFBTicket round trip) every
// interleaving of the loop is an order of events; the "drain the channel, keep the highest" path is
// covered by queueing every batch of events while the worker is parked (every cut of every sequence).
package main

import (
	"bytes"
	"context"
	"encoding/json"
	"fmt"
	"net/http"
	"os"
	"runtime"
	"time"

	"0chain.net/chaincore/block"
	"0chain.net/chaincore/chain"
	"0chain.net/chaincore/node"
	"0chain.net/core/encryption"
	"verif/lib/ev"
	"verif/lib/world"
)

type event struct {
	Kind   string // ticket | broadcast
	Signer string // actor name
	Rel    int64  // round relative to the sequence base
	BadSig bool
	Forged bool // signature by another key under the signer's id
}

func (e event) String() string {
	if e.Kind == "broadcast" {
		return fmt.Sprintf("local-LFB(round+%d)", e.Rel)
	}
	s := fmt.Sprintf("ticket(%s,round+%d", e.Signer, e.Rel)
	if e.BadSig {
		s += ",bad-signature"
	}
	if e.Forged {
		s += ",forged"
	}
	return s + ")"
}

type ticketJSON struct {
	Round     int64  `json:"round"`
	SharderID string `json:"sharder_id"`
	LFBHash   string `json:"lfb_hash"`
	Sign      string `json:"sign"`
}

func main() {
	if len(os.Args) < 2 || os.Args[1] != "C41" {
		ev.Fatal("usage: lfb C41 [quick|thorough]")
	}
	runtime.GOMAXPROCS(1) // the worker only runs when this goroutine yields: batches are queued atomically
	run := ev.Start("C41")
	selfSharder := false
	for _, a := range os.Args[2:] {
		if a == "sharder" {
			selfSharder = true
		}
	}
	depth := run.Pick(3, 4)
	w := world.New(world.Options{})
	c := w.Chain
	outsider := world.DetKey("outsider")
	w.Actors["outsider"] = outsider
	if selfSharder {
		// the node under test is sharder s0 (local LFB broadcasts are only accepted on a sharder)
		if err := node.Self.SetSignatureScheme(w.Sharders[0].Scheme); err != nil {
			ev.Fatal("%v", err)
		}
		node.Self.Underlying().Type = node.NodeTypeSharder
	}
	chain.SetupLFBTicketSender() // (all other nodes are inactive: sends are no-ops)
	ctx, cancel := context.WithCancel(w.Ctx)
	defer cancel()
	go c.StartLFBTicketWorker(ctx, w.Genesis)

	mb := c.GetCurrentMagicBlock()
	isMBSharder := func(id string) bool { return mb.Sharders.HasNode(id) }

	barrier := func() *chain.LFBTicket {
		for i := 0; c.VerifPendingLFBTickets() > 0; i++ {
			runtime.Gosched()
			if i > 1e7 {
				ev.Fatal("worker does not drain its queue")
			}
		}
		c.GetLatestLFBTicket(ctx) // the worker is back at its select: the previous event is fully processed
		return c.GetLatestLFBTicket(ctx)
	}

	var alpha []event
	for _, r := range []int64{1, 2} {
		alpha = append(alpha,
			event{Kind: "ticket", Signer: "s0", Rel: r},
			event{Kind: "ticket", Signer: "s1", Rel: r},
			event{Kind: "ticket", Signer: "m1", Rel: r},       // a registered miner, valid signature
			event{Kind: "ticket", Signer: "outsider", Rel: r}, // not a registered node
		)
	}
	alpha = append(alpha,
		event{Kind: "ticket", Signer: "s0", Rel: 3, BadSig: true},
		event{Kind: "ticket", Signer: "s1", Rel: 3, Forged: true},
		event{Kind: "ticket", Signer: "s0", Rel: 0}, // not newer than what the sequence starts from
	)
	if selfSharder {
		alpha = append(alpha, event{Kind: "broadcast", Rel: 1}, event{Kind: "broadcast", Rel: 2})
	}
	if run.Thorough() {
		alpha = append(alpha, event{Kind: "ticket", Signer: "s0", Rel: 3}, event{Kind: "ticket", Signer: "m2", Rel: 3})
	}

	base := int64(0)
	lastRound := barrier().Round
	deliver := func(e event) {
		rnd := base + e.Rel
		if e.Kind == "broadcast" {
			b := block.NewBlock(c.GetKey(), rnd)
			b.Hash = encryption.Hash(fmt.Sprintf("lfb-%d", rnd))
			c.BroadcastLFBTicket(ctx, b)
			return
		}
		a := w.Actors[e.Signer]
		t := &chain.LFBTicket{Round: rnd, SharderID: a.ID, LFBHash: encryption.Hash(fmt.Sprintf("blk-%d-%s", rnd, e.Signer))}
		signer := a
		if e.Forged {
			signer = outsider
		}
		sig, err := signer.Scheme.Sign(t.Hash())
		if err != nil {
			ev.Fatal("sign: %v", err)
		}
		if e.BadSig {
			sig = sig[:len(sig)-2] + "00"
		}
		body, _ := json.Marshal(ticketJSON{Round: t.Round, SharderID: t.SharderID, LFBHash: t.LFBHash, Sign: sig})
		req, _ := http.NewRequest("POST", "/v1/block/get/latest_finalized_ticket", bytes.NewReader(body))
		_, _ = chain.LFBTicketHandler(ctx, req)
	}
	check := func(seq []event, where string) {
		lt := barrier()
		names := make([]string, len(seq))
		for i, e := range seq {
			names[i] = e.String()
		}
		if lt.Round < lastRound {
			run.Violation("C41:GetLatestLFBTicket:round-moved-backwards", fmt.Sprintf("reported round %d after %d (%s, sequence %v)", lt.Round, lastRound, where, names), map[string]any{"sequence": names})
		}
		lastRound = lt.Round
		if lt.Sign != "" && !lt.IsOwn {
			// an adopted RECEIVED ticket: must be signed by a sharder of the current magic block
			cls := "unknown-node"
			if n := node.GetNode(lt.SharderID); n != nil {
				cls = "registered-" + map[bool]string{true: "sharder", false: "non-sharder"}[n.Type == node.NodeTypeSharder]
			}
			if !isMBSharder(lt.SharderID) {
				run.Violation("C41:verifyLFBTicket:adopted-ticket-not-signed-by-a-sharder-of-the-magic-block:"+cls,
					fmt.Sprintf("latest ticket is from %s (%s), not a sharder of the current magic block (sequence %v)", lt.SharderID, cls, names), map[string]any{"sequence": names})
			} else if ok, err := mb.Sharders.GetNode(lt.SharderID).Verify(lt.Sign, lt.Hash()); err != nil || !ok {
				run.Violation("C41:verifyLFBTicket:adopted-ticket-with-invalid-signature", fmt.Sprintf("sequence %v", names), map[string]any{"sequence": names})
			}
		}
		run.Outcome(fmt.Sprintf("%v->latest+%d", names, lt.Round-base))
	}

	deadline := time.Now().Add(time.Duration(run.Pick(50, 600)) * time.Second)
	var rec func(prefix []event)
	nseq := int64(0)
	target := 0
	rec = func(prefix []event) {
		if len(prefix) == target {
			// run this sequence from a fresh base (relative rounds keep the comparison with "latest" meaningful)
			base = lastRound + 10
			for i, e := range prefix {
				deliver(e)
				check(prefix[:i+1], "one event at a time")
				run.Add(0, 1, 0)
			}
			nseq++
			run.Add(1, 0, 1)
			if nseq%500 == 1 {
				run.Sample(fmt.Sprint(prefix))
			}
		}
		if len(prefix) == target || time.Now().After(deadline) {
			return
		}
		for _, e := range alpha {
			rec(append(append([]event{}, prefix...), e))
		}
	}
	for target = 1; target <= depth; target++ { // shortest sequences first: a reported case is minimal
		rec(nil)
	}
	// batches: every sequence of length 2..burstLen, under every way of cutting it into consecutive
	// batches with at least one batch of two or more events. All events of a batch are queued while the
	// worker is parked at its select (single P, no yield between the deliveries; confirmed per batch by
	// the queue length), so the worker's "drain the channel, keep the highest" loop sees exactly that
	// batch. With events in both channels the runtime's select choice picks one channel's batch first:
	// either resolution is another (sequence, cut) of this enumeration.
	burstLen := run.Pick(3, 4)
	confirmed, unconfirmed := 0, 0
	deliverBatch := func(batch []event) bool {
		barrier()
		queued := 0
		for _, e := range batch {
			before := c.VerifPendingLFBTickets()
			deliver(e)
			after := c.VerifPendingLFBTickets()
			if before != queued || after < before { // the worker ran in between
				return false
			}
			queued = after
		}
		return true
	}
	var cuts func(n int) [][]int // compositions of n
	cuts = func(n int) [][]int {
		if n == 0 {
			return [][]int{nil}
		}
		var out [][]int
		for first := 1; first <= n; first++ {
			for _, rest := range cuts(n - first) {
				out = append(out, append([]int{first}, rest...))
			}
		}
		return out
	}
	var brec func(prefix []event, n int)
	brec = func(prefix []event, n int) {
		if time.Now().After(deadline) {
			return
		}
		if len(prefix) == n {
			for _, cut := range cuts(n) {
				if len(cut) == n {
					continue // all singletons: the one-at-a-time enumeration above
				}
				okAll := false
				for try := 0; try < 50 && !okAll; try++ {
					base = lastRound + 10
					pos := 0
					okAll = true
					for _, k := range cut {
						if !deliverBatch(prefix[pos : pos+k]) {
							okAll = false
							check(prefix[:pos+k], "batch not confirmed, retried") // still a real run: the oracle applies
							break
						}
						pos += k
						check(prefix[:pos], fmt.Sprintf("batches %v", cut))
					}
				}
				if okAll {
					confirmed++
				} else {
					unconfirmed++
				}
				run.Add(0, int64(n), 1)
			}
			return
		}
		for _, e := range alpha {
			brec(append(append([]event{}, prefix...), e), n)
		}
	}
	for n := 2; n <= burstLen; n++ {
		brec(nil, n)
	}
	run.Bounds["batch_sequence_length"] = burstLen
	run.Bounds["batched_runs_confirmed"] = confirmed
	run.Bounds["batched_runs_not_confirmed"] = unconfirmed
	if unconfirmed > 0 {
		run.Capped(fmt.Sprintf("%d batched runs could not be confirmed as queued together", unconfirmed))
	}
	if time.Now().After(deadline) {
		run.Capped("time budget hit")
	}
	run.Rule = "all sequences up to the depth bound over {ticket(signer in {MB sharder s0, s1, registered miner, unregistered key}, relative round, valid / bad / forged signature), local LFB broadcast (sharder variant)} delivered one at a time to the real LFBTicketHandler + StartLFBTicketWorker with a drain barrier after each; plus every sequence up to the batch length under every cut into consecutive batches queued together while the worker is parked (the worker drains a batch in one iteration); oracle after every event: reported round never decreases, an adopted received ticket is validly signed by a sharder of the current magic block; distinct = distinct (sequence, reported round) pairs"
	run.Bounds["depth"] = depth
	run.Bounds["alphabet"] = len(alpha)
	run.Bounds["self_is_sharder"] = selfSharder
	run.Assumptions = []string{"batching of the worker is enumerated (every cut of every sequence up to the batch length, confirmed by the queue length); the select choice between the two input channels is left to the runtime, each resolution being another enumerated (sequence, cut)", "timers (rebroadcast) only resend the latest ticket and are left running on the wall clock"}
	run.Finish()
}
