// C08 — state entities serialize losslessly and canonically.
//
// A registry lists every msgp-serialized type the contracts keep in state (plus the types those
// embed), chaincore/state.State, block.MagicBlock and the entity-wrapper types with each of their
// registered versions. For every type a reflection-driven generator enumerates values: the zero
// value, every serialized leaf field set to every value of its kind's boundary alphabet (one
// field at a time) and every pair of leaf fields set to every pair of a reduced alphabet; fields
// inside pointers / slices / maps are reached through a one-element container. Every value x is
// pushed through the real codec:
//
//	decode(encode(x)) equals x   (serialized fields only; nil == empty for slices and maps)
//	encode(x) is stable and encode(decode(encode(x))) == encode(x)
//
// and, for entity wrappers, an older version decodes, migrates to the next version with every
// common field kept, and the migrated value round-trips.
package main

import (
	"bytes"
	"fmt"
	"math"
	"os"
	"reflect"
	"runtime"
	"sort"
	"strings"
	"sync"
	"time"
	"unsafe"

	"0chain.net/core/util/entitywrapper"

	"verif/lib/ev"
)

type c08Codec interface {
	MarshalMsg([]byte) ([]byte, error)
	UnmarshalMsg([]byte) ([]byte, error)
}

// c08Entry is one registered type.
type c08Entry struct {
	Name string
	New  func() c08Codec
	// Root returns the addressable value the generator fills (default: the pointee of New()).
	Root func(c08Codec) reflect.Value
	// Post is applied to a decoded value before comparison (derived fields).
	Post func(c08Codec)
	// Fixed alphabets for fields (by field name) whose domain is narrower than their kind.
	Alphabets map[string][]any
	// Fields (by "Type.Field") that are not part of the stored value although exported and untagged.
	NotStored map[string]string
	// Version tag fields of entity wrappers: forced by the codec, excluded from generation.
	Skip map[string]bool
	// Fix restores an invariant of stored values on a generated value before it is encoded.
	Fix func(root reflect.Value)
}

// ---------------------------------------------------------------------------------------------
// schema: which fields are part of the stored value

// struct types generated with msgp's -unexported flag serialize their unexported fields too
var c08UnexportedSerialized = map[string]bool{
	"0chain.net/chaincore/chain/state.HardFork": true,
}

func c08Serialized(owner reflect.Type, f reflect.StructField, e *c08Entry) bool {
	if tag, ok := f.Tag.Lookup("msg"); ok && strings.Split(tag, ",")[0] == "-" {
		return false
	}
	if !f.IsExported() && !c08UnexportedSerialized[owner.PkgPath()+"."+owner.Name()] {
		return false
	}
	if e != nil {
		if _, no := e.NotStored[owner.Name()+"."+f.Name]; no {
			return false
		}
		if e.Skip[f.Name] {
			return false
		}
	}
	return c08KindOK(f.Type, 0)
}

func c08KindOK(t reflect.Type, depth int) bool {
	if depth > 8 {
		return false
	}
	switch t.Kind() {
	case reflect.Chan, reflect.Func, reflect.UnsafePointer, reflect.Interface, reflect.Uintptr, reflect.Complex64, reflect.Complex128:
		return false
	case reflect.Struct:
		if p := t.PkgPath(); p == "sync" || p == "sync/atomic" || strings.HasPrefix(p, "verif/lib/") {
			return false
		}
	case reflect.Ptr, reflect.Slice, reflect.Array:
		return c08KindOK(t.Elem(), depth+1)
	case reflect.Map:
		return t.Key().Kind() == reflect.String && c08KindOK(t.Elem(), depth+1)
	}
	return true
}

var c08TimeType = reflect.TypeOf(time.Time{})

// entity wrappers (storagesc.StorageAllocation / StorageNode / WriteMarker): a struct that embeds
// entitywrapper.Wrapper is only a value once it holds an entity of one of its registered versions
type c08WrapperI interface {
	Entity() entitywrapper.EntityI
	SetEntity(entitywrapper.EntityI)
	TypeName() string
}

var c08WrapperIface = reflect.TypeOf((*c08WrapperI)(nil)).Elem()

func c08IsWrapper(t reflect.Type) bool {
	return t.Kind() == reflect.Struct && reflect.PointerTo(t).Implements(c08WrapperIface)
}

// c08NewWrapper returns a wrapper struct value of type t holding an entity of its version number
// `version` (modulo the number of registered versions), zero or filled with sample values.
func c08NewWrapper(t reflect.Type, e *c08Entry, version int, sample bool, variant int) reflect.Value {
	p := reflect.New(t)
	w := p.Interface().(c08WrapperI)
	fs, ok := entitywrapper.GetEntityVersionFuncs(w.TypeName())
	if !ok {
		panic("wrapper not registered: " + w.TypeName())
	}
	var vs []string
	for v := range fs {
		vs = append(vs, v)
	}
	sort.Strings(vs)
	ent := fs[vs[((version%len(vs))+len(vs))%len(vs)]]()
	if sample {
		ev := reflect.ValueOf(ent).Elem()
		ev.Set(c08Sample(ev.Type(), e, "", variant, 2))
	}
	w.SetEntity(ent)
	return p.Elem()
}

// ---------------------------------------------------------------------------------------------
// paths

type c08Step struct {
	kind  byte // 'f' field, 'p' deref, 'e' slice/array element 0, 'm' map value at key "k1"
	field int
	name  string
}

type c08Leaf struct {
	path []c08Step
	typ  reflect.Type
	name string // last field name on the path
}

func c08PathString(p []c08Step) string {
	var sb strings.Builder
	for _, s := range p {
		switch s.kind {
		case 'f':
			if sb.Len() > 0 {
				sb.WriteByte('.')
			}
			sb.WriteString(s.name)
		case 'p':
			// transparent
		case 'e':
			sb.WriteString("[0]")
		case 'm':
			sb.WriteString(`["k1"]`)
		}
	}
	if sb.Len() == 0 {
		return "(value)"
	}
	return sb.String()
}

// c08Leaves lists every generator position of type t: scalar leaves, and containers / pointers
// both as leaves of their own (nil / empty / 1 / 2 elements) and as gateways to leaves inside.
func c08Leaves(t reflect.Type, e *c08Entry, prefix []c08Step, name string, stack map[reflect.Type]int, depth int, out *[]c08Leaf) {
	cp := func(extra c08Step) []c08Step { return append(append([]c08Step{}, prefix...), extra) }
	if alpha, ok := e.Alphabets[name]; ok && len(alpha) > 0 && len(prefix) > 0 {
		*out = append(*out, c08Leaf{append([]c08Step{}, prefix...), t, name})
		return
	}
	switch {
	case t == c08TimeType || c08IsWrapper(t):
		*out = append(*out, c08Leaf{append([]c08Step{}, prefix...), t, name})
		return
	case t.Kind() == reflect.Struct:
		if stack[t] >= 2 || depth > 6 {
			return
		}
		stack[t]++
		for i := 0; i < t.NumField(); i++ {
			f := t.Field(i)
			if !c08Serialized(t, f, e) {
				continue
			}
			c08Leaves(f.Type, e, cp(c08Step{kind: 'f', field: i, name: f.Name}), f.Name, stack, depth+1, out)
		}
		stack[t]--
		return
	case t.Kind() == reflect.Ptr:
		*out = append(*out, c08Leaf{append([]c08Step{}, prefix...), t, name})
		if stack[t.Elem()] < 2 && depth <= 6 && !c08IsWrapper(t.Elem()) {
			c08Leaves(t.Elem(), e, cp(c08Step{kind: 'p'}), name, stack, depth+1, out)
		}
		return
	case t.Kind() == reflect.Slice && t.Elem().Kind() == reflect.Uint8:
		*out = append(*out, c08Leaf{append([]c08Step{}, prefix...), t, name})
		return
	case t.Kind() == reflect.Slice || t.Kind() == reflect.Array:
		*out = append(*out, c08Leaf{append([]c08Step{}, prefix...), t, name})
		if depth <= 6 {
			c08Leaves(t.Elem(), e, cp(c08Step{kind: 'e'}), name, stack, depth+1, out)
		}
		return
	case t.Kind() == reflect.Map:
		*out = append(*out, c08Leaf{append([]c08Step{}, prefix...), t, name})
		if depth <= 6 {
			c08Leaves(t.Elem(), e, cp(c08Step{kind: 'm'}), name, stack, depth+1, out)
		}
		return
	default:
		*out = append(*out, c08Leaf{append([]c08Step{}, prefix...), t, name})
	}
}

// c08Settable makes a struct field writable even when it is unexported.
func c08Settable(v reflect.Value) reflect.Value {
	if v.CanSet() {
		return v
	}
	return reflect.NewAt(v.Type(), unsafe.Pointer(v.UnsafeAddr())).Elem()
}

// c08Defaults gives fields with a fixed alphabet (narrower than their kind) their first value
// inside a freshly materialised struct, so that materialised containers hold storable values.
func c08Defaults(v reflect.Value, e *c08Entry, depth int) {
	if depth > 6 {
		return
	}
	switch v.Kind() {
	case reflect.Struct:
		t := v.Type()
		if t == c08TimeType {
			return
		}
		if c08IsWrapper(t) {
			if v.Addr().Interface().(c08WrapperI).Entity() == nil {
				v.Set(c08NewWrapper(t, e, -1, false, 0))
			}
			return
		}
		for i := 0; i < t.NumField(); i++ {
			f := t.Field(i)
			if !c08Serialized(t, f, e) {
				continue
			}
			fv := c08Settable(v.Field(i))
			if alpha, ok := e.Alphabets[f.Name]; ok && len(alpha) > 0 {
				fv.Set(reflect.ValueOf(alpha[0]).Convert(f.Type))
				continue
			}
			if f.Type.Kind() == reflect.Struct {
				c08Defaults(fv, e, depth+1)
			}
		}
	case reflect.Ptr:
		if !v.IsNil() {
			c08Defaults(v.Elem(), e, depth+1)
		}
	}
}

// c08Mutate walks path from v (addressable), materialising pointers / one-element containers
// on the way, and applies f to the position reached.
func c08Mutate(e *c08Entry, v reflect.Value, path []c08Step, f func(reflect.Value)) {
	if len(path) == 0 {
		f(v)
		return
	}
	s, rest := path[0], path[1:]
	switch s.kind {
	case 'f':
		c08Mutate(e, c08Settable(v.Field(s.field)), rest, f)
	case 'p':
		if v.IsNil() {
			v.Set(reflect.New(v.Type().Elem()))
			c08Defaults(v.Elem(), e, 0)
		}
		c08Mutate(e, v.Elem(), rest, f)
	case 'e':
		if v.Kind() == reflect.Slice && v.Len() == 0 {
			v.Set(reflect.MakeSlice(v.Type(), 1, 1))
			c08Defaults(v.Index(0), e, 0)
		}
		c08Mutate(e, v.Index(0), rest, f)
	case 'm':
		if v.IsNil() {
			v.Set(reflect.MakeMap(v.Type()))
		}
		key := reflect.ValueOf("k1").Convert(v.Type().Key())
		tmp := reflect.New(v.Type().Elem()).Elem()
		if old := v.MapIndex(key); old.IsValid() {
			tmp.Set(old)
		} else {
			c08Defaults(tmp, e, 0)
		}
		c08Mutate(e, tmp, rest, f)
		v.SetMapIndex(key, tmp)
	}
}

// ---------------------------------------------------------------------------------------------
// alphabets

func c08Str(n int, c byte) string { return strings.Repeat(string(c), n) }

// c08Sample returns a simple non-zero value of type t (used for container elements, pointees).
func c08Sample(t reflect.Type, e *c08Entry, name string, variant int, depth int) reflect.Value {
	v := reflect.New(t).Elem()
	if alpha, ok := e.Alphabets[name]; ok && len(alpha) > 0 {
		v.Set(reflect.ValueOf(alpha[variant%len(alpha)]).Convert(t))
		return v
	}
	switch {
	case t == c08TimeType:
		v.Set(reflect.ValueOf(time.Unix(1700000000+int64(variant), 123456789).UTC()))
	case c08IsWrapper(t):
		v.Set(c08NewWrapper(t, e, variant, depth <= 3, variant))
	case t.Kind() == reflect.String:
		v.SetString(fmt.Sprintf("s%d", variant))
	case t.Kind() == reflect.Bool:
		v.SetBool(true)
	case t.Kind() >= reflect.Int && t.Kind() <= reflect.Int64:
		v.SetInt(int64(7 + variant))
	case t.Kind() >= reflect.Uint && t.Kind() <= reflect.Uint64:
		v.SetUint(uint64(7 + variant))
	case t.Kind() == reflect.Float32 || t.Kind() == reflect.Float64:
		v.SetFloat(0.25 + float64(variant))
	case depth > 4:
		// zero value below this depth (fields with a narrowed domain still get a legal value)
		c08Defaults(v, e, 0)
	case t.Kind() == reflect.Slice:
		s := reflect.MakeSlice(t, 1, 1)
		s.Index(0).Set(c08Sample(t.Elem(), e, name, variant, depth+1))
		v.Set(s)
	case t.Kind() == reflect.Array:
		for i := 0; i < t.Len(); i++ {
			v.Index(i).Set(c08Sample(t.Elem(), e, name, variant+i, depth+1))
		}
	case t.Kind() == reflect.Map:
		m := reflect.MakeMap(t)
		m.SetMapIndex(reflect.ValueOf(fmt.Sprintf("k%d", variant+1)).Convert(t.Key()), c08Sample(t.Elem(), e, name, variant, depth+1))
		v.Set(m)
	case t.Kind() == reflect.Ptr:
		p := reflect.New(t.Elem())
		p.Elem().Set(c08Sample(t.Elem(), e, name, variant, depth+1))
		v.Set(p)
	case t.Kind() == reflect.Struct:
		for i := 0; i < t.NumField(); i++ {
			f := t.Field(i)
			if c08Serialized(t, f, e) {
				c08Settable(v.Field(i)).Set(c08Sample(f.Type, e, f.Name, variant, depth+1))
			}
		}
	}
	return v
}

// c08Alphabet returns the boundary values of a leaf (full) or a reduced set (for pairs).
func c08Alphabet(l c08Leaf, e *c08Entry, reduced bool) []reflect.Value {
	t := l.typ
	var out []reflect.Value
	add := func(x any) {
		v := reflect.New(t).Elem()
		xv := reflect.ValueOf(x)
		if !xv.IsValid() {
			out = append(out, v) // zero
			return
		}
		v.Set(xv.Convert(t))
		out = append(out, v)
	}
	if alpha, ok := e.Alphabets[l.name]; ok && len(alpha) > 0 {
		for i, a := range alpha {
			if reduced && i >= 2 {
				break
			}
			add(a)
		}
		return out
	}
	switch {
	case c08IsWrapper(t):
		for ver := 0; ver < 3; ver++ { // every registered version (at most 3), zero and sample entity
			out = append(out, c08NewWrapper(t, e, ver, false, 0))
			if !reduced {
				out = append(out, c08NewWrapper(t, e, ver, true, ver))
			}
		}
	case t == c08TimeType:
		add(time.Time{})
		add(time.Unix(1700000000, 123456789).UTC())
		if !reduced {
			add(time.Unix(1, 0).In(time.FixedZone("x", 3600)))
			add(time.Unix(1<<33, 999999999).UTC())
		}
	case t.Kind() == reflect.String:
		if reduced {
			for _, s := range []string{"", "a", c08Str(32, 'y')} {
				add(s)
			}
			break
		}
		for _, s := range []string{"", "a", c08Str(31, 'x'), c08Str(32, 'y'), c08Str(255, 'z'), c08Str(256, 'w'), "ünï\x00cødé \"q\"", "\xff\xfe\x80", c08Str(65536, 'L')} {
			add(s)
		}
	case t.Kind() == reflect.Bool:
		add(false)
		add(true)
	case t.Kind() >= reflect.Int && t.Kind() <= reflect.Int64:
		bits := t.Bits()
		max := int64(1)<<(bits-1) - 1
		min := -max - 1
		cands := []int64{0, 1, -1, 31, 32, -32, -33, 127, 128, -128, -129, 255, 256, 32767, 32768, -32768, -32769, 65535, 65536, math.MaxInt32, math.MaxInt32 + 1, math.MinInt32, math.MinInt32 - 1, 1<<53 + 1, max, min}
		if reduced {
			cands = []int64{0, -1, max}
		}
		seen := map[int64]bool{}
		for _, c := range cands {
			if c >= min && c <= max && !seen[c] {
				seen[c] = true
				v := reflect.New(t).Elem()
				v.SetInt(c)
				out = append(out, v)
			}
		}
	case t.Kind() >= reflect.Uint && t.Kind() <= reflect.Uint64:
		bits := t.Bits()
		max := ^uint64(0) >> (64 - bits)
		cands := []uint64{0, 1, 127, 128, 255, 256, 65535, 65536, math.MaxUint32, math.MaxUint32 + 1, 1<<53 + 1, 1 << 63, max}
		if reduced {
			cands = []uint64{0, 1, max}
		}
		seen := map[uint64]bool{}
		for _, c := range cands {
			if c <= max && !seen[c] {
				seen[c] = true
				v := reflect.New(t).Elem()
				v.SetUint(c)
				out = append(out, v)
			}
		}
	case t.Kind() == reflect.Float32 || t.Kind() == reflect.Float64:
		cands := []float64{0, 1, -1.5, 0.1, 1.0 / 3.0, 1e300, math.MaxFloat64, math.SmallestNonzeroFloat64, math.Inf(1), math.Inf(-1), math.NaN(), math.Copysign(0, -1)}
		if reduced {
			cands = []float64{0, 0.1, -1.5}
		}
		for _, c := range cands {
			v := reflect.New(t).Elem()
			v.SetFloat(c)
			out = append(out, v)
		}
	case t.Kind() == reflect.Slice && t.Elem().Kind() == reflect.Uint8:
		add(nil)
		mk := func(b []byte) {
			v := reflect.MakeSlice(t, len(b), len(b))
			reflect.Copy(v, reflect.ValueOf(b))
			out = append(out, v)
		}
		mk([]byte{1, 2})
		if !reduced {
			mk([]byte{})
			mk([]byte{0})
			mk(bytes.Repeat([]byte{0xab}, 300))
			mk(bytes.Repeat([]byte{0xcd}, 70000))
		}
	case t.Kind() == reflect.Slice:
		add(nil)
		one := reflect.MakeSlice(t, 1, 1)
		one.Index(0).Set(c08Sample(t.Elem(), e, l.name, 0, 1))
		out = append(out, one)
		if !reduced {
			out = append(out, reflect.MakeSlice(t, 0, 0))
			two := reflect.MakeSlice(t, 2, 2)
			two.Index(0).Set(c08Sample(t.Elem(), e, l.name, 1, 1))
			two.Index(1).Set(c08Sample(t.Elem(), e, l.name, 0, 1))
			out = append(out, two)
			big := reflect.MakeSlice(t, 17, 17) // crosses the fixarray (<= 15) boundary
			for i := 0; i < 17; i++ {
				big.Index(i).Set(c08Sample(t.Elem(), e, l.name, i, 2))
			}
			out = append(out, big)
		}
	case t.Kind() == reflect.Array:
		add(nil)
		out = append(out, c08Sample(t, e, l.name, 0, 1))
	case t.Kind() == reflect.Map:
		add(nil)
		mk := func(n int) reflect.Value {
			m := reflect.MakeMap(t)
			for i := 0; i < n; i++ {
				// keys inserted in descending order; canonical encoding must not depend on it
				k := fmt.Sprintf("k%d", n-i)
				m.SetMapIndex(reflect.ValueOf(k).Convert(t.Key()), c08Sample(t.Elem(), e, l.name, i, 1))
			}
			return m
		}
		out = append(out, mk(1))
		if !reduced {
			out = append(out, reflect.MakeMap(t), mk(2), mk(17))
		}
	case t.Kind() == reflect.Ptr:
		if n := len(l.path); n == 0 || (l.path[n-1].kind != 'e' && l.path[n-1].kind != 'm') {
			add(nil) // contracts never store nil elements inside slices / maps
		}
		z := reflect.New(t.Elem())
		c08Defaults(z.Elem(), e, 0)
		out = append(out, z)
		if !reduced {
			out = append(out, c08Sample(t, e, l.name, 0, 1))
			if c08IsWrapper(t.Elem()) {
				out = append(out, c08Sample(t, e, l.name, 1, 1), c08Sample(t, e, l.name, 2, 1))
			}
		}
	default:
		add(nil)
	}
	return out
}

// ---------------------------------------------------------------------------------------------
// equality over the serialized fields

// c08Diff describes where two values differ: the path from the root and the innermost struct
// field that owns the position ("pkg.Type.Field"), which names the finding.
type c08Diff struct{ path, owner string }

func c08ShortType(t reflect.Type) string {
	pkg := t.PkgPath()
	if i := strings.LastIndex(pkg, "/"); i >= 0 {
		pkg = pkg[i+1:]
	}
	if pkg == "" {
		return t.String()
	}
	return pkg + "." + t.Name()
}

func c08Equal(a, b reflect.Value, e *c08Entry, path, owner string) *c08Diff {
	t := a.Type()
	diff := func(ok bool) *c08Diff {
		if ok {
			return nil
		}
		return &c08Diff{path, owner}
	}
	switch {
	case t == c08TimeType:
		ta := *(*time.Time)(unsafe.Pointer(c08Addr(a).UnsafeAddr()))
		tb := *(*time.Time)(unsafe.Pointer(c08Addr(b).UnsafeAddr()))
		return diff(ta.Equal(tb))
	case c08IsWrapper(t):
		ea := c08Addr(a).Addr().Interface().(c08WrapperI).Entity()
		eb := c08Addr(b).Addr().Interface().(c08WrapperI).Entity()
		if ea == nil || eb == nil || reflect.TypeOf(ea) != reflect.TypeOf(eb) {
			return &c08Diff{path + "(entity version)", owner}
		}
		return c08Equal(reflect.ValueOf(ea).Elem(), reflect.ValueOf(eb).Elem(), e, path, owner)
	case t.Kind() == reflect.Struct:
		for i := 0; i < t.NumField(); i++ {
			f := t.Field(i)
			if !c08Serialized(t, f, e) {
				continue
			}
			p := f.Name
			if path != "" {
				p = path + "." + f.Name
			}
			if d := c08Equal(a.Field(i), b.Field(i), e, p, c08ShortType(t)+"."+f.Name); d != nil {
				return d
			}
		}
		return nil
	case t.Kind() == reflect.Ptr:
		if a.IsNil() != b.IsNil() {
			return diff(false)
		}
		if a.IsNil() {
			return nil
		}
		return c08Equal(a.Elem(), b.Elem(), e, path, owner)
	case t.Kind() == reflect.Slice || t.Kind() == reflect.Array:
		if a.Len() != b.Len() {
			return diff(false)
		}
		for i := 0; i < a.Len(); i++ {
			if d := c08Equal(a.Index(i), b.Index(i), e, fmt.Sprintf("%s[%d]", path, i), owner); d != nil {
				return d
			}
		}
		return nil
	case t.Kind() == reflect.Map:
		if a.Len() != b.Len() {
			return diff(false)
		}
		for it := a.MapRange(); it.Next(); {
			bv := b.MapIndex(it.Key())
			if !bv.IsValid() {
				return &c08Diff{fmt.Sprintf("%s[%q]", path, it.Key().String()), owner}
			}
			if d := c08Equal(it.Value(), bv, e, fmt.Sprintf("%s[%q]", path, it.Key().String()), owner); d != nil {
				return d
			}
		}
		return nil
	case t.Kind() == reflect.String:
		return diff(a.String() == b.String())
	case t.Kind() == reflect.Bool:
		return diff(a.Bool() == b.Bool())
	case t.Kind() >= reflect.Int && t.Kind() <= reflect.Int64:
		return diff(a.Int() == b.Int())
	case t.Kind() >= reflect.Uint && t.Kind() <= reflect.Uint64:
		return diff(a.Uint() == b.Uint())
	case t.Kind() == reflect.Float32:
		return diff(math.Float32bits(float32(a.Float())) == math.Float32bits(float32(b.Float())))
	case t.Kind() == reflect.Float64:
		return diff(math.Float64bits(a.Float()) == math.Float64bits(b.Float()))
	}
	return nil
}

// c08Addr returns an addressable copy holder for values that are not addressable.
func c08Addr(v reflect.Value) reflect.Value {
	if v.CanAddr() {
		return v
	}
	n := reflect.New(v.Type()).Elem()
	n.Set(v)
	return n
}

// ---------------------------------------------------------------------------------------------
// the check of one value

type c08Finding struct {
	key, what string
	rank      int64
	replay    map[string]any
}

type c08Collector struct {
	mu   sync.Mutex
	best map[string]c08Finding
}

func (c *c08Collector) add(f c08Finding) {
	c.mu.Lock()
	if old, ok := c.best[f.key]; !ok || f.rank < old.rank {
		c.best[f.key] = f
	}
	c.mu.Unlock()
}

func c08Root(e *c08Entry, x c08Codec) reflect.Value {
	if e.Root != nil {
		return e.Root(x)
	}
	return reflect.ValueOf(x).Elem()
}

// c08Check pushes one generated value through the codec. desc describes how it was generated.
func c08Check(e *c08Entry, x c08Codec, desc string, rank int64, col *c08Collector) (outcome string) {
	report := func(class, what string) string {
		col.add(c08Finding{"C08:" + e.Name + ":" + class, fmt.Sprintf("%s with %s: %s", e.Name, desc, what), rank,
			map[string]any{"type": e.Name, "value": desc, "procedure": "zero value of the type, then the listed fields set; b1 := x.MarshalMsg(nil); y := new(T); y.UnmarshalMsg(b1); compare; b2 := y.MarshalMsg(nil)"}})
		return class
	}
	var b1, b1again, b2, rest []byte
	var err error
	var y c08Codec
	if e.Fix != nil {
		e.Fix(c08Root(e, x))
	}
	func() {
		defer func() {
			if p := recover(); p != nil {
				outcome = report("panic", fmt.Sprintf("panic: %.200v", p))
			}
		}()
		if b1, err = x.MarshalMsg(nil); err != nil {
			outcome = report("encode-error", err.Error())
			return
		}
		if b1again, err = x.MarshalMsg(nil); err != nil || !bytes.Equal(b1, b1again) {
			outcome = report("encode-unstable", "two encodings of the same value differ")
			return
		}
		y = e.New()
		if rest, err = y.UnmarshalMsg(b1); err != nil {
			outcome = report("decode-error", err.Error())
			return
		}
		if len(rest) != 0 {
			outcome = report("decode-leaves-bytes", fmt.Sprintf("%d bytes left over", len(rest)))
			return
		}
		if e.Post != nil {
			e.Post(y)
		}
		if d := c08Equal(c08Root(e, x), c08Root(e, y), e, "", e.Name+".(value)"); d != nil {
			// the finding is named after the struct field that owns the position, whatever type contains it
			col.add(c08Finding{"C08:" + d.owner[:strings.LastIndex(d.owner, ".")] + ":field-not-restored:" + d.owner[strings.LastIndex(d.owner, ".")+1:],
				fmt.Sprintf("%s with %s: decode(encode(x)) differs from x at %s", e.Name, desc, d.path), rank,
				map[string]any{"type": e.Name, "value": desc, "differs_at": d.path, "procedure": "zero value of the type, then the listed fields set; b1 := x.MarshalMsg(nil); y := new(T); y.UnmarshalMsg(b1); compare"}})
			outcome = "field-not-restored:" + d.owner
			return
		}
		if b2, err = y.MarshalMsg(nil); err != nil {
			outcome = report("reencode-error", err.Error())
			return
		}
		if !bytes.Equal(b1, b2) {
			outcome = report("reencode-differs", fmt.Sprintf("encode(decode(encode(x))) != encode(x) (%d vs %d bytes)", len(b2), len(b1)))
			return
		}
		outcome = fmt.Sprintf("ok|%d", len(b1))
	}()
	return outcome
}

// c08StableField strips indices / keys so that the violation key names the field, not the case.
func c08StableField(where string) string {
	var sb strings.Builder
	depth := 0
	for _, r := range where {
		switch {
		case r == '[':
			depth++
		case r == ']':
			depth--
		case depth == 0:
			sb.WriteRune(r)
		}
	}
	return sb.String()
}

func c08ShortValue(v reflect.Value) string {
	s := fmt.Sprintf("%#v", c08Printable(v))
	if len(s) > 90 {
		s = fmt.Sprintf("%s...(%d chars)", s[:70], len(s))
	}
	return s
}

func c08Printable(v reflect.Value) any {
	switch v.Kind() {
	case reflect.String:
		return v.String()
	case reflect.Slice, reflect.Map:
		if v.IsNil() {
			return "nil " + v.Type().String()
		}
		return fmt.Sprintf("%s of %d", v.Type().String(), v.Len())
	case reflect.Ptr:
		if v.IsNil() {
			return "nil " + v.Type().String()
		}
		return "&" + v.Type().Elem().String() + "{...}"
	}
	if v.CanInterface() {
		return v.Interface()
	}
	return v.String()
}

// c08RunEntry enumerates all values of one entry.
// c08Medium is the full alphabet without the very large values (pair enumeration, thorough tier).
func c08Medium(l c08Leaf, e *c08Entry) []reflect.Value {
	var out []reflect.Value
	for _, v := range c08Alphabet(l, e, false) {
		if (v.Kind() == reflect.String || v.Kind() == reflect.Slice) && v.Len() > 300 {
			continue
		}
		out = append(out, v)
	}
	return out
}

func c08RunEntry(e *c08Entry, ei int, pairs bool, thorough bool, col *c08Collector, outcomes map[string]struct{}) (values int64, leaves int) {
	root := c08Root(e, e.New())
	var ls []c08Leaf
	c08Leaves(root.Type(), e, nil, "", map[reflect.Type]int{}, 0, &ls)
	rank := int64(ei) << 40
	note := func(o string) { outcomes[e.Name+"|"+o] = struct{}{} }
	// zero value
	x := e.New()
	c08Defaults(c08Root(e, x), e, 0)
	note(c08Check(e, x, "the zero value", rank, col))
	values++
	// one field at a time
	type setting struct {
		leaf int
		val  reflect.Value
	}
	apply := func(x c08Codec, s setting) {
		c08Mutate(e, c08Root(e, x), ls[s.leaf].path, func(pos reflect.Value) { pos.Set(s.val) })
	}
	for li, l := range ls {
		for vi, val := range c08Alphabet(l, e, false) {
			x := e.New()
			c08Defaults(c08Root(e, x), e, 0)
			apply(x, setting{li, val})
			rank++
			note(c08Check(e, x, fmt.Sprintf("%s = %s", c08PathString(l.path), c08ShortValue(val)), rank, col))
			values++
			_ = vi
		}
	}
	if !pairs {
		return values, len(ls)
	}
	// all pairs over the reduced alphabets (when the second path runs through the first position,
	// the second setting materialises inside / over the first)
	red := make([][]reflect.Value, len(ls))
	for i, l := range ls {
		if thorough {
			red[i] = c08Medium(l, e)
		} else {
			red[i] = c08Alphabet(l, e, true)
		}
	}
	for i := 0; i < len(ls); i++ {
		for j := i + 1; j < len(ls); j++ {
			for _, vi := range red[i] {
				for _, vj := range red[j] {
					x := e.New()
					c08Defaults(c08Root(e, x), e, 0)
					apply(x, setting{i, vi})
					apply(x, setting{j, vj})
					rank++
					note(c08Check(e, x, fmt.Sprintf("%s = %s and %s = %s", c08PathString(ls[i].path), c08ShortValue(vi), c08PathString(ls[j].path), c08ShortValue(vj)), rank, col))
					values++
				}
			}
		}
	}
	return values, len(ls)
}

func c08Main() {
	run := ev.Start("C08")
	entries := c08Registry()
	if len(os.Args) > 2 && os.Args[2] == "list" {
		c08List(entries)
		return
	}
	col := &c08Collector{best: map[string]c08Finding{}}
	workers := runtime.NumCPU()
	if workers > 16 {
		workers = 16
	}
	type res struct {
		values   int64
		leaves   int
		outcomes map[string]struct{}
	}
	results := make([]res, len(entries))
	var wg sync.WaitGroup
	sem := make(chan struct{}, workers)
	for i := range entries {
		wg.Add(1)
		sem <- struct{}{}
		go func(i int) {
			defer wg.Done()
			defer func() { <-sem }()
			oc := map[string]struct{}{}
			v, l := c08RunEntry(&entries[i], i, true, run.Thorough(), col, oc)
			results[i] = res{v, l, oc}
		}(i)
	}
	wg.Wait()
	perType := map[string]any{}
	var total int64
	for i, r := range results {
		total += r.values
		perType[entries[i].Name] = map[string]any{"leaf_positions": r.leaves, "values": r.values}
		for k := range r.outcomes {
			run.Outcome(k)
		}
	}
	// entity wrappers: version migration
	mig, migOutcomes := c08Migrations(col)
	total += mig
	for k := range migOutcomes {
		run.Outcome(k)
	}
	run.Add(int64(len(entries)), total, total)
	run.Extra["per_type"] = perType
	run.Extra["registered_types"] = len(entries)
	run.Rule = "for every registered stored type: the zero value, every serialized leaf position (fields, also inside pointers / one-element slices and maps) set to every value of its kind's boundary alphabet, and every pair of positions set to every pair of a reduced alphabet (3 values per kind; thorough tier: the full alphabets without the very large values); containers themselves take nil / empty / 1 / 2 / 17 elements; each value through the real MarshalMsg / UnmarshalMsg; entity wrappers additionally per registered version and through MigrateFrom; distinct = distinct (type, outcome, encoded length)"
	run.Bounds["string_alphabet"] = "'', 'a', 31/32/255/256/65536 chars, non-ASCII with NUL and quotes, invalid UTF-8"
	run.Bounds["int_alphabet"] = "0, +-1, msgpack format boundaries (31/32, -32/-33, 127/128, 255/256, 2^15, 2^16, 2^31, 2^32), 2^53+1, min, max of the field's width"
	run.Bounds["float_alphabet"] = "0, -0, 1, -1.5, 0.1, 1/3, 1e300, max, smallest, +-Inf, NaN"
	run.Bounds["container_sizes"] = "nil, 0, 1, 2, 17 elements (elements of pointer type are never nil: contracts do not store nil elements)"
	run.Bounds["pairs"] = map[bool]string{false: "all pairs of leaf positions x 3x3 reduced values", true: "all pairs of leaf positions x the full alphabets without the > 300-byte values"}[run.Thorough()]
	keys := make([]string, 0, len(col.best))
	for k := range col.best {
		keys = append(keys, k)
	}
	sort.Strings(keys)
	for _, k := range keys {
		f := col.best[k]
		run.Violation(f.key, f.what, f.replay)
	}
	run.Sample(map[string]any{"type": "stakepool.StakePool", "value": `Pools["k1"].Balance = 0xffffffffffffffff and Settings.ServiceChargeRatio = 0.1`})
	run.Sample(map[string]any{"type": "storagesc.StorageAllocation(v2)", "value": `BlobberAllocs[0].Terms.WritePrice = 0x20000000000001`})
	run.Sample(map[string]any{"type": "block.MagicBlock", "value": `Miners.NodesMap = map of 2`})
	run.Assumptions = c08Assumptions
	run.Finish()
}

func c08List(entries []c08Entry) {
	for i := range entries {
		e := &entries[i]
		root := c08Root(e, e.New())
		var ls []c08Leaf
		c08Leaves(root.Type(), e, nil, "", map[reflect.Type]int{}, 0, &ls)
		fmt.Printf("%-50s %3d leaf positions\n", e.Name, len(ls))
		for _, l := range ls {
			fmt.Printf("      %-60s %s\n", c08PathString(l.path), l.typ)
		}
	}
	// struct types with unexported, untagged fields of serializable kinds
	seen := map[reflect.Type]bool{}
	var walk func(t reflect.Type, d int)
	walk = func(t reflect.Type, d int) {
		if d > 8 || seen[t] {
			return
		}
		seen[t] = true
		switch t.Kind() {
		case reflect.Ptr, reflect.Slice, reflect.Array, reflect.Map:
			walk(t.Elem(), d+1)
		case reflect.Struct:
			if t == c08TimeType {
				return
			}
			for i := 0; i < t.NumField(); i++ {
				f := t.Field(i)
				tag, _ := f.Tag.Lookup("msg")
				if !f.IsExported() && tag != "-" && c08KindOK(f.Type, 0) {
					fmt.Printf("UNEXPORTED-UNTAGGED %s.%s.%s %s (serialized=%v)\n", t.PkgPath(), t.Name(), f.Name, f.Type, c08UnexportedSerialized[t.PkgPath()+"."+t.Name()])
				}
				if f.IsExported() && tag != "-" && !c08KindOK(f.Type, 0) {
					fmt.Printf("EXPORTED-UNSERIALIZABLE-KIND %s.%s.%s %s\n", t.PkgPath(), t.Name(), f.Name, f.Type)
				}
				walk(f.Type, d+1)
			}
		}
	}
	for i := range entries {
		walk(c08Root(&entries[i], entries[i].New()).Type(), 0)
	}
}
