// C07 (part "clone") — "mutating a value returned by a read never changes what later reads
// return", at the place where that is decided: the Clone / CopyFrom methods that make a stored
// type a statecache.Value.
//
// Every type of the C08 registry is tested dynamically for statecache.Value (Clone() Value,
// CopyFrom(interface{}) bool), so a type that gains these methods is picked up by itself. For
// each such type the C08 value alphabet is enumerated (zero value, every serialized leaf position
// over its kind's boundary alphabet; thorough: also all pairs over the reduced alphabets) and for
// every value x:
//
//	c := x.Clone()                    c equals x
//	deep-mutate c                     x unchanged (same encoding, field-wise equal)    [cache Get]
//	c2 := x.Clone(); deep-mutate x    c2 unchanged                                     [cache Set]
//	y := new(T); y.CopyFrom(x.Clone()) reports true, y equals x                         [GetTrieNode]
//	deep-mutate y                     x unchanged
//
// Every cache of github.com/0chain/common/core/statecache hands out value.Clone() and
// StateContext.GetTrieNode copies that private clone into the caller's object with CopyFrom, so
// Clone must be deep while CopyFrom may legally share memory with its (private) source; whether
// a type's CopyFrom does share is recorded in the evidence, not reported.
package main

import (
	"bytes"
	"fmt"
	"reflect"
	"runtime"
	"sort"
	"sync"
	"time"
	"unsafe"

	"github.com/0chain/common/core/statecache"

	"verif/lib/ev"
)

// c07Mutate changes every reachable position of v (addressable) in place: scalars get another
// value, byte slices are flipped, maps get an extra key and their entries mutated, slices /
// pointers / wrappers are followed.
func c07Mutate(v reflect.Value, e *c08Entry, depth int) {
	if depth > 12 {
		return
	}
	t := v.Type()
	switch {
	case t == c08TimeType:
		p := (*time.Time)(unsafe.Pointer(v.UnsafeAddr()))
		*p = p.Add(time.Second)
	case c08IsWrapper(t):
		if ent := v.Addr().Interface().(c08WrapperI).Entity(); ent != nil {
			c07Mutate(reflect.ValueOf(ent).Elem(), e, depth+1)
		}
	case t.Kind() == reflect.Struct:
		for i := 0; i < t.NumField(); i++ {
			if c08Serialized(t, t.Field(i), e) {
				c07Mutate(c08Settable(v.Field(i)), e, depth+1)
			}
		}
	case t.Kind() == reflect.Ptr:
		if !v.IsNil() {
			c07Mutate(v.Elem(), e, depth+1)
		}
	case t.Kind() == reflect.Slice && t.Elem().Kind() == reflect.Uint8:
		for i := 0; i < v.Len(); i++ {
			v.Index(i).SetUint(v.Index(i).Uint() ^ 0x5a)
		}
	case t.Kind() == reflect.Slice || t.Kind() == reflect.Array:
		for i := 0; i < v.Len(); i++ {
			c07Mutate(v.Index(i), e, depth+1)
		}
	case t.Kind() == reflect.Map:
		if v.IsNil() {
			return
		}
		for _, k := range v.MapKeys() {
			el := v.MapIndex(k)
			if el.Kind() == reflect.Ptr {
				if !el.IsNil() {
					c07Mutate(el.Elem(), e, depth+1)
				}
				continue
			}
			tmp := reflect.New(t.Elem()).Elem()
			tmp.Set(el)
			c07Mutate(tmp, e, depth+1)
			v.SetMapIndex(k, tmp)
		}
		v.SetMapIndex(reflect.ValueOf("~mutated").Convert(t.Key()), c08Sample(t.Elem(), e, "", 3, 2))
	case t.Kind() == reflect.String:
		v.SetString(v.String() + "~")
	case t.Kind() == reflect.Bool:
		v.SetBool(!v.Bool())
	case t.Kind() >= reflect.Int && t.Kind() <= reflect.Int64:
		v.SetInt(v.Int() ^ 1)
	case t.Kind() >= reflect.Uint && t.Kind() <= reflect.Uint64:
		v.SetUint(v.Uint() ^ 1)
	case t.Kind() == reflect.Float32 || t.Kind() == reflect.Float64:
		if f := v.Float(); f == f && f+1 != f {
			v.SetFloat(f + 1)
		} else {
			v.SetFloat(0.5)
		}
	}
}

type c07Value interface {
	c08Codec
	statecache.Value
}

// c07CheckValue runs the clone protocol on the value produced by build (called several times:
// the generator is deterministic, so every call yields an identical, independent value).
func c07CheckValue(e *c08Entry, build func() c08Codec, desc string, rank int64, col *c08Collector, aliasing *bool) (outcome string) {
	name := "C07:clone:" + e.Name
	report := func(class, what string) string {
		col.add(c08Finding{name + ":" + class, fmt.Sprintf("%s with %s: %s", e.Name, desc, what), rank,
			map[string]any{"type": e.Name, "value": desc, "procedure": "x := zero value with the listed fields set; c := x.Clone(); mutate every reachable position of c through reflection; compare x with an identical, untouched value"}})
		return class
	}
	defer func() {
		if p := recover(); p != nil {
			outcome = report("panic", fmt.Sprintf("panic: %.200v", p))
		}
	}()
	fresh := func() c07Value {
		x := build()
		if e.Fix != nil {
			e.Fix(c08Root(e, x))
		}
		return x.(c07Value)
	}
	same := func(a, b c08Codec) *c08Diff { return c08Equal(c08Root(e, a), c08Root(e, b), e, "", e.Name+".(value)") }
	ref := fresh()
	b0, err := ref.MarshalMsg(nil)
	if err != nil {
		return "encode-error"
	}
	unchanged := func(x c08Codec) (bool, string) {
		if d := same(x, ref); d != nil {
			return false, d.path
		}
		b, err := x.MarshalMsg(nil)
		if err != nil || !bytes.Equal(b, b0) {
			return false, "(encoding)"
		}
		return true, ""
	}
	asCodec := func(v statecache.Value) (c07Value, bool) {
		c, ok := v.(c07Value)
		return c, ok && reflect.TypeOf(v) == reflect.TypeOf(ref)
	}

	// ---- Get path: the clone handed out must not share memory with the cached value
	x := fresh()
	c, ok := asCodec(x.Clone())
	if !ok {
		return report("clone-of-other-type", fmt.Sprintf("Clone returned %T", x.Clone()))
	}
	if d := same(c, ref); d != nil {
		return report("clone-not-equal", fmt.Sprintf("Clone() differs from the value at %s", d.path))
	}
	c07Mutate(c08Root(e, c), e, 0)
	if ok, where := unchanged(x); !ok {
		return report("clone-shares-memory", fmt.Sprintf("mutating the Clone() changed the original at %s", where))
	}
	// ---- Set path: the clone kept by the cache must not follow later mutations of the caller's object
	x = fresh()
	c, _ = asCodec(x.Clone())
	c07Mutate(c08Root(e, x), e, 0)
	if ok, where := unchanged(c); !ok {
		return report("clone-shares-memory", fmt.Sprintf("mutating the original changed its earlier Clone() at %s", where))
	}
	// ---- GetTrieNode: CopyFrom(private clone) into the caller's object
	x = fresh()
	y := e.New().(c07Value)
	if !y.CopyFrom(x.Clone()) {
		return report("copyfrom-refuses-own-type", "CopyFrom(x.Clone()) returned false")
	}
	if d := same(y, ref); d != nil {
		return report("copyfrom-not-equal", fmt.Sprintf("after CopyFrom the value differs at %s", d.path))
	}
	c07Mutate(c08Root(e, y), e, 0)
	if ok, where := unchanged(x); !ok {
		return report("read-shares-memory", fmt.Sprintf("mutating the object filled by CopyFrom(x.Clone()) changed x at %s", where))
	}
	// ---- informational: does CopyFrom alias its source?
	x = fresh()
	y = e.New().(c07Value)
	if y.CopyFrom(x) {
		c07Mutate(c08Root(e, y), e, 0)
		if ok, _ := unchanged(x); !ok {
			*aliasing = true
		}
	}
	return "ok"
}

func c07CloneMain() {
	run := ev.Start("C07")
	entries := c08Registry()
	col := &c08Collector{best: map[string]c08Finding{}}
	workers := runtime.NumCPU()
	if workers > 16 {
		workers = 16
	}
	type res struct {
		implements bool
		values     int64
		aliasing   bool
		outcomes   map[string]struct{}
	}
	results := make([]res, len(entries))
	var wg sync.WaitGroup
	sem := make(chan struct{}, workers)
	for i := range entries {
		wg.Add(1)
		sem <- struct{}{}
		go func(i int) {
			defer wg.Done()
			defer func() { <-sem }()
			e := &entries[i]
			if _, ok := e.New().(statecache.Value); !ok {
				return
			}
			r := res{implements: true, outcomes: map[string]struct{}{}}
			root := c08Root(e, e.New())
			var ls []c08Leaf
			c08Leaves(root.Type(), e, nil, "", map[reflect.Type]int{}, 0, &ls)
			rank := int64(i) << 40
			do := func(desc string, set func(x c08Codec)) {
				rank++
				r.values++
				o := c07CheckValue(e, func() c08Codec {
					x := e.New()
					c08Defaults(c08Root(e, x), e, 0)
					set(x)
					return x
				}, desc, rank, col, &r.aliasing)
				r.outcomes[e.Name+"|"+o] = struct{}{}
			}
			do("the zero value", func(c08Codec) {})
			for li := range ls {
				l := ls[li]
				alpha := c08Alphabet(l, e, false)
				for vi := range alpha {
					vi := vi
					do(fmt.Sprintf("%s = %s", c08PathString(l.path), c08ShortValue(alpha[vi])), func(x c08Codec) {
						// a fresh alphabet value per build: values (maps, pointers) must not be shared between builds
						val := c08Alphabet(l, e, false)[vi]
						c08Mutate(e, c08Root(e, x), l.path, func(pos reflect.Value) { pos.Set(val) })
					})
				}
			}
			if run.Thorough() {
				for a := 0; a < len(ls); a++ {
					for b := a + 1; b < len(ls); b++ {
						na, nb := len(c08Alphabet(ls[a], e, true)), len(c08Alphabet(ls[b], e, true))
						for va := 0; va < na; va++ {
							for vb := 0; vb < nb; vb++ {
								la, lb, va, vb := ls[a], ls[b], va, vb
								do(fmt.Sprintf("%s and %s (reduced values %d, %d)", c08PathString(la.path), c08PathString(lb.path), va, vb), func(x c08Codec) {
									c08Mutate(e, c08Root(e, x), la.path, func(pos reflect.Value) { pos.Set(c08Alphabet(la, e, true)[va]) })
									c08Mutate(e, c08Root(e, x), lb.path, func(pos reflect.Value) { pos.Set(c08Alphabet(lb, e, true)[vb]) })
								})
							}
						}
					}
				}
			}
			results[i] = r
		}(i)
	}
	wg.Wait()
	var impl, aliasing []string
	var total int64
	for i, r := range results {
		if !r.implements {
			continue
		}
		impl = append(impl, entries[i].Name)
		if r.aliasing {
			aliasing = append(aliasing, entries[i].Name)
		}
		total += r.values
		for k := range r.outcomes {
			run.Outcome(k)
		}
	}
	sort.Strings(impl)
	run.Add(int64(len(impl)), total*4, total)
	run.Extra["registered_types"] = len(entries)
	run.Extra["types_implementing_statecache_Value"] = impl
	run.Extra["types_whose_CopyFrom_shares_memory_with_its_source"] = aliasing
	run.Rule = "every type of the C08 registry that implements statecache.Value (found dynamically) x the C08 value alphabet (zero value, every serialized leaf position over its kind's boundary alphabet; thorough: also all pairs over the reduced alphabets); per value: Clone equal, deep mutation of the clone leaves the original unchanged and vice versa, CopyFrom(Clone) reports true / equal / independent of the original; distinct = distinct (type, outcome)"
	run.Bounds["alphabets"] = "those of C08"
	keys := make([]string, 0, len(col.best))
	for k := range col.best {
		keys = append(keys, k)
	}
	sort.Strings(keys)
	for _, k := range keys {
		f := col.best[k]
		run.Violation(f.key, f.what, f.replay)
	}
	run.Sample(map[string]any{"type": "partitions.Partitions", "value": "Last = &partition{Items: 1 item}"})
	run.Sample(map[string]any{"type": "minersc.MinerNode", "value": `StakePool.Pools = map of 2`})
	run.Assumptions = append([]string{
		"a read is Clone() by the cache followed by CopyFrom(that clone) into the caller's object (TransactionCache/BlockCache/StateCache.Get and StateContext.GetTrieNode); CopyFrom sharing memory with its private source is therefore legal and only recorded",
		"mutation = every reachable serialized position changed in place through reflection (scalars changed, byte slices flipped, maps given an extra key, pointers / slices / map entries / entity wrappers followed)",
	}, c08Assumptions...)
	run.Finish()
}
