// C20 (part "chain") — the burn tickets and authorizer totals of the query database against the
// burns that were really executed in a block.
//
// Unlike part "db", the events are not built by the harness: every block is made of real zcnsc
// burn transactions executed through the real Chain.UpdateState on a real chain (verif/lib/world),
// several transactions in ONE block, and the events the chain returns for them are pushed through
// the real EventDb.ProcessEvents on the in-memory sqlite event DB. A change of what the contract
// emits (tag, index, data) is therefore part of what is checked.
package main

import (
	"context"
	"encoding/json"
	"fmt"
	"sort"
	"strings"

	"0chain.net/chaincore/transaction"
	"0chain.net/core/common"
	"0chain.net/core/config"
	"0chain.net/smartcontract/dbs/event"
	"0chain.net/smartcontract/zcnsc"
	"github.com/0chain/common/core/currency"

	"verif/lib/ev"
	"verif/lib/world"
)

type c20Burn struct {
	Client string `json:"client"`
	Eth    string `json:"ethereum_address"`
	Amount uint64 `json:"amount"`
}

func (b c20Burn) String() string {
	return fmt.Sprintf("burn(client=%s,eth=%s..,amount=%d)", b.Client, b.Eth[:6], b.Amount)
}

const (
	c20EthA = "0xAAaaAAaaAAaaAAaaAAaaAAaaAAaaAAaaAAaaAAaa"
	c20EthB = "0xBBbbBBbbBBbbBBbbBBbbBBbbBBbbBBbbBBbbBBbb"
)

func c20chainMain() {
	run := ev.Start("C20")
	maxLen := run.Pick(3, 4)
	// 1 ZCN = 1e10; min_burn is given in ZCN
	w := world.New(world.Options{SC: map[string]any{"smart_contracts.zcnsc.min_burn": 0.0000001}})
	defer w.Close()
	common.SetupRootContext(context.Background())
	edb, err := event.NewInMemoryEventDb(config.DbAccess{}, config.DbSettings{
		PartitionChangePeriod:          1 << 40,
		PermanentPartitionChangePeriod: 1 << 40,
		PartitionKeepCount:             10,
	})
	if err != nil {
		ev.Fatal("in-memory event db: %v", err)
	}
	seam := &c20Seam{}
	if err := seam.install(edb.Store.Get()); err != nil {
		ev.Fatal("install seam: %v", err)
	}
	noStore := func(event.BlockEvents) error { return nil }

	clients := []*world.Actor{w.Actors["c0"], w.Actors["c1"]}
	if clients[0] == nil || clients[1] == nil {
		ev.Fatal("world has no clients c0, c1")
	}
	// the burning clients are registered as authorizers in the query DB so that the total_burn
	// the handler maintains for the burner is observable
	var setup []event.Event
	for _, c := range clients {
		setup = append(setup, event.Event{BlockNumber: 1, TxHash: "add-" + c.Name, Type: event.TypeStats, Tag: event.TagAddAuthorizer, Index: c.ID, Version: event.Version1,
			Data: &event.Authorizer{Provider: event.Provider{ID: c.ID, DelegateWallet: c.ID, Rewards: event.ProviderRewards{ProviderID: c.ID}}, URL: "http://" + c.Name}})
	}
	if _, _, err := edb.ProcessEvents(context.Background(), setup, 1, "setup-block", len(setup), noStore, event.CommitNow()); err != nil {
		ev.Fatal("adding authorizers: %v", err)
	}

	// alphabet: 2 clients x 2 Ethereum addresses, every letter with its own amount (>= min_burn)
	var alpha []c20Burn
	amt := uint64(1000)
	for _, c := range []string{"c0", "c1"} {
		for _, a := range []string{c20EthA, c20EthB} {
			alpha = append(alpha, c20Burn{c, a, amt}, c20Burn{c, a, amt + 500})
			amt += 1000
		}
	}
	run.Rule = fmt.Sprintf("every block of 1..%d distinct burn transactions over %d letters (2 clients x 2 Ethereum addresses x 2 amounts) in every order; each block = real zcnsc.burn transactions executed by the real Chain.UpdateState in ONE block on top of genesis, the events returned by the chain processed by the real EventDb.ProcessEvents on the in-memory sqlite event DB; distinct = distinct resulting (burn_tickets, total_burn) contents", maxLen, len(alpha))
	run.Bounds["max_burns_per_block"] = maxLen
	var names []string
	for _, b := range alpha {
		names = append(names, b.String())
	}
	run.Bounds["alphabet"] = names

	var lists [][]int
	var gen func(prefix []int, n int)
	gen = func(prefix []int, n int) {
		if len(prefix) == n {
			lists = append(lists, append([]int{}, prefix...))
			return
		}
		for i := range alpha {
			used := false
			for _, p := range prefix {
				used = used || p == i
			}
			if !used {
				gen(append(prefix, i), n)
			}
		}
	}
	for n := 1; n <= maxLen; n++ {
		gen(nil, n)
	}

	genesis := w.GenesisNode()
	reported := map[string]bool{}
	filtered := false
	bridgeOnly := func(evs []event.Event) []event.Event {
		var out []event.Event
		for _, e := range evs {
			if e.Tag == event.TagAddBurnTicket || e.Tag == event.TagAuthorizerBurn || e.Tag == event.TagAddBridgeMint {
				out = append(out, e)
			}
		}
		return out
	}
	tagsSeen := map[string]bool{}
	for li, l := range lists {
		var desc []string
		var burns []c20Burn
		for _, i := range l {
			burns = append(burns, alpha[i])
			desc = append(desc, alpha[i].String())
		}
		violate := func(key, what string) {
			if reported[key] {
				return
			}
			reported[key] = true
			run.Violation(key, fmt.Sprintf("one block with the transactions %v: %s", desc, what), map[string]any{"burn_transactions_in_block_order": burns, "procedure": "world.Open(genesis); world.Exec each zcnsc.burn txn in that one block; EventDb.ProcessEvents(all returned events) on in-memory sqlite; GetBurnTickets / GetAuthorizer"})
		}
		// ---- the block, on the real chain
		now := genesis.Block.CreationDate + 10
		n := w.Open(genesis, 1, now, w.Miners[0], 1001, fmt.Sprintf("c20chain-%d", li))
		nonce := map[string]int64{}
		type done struct {
			b     c20Burn
			hash  string
			nonce int64 // burn nonce reported by the contract for this burn
		}
		var executed []done
		var blockEvents []event.Event
		burnCount := map[string]int64{}
		for _, b := range burns {
			a := w.Actors[b.Client]
			_, cur := world.Balance(n.State, a.ID)
			nonce[a.ID] = cur + 1
			t := w.Txn(world.TxnSpec{From: a, To: zcnsc.ADDRESS, Type: transaction.TxnTypeSmartContract, Value: currency.Coin(b.Amount), Nonce: nonce[a.ID],
				Data: world.SC("burn", map[string]string{"ethereum_address": b.Eth}), Time: now})
			evs, err := w.Exec(n, t)
			run.Add(0, 1, 0)
			if err != nil {
				ev.Fatal("burn transaction %v not accepted into the block: %v", b, err)
			}
			if t.Status != transaction.TxnSuccess {
				ev.Fatal("burn transaction %v failed: %s", b, t.TransactionOutput)
			}
			// the burn as executed: the contract's own response carries its nonce (burn nonces count per
			// Ethereum address), amount and address
			var resp zcnsc.BurnPayloadResponse
			if err := json.Unmarshal([]byte(t.TransactionOutput), &resp); err != nil {
				ev.Fatal("burn output %q: %v", t.TransactionOutput, err)
			}
			if resp.EthereumAddress != b.Eth || uint64(resp.Amount) != b.Amount {
				ev.Fatal("burn response %+v does not match the transaction %v", resp, b)
			}
			burnCount[b.Eth]++
			if resp.Nonce != burnCount[b.Eth] {
				violate("C20:chain:burn:nonce-not-consecutive", fmt.Sprintf("burn number %d to %s got nonce %d", burnCount[b.Eth], b.Eth, resp.Nonce))
			}
			executed = append(executed, done{b, t.Hash, resp.Nonce})
			blockEvents = append(blockEvents, evs...)
		}
		for _, e := range blockEvents {
			tagsSeen[e.Tag.String()] = true
		}
		// ---- the query database
		db := edb.Store.Get()
		for _, q := range []string{"DELETE FROM burn_tickets", "DELETE FROM users", "DELETE FROM transactions"} {
			if err := db.Exec(q).Error; err != nil {
				ev.Fatal("%s: %v", q, err)
			}
		}
		if err := db.Exec("UPDATE authorizers SET total_mint = ?, total_burn = ?", c20BaseMint, c20BaseBurn).Error; err != nil {
			ev.Fatal("reset authorizers: %v", err)
		}
		seam.errs, seam.dupTargets, seam.captured = nil, nil, nil
		round := int64(100 + li)
		toStore := blockEvents
		if filtered {
			toStore = bridgeOnly(blockEvents)
		}
		_, _, perr := edb.ProcessEvents(context.Background(), toStore, round, n.Block.Hash, len(burns), noStore, event.CommitNow())
		if perr != nil && !filtered {
			// some handler of a non-bridge event does not run on sqlite: keep the bridge events only
			filtered = true
			run.Extra["events_given_to_the_db"] = "bridge events only (TagAddBurnTicket, TagAuthorizerBurn, TagAddBridgeMint): a handler of another event of the block does not run on sqlite"
			seam.errs, seam.dupTargets, seam.captured = nil, nil, nil
			_, _, perr = edb.ProcessEvents(context.Background(), bridgeOnly(blockEvents), round+1_000_000, n.Block.Hash, len(burns), noStore, event.CommitNow())
		}
		run.Add(1, 0, 1)
		if len(seam.errs) > 0 {
			ev.Fatal("unnest seam: %v", seam.errs)
		}
		if perr != nil {
			violate("C20:chain:ProcessEvents:block-rejected", fmt.Sprintf("ProcessEvents failed, nothing of the block is stored: %v", perr))
			continue
		}
		// ---- expected, from the burns executed in the block
		type ticket struct {
			eth, hash string
			amount    uint64
			nonce     int64
		}
		want := map[ticket]bool{}
		burnsTo := map[string]int{}
		burnsOf := map[string]int{}
		wantBurn := map[string]uint64{}
		for _, d := range executed {
			want[ticket{d.b.Eth, d.hash, d.b.Amount, d.nonce}] = true
			burnsTo[d.b.Eth]++
			id := w.Actors[d.b.Client].ID
			burnsOf[id]++
			wantBurn[id] += d.b.Amount
		}
		got := map[ticket]bool{}
		var gotAll []string
		for _, addr := range []string{c20EthA, c20EthB} {
			rows, err := edb.GetBurnTickets(addr)
			if err != nil {
				ev.Fatal("GetBurnTickets: %v", err)
			}
			for _, r := range rows {
				k := ticket{r.EthereumAddress, r.Hash, uint64(r.Amount), r.Nonce}
				if got[k] {
					violate("C20:chain:burn_tickets:duplicate-row", fmt.Sprintf("ticket %+v stored twice", k))
				}
				got[k] = true
				gotAll = append(gotAll, fmt.Sprintf("(%s..,%d,nonce %d)", k.eth[:6], k.amount, k.nonce))
				if !want[k] {
					violate("C20:chain:burn_tickets:ticket-matches-no-burn", fmt.Sprintf("stored ticket (eth %s, txn %s.., amount %d, nonce %d) is not the ticket of any burn executed in the block", k.eth, k.hash[:8], k.amount, k.nonce))
				}
			}
		}
		sort.Strings(gotAll)
		for wt := range want {
			if got[wt] {
				continue
			}
			misfield := false
			for g := range got {
				if g.hash == wt.hash {
					misfield = true // reported above as ticket-matches-no-burn
				}
			}
			switch {
			case misfield:
			case burnsTo[wt.eth] > 1:
				violate("C20:db:burn_tickets:burn-with-same-address-missing", fmt.Sprintf("%d burns to %s in the block; burn_tickets holds %v", burnsTo[wt.eth], wt.eth, gotAll))
			default:
				violate("C20:chain:burn_tickets:burn-to-distinct-address-missing", fmt.Sprintf("the burn of %d to %s (no other burn of the block goes to that address) has no ticket; burn_tickets holds %v", wt.amount, wt.eth, gotAll))
			}
		}
		var totals []string
		for _, c := range clients {
			a, err := edb.GetAuthorizer(c.ID)
			if err != nil {
				ev.Fatal("GetAuthorizer: %v", err)
			}
			grew := int64(a.TotalBurn) - c20BaseBurn
			totals = append(totals, fmt.Sprintf("%s:burn+%d", c.Name, grew))
			if grew != int64(wantBurn[c.ID]) {
				if burnsOf[c.ID] > 1 && grew < int64(wantBurn[c.ID]) {
					violate("C20:db:authorizer-total-burn:same-client-counted-once", fmt.Sprintf("%s burned %d times in the block for %d in total, its total_burn grew by %d", c.Name, burnsOf[c.ID], wantBurn[c.ID], grew))
				} else {
					violate("C20:chain:authorizer-total-burn:wrong", fmt.Sprintf("%s: burns of the block sum to %d, total_burn grew by %d", c.Name, wantBurn[c.ID], grew))
				}
			}
		}
		run.Outcome(strings.Join(gotAll, " ") + " | " + strings.Join(totals, " "))
		if li%211 == 9 {
			run.Sample(desc)
		}
	}
	var tags []string
	for t := range tagsSeen {
		tags = append(tags, t)
	}
	sort.Strings(tags)
	run.Extra["event_tags_emitted_by_the_chain"] = tags
	if !filtered {
		run.Extra["events_given_to_the_db"] = "all events the chain returned for the block's transactions"
	}
	run.Extra["postgres_only_statements_intercepted"] = seam.statements
	run.Assumptions = []string{
		"every block is built on top of genesis (sibling blocks), so blocks are independent; a burn's nonce is the one the contract reports in the transaction output (burn nonces count per Ethereum address)",
		"the burning clients are registered authorizers in the query DB (TagAddAuthorizer), as in part db; PostgreSQL-only UPDATE .. unnest statements are executed through the same driver-level seam as in part db",
		"burn_tickets, users, transactions and the authorizer totals are reset between blocks",
	}
	run.Finish()
}
