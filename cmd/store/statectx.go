package main

import (
	"0chain.net/chaincore/block"
	cstate "0chain.net/chaincore/chain/state"
	"0chain.net/chaincore/transaction"
	"github.com/0chain/common/core/statecache"
	"github.com/0chain/common/core/util"

	"verif/lib/ev"
)

// newMPT returns a fresh in-memory Merkle-Patricia trie with an empty transaction cache, the way
// the repository's own tests build one.
func newMPT() util.MerklePatriciaTrieI {
	return util.NewMerklePatriciaTrie(util.NewMemoryNodeDB(), 1, nil, statecache.NewEmpty())
}

// newStateContext builds a real chain state context (chaincore/chain/state.StateContext) over
// mpt for a block of the given round.
func newStateContext(mpt util.MerklePatriciaTrieI, round int64) *cstate.StateContext {
	b := &block.Block{}
	b.Round = round
	txn := &transaction.Transaction{}
	txn.Hash = "00000000000000000000000000000000000000000000000000000000000000aa"
	return cstate.NewStateContext(b, mpt, txn,
		func(int64) *block.MagicBlock { return nil },
		func() *block.Block { return b },
		func() *block.MagicBlock { return nil },
		nil,
		func() *block.Block { return b },
		nil)
}

// activateHardForks stores the named hard forks as active from round 0.
func activateHardForks(ctx *cstate.StateContext, names ...string) {
	for _, n := range names {
		h := cstate.NewHardFork(n, 0)
		if _, err := ctx.InsertTrieNode(h.GetKey(), h); err != nil {
			ev.Fatal("hard fork %s: %v", n, err)
		}
	}
}
