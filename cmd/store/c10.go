// C10 — reward distribution splits the amount exactly.
//
// The real StakePool.DistributeRewards, StakePool.DistributeRewardsRandN and
// equallyDistributeRewards are called on real StakePool values with a real chain state context;
// the complete product of a small boundary alphabet (amount x service charge x delegate balances
// x eligibility x subset size x seed x hard-fork activation) is enumerated and every call is
// judged by a big-integer reference written from the statement.
package main

import (
	"fmt"
	"math/big"
	"runtime"
	"sort"
	"strings"
	"sync"

	cstate "0chain.net/chaincore/chain/state"
	"0chain.net/core/config"
	"0chain.net/smartcontract/stakepool"
	"0chain.net/smartcontract/stakepool/spenum"
	"github.com/0chain/common/core/currency"

	"verif/lib/ev"
)

type c10Case struct {
	Fn       string   `json:"function"`
	Value    uint64   `json:"value"`
	Charge   float64  `json:"service_charge_ratio"`
	Balances []uint64 `json:"delegate_balances"` // pool ids / delegate ids p0, p1, ... in this order
	MinStake uint64   `json:"min_stake"`
	Killed   bool     `json:"killed"`
	RandN    int      `json:"rand_n,omitempty"`
	Seed     int64    `json:"seed,omitempty"`
	Demeter  bool     `json:"demeter_active,omitempty"`
	rank     []int64
}

const c10InitReward = 3 // every Reward field starts at 3 so that increments, not absolutes, are observed

type c10Result struct {
	err      error
	panicked any
	incSP    *big.Int
	inc      []*big.Int
}

func c10Big(u uint64) *big.Int { return new(big.Int).SetUint64(u) }

func c10Run(c *c10Case, ctxOn, ctxOff func() *cstate.StateContext) (res c10Result) {
	sp := stakepool.NewStakePool()
	sp.Settings.ServiceChargeRatio = c.Charge
	sp.Settings.MinStake = currency.Coin(c.MinStake)
	sp.Settings.DelegateWallet = "wallet"
	sp.Settings.MaxNumDelegates = 10
	sp.HasBeenKilled = c.Killed
	sp.Reward = c10InitReward
	ids := make([]string, len(c.Balances))
	for i, b := range c.Balances {
		ids[i] = fmt.Sprintf("p%d", i)
		sp.Pools[ids[i]] = &stakepool.DelegatePool{Balance: currency.Coin(b), Reward: c10InitReward, Status: spenum.Active, DelegateID: ids[i]}
	}
	ctx := ctxOff()
	if c.Demeter {
		ctx = ctxOn()
	}
	func() {
		defer func() {
			if p := recover(); p != nil {
				res.panicked = p
			}
		}()
		switch c.Fn {
		case "DistributeRewards":
			res.err = sp.DistributeRewards(currency.Coin(c.Value), "provider", spenum.Blobber, spenum.BlockRewardBlobber, ctx)
		case "DistributeRewardsRandN":
			res.err = sp.DistributeRewardsRandN(currency.Coin(c.Value), "provider", spenum.Miner, c.Seed, c.RandN, spenum.BlockRewardMiner, ctx)
		}
	}()
	res.incSP = new(big.Int).Sub(c10Big(uint64(sp.Reward)), big.NewInt(c10InitReward))
	for _, id := range ids {
		res.inc = append(res.inc, new(big.Int).Sub(c10Big(uint64(sp.Pools[id].Reward)), big.NewInt(c10InitReward)))
	}
	return
}

type c10Finding struct {
	key, what string
	c         c10Case
}

type c10Collector struct {
	mu   sync.Mutex
	best map[string]c10Finding
}

func c10Less(a, b []int64) bool {
	for i := range a {
		if i >= len(b) {
			return false
		}
		if a[i] != b[i] {
			return a[i] < b[i]
		}
	}
	return len(a) < len(b)
}

func (col *c10Collector) add(key, what string, c *c10Case) {
	col.mu.Lock()
	defer col.mu.Unlock()
	if old, ok := col.best[key]; ok && !c10Less(c.rank, old.c.rank) {
		return
	}
	cc := *c
	cc.Balances = append([]uint64{}, c.Balances...)
	cc.rank = append([]int64{}, c.rank...)
	col.best[key] = c10Finding{key, what, cc}
}

// c10Judge applies the statement to one finished call.
func c10Judge(c *c10Case, r c10Result, col *c10Collector) (outcome string) {
	n := len(c.Balances)
	if r.panicked != nil {
		msg := fmt.Sprint(r.panicked)
		if strings.Contains(msg, "distribute rewards error") {
			col.add("C10:"+c.Fn+":exactness-assertion-panic", fmt.Sprintf("%s panicked with its own exactness assertion: %.120s", c.Fn, msg), c)
		} else {
			col.add("C10:"+c.Fn+":panic", fmt.Sprintf("%s panicked: %.160s", c.Fn, msg), c)
		}
		return "panic"
	}
	if r.err != nil {
		return "error:" + r.err.Error()
	}
	total := new(big.Int).Set(r.incSP)
	credited := 0
	stakeCredited := new(big.Int)
	neg := r.incSP.Sign() < 0
	for i, d := range r.inc {
		total.Add(total, d)
		if d.Sign() > 0 {
			credited++
			stakeCredited.Add(stakeCredited, c10Big(c.Balances[i]))
		}
		if d.Sign() < 0 {
			neg = true
		}
	}
	if neg {
		col.add("C10:"+c.Fn+":reward-decreased", fmt.Sprintf("a Reward field decreased (wrapped): provider %v delegates %v", r.incSP, r.inc), c)
		return "decrease"
	}
	stake := new(big.Int)
	for _, b := range c.Balances {
		stake.Add(stake, c10Big(b))
	}
	eligible := !c.Killed && stake.Cmp(c10Big(c.MinStake)) >= 0
	value := c10Big(c.Value)
	if eligible && r.incSP.Cmp(value) > 0 {
		col.add("C10:"+c.Fn+":service-charge-exceeds-amount", fmt.Sprintf("paid %d, provider's service charge alone is +%v (delegates +%v, total %v)", c.Value, r.incSP, r.inc, total), c)
		return "charge-exceeds-amount"
	}
	if eligible && n > 0 && stake.Sign() == 0 {
		// delegates exist but nothing is staked: whether this counts as "under-staked" is open,
		// so only "never more than the amount" is required
		if total.Cmp(value) > 0 {
			col.add("C10:"+c.Fn+":zero-stake-overpaid", fmt.Sprintf("paid %d, credited %v", c.Value, total), c)
		}
		return "zero-total-stake"
	}
	if !eligible {
		if total.Sign() != 0 {
			col.add("C10:"+c.Fn+":ineligible-provider-credited", fmt.Sprintf("killed=%v stake=%v min_stake=%d yet provider +%v delegates +%v", c.Killed, stake, c.MinStake, r.incSP, r.inc), c)
		}
		return "ineligible"
	}
	if c.Fn == "DistributeRewardsRandN" {
		limit := c.RandN
		if limit < 0 {
			limit = 0
		}
		if credited > limit {
			col.add("C10:DistributeRewardsRandN:more-than-N-credited", fmt.Sprintf("N=%d but %d delegates credited: %v", c.RandN, credited, r.inc), c)
		}
	}
	exactRequired := !(c.Fn == "DistributeRewardsRandN" && c.RandN < 1) // N < 1 is outside the statement
	if exactRequired && total.Cmp(value) != 0 {
		dir := "short"
		if total.Cmp(value) > 0 {
			dir = "excess"
		}
		shape := ""
		if n > 0 && credited == 0 {
			shape = ":no-delegate-credited"
		}
		col.add("C10:"+c.Fn+":total-"+dir+shape, fmt.Sprintf("paid %d, credited provider +%v and delegates +%v = %v", c.Value, r.incSP, r.inc, total), c)
		return "inexact-" + dir + shape
	}
	// proportionality among the credited delegates
	if credited > 0 && stakeCredited.Sign() > 0 && r.incSP.Cmp(value) <= 0 {
		left := new(big.Int).Sub(value, r.incSP)
		// tolerance: a few units per delegate plus the float64 resolution of the amount
		tol := big.NewInt(int64(2*n + 3))
		fl := new(big.Int).Mul(left, big.NewInt(int64(n+2)))
		fl.Rsh(fl, 50)
		tol.Add(tol, fl)
		for i, d := range r.inc {
			if d.Sign() == 0 {
				continue
			}
			want := new(big.Int).Mul(left, c10Big(c.Balances[i]))
			want.Quo(want, stakeCredited)
			diff := new(big.Int).Sub(d, want)
			if diff.Abs(diff).Cmp(tol) > 0 {
				col.add("C10:"+c.Fn+":share-not-proportional", fmt.Sprintf("delegate p%d (stake %d of %v credited stake) got %v, proportional share of %v is %v (tolerance %v)", i, c.Balances[i], stakeCredited, d, left, want, tol), c)
				return "disproportional"
			}
		}
	}
	if c.Value <= 10 {
		return fmt.Sprintf("ok|sp+%v|%v", r.incSP, r.inc)
	}
	mask := 0
	for i, d := range r.inc {
		if d.Sign() > 0 {
			mask |= 1 << i
		}
	}
	return fmt.Sprintf("ok|charge>0=%v|credited=%b|all-to-provider=%v", r.incSP.Sign() > 0, mask, r.incSP.Cmp(value) == 0)
}

func c10Main() {
	run := ev.Start("C10")
	p53 := uint64(1) << 53
	// amounts up to the maximum token supply (config.MaxTokenSupply = 4*10^18): larger amounts cannot
	// exist on the chain; 2^53+-k probe the float64 resolution the implementation computes with
	values := []uint64{0, 1, 2, 3, 7, 10, 11, 10_000_000_001, p53 - 1, p53 + 1, p53 + 3, 1_000_000_000_000_000_007, config.MaxTokenSupply - 1, config.MaxTokenSupply}
	charges := []float64{0, 0.1, 1.0 / 3.0, 0.5, 1}
	balAlpha := []uint64{0, 1, 2, 3, 10, p53 + 1, 1 << 62}
	maxPools := 4
	maxPoolsRandN := run.Pick(3, 4)
	seeds := run.Pick(4, 8)
	run.Rule = "complete product: amount(14) x service charge(5) x ordered delegate balance vectors of length 0..4 over 7 balances (2801) x {eligible, under-staked, killed} for DistributeRewards; the same (balance vectors to length 3 quick / 4 thorough) x subset size {0,1,2,n,n+1} x seeds x {demeter hard fork active, not active} for DistributeRewardsRandN; amount x 1..4 delegates for equallyDistributeRewards. Every call on a fresh real StakePool; distinct = distinct observed outcomes (full increment vectors for amounts <= 10, outcome classes above)"
	run.Bounds["amounts"] = values
	run.Bounds["service_charge_ratios"] = charges
	run.Bounds["delegate_balances"] = balAlpha
	run.Bounds["max_delegates"] = maxPools
	run.Bounds["max_delegates_randN"] = maxPoolsRandN
	run.Bounds["seeds"] = seeds
	run.Bounds["rand_n"] = "{0,1,2,n,n+1}"

	// all ordered balance vectors
	var vectors [][]uint64
	var gen func(prefix []uint64, n int)
	gen = func(prefix []uint64, n int) {
		if len(prefix) == n {
			vectors = append(vectors, append([]uint64{}, prefix...))
			return
		}
		for _, b := range balAlpha {
			gen(append(prefix, b), n)
		}
	}
	for n := 0; n <= maxPools; n++ {
		gen(nil, n)
	}

	col := &c10Collector{best: map[string]c10Finding{}}
	workers := runtime.NumCPU()
	if workers > 16 {
		workers = 16
	}
	var wg sync.WaitGroup
	var mu sync.Mutex
	outcomes := map[string]struct{}{}
	var totalCalls int64
	for w := 0; w < workers; w++ {
		wg.Add(1)
		go func(w int) {
			defer wg.Done()
			mptOn, mptOff := newMPT(), newMPT()
			activateHardForks(newStateContext(mptOn, 100), "demeter")
			ctxOn := func() *cstate.StateContext { return newStateContext(mptOn, 100) }
			ctxOff := func() *cstate.StateContext { return newStateContext(mptOff, 100) }
			local := map[string]struct{}{}
			var calls int64
			for vi, vec := range vectors {
				if vi%workers != w {
					continue
				}
				n := len(vec)
				var stake uint64
				overflow := false
				for _, b := range vec {
					if stake+b < stake {
						overflow = true
					}
					stake += b
				}
				type flag struct {
					minStake uint64
					killed   bool
				}
				flags := []flag{{0, false}, {0, true}}
				if !overflow && stake != ^uint64(0) {
					flags = append(flags, flag{stake + 1, false})
				}
				for vali, v := range values {
					for ci, ch := range charges {
						for fi, f := range flags {
							c := c10Case{Fn: "DistributeRewards", Value: v, Charge: ch, Balances: vec, MinStake: f.minStake, Killed: f.killed,
								rank: []int64{int64(n), int64(vali), int64(vi), int64(ci), int64(fi)}}
							local["DR|"+fmt.Sprint(n)+"|"+c10Judge(&c, c10Run(&c, ctxOn, ctxOff), col)] = struct{}{}
							calls++
							if n > maxPoolsRandN {
								continue
							}
							rn := []int{0, 1, 2, n, n + 1}
							sort.Ints(rn)
							last := -1
							for _, N := range rn {
								if N == last {
									continue
								}
								last = N
								for seed := 0; seed < seeds; seed++ {
									for act := 0; act < 2; act++ {
										c := c10Case{Fn: "DistributeRewardsRandN", Value: v, Charge: ch, Balances: vec, MinStake: f.minStake, Killed: f.killed,
											RandN: N, Seed: int64(seed), Demeter: act == 1,
											rank: []int64{int64(n), int64(vali), int64(vi), int64(ci), int64(fi), int64((N + 98) % 99), int64(seed), int64(act)}} // N = 0 ranks last
										local["RN|"+fmt.Sprint(n, N)+"|"+c10Judge(&c, c10Run(&c, ctxOn, ctxOff), col)] = struct{}{}
										calls++
									}
								}
							}
						}
					}
				}
			}
			mu.Lock()
			for k := range local {
				outcomes[k] = struct{}{}
			}
			totalCalls += calls
			mu.Unlock()
		}(w)
	}
	wg.Wait()

	// equallyDistributeRewards directly: amount x 1..4 delegates (callers never pass an empty list)
	for vali, v := range values {
		for n := 1; n <= 4; n++ {
			pools := make([]*stakepool.DelegatePool, n)
			for i := range pools {
				pools[i] = &stakepool.DelegatePool{Reward: c10InitReward, DelegateID: fmt.Sprintf("p%d", i)}
			}
			upd := stakepool.NewStakePoolReward("provider", spenum.Blobber, spenum.BlockRewardBlobber, "wallet")
			c := c10Case{Fn: "equallyDistributeRewards", Value: v, Balances: make([]uint64, n), rank: []int64{int64(n), int64(vali)}}
			var err error
			var pan any
			func() {
				defer func() { pan = recover() }()
				err = stakepool.VerifEquallyDistributeRewards(currency.Coin(v), pools, upd)
			}()
			totalCalls++
			switch {
			case pan != nil:
				col.add("C10:equallyDistributeRewards:panic", fmt.Sprintf("panicked: %.160v", pan), &c)
				outcomes[fmt.Sprintf("EQ|%d|panic", n)] = struct{}{}
			case err != nil:
				outcomes[fmt.Sprintf("EQ|%d|error:%v", n, err)] = struct{}{}
			default:
				sum, sumU := new(big.Int), new(big.Int)
				var incs []string
				for _, p := range pools {
					d := new(big.Int).Sub(c10Big(uint64(p.Reward)), big.NewInt(c10InitReward))
					sum.Add(sum, d)
					sumU.Add(sumU, c10Big(uint64(upd.DelegateRewards[p.DelegateID])))
					incs = append(incs, d.String())
				}
				if sum.Cmp(c10Big(v)) != 0 || sumU.Cmp(c10Big(v)) != 0 {
					col.add("C10:equallyDistributeRewards:total-not-exact", fmt.Sprintf("%d coins over %d delegates: rewards +%v (sum %v), reported %v", v, n, incs, sum, sumU), &c)
				}
				if v <= 10 {
					outcomes[fmt.Sprintf("EQ|%d|%v", n, incs)] = struct{}{}
				} else {
					outcomes[fmt.Sprintf("EQ|%d|ok", n)] = struct{}{}
				}
			}
		}
	}

	run.Add(int64(len(vectors)), totalCalls, totalCalls)
	for k := range outcomes {
		run.Outcome(k)
	}
	keys := make([]string, 0, len(col.best))
	for k := range col.best {
		keys = append(keys, k)
	}
	sort.Strings(keys)
	for _, k := range keys {
		f := col.best[k]
		run.Violation(f.key, fmt.Sprintf("%s(value=%d, charge=%v, delegate balances=%v, min_stake=%d, killed=%v, N=%d, seed=%d, demeter=%v): %s",
			f.c.Fn, f.c.Value, f.c.Charge, f.c.Balances, f.c.MinStake, f.c.Killed, f.c.RandN, f.c.Seed, f.c.Demeter, f.what), f.c)
	}
	run.Sample(c10Case{Fn: "DistributeRewards", Value: 10, Charge: 1.0 / 3.0, Balances: []uint64{1, 2, 0}})
	run.Sample(c10Case{Fn: "DistributeRewardsRandN", Value: p53 + 1, Charge: 0.1, Balances: []uint64{3, 1 << 62, 10}, RandN: 2, Seed: 3, Demeter: true})
	run.Sample(c10Case{Fn: "DistributeRewards", Value: 7, Charge: 0.5, Balances: []uint64{10, 10}, MinStake: 21})
	run.Assumptions = []string{
		"'paid' = the call returned nil; a call that returns an error fails its transaction and is outside the statement",
		"subset size N < 1 is outside the statement (only 'at most N credited' is required there)",
		"amounts above config.MaxTokenSupply cannot exist on the chain and are not enumerated; when delegates exist but their total stake is 0 only 'never more than the amount' is required",
		"'proportional up to rounding by a few units' is read as |share - exact share| <= 2n+3 units + (n+2)*amount/2^50 (the float64 resolution of the amount); magnitudes beyond the alphabet are not covered",
		"delegate pool ids equal their delegate ids (as the contracts create them); Reward fields start at 3",
	}
	run.Finish()
}
