// C25 — partitions behave as a set under any operation sequence.
//
// Explicit-state breadth-first search over operation sequences of the real
// smartcontract/partitions API on a real chain state context (chaincore/chain/state.StateContext
// over an in-memory Merkle-Patricia trie). A node of the search is a sequence of operations; its
// successors are obtained by replaying the sequence on a fresh trie + fresh Partitions and
// applying one more operation (no reliance on Clone). Two sequences are the same state when the
// trie root, the complete in-memory Partitions value (Last, loaded partitions with their Changed
// flags, location cache) and the reference set agree. After the last operation of every executed
// sequence the whole observation suite (Size, Exist, Get, ForEach, GetRandomItems) is compared
// with a reference map.
package main

import (
	"bufio"
	"crypto/sha256"
	"encoding/hex"
	"fmt"
	"math/rand"
	"os"
	"path/filepath"
	"reflect"
	"runtime"
	"runtime/pprof"
	"sort"
	"strconv"
	"strings"
	"sync/atomic"
	"time"

	cstate "0chain.net/chaincore/chain/state"
	"0chain.net/smartcontract/partitions"
	"github.com/0chain/common/core/statecache"
	"github.com/0chain/common/core/util"
	"github.com/tinylib/msgp/msgp"
	"golang.org/x/sys/unix"

	"verif/lib/ev"
)

const c25Name = "verif_parts"

// c25Item is the stored item: (ID, V), msgp-encoded as a 2-array.
type c25Item struct {
	ID string
	V  int
}

func (it *c25Item) GetID() string { return it.ID }
func (it *c25Item) MarshalMsg(b []byte) ([]byte, error) {
	b = msgp.AppendArrayHeader(b, 2)
	b = msgp.AppendString(b, it.ID)
	b = msgp.AppendInt(b, it.V)
	return b, nil
}
func (it *c25Item) UnmarshalMsg(b []byte) ([]byte, error) {
	n, b, err := msgp.ReadArrayHeaderBytes(b)
	if err != nil || n != 2 {
		return b, fmt.Errorf("bad item header: %v", err)
	}
	if it.ID, b, err = msgp.ReadStringBytes(b); err != nil {
		return b, err
	}
	it.V, b, err = msgp.ReadIntBytes(b)
	return b, err
}
func (it *c25Item) Msgsize() int {
	return msgp.ArrayHeaderSize + msgp.StringPrefixSize + len(it.ID) + msgp.IntSize
}

// operations: A<i> add id i, R<i> remove, U<i> update, S save, C save + reload through the same
// transaction cache, F save + reload from the trie through a fresh trie object with an empty
// cache (a later transaction), G Get every id (fills the location cache)
func c25Ops(nids int) []string {
	var ops []string
	for _, k := range []string{"A", "R", "U"} {
		for i := 0; i < nids; i++ {
			ops = append(ops, k+strconv.Itoa(i))
		}
	}
	return append(ops, "S", "C", "F", "G")
}

func c25ID(i int) string { return string(rune('a' + i)) }

type c25World struct {
	psize int
	nids  int
	mpt   util.MerklePatriciaTrieI
	ctx   *cstate.StateContext
	p     *partitions.Partitions
	ref   map[string]int
}

func c25NewWorld(psize, nids int) (*c25World, error) {
	w := &c25World{psize: psize, nids: nids, ref: map[string]int{}}
	w.mpt = newMPT()
	w.ctx = newStateContext(w.mpt, 200)
	p, err := partitions.CreateIfNotExists(w.ctx, c25Name, psize)
	if err != nil {
		return nil, err
	}
	w.p = p
	return w, nil
}

type c25Violation struct{ key, what string }

// apply performs one operation and judges its result against the reference set.
func (w *c25World) apply(op string) *c25Violation {
	bad := func(class, format string, a ...any) *c25Violation {
		return &c25Violation{"C25:" + class, fmt.Sprintf(format, a...)}
	}
	switch op[0] {
	case 'A':
		i, _ := strconv.Atoi(op[1:])
		id := c25ID(i)
		_, present := w.ref[id]
		err := w.p.Add(w.ctx, &c25Item{ID: id, V: 1})
		switch {
		case err == nil:
			w.ref[id] = 1
		case !present:
			return bad("Add:absent-id-rejected", "Add(%s) of an id not in the set failed: %v", id, err)
		}
	case 'R':
		i, _ := strconv.Atoi(op[1:])
		id := c25ID(i)
		_, present := w.ref[id]
		err := w.p.Remove(w.ctx, id)
		switch {
		case present && err != nil:
			return bad("Remove:present-id-failed", "Remove(%s) of a member failed: %v", id, err)
		case present:
			delete(w.ref, id)
		}
	case 'U':
		i, _ := strconv.Atoi(op[1:])
		id := c25ID(i)
		cur, present := w.ref[id]
		nv := 2
		if cur == 2 {
			nv = 1
		}
		err := w.p.UpdateItem(w.ctx, &c25Item{ID: id, V: nv})
		switch {
		case present && err != nil:
			return bad("UpdateItem:present-id-failed", "UpdateItem(%s) of a member failed: %v", id, err)
		case present:
			w.ref[id] = nv
		}
	case 'S', 'C', 'F':
		if err := w.p.Save(w.ctx); err != nil {
			return bad("Save:error", "Save failed: %v", err)
		}
		if op[0] == 'F' {
			// a later transaction: same node DB and root, fresh trie object, empty cache
			w.mpt = util.NewMerklePatriciaTrie(w.mpt.GetNodeDB(), 2, w.mpt.GetRoot(), statecache.NewEmpty())
			w.ctx = newStateContext(w.mpt, 201)
		}
		if op[0] != 'S' {
			p, err := partitions.GetPartitions(w.ctx, c25Name)
			if err != nil {
				return bad("GetPartitions:error", "reload after Save failed: %v", err)
			}
			w.p = p
		}
	case 'G':
		for i := 0; i < w.nids; i++ {
			var it c25Item
			_, err := w.p.Get(w.ctx, c25ID(i), &it)
			if v := w.judgeGet(c25ID(i), &it, err); v != nil {
				return v
			}
		}
	}
	return nil
}

func (w *c25World) judgeGet(id string, it *c25Item, err error) *c25Violation {
	want, present := w.ref[id]
	switch {
	case present && err != nil:
		return &c25Violation{"C25:Get:member-not-found", fmt.Sprintf("Get(%s) of a member failed: %v", id, err)}
	case present && (it.ID != id || it.V != want):
		return &c25Violation{"C25:Get:wrong-item", fmt.Sprintf("Get(%s) returned (%s,%d), set holds (%s,%d)", id, it.ID, it.V, id, want)}
	case !present && err == nil:
		return &c25Violation{"C25:Get:non-member-found", fmt.Sprintf("Get(%s) of a non-member returned (%s,%d)", id, it.ID, it.V)}
	case !present && !partitions.ErrItemNotFound(err):
		return &c25Violation{"C25:Get:non-member-other-error", fmt.Sprintf("Get(%s) of a non-member: %v", id, err)}
	}
	return nil
}

// stateKey renders trie root + complete in-memory Partitions value + reference set.
func (w *c25World) stateKey() string {
	var sb strings.Builder
	fmt.Fprintf(&sb, "root=%x|", w.mpt.GetRoot())
	pv := reflect.ValueOf(w.p).Elem()
	part := func(v reflect.Value) string {
		if v.IsNil() {
			return "nil"
		}
		v = v.Elem()
		s := fmt.Sprintf("loc%d,chg%v[", v.FieldByName("Loc").Int(), v.FieldByName("Changed").Bool())
		items := v.FieldByName("Items")
		for i := 0; i < items.Len(); i++ {
			s += fmt.Sprintf("%s:%x,", items.Index(i).FieldByName("ID").String(), items.Index(i).FieldByName("Data").Bytes())
		}
		return s + "]"
	}
	fmt.Fprintf(&sb, "last=%s|", part(pv.FieldByName("Last")))
	pm := pv.FieldByName("Partitions")
	var idx []int
	for _, k := range pm.MapKeys() {
		idx = append(idx, int(k.Int()))
	}
	sort.Ints(idx)
	for _, i := range idx {
		fmt.Fprintf(&sb, "p%d=%s|", i, part(pm.MapIndex(reflect.ValueOf(i))))
	}
	lm := pv.FieldByName("locations")
	var locs []string
	for it := lm.MapRange(); it.Next(); {
		locs = append(locs, fmt.Sprintf("%s>%d", it.Key().String()[:8], it.Value().Int()))
	}
	sort.Strings(locs)
	fmt.Fprintf(&sb, "locs=%v|ref=%s", locs, w.refString())
	return sb.String()
}

func (w *c25World) refString() string {
	var ks []string
	for k, v := range w.ref {
		ks = append(ks, fmt.Sprintf("%s%d", k, v))
	}
	sort.Strings(ks)
	return strings.Join(ks, ",")
}

// layout is the observable partition layout (ids per partition, in order).
func (w *c25World) observe() (layout string, v *c25Violation) {
	bad := func(class, format string, a ...any) (string, *c25Violation) {
		return "", &c25Violation{"C25:" + class, fmt.Sprintf(format, a...)}
	}
	n, err := w.p.Size(w.ctx)
	if err != nil {
		return bad("Size:error", "Size failed: %v", err)
	}
	if n != len(w.ref) {
		return bad("Size:wrong", "Size reports %d, the set has %d items (%s)", n, len(w.ref), w.refString())
	}
	for i := 0; i <= w.nids; i++ { // one id beyond the alphabet was never added
		id := c25ID(i)
		ok, err := w.p.Exist(w.ctx, id)
		if err != nil {
			return bad("Exist:error", "Exist(%s) failed: %v", id, err)
		}
		if _, present := w.ref[id]; ok != present {
			return bad("Exist:wrong", "Exist(%s) = %v, membership in the set = %v (%s)", id, ok, present, w.refString())
		}
	}
	// full iteration
	seen := map[string]int{}
	perPart := map[int]int{}
	maxPart := -1
	var order []string
	var dup, foreign string
	err = w.p.ForEach(w.ctx, func(pi int, id string, data []byte) bool {
		var it c25Item
		if _, e := it.UnmarshalMsg(data); e != nil || it.ID != id {
			foreign = fmt.Sprintf("item %q in partition %d carries undecodable / foreign data", id, pi)
		}
		if _, d := seen[id]; d {
			dup = id
		}
		seen[id] = it.V
		perPart[pi]++
		if pi > maxPart {
			maxPart = pi
		}
		order = append(order, fmt.Sprintf("%d:%s", pi, id))
		return false
	})
	if err != nil {
		return bad("ForEach:error", "ForEach failed: %v", err)
	}
	if dup != "" {
		return bad("ForEach:duplicate", "ForEach shows id %s twice: %v", dup, order)
	}
	if foreign != "" {
		return bad("ForEach:bad-data", "%s", foreign)
	}
	if len(seen) != len(w.ref) {
		return bad("ForEach:wrong-members", "ForEach shows %v, the set is %s", order, w.refString())
	}
	for id, val := range w.ref {
		got, ok := seen[id]
		if !ok || got != val {
			return bad("ForEach:wrong-members", "ForEach shows %v, the set is %s", order, w.refString())
		}
	}
	for pi := 0; pi < maxPart; pi++ {
		if perPart[pi] != w.psize {
			return bad("layout:inner-partition-not-full", "partition %d of %d holds %d items, partition size is %d: %v", pi, maxPart+1, perPart[pi], w.psize, order)
		}
	}
	if perPart[maxPart] > w.psize {
		return bad("layout:partition-over-full", "last partition holds %d items, partition size is %d", perPart[maxPart], w.psize)
	}
	// lookups
	for i := 0; i <= w.nids; i++ {
		var it c25Item
		_, err := w.p.Get(w.ctx, c25ID(i), &it)
		if v := w.judgeGet(c25ID(i), &it, err); v != nil {
			return "", v
		}
	}
	// random sampling
	for seed := int64(0); seed < 4; seed++ {
		var its []c25Item
		err := w.p.GetRandomItems(w.ctx, rand.New(&c25Source{uint64(seed)*0x9E3779B97F4A7C15 + 1}), &its)
		if len(w.ref) == 0 {
			if err == nil && len(its) > 0 {
				return bad("GetRandomItems:non-member", "sampling an empty set returned %v", its)
			}
			continue
		}
		if err != nil {
			return bad("GetRandomItems:error-on-nonempty", "sampling (seed %d) of the set %s failed: %v", seed, w.refString(), err)
		}
		got := map[string]bool{}
		for _, it := range its {
			if got[it.ID] {
				return bad("GetRandomItems:duplicate", "sampling (seed %d) returned %s twice: %v", seed, it.ID, its)
			}
			got[it.ID] = true
			if val, ok := w.ref[it.ID]; !ok || val != it.V {
				return bad("GetRandomItems:non-member", "sampling (seed %d) returned (%s,%d), the set is %s", seed, it.ID, it.V, w.refString())
			}
		}
		if len(its) == 0 {
			return bad("GetRandomItems:empty-on-nonempty", "sampling (seed %d) of the set %s returned nothing", seed, w.refString())
		}
	}
	return strings.Join(order, " "), nil
}

// c25Source is a small deterministic rand.Source64 (splitmix64); math/rand's own source costs
// ~10 us to seed, which would dominate the observation suite.
type c25Source struct{ s uint64 }

func (r *c25Source) Uint64() uint64 {
	r.s += 0x9E3779B97F4A7C15
	z := r.s
	z = (z ^ (z >> 30)) * 0xBF58476D1CE4E5B9
	z = (z ^ (z >> 27)) * 0x94D049BB133111EB
	return z ^ (z >> 31)
}
func (r *c25Source) Int63() int64    { return int64(r.Uint64() >> 1) }
func (r *c25Source) Seed(seed int64) { r.s = uint64(seed) }

// c25Exec replays seq on a fresh world; returns the state key hash after the last operation.
func c25Exec(psize, nids int, seq []string) (hash string, layout string, v *c25Violation, failedAt int) {
	w, err := c25NewWorld(psize, nids)
	if err != nil {
		return "", "", &c25Violation{"C25:CreateIfNotExists:error", err.Error()}, 0
	}
	for i, op := range seq {
		if v := w.apply(op); v != nil {
			return "", "", v, i
		}
	}
	h := sha256.Sum256([]byte(w.stateKey()))
	layout, v = w.observe()
	return hex.EncodeToString(h[:12]), layout, v, len(seq)
}

// `store worker-c25 <psize> <nids> <frontier file> <from> <to> [<first op index>]`
func c25Worker() {
	psize, _ := strconv.Atoi(os.Args[2])
	nids, _ := strconv.Atoi(os.Args[3])
	from, _ := strconv.Atoi(os.Args[5])
	to, _ := strconv.Atoi(os.Args[6])
	firstOp := 0
	if len(os.Args) > 7 {
		firstOp, _ = strconv.Atoi(os.Args[7])
	}
	f, err := os.Open(os.Args[4])
	if err != nil {
		ev.Fatal("frontier: %v", err)
	}
	var frontier []string
	sc := bufio.NewScanner(f)
	sc.Buffer(make([]byte, 1<<16), 1<<24)
	for sc.Scan() {
		frontier = append(frontier, sc.Text())
	}
	f.Close()
	out := newWout()
	ops := c25Ops(nids)
	if pf := os.Getenv("VERIF_CPUPROFILE"); pf != "" {
		fh, _ := os.Create(pf)
		_ = pprof.StartCPUProfile(fh)
		defer pprof.StopCPUProfile()
	}
	var cur atomic.Value // "<frontier index> <op index> <sequence>"
	var beat atomic.Int64
	procCPU := func() time.Duration {
		var ts unix.Timespec
		_ = unix.ClockGettime(unix.CLOCK_PROCESS_CPUTIME_ID, &ts)
		return time.Duration(ts.Nano())
	}
	go func() { // watchdog on CPU time (an execution normally costs well under a millisecond of it)
		last, since := int64(-1), procCPU()
		for {
			time.Sleep(500 * time.Millisecond)
			if b := beat.Load(); b != last {
				last, since = b, procCPU()
			} else if procCPU()-since > 20*time.Second {
				c, _ := cur.Load().(string)
				parts := strings.SplitN(c, " ", 3)
				if len(parts) == 3 {
					out.violation("C25:sequence:no-return", "executing the sequence did not finish within 20 s of CPU time (normal: < 1 ms): "+parts[2],
						map[string]any{"partition_size": psize, "ops": strings.Fields(parts[2])})
					out.extra("hung " + parts[0] + " " + parts[1])
				}
				out.flush()
				os.Exit(0)
			}
		}
	}()
	var execs int64
	for i := from; i < to && i < len(frontier); i++ {
		base := strings.Fields(frontier[i])
		for j, op := range ops {
			if i == from && j < firstOp {
				continue
			}
			seq := append(append([]string{}, base...), op)
			cur.Store(fmt.Sprintf("%d %d %s", i, j, strings.Join(seq, " ")))
			beat.Add(1)
			var hash, layout string
			var v *c25Violation
			var failedAt int
			func() {
				defer func() {
					if p := recover(); p != nil {
						v = &c25Violation{"C25:" + map[byte]string{'A': "Add", 'R': "Remove", 'U': "UpdateItem", 'S': "Save", 'C': "Save+reload", 'F': "Save+reload", 'G': "Get"}[op[0]] + ":panic", fmt.Sprintf("panic: %.200v", p)}
						failedAt = len(seq) - 1
					}
				}()
				hash, layout, v, failedAt = c25Exec(psize, nids, seq)
			}()
			execs++
			if v != nil {
				out.violation(v.key, fmt.Sprintf("partition size %d, ops %v (A=Add R=Remove U=UpdateItem S=Save C=Save+GetPartitions(same cache) F=Save+GetPartitions(fresh trie object) G=Get all; ids by index): %s", psize, seq, v.what),
					map[string]any{"partition_size": psize, "ops": seq, "failed_at_op": failedAt, "ids": "index i = id 'a'+i; Add stores V=1, UpdateItem toggles V between 2 and 1"})
				continue // a violating state is not expanded further
			}
			out.line("X", "succ", hash, strings.Join(seq, " "), layout)
		}
	}
	out.count(0, execs, execs)
	out.flush()
	pprof.StopCPUProfile()
	os.Exit(0)
}

func c25Main() {
	run := ev.Start("C25")
	nids := run.Pick(4, 5)
	psizes := []int{1, 2, 3}
	if v := os.Getenv("VERIF_C25_PSIZES"); v != "" { // for experiments
		psizes = nil
		for _, f := range strings.Split(v, ",") {
			n, _ := strconv.Atoi(f)
			psizes = append(psizes, n)
		}
	}
	depth := run.Pick(6, 7)
	par := runtime.NumCPU()
	if par > 16 {
		par = 16
	}
	deadline := run.Deadline(50*time.Second, 13*time.Minute)
	if d, err := time.ParseDuration(os.Getenv("VERIF_C25_CAP")); err == nil { // for experiments on a loaded machine
		deadline = time.Now().Add(d)
	}
	dir := filepath.Join(ev.Root(), ".work", fmt.Sprintf("c25.%d", os.Getpid()))
	if err := os.MkdirAll(dir, 0o755); err != nil {
		ev.Fatal("mkdir: %v", err)
	}
	defer os.RemoveAll(dir)
	ops := c25Ops(nids)
	run.Rule = fmt.Sprintf("breadth-first search over all operation sequences to depth %d over %d operations (Add/Remove/UpdateItem x %d ids, Save, Save+reload through the same cache, Save+reload through a fresh trie object, Get-all) for partition sizes %v; successor = replay on a fresh trie and Partitions + 1 operation; dedup by (trie root, complete in-memory Partitions value incl. location cache and Changed flags, reference set); the full observation suite (Size, Exist, Get, ForEach, layout, GetRandomItems seeds 0-3) runs after the last operation of every executed sequence; distinct = distinct states", depth, len(ops), nids, psizes)
	run.Bounds["depth"] = depth
	run.Bounds["ids"] = nids
	run.Bounds["operations"] = ops
	run.Bounds["partition_sizes"] = psizes
	run.Bounds["sampling_seeds"] = 4
	levels := map[string][]int{}
	run.Extra["states_per_depth"] = levels
	layouts := map[string]struct{}{}

	// level-synchronous over all partition sizes, so that a time cap leaves every size explored
	// to the same depth
	seenOf := map[int]map[string]bool{}
	frontierOf := map[int][]string{}
	for _, ps := range psizes {
		h0, _, v0, _ := c25Exec(ps, nids, nil)
		if v0 != nil {
			run.Violation(v0.key, fmt.Sprintf("partition size %d, empty sequence: %s", ps, v0.what), map[string]any{"partition_size": ps, "ops": []string{}})
			continue
		}
		seenOf[ps] = map[string]bool{h0: true}
		frontierOf[ps] = []string{""}
		run.Add(1, 0, 1)
		levels[fmt.Sprint(ps)] = append(levels[fmt.Sprint(ps)], 1)
	}
	capped := false
	for d := 1; d <= depth && !capped; d++ {
		for _, ps := range psizes {
			seen, frontier := seenOf[ps], frontierOf[ps]
			if seen == nil || len(frontier) == 0 {
				continue
			}
			if time.Now().After(deadline) {
				run.Capped(fmt.Sprintf("time cap: explored completely to depth %d only (partition sizes before %d also to depth %d)", d-1, ps, d))
				capped = true
				break
			}
			ff := filepath.Join(dir, fmt.Sprintf("frontier-%d-%d", ps, d))
			if err := os.WriteFile(ff, []byte(strings.Join(frontier, "\n")+"\n"), 0o644); err != nil {
				ev.Fatal("frontier file: %v", err)
			}
			nw := par
			if len(frontier) < 4*par {
				nw = 1
			}
			chunk := (len(frontier) + nw - 1) / nw
			type job struct{ from, to int }
			var jobs []job
			for lo := 0; lo < len(frontier); lo += chunk {
				hi := lo + chunk
				if hi > len(frontier) {
					hi = len(frontier)
				}
				jobs = append(jobs, job{lo, hi})
			}
			results := make([][]workerOut, len(jobs))
			done := make(chan int, len(jobs))
			for ji, jb := range jobs {
				go func(ji int, jb job) {
					from, firstOp := jb.from, 0
					for from < jb.to {
						w := runWorker([]string{"worker-c25", strconv.Itoa(ps), strconv.Itoa(nids), ff, strconv.Itoa(from), strconv.Itoa(jb.to), strconv.Itoa(firstOp)}, []string{"GOMAXPROCS=1", "GOGC=200"}, 30*time.Minute)
						if w.timedOut || w.err != nil {
							ev.Fatal("C25 worker failed: timeout=%v err=%v %s", w.timedOut, w.err, w.stderr)
						}
						results[ji] = append(results[ji], w)
						next := jb.to
						for _, l := range w.lines {
							var hi, hj int
							if n, _ := fmt.Sscanf(l, "X\thung %d %d", &hi, &hj); n == 2 {
								next, firstOp = hi, hj+1
							}
						}
						from = next
					}
					done <- ji
				}(ji, jb)
			}
			for range jobs {
				<-done
			}
			var next []string
			for _, rs := range results {
				for _, w := range rs {
					for _, x := range absorbC25(run, w) {
						f := strings.SplitN(x, "\t", 4)
						if len(f) < 3 || f[0] != "succ" {
							continue
						}
						if !seen[f[1]] {
							seen[f[1]] = true
							next = append(next, f[2])
							if len(f) == 4 {
								layouts[fmt.Sprintf("%d|%s", ps, f[3])] = struct{}{}
							}
							run.Outcome(fmt.Sprintf("%d|%s", ps, f[1]))
						}
					}
				}
			}
			run.Add(int64(len(next)), 0, 0)
			levels[fmt.Sprint(ps)] = append(levels[fmt.Sprint(ps)], len(next))
			if d == depth {
				for _, s := range next[:min(2, len(next))] {
					run.Sample(map[string]any{"partition_size": ps, "ops": strings.Fields(s)})
				}
			}
			frontierOf[ps] = next
			_ = os.Remove(ff)
		}
	}
	run.Extra["distinct_observed_layouts"] = len(layouts)
	run.Assumptions = []string{
		"a reload (GetPartitions) is always preceded by Save: item locations are written to state immediately while partition contents are written by Save, so state without Save is only meaningful inside a transaction that is rolled back as a whole",
		"Add of a member / Remove or UpdateItem of a non-member may fail or succeed; the reference follows the returned status (a successful Add of a member overwrites); Add of a non-member, Remove/UpdateItem of a member, Save and reload must succeed",
		"sampling a non-empty set must succeed and return >= 1 distinct members; nothing is required about how many",
		"states reached by a violating sequence are not expanded further",
	}
	os.RemoveAll(dir)
	run.Finish()
}

// absorbC25 is absorb with 4-field X lines kept intact.
func absorbC25(run *ev.Run, w workerOut) (extra []string) {
	for _, l := range w.lines {
		if strings.HasPrefix(l, "X\t") {
			extra = append(extra, l[2:])
		}
	}
	ww := w
	ww.lines = nil
	for _, l := range w.lines {
		if !strings.HasPrefix(l, "X\t") {
			ww.lines = append(ww.lines, l)
		}
	}
	absorb(run, ww)
	return
}
