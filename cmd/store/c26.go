// C26 — stored blocks and block databases read back exactly.
//
//	(a1) index level: every subset of an 8-key alphabet is encoded by the real mapIndex.Encode and
//	     decoded by the real fixedKeyArrayIndex.Decode / mapIndex.Decode; every query key (present,
//	     between, beyond, shorter, longer) is looked up. Each lookup runs in its own goroutine of a
//	     killable worker process: a lookup that has not returned when all others have long finished
//	     is a hang candidate and is confirmed 5x in fresh processes with a 2 s budget
//	     (normal cost < 1 us) before it is reported.
//	(a2) DB level: the same key sets through the real BlockDB Create/WriteData/Save/Open/Read/
//	     ReadAll on real files, x {compressed, plain} x {ascending, descending write order} x
//	     {with, without header}, reopened with the default (fixed) index and with a map index.
//	(b)  BlockStore.Write/Read round trip over a block alphabet (transactions, outputs, tickets,
//	     magic block at / not at its starting round).
//	(c)  crash points: the file written by BlockStore.Write is cut at every 512-byte prefix
//	     (+0, 1, len-1, missing file); Read must fail or return exactly the block. The index
//	     file written by BlockDB.Save is cut at every byte prefix; Open must fail or every
//	     stored key reads back exactly or with an error.
package main

import (
	"bytes"
	"encoding/binary"
	"encoding/json"
	"errors"
	"fmt"
	"io"
	"os"
	"path/filepath"
	"runtime"
	"runtime/debug"
	"sort"
	"strconv"
	"strings"
	"sync"
	"sync/atomic"
	"time"

	"0chain.net/chaincore/block"
	"0chain.net/chaincore/client"
	"0chain.net/chaincore/node"
	"0chain.net/chaincore/threshold/bls"
	"0chain.net/chaincore/transaction"
	"0chain.net/core/common"
	"0chain.net/core/encryption"
	"0chain.net/core/memorystore"
	"0chain.net/sharder/blockdb"
	"0chain.net/sharder/blockstore"
	"github.com/0chain/common/core/currency"
	"golang.org/x/sys/unix"

	"verif/lib/ev"
)

// ---------------------------------------------------------------------------------------------
// alphabet

const c26Letters = "bdfhjlnp" // stored-key alphabet (last character); queries use a..q

func c26Key(keylen int, c byte) string { return strings.Repeat("k", keylen-1) + string(c) }

func c26StoredKeys(keylen int) []string {
	out := make([]string, len(c26Letters))
	for i := range c26Letters {
		out[i] = c26Key(keylen, c26Letters[i])
	}
	return out
}

// queries: a..q at the right length (present / between / below / above), one shorter and one
// longer key.
func c26Queries(keylen int) []string {
	var q []string
	for c := byte('a'); c <= 'q'; c++ {
		q = append(q, c26Key(keylen, c))
	}
	q = append(q, strings.Repeat("k", keylen-1)) // shorter than every stored key
	q = append(q, c26Key(keylen, 'd')+"0")       // longer: sorts between d and f
	return q
}

func c26Subset(keylen int, mask int) []string {
	var ks []string
	for i, k := range c26StoredKeys(keylen) {
		if mask&(1<<i) != 0 {
			ks = append(ks, k)
		}
	}
	return ks
}

// offsets are deliberately not monotone in key order
func c26Offset(i int) int64 { return int64(1000 + 37*((i*5+3)%8)) }

// ---------------------------------------------------------------------------------------------
// (a1) index worker: `store worker-c26idx <keylen> [<mask> <query index>]`
// With a mask and a query index it performs that single fixed-index lookup (confirmation run).

func c26BuildIndexBytes(keylen int, mask int) ([]byte, map[string]int64) {
	mi := blockdb.VerifNewMapIndex()
	want := map[string]int64{}
	keys := c26StoredKeys(keylen)
	for i := len(keys) - 1; i >= 0; i-- { // descending insertion; Encode must sort
		if mask&(1<<i) != 0 {
			if err := mi.SetOffset(blockdb.Key(keys[i]), c26Offset(i)); err != nil {
				ev.Fatal("SetOffset: %v", err)
			}
			want[keys[i]] = c26Offset(i)
		}
	}
	var buf bytes.Buffer
	if err := mi.Encode(&buf); err != nil {
		ev.Fatal("mapIndex.Encode: %v", err)
	}
	// In BlockDB the index is followed by the encoded DB header in the same .idx file; one
	// trailing byte stands for it (a bytes.Reader, unlike *os.File, reports EOF for the
	// zero-length read that decoding an empty index performs at the very end of the input).
	buf.WriteByte('H')
	return buf.Bytes(), want
}

// c26Runner executes lookups one at a time on its own OS thread, so that the monitor can meter
// the CPU time a lookup has consumed (a step budget, independent of machine load) and, when the
// budget is exceeded, park the spinning thread (lowest priority, pinned to the last CPU) and go
// on with a fresh runner.
type c26Runner struct {
	tid      int
	in       chan func() (int64, error)
	out      chan c26Result
	startCPU atomic.Int64
}

type c26Result struct {
	off int64
	err error
}

func c26ThreadCPU(tid int) int64 {
	// per-thread *user-mode* CPU-time clock of thread tid (Linux CPUCLOCK_VIRT | PERTHREAD): time
	// a thread spends stalled in the kernel on an overloaded machine is not counted, only
	// instructions it executes itself; the clock advances in scheduler ticks (4 ms)
	clk := int32((^uint32(tid))<<3 | 5)
	var ts unix.Timespec
	if err := unix.ClockGettime(clk, &ts); err != nil {
		return -1
	}
	return ts.Nano()
}

func c26NewRunner() *c26Runner {
	r := &c26Runner{in: make(chan func() (int64, error)), out: make(chan c26Result, 1)}
	ready := make(chan struct{})
	go func() {
		runtime.LockOSThread()
		r.tid = unix.Gettid()
		close(ready)
		for f := range r.in {
			r.startCPU.Store(c26ThreadCPU(r.tid))
			off, err := f()
			r.out <- c26Result{off, err}
		}
	}()
	<-ready
	return r
}

// run returns (result, true) or (_, false) when the call consumed more than budget of CPU time
// without returning; the runner is then unusable (its thread is parked).
func (r *c26Runner) run(f func() (int64, error), budget time.Duration) (c26Result, bool) {
	r.startCPU.Store(-1)
	r.in <- f
	tick := time.NewTimer(200 * time.Microsecond)
	defer tick.Stop()
	for {
		select {
		case res := <-r.out:
			if os.Getenv("VERIF_C26_DEBUG") != "" {
				if d := c26ThreadCPU(r.tid) - r.startCPU.Load(); d > c26MaxSeen {
					c26MaxSeen = d
					fmt.Fprintln(os.Stderr, "max cpu of a returning call (ns):", d)
				}
			}
			return res, true
		case <-tick.C:
			st := r.startCPU.Load()
			if st >= 0 {
				if now := c26ThreadCPU(r.tid); now >= 0 && time.Duration(now-st) > budget {
					var set unix.CPUSet
					set.Set(runtime.NumCPU() - 1)
					_ = unix.SchedSetaffinity(r.tid, &set)
					_ = unix.Setpriority(unix.PRIO_PROCESS, r.tid, 19)
					return c26Result{}, false
				}
			}
			tick.Reset(500 * time.Microsecond)
		}
	}
}

// `store worker-c26idx <keylen> <from> <to>`: lookups number from..to-1 (numbered mask*|queries|+qi)
// on both index kinds; stops early with an "X next <n>" line after c26MaxParked parked threads.
// `store worker-c26idx <keylen> confirm <mask> <qi>`: one fixed-index lookup with a large budget.
var c26MaxSeen int64

const c26MaxParked = 64

func c26IndexWorker() {
	keylen, _ := strconv.Atoi(os.Args[2])
	out := newWout()
	defer out.flush()
	debug.SetGCPercent(-1) // no collector work on the metered threads (the worker allocates a few MB)
	queries := c26Queries(keylen)
	budget, _ := time.ParseDuration(os.Getenv("VERIF_HANG_CPU_BUDGET"))
	if budget == 0 {
		budget = 6 * time.Millisecond
	}
	build := func(mask int) (blockdb.Index, blockdb.Index, map[string]int64) {
		data, want := c26BuildIndexBytes(keylen, mask)
		mp := blockdb.VerifNewMapIndex()
		if err := mp.Decode(bytes.NewReader(data)); err != nil {
			out.violation("C26:mapIndex.Decode:error", fmt.Sprintf("keys=%v: %v", c26Subset(keylen, mask), err), map[string]any{"keylen": keylen, "mask": mask})
			mp = nil
		}
		fx := blockdb.VerifNewFixedKeyArrayIndex(int8(keylen))
		if err := fx.Decode(bytes.NewReader(data)); err != nil {
			out.violation("C26:fixedKeyArrayIndex.Decode:error", fmt.Sprintf("keys=%v: %v", c26Subset(keylen, mask), err), map[string]any{"keylen": keylen, "mask": mask})
			fx = nil
		}
		return mp, fx, want
	}

	if os.Args[3] == "confirm" {
		mask, _ := strconv.Atoi(os.Args[4])
		qi, _ := strconv.Atoi(os.Args[5])
		mp, fx, _ := build(mask)
		if len(os.Args) > 6 && os.Args[6] == "mapIndex" {
			fx = mp
		}
		res, ok := c26NewRunner().run(func() (int64, error) { return fx.GetOffset(blockdb.Key(queries[qi])) }, budget)
		if ok {
			out.extra(fmt.Sprintf("returned %d %v", res.off, res.err))
		} else {
			out.extra("hang")
		}
		out.flush()
		os.Exit(0)
	}

	from, _ := strconv.Atoi(os.Args[3])
	to, _ := strconv.Atoi(os.Args[4])
	var states, evals int64
	runner := c26NewRunner()
	type zombie struct {
		r        *c26Runner
		kind     string
		mask, qi int
		want     map[string]int64
	}
	var zombies []zombie
	curMask := -1
	var mp, fx blockdb.Index
	var want map[string]int64
	task := from
	for ; task < to && len(zombies) < c26MaxParked; task++ {
		mask, qi := task/len(queries), task%len(queries)
		q := queries[qi]
		if mask != curMask {
			curMask = mask
			mp, fx, want = build(mask)
			states++
			if fx != nil {
				var got []string
				for _, k := range fx.GetKeys() {
					got = append(got, string(k))
				}
				if fmt.Sprint(got) != fmt.Sprint(c26Subset(keylen, mask)) {
					out.violation("C26:fixedKeyArrayIndex.GetKeys:mismatch", fmt.Sprintf("stored %v, listed %v", c26Subset(keylen, mask), got), map[string]any{"keylen": keylen, "mask": mask})
				}
			}
		}
		for _, kind := range []string{"mapIndex", "fixedKeyArrayIndex"} {
			idx := mp
			if kind == "fixedKeyArrayIndex" {
				idx = fx
			}
			if idx == nil {
				continue
			}
			evals++
			res, ok := runner.run(func() (int64, error) { return idx.GetOffset(blockdb.Key(q)) }, budget)
			if !ok {
				zombies = append(zombies, zombie{runner, kind, mask, qi, want})
				runner = c26NewRunner()
				continue
			}
			c26JudgeLookup(out, kind, keylen, mask, qi, q, want, res.off, res.err)
		}
	}
	// A parked call that does return after all (it needed only microseconds more) delivers its
	// result; whatever is still running after the grace period is a hang candidate.
	if len(zombies) > 0 {
		time.Sleep(30 * time.Millisecond)
	}
	for _, z := range zombies {
		select {
		case res := <-z.r.out:
			c26JudgeLookup(out, z.kind, keylen, z.mask, z.qi, queries[z.qi], z.want, res.off, res.err)
		default:
			out.extra(fmt.Sprintf("hang %s %d %d", z.kind, z.mask, z.qi))
			out.outcome(fmt.Sprintf("%s|%d|%s|no-return", z.kind, z.mask, queries[z.qi]))
		}
	}
	out.extra(fmt.Sprintf("next %d", task))
	out.count(states, evals, evals)
	out.flush()
	os.Exit(0) // ends the parked threads
}

func c26JudgeLookup(out *wout, kind string, keylen, mask, qi int, q string, want map[string]int64, off int64, err error) {
	rp := map[string]any{"keylen": keylen, "stored_keys": c26Subset(keylen, mask), "mask": mask, "query": q, "query_index": qi, "index": kind}
	if w, present := want[q]; present {
		switch {
		case err != nil:
			out.violation("C26:"+kind+".GetOffset:present-key-error", fmt.Sprintf("stored %v, lookup %q: %v", c26Subset(keylen, mask), q, err), rp)
		case off != w:
			out.violation("C26:"+kind+".GetOffset:present-key-wrong-offset", fmt.Sprintf("stored %v, lookup %q: offset %d, written %d", c26Subset(keylen, mask), q, off, w), rp)
		}
		out.outcome(fmt.Sprintf("%s|%d|%s|found@%d", kind, mask, q, off))
		return
	}
	if err == nil {
		out.violation("C26:"+kind+".GetOffset:absent-key-returns-record", fmt.Sprintf("stored %v, lookup of absent %q returned offset %d", c26Subset(keylen, mask), q, off), rp)
	} else if !errors.Is(err, blockdb.ErrKeyNotFound) {
		out.violation("C26:"+kind+".GetOffset:absent-key-other-error", fmt.Sprintf("stored %v, lookup of absent %q: %v", c26Subset(keylen, mask), q, err), rp)
	}
	out.outcome(fmt.Sprintf("%s|%d|%s|%v", kind, mask, q, err))
}

// ---------------------------------------------------------------------------------------------
// (a2) DB worker: `store worker-c26db <keylen> <shard> <nshards> <skipfile> <dir>`

type c26Rec struct {
	K string
	P []byte
}

func (r *c26Rec) GetKey() blockdb.Key { return blockdb.Key(r.K) }
func (r *c26Rec) Encode(w io.Writer) error {
	if err := binary.Write(w, binary.LittleEndian, int32(len(r.K))); err != nil {
		return err
	}
	if _, err := w.Write([]byte(r.K)); err != nil {
		return err
	}
	_, err := w.Write(r.P)
	return err
}
func (r *c26Rec) Decode(rd io.Reader) error {
	var n int32
	if err := binary.Read(rd, binary.LittleEndian, &n); err != nil {
		return err
	}
	k := make([]byte, n)
	if _, err := io.ReadFull(rd, k); err != nil {
		return err
	}
	p, err := io.ReadAll(rd)
	r.K, r.P = string(k), p
	return err
}

type c26RecProvider struct{}

func (c26RecProvider) NewRecord() blockdb.Record { return &c26Rec{} }

type c26Hdr struct{ S string }

func (h *c26Hdr) Encode(w io.Writer) error { _, err := w.Write([]byte(h.S)); return err }
func (h *c26Hdr) Decode(r io.Reader) error {
	b, err := io.ReadAll(r)
	h.S = string(b)
	return err
}

var c26PayloadSizes = []int{0, 1, 13, 300, 4096, 5000, 20000, 2}

func c26Payload(i int) []byte {
	n := c26PayloadSizes[i]
	p := make([]byte, n)
	if i == 4 {
		return p // highly compressible
	}
	x := uint32(2463534242 + i*977)
	for j := range p {
		x ^= x << 13
		x ^= x >> 17
		x ^= x << 5
		p[j] = byte(x)
	}
	return p
}

func c26DBWorker() {
	keylen, _ := strconv.Atoi(os.Args[2])
	shard, _ := strconv.Atoi(os.Args[3])
	nshards, _ := strconv.Atoi(os.Args[4])
	skip := map[string]bool{}
	if data, err := os.ReadFile(os.Args[5]); err == nil {
		for _, l := range strings.Split(string(data), "\n") {
			if l != "" {
				skip[l] = true
			}
		}
	}
	dir := os.Args[6]
	resume := 0
	if len(os.Args) > 7 {
		resume, _ = strconv.Atoi(os.Args[7])
	}
	out := newWout()
	defer out.flush()
	keys := c26StoredKeys(keylen)
	queries := c26Queries(keylen)
	var states, trans, evals int64
	runner := c26NewRunner()
	parked := 0
	const readBudget = 250 * time.Millisecond // CPU time; a Read of the largest record costs < 1 ms
	n := 0
	for mask := 0; mask < 1<<len(keys); mask++ {
		for variant := 0; variant < 8; variant++ {
			n++
			if n%nshards != shard || n <= resume {
				continue
			}
			if parked >= 8 { // too many parked threads: let the parent start a fresh process
				out.extra(fmt.Sprintf("resume %d", n-1))
				out.count(states, trans, evals)
				out.flush()
				os.Exit(0)
			}
			compress, desc, hdr := variant&1 != 0, variant&2 != 0, variant&4 != 0
			base := filepath.Join(dir, fmt.Sprintf("db-%d-%d-%d", keylen, mask, variant))
			rp := map[string]any{"keylen": keylen, "stored_keys": c26Subset(keylen, mask), "mask": mask, "compress": compress, "descending_write_order": desc, "header": hdr}
			fail := func(key, what string, more map[string]any) {
				r := map[string]any{}
				for k, v := range rp {
					r[k] = v
				}
				for k, v := range more {
					r[k] = v
				}
				out.violation(key, fmt.Sprintf("stored %v compress=%v desc=%v hdr=%v: %s", c26Subset(keylen, mask), compress, desc, hdr, what), r)
			}
			// ---- write
			db, _ := blockdb.NewBlockDB(base, int8(keylen), compress)
			if hdr {
				db.SetDBHeader(&c26Hdr{S: "header-of-" + base})
			}
			if err := db.Create(); err != nil {
				fail("C26:BlockDB.Create:error", err.Error(), nil)
				continue
			}
			var order []int
			for i := range keys {
				if mask&(1<<i) != 0 {
					order = append(order, i)
				}
			}
			if desc {
				sort.Sort(sort.Reverse(sort.IntSlice(order)))
			}
			written := map[string]*c26Rec{}
			var writtenOrder []*c26Rec
			werr := false
			for _, i := range order {
				r := &c26Rec{K: keys[i], P: c26Payload(i)}
				if err := db.WriteData(r); err != nil {
					fail("C26:BlockDB.WriteData:error", err.Error(), nil)
					werr = true
					break
				}
				written[r.K] = r
				writtenOrder = append(writtenOrder, r)
				trans++
			}
			if werr {
				continue
			}
			if err := db.Save(); err != nil {
				fail("C26:BlockDB.Save:error", err.Error(), nil)
				continue
			}
			states++
			// ---- reopen with the default (fixed key array) index and with a map index
			for _, kind := range []string{"fixedKeyArrayIndex", "mapIndex"} {
				db2, _ := blockdb.NewBlockDB(base, int8(keylen), compress)
				if hdr {
					db2.SetDBHeader(&c26Hdr{})
				}
				if kind == "mapIndex" {
					db2.SetIndex(blockdb.VerifNewMapIndex())
				}
				if err := db2.Open(); err != nil {
					fail("C26:BlockDB.Open:"+kind+":error", err.Error(), nil)
					continue
				}
				handleBusy := false
				for qi, q := range queries {
					if kind == "fixedKeyArrayIndex" && skip[fmt.Sprintf("%d %d", mask, qi)] {
						continue // its index lookup (Read's first step) is already known not to return
					}
					var got c26Rec
					res, returned := runner.run(func() (int64, error) { return 0, db2.Read(blockdb.Key(q), &got) }, readBudget)
					evals++
					w, present := written[q]
					if !returned {
						class := "absent-key-no-return"
						if present {
							class = "present-key-no-return"
						}
						fail("C26:BlockDB.Read:"+kind+":"+class, fmt.Sprintf("Read(%q) consumed %v of CPU time without returning (its index lookup had returned in the index-level pass)", q, readBudget), map[string]any{"query": q})
						parked++
						runner = c26NewRunner()
						handleBusy = true
						break // the handle is in use by the parked call: no further reads on it
					}
					err := res.err
					switch {
					case present && err != nil:
						fail("C26:BlockDB.Read:"+kind+":present-key-error", fmt.Sprintf("Read(%q): %v", q, err), map[string]any{"query": q})
					case present && (got.K != w.K || !bytes.Equal(got.P, w.P)):
						fail("C26:BlockDB.Read:"+kind+":present-key-wrong-record", fmt.Sprintf("Read(%q) returned record of key %q with %d payload bytes, written %d bytes", q, got.K, len(got.P), len(w.P)), map[string]any{"query": q})
					case !present && err == nil:
						fail("C26:BlockDB.Read:"+kind+":absent-key-returns-record", fmt.Sprintf("Read(%q) of a key never written returned the record of %q", q, got.K), map[string]any{"query": q})
					case !present && !errors.Is(err, blockdb.ErrKeyNotFound):
						fail("C26:BlockDB.Read:"+kind+":absent-key-other-error", fmt.Sprintf("Read(%q) of a key never written: %v", q, err), map[string]any{"query": q})
					}
					if present {
						out.outcome(fmt.Sprintf("db|%s|%d|%d|%s|ok%d", kind, mask, variant, q, len(got.P)))
					} else {
						out.outcome(fmt.Sprintf("db|%s|%d|%d|%s|%v", kind, mask, variant, q, err))
					}
				}
				if handleBusy {
					continue
				}
				_ = db2.Close()
				// ReadAll on a fresh handle: every written record, nothing else
				db3, _ := blockdb.NewBlockDB(base, int8(keylen), compress)
				if hdr {
					db3.SetDBHeader(&c26Hdr{})
				}
				if kind == "mapIndex" {
					db3.SetIndex(blockdb.VerifNewMapIndex())
				}
				if err := db3.Open(); err == nil {
					recs, err := db3.ReadAll(c26RecProvider{})
					evals++
					if err != nil {
						fail("C26:BlockDB.ReadAll:"+kind+":error", err.Error(), nil)
					} else {
						ok := len(recs) == len(writtenOrder)
						seen := map[string]bool{}
						for _, r := range recs {
							g := r.(*c26Rec)
							w, present := written[g.K]
							if !present || seen[g.K] || !bytes.Equal(w.P, g.P) {
								ok = false
							}
							seen[g.K] = true
						}
						if !ok {
							fail("C26:BlockDB.ReadAll:"+kind+":mismatch", fmt.Sprintf("ReadAll returned %d records, written %d", len(recs), len(writtenOrder)), nil)
						}
					}
					_ = db3.Close()
				}
			}
			// ---- crash points of Save: the index/header file cut at every byte prefix (the data
			// file is complete by then). Open must fail, or every stored key must read back exactly
			// or with an error - never as another record.
			if (mask == 1<<len(keys)-1 || mask == 0b100101) && (variant == 0 || variant == 5) {
				full, err := os.ReadFile(base + ".idx")
				if err != nil {
					ev.Fatal("read idx: %v", err)
				}
				for cut := 0; cut < len(full) && parked < 8; cut++ {
					if err := os.WriteFile(base+".idx", full[:cut], 0o644); err != nil {
						ev.Fatal("truncate idx: %v", err)
					}
					trans++
					db4, _ := blockdb.NewBlockDB(base, int8(keylen), compress)
					if hdr {
						db4.SetDBHeader(&c26Hdr{})
					}
					if err := db4.Open(); err != nil {
						out.outcome(fmt.Sprintf("torn-idx|%d|%d|open-error", mask, variant))
						continue
					}
					busy := false
					for _, w := range writtenOrder {
						var got c26Rec
						res, returned := runner.run(func() (int64, error) { return 0, db4.Read(blockdb.Key(w.K), &got) }, readBudget)
						evals++
						if !returned {
							fail("C26:BlockDB.Read:torn-index-no-return", fmt.Sprintf("index file cut at %d of %d bytes: Open succeeded and Read(%q) does not return", cut, len(full), w.K), map[string]any{"idx_cut_at": cut, "idx_len": len(full), "query": w.K})
							parked++
							runner = c26NewRunner()
							busy = true
							break
						}
						if res.err == nil && (got.K != w.K || !bytes.Equal(got.P, w.P)) {
							fail("C26:BlockDB.Read:torn-index-different-record", fmt.Sprintf("index file cut at %d of %d bytes: Read(%q) returned the record of %q", cut, len(full), w.K, got.K), map[string]any{"idx_cut_at": cut, "idx_len": len(full), "query": w.K})
						}
						out.outcome(fmt.Sprintf("torn-idx|%d|%d|read-err=%v", mask, variant, res.err != nil))
					}
					if !busy {
						_ = db4.Close()
					}
				}
				_ = os.WriteFile(base+".idx", full, 0o644)
			}
			_ = os.Remove(base + ".idx")
			_ = os.Remove(base + ".dat")
		}
	}
	out.count(states, trans, evals)
}

// ---------------------------------------------------------------------------------------------
// (b)+(c) block store worker: `store worker-c26bs <dir> <tier>`

func c26Hash(tag string, i int) string {
	const hexd = "0123456789abcdef"
	b := make([]byte, 64)
	x := uint32(len(tag)*7919 + i*104729 + 17)
	for _, c := range tag {
		x = x*31 + uint32(c)
	}
	for j := range b {
		x ^= x << 13
		x ^= x >> 17
		x ^= x << 5
		b[j] = hexd[x&15]
	}
	return string(b)
}

func c26Noise(n int, seed uint32) string {
	p := make([]byte, n)
	x := seed | 1
	for j := range p {
		x ^= x << 13
		x ^= x >> 17
		x ^= x << 5
		p[j] = byte(x)
	}
	return string(p)
}

type c26BlockSpec struct {
	NTxn    int  `json:"txns"`
	Outputs bool `json:"outputs"`
	MB      int  `json:"magic_block"` // 0 none, 1 at starting round, 2 not at starting round
	Tickets int  `json:"tickets"`
	Big     bool `json:"big_payloads"`
	ID      int  `json:"id"`
}

// real BLS public keys (from /repo/docker.local/config/b0{m,s}node*_keys.txt): node pools
// validate the key while decoding
var c26PublicKeys = []string{
	"255452b9f49ebb8c8b8fcec9f0bd8a4284e540be1286bd562578e7e59765e41a7aada04c9e2ad3e28f79aacb0f1be66715535a87983843fea81f23d8011e728b",
	"17dd0eb10c2567899e34f368e1da2744c9cd3beb2e3babaa4e3350d950bad91dd4ed03d751d49e1f6c1b25c6ec8d1cc8db4ca2da72683d2958fb23843cc6a480",
	"aa182e7f1aa1cfcb6cad1e2cbf707db43dbc0afe3437d7d6c657e79cca732122f02a8106891a78b3ebaa2a37ebd148b7ef48f5c0b1b3311094b7f15a1bd7de12",
	"b9b236311a623be9d1999fb6dd30eb223cbe16639a9d5502e28879c67aa41915a0b100ce8248360ec73dd2d822087d1c19a8aabc5262a475d8553a35c90dd217",
	"66dd43a9e7a2c5b18e495b7480ef458d220475df74156c3428cc2965fea1dd168aa17b8c2dcf42ad01411b19a8e9482dafc79d5508d743cfaf7b80d0f95fd582",
}

func c26MakeNode(tp node.NodeType, i int) *node.Node {
	n := node.Provider()
	n.Type = tp
	if err := n.SetPublicKey(c26PublicKeys[int(tp)*3+i]); err != nil {
		ev.Fatal("public key: %v", err)
	}
	n.ID = encryption.Hash(n.PublicKeyBytes)
	n.Host = fmt.Sprintf("host%d.example", i)
	n.N2NHost = fmt.Sprintf("n2n%d.example", i)
	n.Port = 7000 + i
	n.Path = "/p"
	n.Description = fmt.Sprintf("node %d", i)
	n.SetIndex = i
	n.InPrevMB = i%2 == 0
	n.Version = "1.0"
	n.CreationDate = common.Timestamp(1600000000 + int64(i))
	return n
}

func c26MakeBlock(s c26BlockSpec) *block.Block {
	b := block.Provider().(*block.Block)
	b.Hash = c26Hash("block", s.ID)
	b.Version = "1.0"
	b.CreationDate = common.Timestamp(1700000000 + int64(s.ID))
	b.LatestFinalizedMagicBlockHash = c26Hash("lfmb", s.ID)
	b.LatestFinalizedMagicBlockRound = 100
	b.PrevHash = c26Hash("prev", s.ID)
	b.MinerID = c26Hash("miner", s.ID)
	b.Round = 500 + int64(s.ID)
	b.RoundRandomSeed = -77 - int64(s.ID)
	b.RoundTimeoutCount = s.ID % 3
	b.ClientStateHash = []byte(c26Noise(32, uint32(s.ID+5)))
	b.Signature = c26Hash("sig", s.ID)
	b.ChainID = c26Hash("chain", 0)
	b.RunningTxnCount = 123456 + int64(s.ID)
	b.StateChangesCount = 7 + s.ID
	for i := 0; i < s.Tickets; i++ {
		b.VerificationTickets = append(b.VerificationTickets, &block.VerificationTicket{VerifierID: c26Hash("ver", i), Signature: c26Hash("vsig", s.ID*10+i)})
		b.PrevBlockVerificationTickets = append(b.PrevBlockVerificationTickets, &block.VerificationTicket{VerifierID: c26Hash("pver", i), Signature: c26Hash("pvsig", s.ID*10+i)})
	}
	for i := 0; i < s.NTxn; i++ {
		t := &transaction.Transaction{}
		t.Hash = c26Hash("txn", s.ID*100+i)
		t.Version = "1.0"
		t.ClientID = c26Hash("client", i)
		t.PublicKey = c26Hash("cpk", i)
		t.ToClientID = c26Hash("to", i)
		t.ChainID = b.ChainID
		t.TransactionData = fmt.Sprintf(`{"name":"f%d","input":{"k":"é\u0000 ünï"}}`, i)
		if s.Big {
			t.TransactionData += c26Noise(1500, uint32(s.ID*1000+i))
		}
		t.Value = currency.Coin(1<<53 + uint64(i))
		if i == 1 {
			t.Value = currency.Coin(^uint64(0))
		}
		t.Signature = c26Hash("tsig", s.ID*100+i)
		t.CreationDate = common.Timestamp(1700000000 + int64(i))
		t.Fee = currency.Coin(i * 1000)
		t.Nonce = int64(i + 1)
		t.TransactionType = []int{0, 10, 1000}[i%3]
		if s.Outputs {
			t.TransactionOutput = fmt.Sprintf(`{"output":%d,"text":"ok \" quoted"}`, i)
			if s.Big {
				t.TransactionOutput += c26Noise(700, uint32(s.ID*2000+i))
			}
			t.OutputHash = c26Hash("oh", s.ID*100+i)
			t.Status = 1 + i%2
		}
		b.Txns = append(b.Txns, t)
	}
	if s.MB != 0 {
		mb := block.NewMagicBlock()
		mb.Hash = c26Hash("mb", s.ID)
		mb.PreviousMagicBlockHash = c26Hash("pmb", s.ID)
		mb.MagicBlockNumber = 3
		mb.StartingRound = b.Round
		if s.MB == 2 {
			mb.StartingRound = b.Round - 10
		}
		mb.T, mb.K, mb.N = 2, 3, 4
		mb.Miners = node.NewPool(node.NodeTypeMiner)
		mb.Sharders = node.NewPool(node.NodeTypeSharder)
		for i := 0; i < 3; i++ {
			n := c26MakeNode(node.NodeTypeMiner, i)
			mb.Miners.NodesMap[n.ID] = n
			mb.Mpks.Mpks[n.ID] = &block.MPK{ID: n.ID, Mpk: []string{c26Hash("mpk", i), c26Hash("mpk", i+50)}}
			sos := block.NewShareOrSigns()
			sos.ID = n.ID
			sos.ShareOrSigns[c26Hash("peer", i+1)] = &bls.DKGKeyShare{Message: "m", Share: c26Hash("share", i), Sign: c26Hash("sign", i)}
			mb.ShareOrSigns.Shares[n.ID] = sos
		}
		for i := 0; i < 2; i++ {
			n := c26MakeNode(node.NodeTypeSharder, i)
			mb.Sharders.NodesMap[n.ID] = n
		}
		b.MagicBlock = mb
	}
	return b
}

func c26BlockJSON(b *block.Block) string {
	data, err := json.Marshal(b)
	if err != nil {
		ev.Fatal("block json: %v", err)
	}
	// normalise through a generic value so that key order is canonical
	var v any
	if err := json.Unmarshal(data, &v); err != nil {
		ev.Fatal("block json: %v", err)
	}
	out, _ := json.Marshal(v)
	return string(out)
}

func c26ListFiles(root string) []string {
	var fs []string
	_ = filepath.Walk(root, func(p string, info os.FileInfo, err error) error {
		if err == nil && !info.IsDir() {
			fs = append(fs, p)
		}
		return nil
	})
	sort.Strings(fs)
	return fs
}

func c26BlockStoreWorker() {
	dir := os.Args[2]
	thorough := len(os.Args) > 3 && os.Args[3] == "thorough"
	out := newWout()
	defer out.flush()
	block.SetupEntity(memorystore.GetStorageProvider())
	client.SetClientSignatureScheme("bls0chain")
	var states, trans, evals int64

	// ---- (b) round trip over the block alphabet
	var specs []c26BlockSpec
	id := 0
	for _, ntx := range []int{0, 1, 3} {
		for _, outputs := range []bool{false, true} {
			if ntx == 0 && outputs {
				continue
			}
			for _, mb := range []int{0, 1, 2} {
				for _, tk := range []int{0, 2} {
					for _, big := range []bool{false, true} {
						if ntx == 0 && big {
							continue
						}
						id++
						specs = append(specs, c26BlockSpec{NTxn: ntx, Outputs: outputs, MB: mb, Tickets: tk, Big: big, ID: id})
					}
				}
			}
		}
	}
	work := filepath.Join(dir, "bs-roundtrip")
	blockstore.Init(work, nil)
	store := blockstore.GetStore()
	wantJSON := map[string]string{}
	for _, s := range specs {
		b := c26MakeBlock(s)
		want := c26BlockJSON(b)
		if err := store.Write(b); err != nil {
			out.violation("C26:BlockStore.Write:error", fmt.Sprintf("%+v: %v", s, err), s)
			continue
		}
		trans++
		wantJSON[b.Hash] = want
		hashes := []string{b.Hash}
		if s.MB == 1 {
			hashes = append(hashes, b.MagicBlock.Hash) // also stored under the magic block hash
		}
		for _, h := range hashes {
			got, err := store.Read(h)
			evals++
			if err != nil {
				out.violation("C26:BlockStore.Read:error", fmt.Sprintf("%+v read under %s: %v", s, h[:8], err), s)
				continue
			}
			gj := c26BlockJSON(got)
			if gj != want {
				out.violation("C26:BlockStore.Read:roundtrip-mismatch", fmt.Sprintf("%+v: read back differs: %s", s, c26FirstDiff(want, gj)), s)
			}
			if s.MB != 0 && (got.MagicBlock == nil || got.MagicBlock.GetHash() != b.MagicBlock.GetHash()) {
				out.violation("C26:BlockStore.Read:magic-block-mismatch", fmt.Sprintf("%+v: magic block content hash differs after read back", s), s)
			}
			out.outcome(fmt.Sprintf("bs|%d|%d|%d", s.ID, len(gj), len(hashes)))
		}
		states++
		if s.ID%9 == 0 {
			out.sample(map[string]any{"part": "blockstore round trip", "block": s})
		}
	}
	// every earlier block still reads back exactly after all later writes
	for _, s := range specs {
		h := c26Hash("block", s.ID)
		got, err := store.Read(h)
		evals++
		if err != nil || c26BlockJSON(got) != wantJSON[h] {
			out.violation("C26:BlockStore.Read:earlier-block-changed", fmt.Sprintf("%+v no longer reads back exactly after later writes (err=%v)", s, err), s)
		}
	}
	// a hash never written: error, not a block
	if got, err := store.Read(c26Hash("never", 1)); err == nil {
		out.violation("C26:BlockStore.Read:absent-hash-returns-block", fmt.Sprintf("Read of a hash never written returned block %s", got.Hash), nil)
	}
	evals++

	// ---- (c) crash points of Write
	crashSpecs := []c26BlockSpec{
		{NTxn: 3, Outputs: true, MB: 0, Tickets: 2, Big: false, ID: 901},
		{NTxn: 3, Outputs: true, MB: 1, Tickets: 2, Big: true, ID: 902},
	}
	if thorough {
		crashSpecs = append(crashSpecs,
			c26BlockSpec{NTxn: 40, Outputs: true, MB: 2, Tickets: 2, Big: true, ID: 903},
			c26BlockSpec{NTxn: 0, MB: 1, ID: 904},
			c26BlockSpec{NTxn: 120, Outputs: true, MB: 0, Tickets: 0, Big: true, ID: 905})
	}
	for _, s := range crashSpecs {
		cw := filepath.Join(dir, fmt.Sprintf("bs-crash-%d", s.ID))
		blockstore.Init(cw, nil)
		st := blockstore.GetStore()
		// an earlier, completed block that must survive whatever happens to the interrupted one
		prev := c26MakeBlock(c26BlockSpec{NTxn: 1, Outputs: true, ID: s.ID + 5000})
		prevWant := c26BlockJSON(prev)
		if err := st.Write(prev); err != nil {
			ev.Fatal("write prev: %v", err)
		}
		before := c26ListFiles(cw)
		b := c26MakeBlock(s)
		want := c26BlockJSON(b)
		if err := st.Write(b); err != nil {
			out.violation("C26:BlockStore.Write:error", fmt.Sprintf("%+v: %v", s, err), s)
			continue
		}
		var files []string
		for _, f := range c26ListFiles(cw) {
			isOld := false
			for _, o := range before {
				if o == f {
					isOld = true
				}
			}
			if !isOld {
				files = append(files, f)
			}
		}
		hashes := []string{b.Hash}
		if s.MB == 1 {
			hashes = append(hashes, b.MagicBlock.Hash)
		}
		for _, f := range files {
			full, err := os.ReadFile(f)
			if err != nil {
				ev.Fatal("read %s: %v", f, err)
			}
			cuts := map[int]bool{0: true, 1: true, len(full) - 1: true}
			for c := 512; c < len(full); c += 512 {
				cuts[c] = true
			}
			var cl []int
			for c := range cuts {
				if c >= 0 && c < len(full) {
					cl = append(cl, c)
				}
			}
			sort.Ints(cl)
			cl = append(cl, -1) // file missing altogether (crash before create)
			for _, c := range cl {
				if c < 0 {
					_ = os.Remove(f)
				} else if err := os.WriteFile(f, full[:c], 0o600); err != nil {
					ev.Fatal("truncate: %v", err)
				}
				trans++
				for _, h := range hashes {
					got, err := st.Read(h)
					evals++
					rp := map[string]any{"block": s, "file_len": len(full), "cut_at": c, "read_hash_is_magic_block_hash": h != b.Hash}
					switch {
					case err != nil:
						out.outcome(fmt.Sprintf("crash|%d|%d|err:%.40s", s.ID, c/4096, err.Error()))
					case c26BlockJSON(got) == want:
						out.outcome(fmt.Sprintf("crash|%d|%d|exact", s.ID, c/4096))
					default:
						out.violation("C26:BlockStore.Read:torn-file-different-block", fmt.Sprintf("%+v: file cut at %d of %d bytes reads back without error as a different block: %s", s, c, len(full), c26FirstDiff(want, c26BlockJSON(got))), rp)
					}
				}
				pg, err := st.Read(prev.Hash)
				evals++
				if err != nil || c26BlockJSON(pg) != prevWant {
					out.violation("C26:BlockStore.Read:completed-block-lost-by-later-crash", fmt.Sprintf("%+v: earlier completed block unreadable/changed (err=%v)", s, err), s)
				}
			}
			if err := os.WriteFile(f, full, 0o600); err != nil {
				ev.Fatal("restore: %v", err)
			}
			states++
		}
		out.sample(map[string]any{"part": "blockstore crash points", "block": s, "files": len(files)})
	}
	out.count(states, trans, evals)
	out.flush()
	time.Sleep(50 * time.Millisecond) // let the store's no-op cache goroutines end
}

func c26FirstDiff(a, b string) string {
	i := 0
	for i < len(a) && i < len(b) && a[i] == b[i] {
		i++
	}
	lo := i - 60
	if lo < 0 {
		lo = 0
	}
	cut := func(s string) string {
		hi := i + 60
		if hi > len(s) {
			hi = len(s)
		}
		if lo > len(s) {
			return ""
		}
		return s[lo:hi]
	}
	return fmt.Sprintf("at byte %d: written …%s… read …%s…", i, cut(a), cut(b))
}

// ---------------------------------------------------------------------------------------------
// parent

func c26Main() {
	run := ev.Start("C26")
	keylens := []int{2}
	if run.Thorough() {
		keylens = []int{1, 2, 64}
	}
	par := runtime.NumCPU()
	if par > 16 {
		par = 16
	}
	dir := filepath.Join(ev.Root(), ".work", fmt.Sprintf("c26.%d", os.Getpid()))
	if err := os.MkdirAll(dir, 0o755); err != nil {
		ev.Fatal("mkdir: %v", err)
	}
	defer os.RemoveAll(dir)
	finish := func() {
		os.RemoveAll(dir)
		run.Finish()
	}

	run.Rule = "(a) every subset of an 8-key alphabet (256) x every query key (17 same-length keys a..q = present/between/below/above, 1 shorter, 1 longer) at index level (real mapIndex.Encode -> fixedKeyArrayIndex.Decode/mapIndex.Decode -> GetOffset, each lookup in its own goroutine of a killable worker, non-returning lookups confirmed 5x in fresh processes) and at DB level (real BlockDB Create/WriteData/Save/Open/Read/ReadAll on files, x compress x write order x header x reopen index kind); (b) BlockStore Write/Read over a 66-block alphabet; (c) every 512-byte prefix (+0,1,len-1,missing) of each file written by BlockStore.Write. distinct = distinct (case, query, result) outcomes"
	run.Bounds["stored_key_alphabet"] = len(c26Letters)
	run.Bounds["key_lengths"] = keylens
	run.Bounds["queries_per_key_set"] = len(c26Queries(2))
	run.Bounds["db_variants"] = "compress{0,1} x order{asc,desc} x header{0,1} x reopen{fixed,map}"
	run.Bounds["record_payload_sizes"] = c26PayloadSizes
	run.Bounds["crash_cut_granularity"] = 512

	hangs := 0
	phases := map[string]float64{}
	tPhase := time.Now()
	lap := func(name string) {
		phases[name] += time.Since(tPhase).Seconds()
		tPhase = time.Now()
	}
	run.Extra["phase_wall_s"] = phases
	for _, kl := range keylens {
		// ---- (a1)
		queries := c26Queries(kl)
		total := (1 << len(c26Letters)) * len(queries)
		chunk := (total + 2*par - 1) / (2 * par)
		type hc struct {
			kind     string
			mask, qi int
		}
		var cands []hc
		var skipLines []string
		var cmu sync.Mutex
		var wg sync.WaitGroup
		sem := make(chan struct{}, par)
		for lo := 0; lo < total; lo += chunk {
			hi := lo + chunk
			if hi > total {
				hi = total
			}
			wg.Add(1)
			sem <- struct{}{}
			go func(lo, hi int) {
				defer wg.Done()
				defer func() { <-sem }()
				for from := lo; from < hi; {
					w := runWorker([]string{"worker-c26idx", strconv.Itoa(kl), strconv.Itoa(from), strconv.Itoa(hi)},
						[]string{fmt.Sprintf("GOMAXPROCS=%d", c26MaxParked+8)}, 5*time.Minute)
					if w.timedOut || w.err != nil {
						ev.Fatal("index worker %d..%d failed: timeout=%v err=%v %s", from, hi, w.timedOut, w.err, w.stderr)
					}
					next := -1
					cmu.Lock()
					for _, x := range absorb(run, w) {
						var kind string
						var m, q int
						if n, _ := fmt.Sscanf(x, "hang %s %d %d", &kind, &m, &q); n == 3 {
							cands = append(cands, hc{kind, m, q})
							if kind == "fixedKeyArrayIndex" {
								skipLines = append(skipLines, fmt.Sprintf("%d %d", m, q))
							}
						}
						fmt.Sscanf(x, "next %d", &next)
					}
					cmu.Unlock()
					if next <= from {
						ev.Fatal("index worker %d..%d made no progress", from, hi)
					}
					from = next
				}
			}(lo, hi)
		}
		wg.Wait()
		lap("index_lookups")
		hangs += len(cands)
		if len(cands) > 0 {
			// minimal candidate first: fewest stored keys, then smallest mask / query
			sort.Slice(cands, func(i, j int) bool {
				bi, bj := popcount(cands[i].mask), popcount(cands[j].mask)
				if bi != bj {
					return bi < bj
				}
				if cands[i].mask != cands[j].mask {
					return cands[i].mask < cands[j].mask
				}
				if cands[i].qi != cands[j].qi {
					return cands[i].qi < cands[j].qi
				}
				return cands[i].kind < cands[j].kind
			})
			// confirm one representative per class 5x in fresh processes with a 100x larger budget
			confirmed := map[string]bool{}
			for _, c := range cands {
				q := queries[c.qi]
				class := "absent-key-hang"
				for _, k := range c26Subset(kl, c.mask) {
					if k == q {
						class = "present-key-hang"
					}
				}
				class = c.kind + ".GetOffset:" + class
				if _, done := confirmed[class]; done {
					continue
				}
				jobs := make([][]string, 5)
				for i := range jobs {
					jobs[i] = []string{"worker-c26idx", strconv.Itoa(kl), "confirm", strconv.Itoa(c.mask), strconv.Itoa(c.qi), c.kind}
				}
				res := runWorkers(jobs, []string{"GOMAXPROCS=4", "VERIF_HANG_CPU_BUDGET=1s"}, 5, 5*time.Minute)
				all := true
				for _, r := range res {
					ok := false
					for _, l := range r.lines {
						if l == "X\thang" {
							ok = true
						}
					}
					all = all && ok
				}
				confirmed[class] = all
				n := 0
				for _, d := range cands {
					if d.kind == c.kind {
						n++
					}
				}
				if all {
					run.Violation("C26:"+class,
						fmt.Sprintf("key length %d, stored keys %v: GetOffset(%q) does not return (5 of 5 fresh processes, each stopped after 1 s of user CPU time spent inside the call; a returning lookup costs < 1 us); %d of the %d (key set, query) pairs of this key length did not return within 8 ms (2 scheduler ticks) of user CPU time", kl, c26Subset(kl, c.mask), q, n, total),
						map[string]any{"keylen": kl, "stored_keys": c26Subset(kl, c.mask), "query": q, "index": c.kind, "how": "index := mapIndex{stored_keys}.Encode -> <index>.Decode; index.GetOffset(query)  (= BlockDB.Open; BlockDB.Read(query))"})
				} else {
					run.Capped(fmt.Sprintf("lookup %v/%q exceeded the 8 ms CPU budget in the batch run but returned when re-run alone: not reported", c26Subset(kl, c.mask), q))
				}
			}
		}
		lap("hang_confirmation")
		// ---- (a2)
		skipFile := filepath.Join(dir, fmt.Sprintf("skip-%d", kl))
		if err := os.WriteFile(skipFile, []byte(strings.Join(skipLines, "\n")), 0o644); err != nil {
			ev.Fatal("skip file: %v", err)
		}
		var dwg sync.WaitGroup
		for sh := 0; sh < par; sh++ {
			dwg.Add(1)
			go func(sh int) {
				defer dwg.Done()
				resume := 0
				for {
					args := []string{"worker-c26db", strconv.Itoa(kl), strconv.Itoa(sh), strconv.Itoa(par), skipFile, dir, strconv.Itoa(resume)}
					r := runWorker(args, []string{"GOMAXPROCS=12"}, 10*time.Minute)
					if r.timedOut {
						run.Violation("C26:BlockDB:worker-no-return", fmt.Sprintf("DB worker %d did not finish in 10 min", sh), args)
						return
					}
					if r.err != nil {
						ev.Fatal("db worker %d: %v\n%s", sh, r.err, r.stderr)
					}
					next := -1
					cmu.Lock()
					for _, x := range absorb(run, r) {
						fmt.Sscanf(x, "resume %d", &next)
					}
					cmu.Unlock()
					if next < 0 {
						return
					}
					if next <= resume {
						ev.Fatal("db worker %d made no progress", sh)
					}
					resume = next
				}
			}(sh)
		}
		dwg.Wait()
		lap("db_files")
	}
	run.Extra["index_lookups_not_returning"] = hangs
	run.Sample(map[string]any{"part": "index", "stored_keys": c26Subset(2, 0b10101), "queries": c26Queries(2)})

	// ---- (b)+(c)
	w := runWorker([]string{"worker-c26bs", dir, run.Tier}, nil, 10*time.Minute)
	if w.timedOut || w.err != nil {
		ev.Fatal("blockstore worker failed: timeout=%v err=%v %s", w.timedOut, w.err, w.stderr)
	}
	absorb(run, w)
	lap("blockstore")

	run.Assumptions = []string{
		"crash model: a process crash leaves a prefix of the file being written (every 512-byte prefix, 0, 1, len-1, or no file); earlier completed files are untouched",
		"hang verdict: a lookup that consumed 8 ms (2 scheduler ticks) of user-mode CPU time on its own OS thread without returning (a returning lookup costs < 1 us) is a candidate; the minimal candidate of each class is re-run alone 5x in fresh processes with a 1 s CPU budget before it is reported",
		"DB-level Read is not re-executed for (key set, query) pairs whose index lookup - Read's first step - does not return",
		"block equality = equality of the JSON form (all persisted fields: hash, header, tickets, transactions with outputs, magic block) plus MagicBlock.GetHash()",
	}
	finish()
}

func popcount(x int) int {
	n := 0
	for ; x != 0; x &= x - 1 {
		n++
	}
	return n
}
