package main

func c08Main() {}
