package main

func c08Main()   {}
func c10Main()   {}
func c20Main()   {}
func c25Main()   {}
func c25Worker() {}
