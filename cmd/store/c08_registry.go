package main

import (
	"encoding/hex"
	"fmt"
	"reflect"
	"sort"

	"0chain.net/chaincore/block"
	cstate "0chain.net/chaincore/chain/state"
	"0chain.net/chaincore/client"
	"0chain.net/chaincore/node"
	"0chain.net/chaincore/state"
	"0chain.net/chaincore/threshold/bls"
	"0chain.net/chaincore/tokenpool"
	"0chain.net/core/datastore"
	"0chain.net/core/encryption"
	"0chain.net/core/util/entitywrapper"
	"0chain.net/smartcontract/faucetsc"
	"0chain.net/smartcontract/minersc"
	"0chain.net/smartcontract/multisigsc"
	"0chain.net/smartcontract/partitions"
	"0chain.net/smartcontract/provider"
	"0chain.net/smartcontract/stakepool"
	"0chain.net/smartcontract/storagesc"
	"0chain.net/smartcontract/vestingsc"
	"0chain.net/smartcontract/zcnsc"
)

var c08Assumptions = []string{
	"stored value of a struct = its exported fields not tagged msg:\"-\" (plus the unexported fields of types generated with msgp -unexported and holding such fields: state.HardFork); caches, mutexes, derived maps (BlobberAllocsMap, ChallengeMap, Pool.Nodes, Partitions.Partitions/locations) are not part of it",
	"equality ignores the nil / empty distinction of slices and maps, compares time.Time with Equal and floats bitwise",
	"state.State: TxnHashBytes is a 32-byte hash (as SetTxnHash stores it); TxnHash is derived from it by ComputeProperties",
	"node pools (magic block, miner global node): node public keys are valid BLS keys and every node's id is the hash of its public key and its SetIndex its position in id order, the pool map being keyed by id (the stored invariants the pool decoder re-establishes via SetPublicKey / computeNodePositions); free ids and indexes are enumerated on node.Node / client.Client themselves",
	"entity wrappers: the Version tag is set by the codec (InitVersion) and is not enumerated",
	"values are decoded into a fresh zero value, as GetTrieNode's callers do",
}

func c08Ptr[T any]() func() c08Codec {
	return func() c08Codec {
		var p any = new(T)
		c, ok := p.(c08Codec)
		if !ok {
			panic(fmt.Sprintf("%T has no msgp codec", p))
		}
		return c
	}
}

func c08FromShim(pkg string, m map[string]func() interface{}) []c08Entry {
	var names []string
	for n := range m {
		names = append(names, n)
	}
	sort.Strings(names)
	var out []c08Entry
	for _, n := range names {
		mk := m[n]
		if _, ok := mk().(c08Codec); !ok {
			panic(pkg + "." + n + " has no msgp codec")
		}
		out = append(out, c08Entry{Name: pkg + "." + n, New: func() c08Codec { return mk().(c08Codec) }})
	}
	return out
}

var c08ClientType = reflect.TypeOf(client.Client{})
var c08PoolType = reflect.TypeOf(node.Pool{})

// c08FixClientIDs enforces "client id == hash(public key)" (an invariant of every stored node /
// client, which the node pool decoder re-establishes through SetPublicKey) on a generated value.
func c08FixClientIDs(v reflect.Value) {
	switch v.Kind() {
	case reflect.Ptr:
		if !v.IsNil() {
			c08FixClientIDs(v.Elem())
		}
	case reflect.Struct:
		if v.Type() == c08ClientType && v.CanAddr() {
			c := v.Addr().Interface().(*client.Client)
			if b, err := hex.DecodeString(c.PublicKey); err == nil {
				c.ID = encryption.Hash(b)
			}
			return
		}
		if v.Type() == c08TimeType {
			return
		}
		for i := 0; i < v.NumField(); i++ {
			if v.Type().Field(i).IsExported() {
				c08FixClientIDs(v.Field(i))
			}
		}
		if v.Type() == c08PoolType && v.CanAddr() {
			// inside a pool a node's SetIndex is its position in id order (AddNode and the decoders
			// both recompute it)
			// ... and the map is keyed by node id (so ids are distinct)
			p := v.Addr().Interface().(*node.Pool)
			var ks []string
			for k := range p.NodesMap {
				ks = append(ks, k)
			}
			sort.Strings(ks)
			var ns []*node.Node
			if p.NodesMap != nil {
				byID := make(map[string]*node.Node, len(ks))
				for _, k := range ks {
					if n := p.NodesMap[k]; n != nil && byID[n.GetKey()] == nil {
						byID[n.GetKey()] = n
						ns = append(ns, n)
					}
				}
				p.NodesMap = byID
			}
			sort.SliceStable(ns, func(i, j int) bool { return ns[i].GetKey() < ns[j].GetKey() })
			for i, n := range ns {
				n.SetIndex = i
			}
		}
	case reflect.Slice:
		for i := 0; i < v.Len(); i++ {
			c08FixClientIDs(v.Index(i))
		}
	case reflect.Map:
		for it := v.MapRange(); it.Next(); {
			c08FixClientIDs(it.Value())
		}
	}
}

var c08NodeKeys = []any{c26PublicKeys[0], c26PublicKeys[1], c26PublicKeys[2], c26PublicKeys[3], c26PublicKeys[4]}

func c08Hash32(b byte) []byte {
	h := make([]byte, 32)
	for i := range h {
		h[i] = b + byte(i)*7
	}
	return h
}

// wrapper entries: one per registered version
type c08Wrapper struct {
	name     string
	typeName string
	mk       func() interface {
		c08Codec
		SetEntity(entitywrapper.EntityI)
		Entity() entitywrapper.EntityI
	}
}

var c08Wrappers = []c08Wrapper{
	{"storagesc.StorageAllocation", (&storagesc.StorageAllocation{}).TypeName(), func() interface {
		c08Codec
		SetEntity(entitywrapper.EntityI)
		Entity() entitywrapper.EntityI
	} {
		return &storagesc.StorageAllocation{}
	}},
	{"storagesc.StorageNode", (&storagesc.StorageNode{}).TypeName(), func() interface {
		c08Codec
		SetEntity(entitywrapper.EntityI)
		Entity() entitywrapper.EntityI
	} {
		return &storagesc.StorageNode{}
	}},
	{"storagesc.WriteMarker", (&storagesc.WriteMarker{}).TypeName(), func() interface {
		c08Codec
		SetEntity(entitywrapper.EntityI)
		Entity() entitywrapper.EntityI
	} {
		return &storagesc.WriteMarker{}
	}},
}

func c08WrapperVersions(w c08Wrapper) []string {
	fs, ok := entitywrapper.GetEntityVersionFuncs(w.typeName)
	if !ok {
		panic("wrapper not registered: " + w.typeName)
	}
	var vs []string
	for v := range fs {
		vs = append(vs, v)
	}
	sort.Strings(vs)
	return vs
}

func c08WrapperEntry(w c08Wrapper, version string) c08Entry {
	fs, _ := entitywrapper.GetEntityVersionFuncs(w.typeName)
	creator := fs[version]
	return c08Entry{
		Name: fmt.Sprintf("%s(%s)", w.name, version),
		New: func() c08Codec {
			x := w.mk()
			x.SetEntity(creator())
			return x
		},
		Root: func(c c08Codec) reflect.Value {
			return reflect.ValueOf(c.(interface{ Entity() entitywrapper.EntityI }).Entity()).Elem()
		},
		Skip: map[string]bool{"Version": true},
	}
}

func c08Registry() []c08Entry {
	var es []c08Entry
	add := func(name string, mk func() c08Codec) { es = append(es, c08Entry{Name: name, New: mk}) }

	// balances
	es = append(es, c08Entry{
		Name: "state.State",
		New: func() c08Codec {
			s := &state.State{}
			s.TxnHashBytes = make([]byte, 32)
			return s
		},
		Post:      func(c c08Codec) { _ = c.(*state.State).ComputeProperties() },
		Alphabets: map[string][]any{"TxnHashBytes": {make([]byte, 32), c08Hash32(0xff), c08Hash32(1), c08Hash32(0x80)}},
		NotStored: map[string]string{"State.TxnHash": "derived from TxnHashBytes by ComputeProperties"},
	})
	add("state.Transfer", c08Ptr[state.Transfer]())
	es = append(es, c08Entry{Name: "cstate.HardFork", New: func() c08Codec { return cstate.NewHardFork("", 0) }})
	add("cstate.ApprovedMinter", c08Ptr[cstate.ApprovedMinter]())

	// magic block and what it is made of
	mbAlpha := map[string][]any{"PublicKey": c08NodeKeys}
	es = append(es, c08Entry{Name: "node.Pool", New: func() c08Codec { return &node.Pool{} }, Alphabets: mbAlpha, Fix: c08FixClientIDs})
	es = append(es, c08Entry{Name: "block.MagicBlock", New: func() c08Codec { return &block.MagicBlock{} }, Alphabets: mbAlpha, Fix: c08FixClientIDs})
	add("node.Node", c08Ptr[node.Node]())
	add("node.Info", c08Ptr[node.Info]())
	add("client.Client", c08Ptr[client.Client]())
	add("block.GroupSharesOrSigns", c08Ptr[block.GroupSharesOrSigns]())
	add("block.ShareOrSigns", c08Ptr[block.ShareOrSigns]())
	add("block.Mpks", c08Ptr[block.Mpks]())
	add("block.MPK", c08Ptr[block.MPK]())
	add("bls.DKGKeyShare", c08Ptr[bls.DKGKeyShare]())

	// shared building blocks
	add("datastore.HashIDField", c08Ptr[datastore.HashIDField]())
	add("datastore.IDField", c08Ptr[datastore.IDField]())
	add("datastore.NOIDField", c08Ptr[datastore.NOIDField]())
	add("datastore.VersionField", c08Ptr[datastore.VersionField]())
	add("datastore.CreationDateField", c08Ptr[datastore.CreationDateField]())
	add("tokenpool.ZcnPool", c08Ptr[tokenpool.ZcnPool]())
	add("tokenpool.TokenPool", c08Ptr[tokenpool.TokenPool]())
	add("provider.Provider", c08Ptr[provider.Provider]())
	add("stakepool.StakePool", c08Ptr[stakepool.StakePool]())
	add("stakepool.DelegatePool", c08Ptr[stakepool.DelegatePool]())
	add("stakepool.Settings", c08Ptr[stakepool.Settings]())

	// partitions
	add("partitions.Partitions", c08Ptr[partitions.Partitions]())
	es = append(es, c08FromShim("partitions", partitions.VerifStoreTypes())...)

	// faucet
	add("faucetsc.GlobalNode", c08Ptr[faucetsc.GlobalNode]())
	add("faucetsc.UserNode", c08Ptr[faucetsc.UserNode]())
	add("faucetsc.FaucetConfig", c08Ptr[faucetsc.FaucetConfig]())

	// miner contract: nodes, phase / DKG records, settings
	es = append(es, c08Entry{Name: "minersc.GlobalNode", New: c08Ptr[minersc.GlobalNode](), Alphabets: mbAlpha, Fix: c08FixClientIDs})
	add("minersc.GlobalSettings", c08Ptr[minersc.GlobalSettings]())
	add("minersc.MinerNode", c08Ptr[minersc.MinerNode]())
	add("minersc.MinerNodes", c08Ptr[minersc.MinerNodes]())
	add("minersc.NodePool", c08Ptr[minersc.NodePool]())
	add("minersc.SimpleNode", c08Ptr[minersc.SimpleNode]())
	add("minersc.SimpleNodes", c08Ptr[minersc.SimpleNodes]())
	add("minersc.DKGMinerNodes", c08Ptr[minersc.DKGMinerNodes]())
	add("minersc.NodeIDs", c08Ptr[minersc.NodeIDs]())
	add("minersc.PhaseNode", c08Ptr[minersc.PhaseNode]())
	add("minersc.ViewChangeLock", c08Ptr[minersc.ViewChangeLock]())

	// multisig
	add("multisigsc.Wallet", c08Ptr[multisigsc.Wallet]())
	es = append(es, c08FromShim("multisigsc", multisigsc.VerifStoreTypes())...)

	// storage contract
	add("storagesc.Config", c08Ptr[storagesc.Config]())
	add("storagesc.AllocationChallenges", c08Ptr[storagesc.AllocationChallenges]())
	add("storagesc.AllocOpenChallenge", c08Ptr[storagesc.AllocOpenChallenge]())
	add("storagesc.Allocations", c08Ptr[storagesc.Allocations]())
	add("storagesc.BlobberAllocation", c08Ptr[storagesc.BlobberAllocation]())
	add("storagesc.BlobberAllocationNode", c08Ptr[storagesc.BlobberAllocationNode]())
	add("storagesc.BlobberNode", c08Ptr[storagesc.BlobberNode]())
	add("storagesc.BlobberRewardNode", c08Ptr[storagesc.BlobberRewardNode]())
	add("storagesc.ChallengeReadyBlobber", c08Ptr[storagesc.ChallengeReadyBlobber]())
	add("storagesc.ValidationPartitionNode", c08Ptr[storagesc.ValidationPartitionNode]())
	add("storagesc.PartitionsWeights", c08Ptr[storagesc.PartitionsWeights]())
	add("storagesc.ReadConnection", c08Ptr[storagesc.ReadConnection]())
	add("storagesc.ReadMarker", c08Ptr[storagesc.ReadMarker]())
	add("storagesc.RewardRound", c08Ptr[storagesc.RewardRound]())
	add("storagesc.StorageAllocationStats", c08Ptr[storagesc.StorageAllocationStats]())
	add("storagesc.StorageChallenge", c08Ptr[storagesc.StorageChallenge]())
	add("storagesc.StorageNodes", c08Ptr[storagesc.StorageNodes]())
	add("storagesc.Terms", c08Ptr[storagesc.Terms]())
	add("storagesc.ValidationNode", c08Ptr[storagesc.ValidationNode]())
	add("storagesc.ValidatorNodes", c08Ptr[storagesc.ValidatorNodes]())
	add("storagesc.SortedList", c08Ptr[storagesc.SortedList]())
	es = append(es, c08FromShim("storagesc", storagesc.VerifStoreTypes())...)
	for _, w := range c08Wrappers {
		for _, v := range c08WrapperVersions(w) {
			es = append(es, c08WrapperEntry(w, v))
		}
	}

	// vesting
	es = append(es, c08FromShim("vestingsc", vestingsc.VerifStoreTypes())...)

	// bridge
	add("zcnsc.GlobalNode", c08Ptr[zcnsc.GlobalNode]())
	add("zcnsc.ZCNSConfig", c08Ptr[zcnsc.ZCNSConfig]())
	add("zcnsc.UserNode", c08Ptr[zcnsc.UserNode]())
	add("zcnsc.AuthorizerNode", c08Ptr[zcnsc.AuthorizerNode]())
	add("zcnsc.AuthorizerConfig", c08Ptr[zcnsc.AuthorizerConfig]())
	add("zcnsc.AuthCount", c08Ptr[zcnsc.AuthCount]())
	add("zcnsc.StakePool", c08Ptr[zcnsc.StakePool]())
	add("zcnsc.WZCNMintedNonce", c08Ptr[zcnsc.WZCNMintedNonce]())
	return es
}

// c08Migrations: every value of an older entity version (one field at a time) is stored, read
// back, migrated to the next version with the real MigrateFrom and must keep every common field;
// the migrated value must itself round-trip.
func c08Migrations(col *c08Collector) (int64, map[string]struct{}) {
	outcomes := map[string]struct{}{}
	var n int64
	for wi, w := range c08Wrappers {
		vs := c08WrapperVersions(w)
		fs, _ := entitywrapper.GetEntityVersionFuncs(w.typeName)
		for k := 0; k+1 < len(vs); k++ {
			from, to := vs[k], vs[k+1]
			e := c08WrapperEntry(w, from)
			eTo := c08WrapperEntry(w, to)
			root := c08Root(&e, e.New())
			var ls []c08Leaf
			c08Leaves(root.Type(), &e, nil, "", map[reflect.Type]int{}, 0, &ls)
			rank := int64(1000+wi*10+k) << 40
			for _, l := range ls {
				for _, val := range c08Alphabet(l, &e, false) {
					rank++
					n++
					x := e.New()
					c08Defaults(c08Root(&e, x), &e, 0)
					c08Mutate(&e, c08Root(&e, x), l.path, func(pos reflect.Value) { pos.Set(val) })
					desc := fmt.Sprintf("%s = %s", c08PathString(l.path), c08ShortValue(val))
					name := fmt.Sprintf("%s:migrate-%s-%s", w.name, from, to)
					report := func(class, what string) {
						col.add(c08Finding{"C08:" + name + ":" + class, fmt.Sprintf("%s stored as %s with %s, read back and migrated to %s: %s", w.name, from, desc, to, what), rank,
							map[string]any{"type": w.name, "from": from, "to": to, "value": desc}})
						outcomes[name+"|"+class] = struct{}{}
					}
					func() {
						defer func() {
							if p := recover(); p != nil {
								report("panic", fmt.Sprintf("panic: %.200v", p))
							}
						}()
						b, err := x.MarshalMsg(nil)
						if err != nil {
							report("encode-error", err.Error())
							return
						}
						y := w.mk()
						if _, err := y.UnmarshalMsg(b); err != nil {
							report("decode-error", err.Error())
							return
						}
						old := y.Entity()
						if old.GetVersion() != from {
							report("wrong-version-decoded", fmt.Sprintf("decoded as %s", old.GetVersion()))
							return
						}
						nw := fs[to]()
						if err := nw.MigrateFrom(old); err != nil {
							report("migrate-error", err.Error())
							return
						}
						// every field the two versions have in common keeps its value
						ov, nv := reflect.ValueOf(old).Elem(), reflect.ValueOf(nw).Elem()
						for i := 0; i < ov.NumField(); i++ {
							f := ov.Type().Field(i)
							if !c08Serialized(ov.Type(), f, &e) {
								continue
							}
							nf, ok := nv.Type().FieldByName(f.Name)
							if !ok || nf.Type != f.Type {
								continue
							}
							if d := c08Equal(ov.Field(i), nv.FieldByName(f.Name), &e, f.Name, c08ShortType(ov.Type())+"."+f.Name); d != nil {
								report("field-lost:"+f.Name, fmt.Sprintf("common field %s changed / was dropped by MigrateFrom (at %s)", f.Name, d.path))
								return
							}
						}
						z := w.mk()
						z.SetEntity(nw)
						o := c08Check(&eTo, z, "migrated from "+from+" with "+desc, rank, col)
						outcomes[name+"|"+o] = struct{}{}
					}()
				}
			}
		}
	}
	return n, outcomes
}
