// C20 (part "merge") — merging a block's events before storage never drops an event whose effect
// is additive or append-only.
//
// The real mergeEvents (smartcontract/dbs/event/process.go) is run on every event list of
// length <= 4 over an alphabet of bridge burn tickets, authorizer burns, bridge mints and
// stake / read-pool / write-pool lock events (events built exactly as the contracts emit them:
// same tag, same index, same pointer/value data kind), in every order. The abstract effect of a
// list — the multiset of burn tickets and the per-key sums of the additive events — is computed
// by one boring function from the event data, before and after merging, and must be equal.
package main

import (
	"fmt"
	"math/big"
	"runtime"
	"sort"
	"strings"
	"sync"

	"0chain.net/chaincore/state"
	"0chain.net/smartcontract/dbs/event"
	"0chain.net/smartcontract/stakepool/spenum"
	"github.com/0chain/common/core/currency"

	"verif/lib/ev"
)

// one letter of the alphabet: a description and a constructor of a *fresh* event (mergeEvents
// mutates event data in place)
type c20Letter struct {
	Name   string
	Make   func() event.Event
	Unique bool // a burn ticket / mint is tied to one transaction: it cannot occur twice in a block
}

func c20Alphabet(thorough bool) []c20Letter {
	var a []c20Letter
	unique := false
	add := func(name string, mk func() event.Event) { a = append(a, c20Letter{name, mk, unique}) }
	stats := func(tag event.EventTag, index string, data any) event.Event {
		return event.Event{BlockNumber: 7, TxHash: "tx-" + index, Type: event.TypeStats, Tag: tag, Index: index, Data: data, Version: event.Version1}
	}
	// zcnsc.Burn: TagAddBurnTicket, index = Ethereum address, data = *BurnTicket
	bt := func(addr, hash string, amount uint64, nonce int64) {
		add(fmt.Sprintf("burn-ticket(eth=%s,txn=%s,amount=%d,nonce=%d)", addr, hash, amount, nonce), func() event.Event {
			return stats(event.TagAddBurnTicket, addr, &event.BurnTicket{EthereumAddress: addr, Hash: hash, Amount: currency.Coin(amount), Nonce: nonce})
		})
	}
	unique = true
	bt("0xA", "h1", 5, 1)
	bt("0xA", "h2", 7, 2)
	bt("0xB", "h3", 5, 1)
	unique = false
	// zcnsc.Burn: TagAuthorizerBurn, index = burning client, data = state.Burn (value)
	ab := func(client string, amount uint64) {
		add(fmt.Sprintf("authorizer-burn(client=%s,amount=%d)", client, amount), func() event.Event {
			return stats(event.TagAuthorizerBurn, client, state.Burn{Burner: client, Amount: currency.Coin(amount)})
		})
	}
	ab("X", 5)
	ab("X", 7)
	ab("Y", 5)
	// zcnsc.Mint: TagAddBridgeMint, index = minting client, data = *BridgeMint
	bm := func(user string, nonce int64, amount uint64, signers ...string) {
		add(fmt.Sprintf("bridge-mint(user=%s,nonce=%d,amount=%d,signers=%v)", user, nonce, amount, signers), func() event.Event {
			return stats(event.TagAddBridgeMint, user, &event.BridgeMint{UserID: user, MintNonce: nonce, Amount: currency.Coin(amount), Signers: append([]string{}, signers...)})
		})
	}
	unique = true
	bm("X", 1, 10, "s1", "s2")
	bm("X", 2, 20, "s1")
	bm("Y", 1, 10, "s2")
	unique = false
	// stakepool lock: TagLockStakePool, index = delegate pool id (= client), data = DelegatePoolLock (value)
	sl := func(tag event.EventTag, tn, client, provider string, amount int64) {
		add(fmt.Sprintf("%s(client=%s,provider=%s,amount=%d)", tn, client, provider, amount), func() event.Event {
			return stats(tag, client, event.DelegatePoolLock{Client: client, ProviderId: provider, ProviderType: spenum.Blobber, Amount: amount, Total: amount})
		})
	}
	sl(event.TagLockStakePool, "stake-lock", "P", "b1", 3)
	sl(event.TagLockStakePool, "stake-lock", "P", "b2", 4)
	sl(event.TagLockStakePool, "stake-lock", "Q", "b1", 3)
	// storagesc read pool lock: TagLockReadPool, index = client, data = ReadPoolLock (value)
	rl := func(tag event.EventTag, tn, client string, amount int64) {
		add(fmt.Sprintf("%s(client=%s,amount=%d)", tn, client, amount), func() event.Event {
			return stats(tag, client, event.ReadPoolLock{Client: client, PoolId: client, Amount: amount})
		})
	}
	rl(event.TagLockReadPool, "read-pool-lock", "X", 3)
	rl(event.TagLockReadPool, "read-pool-lock", "X", 4)
	rl(event.TagLockReadPool, "read-pool-lock", "Y", 3)
	// storagesc write pool lock: TagLockWritePool, index = allocation id, data = WritePoolLock (value)
	wl := func(tag event.EventTag, tn, alloc, client string, amount int64) {
		add(fmt.Sprintf("%s(alloc=%s,client=%s,amount=%d)", tn, alloc, client, amount), func() event.Event {
			return stats(tag, alloc, event.WritePoolLock{Client: client, AllocationId: alloc, Amount: amount})
		})
	}
	wl(event.TagLockWritePool, "write-pool-lock", "a1", "X", 3)
	wl(event.TagLockWritePool, "write-pool-lock", "a1", "Y", 4)
	wl(event.TagLockWritePool, "write-pool-lock", "a2", "X", 3)
	if thorough {
		sl(event.TagUnlockStakePool, "stake-unlock", "P", "b1", 3)
		sl(event.TagUnlockStakePool, "stake-unlock", "P", "b2", 4)
		rl(event.TagUnlockReadPool, "read-pool-unlock", "X", 3)
		rl(event.TagUnlockReadPool, "read-pool-unlock", "X", 4)
		wl(event.TagUnlockWritePool, "write-pool-unlock", "a1", "X", 3)
		wl(event.TagUnlockWritePool, "write-pool-unlock", "a1", "X", 4)
		ua := func(tag event.EventTag, tn, user string, fees, collected int64) {
			add(fmt.Sprintf("%s(user=%s,fees=%d,collected=%d)", tn, user, fees, collected), func() event.Event {
				return stats(tag, user, event.UserAggregate{UserID: user, PayedFees: fees, CollectedReward: collected})
			})
		}
		ua(event.TagUpdateUserPayedFees, "user-payed-fees", "X", 3, 0)
		ua(event.TagUpdateUserPayedFees, "user-payed-fees", "X", 4, 0)
		ua(event.TagUpdateUserCollectedRewards, "user-collected-rewards", "X", 0, 3)
		ua(event.TagUpdateUserCollectedRewards, "user-collected-rewards", "X", 0, 4)
	}
	return a
}

// c20Effect is the abstract effect of an event list: component name -> canonical value.
// Burn tickets are append-only (a multiset); everything else is a per-key sum.
func c20Effect(events []event.Event) (map[string]string, error) {
	tickets := []string{}
	sums := map[string]*big.Int{}
	addSum := func(comp, key string, v *big.Int) {
		k := comp + "|" + key
		if sums[k] == nil {
			sums[k] = new(big.Int)
		}
		sums[k].Add(sums[k], v)
	}
	for _, e := range events {
		if e.Type != event.TypeStats {
			continue
		}
		switch e.Tag {
		case event.TagAddBurnTicket:
			items, err := c20Items[event.BurnTicket](e.Data)
			if err != nil {
				return nil, err
			}
			for _, t := range items {
				tickets = append(tickets, fmt.Sprintf("(eth=%s,txn=%s,amount=%d,nonce=%d)", t.EthereumAddress, t.Hash, t.Amount, t.Nonce))
			}
		case event.TagAuthorizerBurn:
			items, err := c20Items[state.Burn](e.Data)
			if err != nil {
				return nil, err
			}
			for _, b := range items {
				addSum("authorizer-burn-total", b.Burner, new(big.Int).SetUint64(uint64(b.Amount)))
			}
		case event.TagAddBridgeMint:
			items, err := c20Items[event.BridgeMint](e.Data)
			if err != nil {
				return nil, err
			}
			for _, m := range items {
				for _, s := range m.Signers {
					addSum("authorizer-mint-total", s, new(big.Int).SetUint64(uint64(m.Amount)))
				}
			}
		case event.TagLockStakePool, event.TagUnlockStakePool:
			items, err := c20Items[event.DelegatePoolLock](e.Data)
			if err != nil {
				return nil, err
			}
			for _, l := range items {
				addSum(e.Tag.String(), l.Client, big.NewInt(l.Amount))
			}
		case event.TagLockReadPool, event.TagUnlockReadPool:
			items, err := c20Items[event.ReadPoolLock](e.Data)
			if err != nil {
				return nil, err
			}
			for _, l := range items {
				addSum(e.Tag.String(), l.Client, big.NewInt(l.Amount))
			}
		case event.TagLockWritePool, event.TagUnlockWritePool:
			items, err := c20Items[event.WritePoolLock](e.Data)
			if err != nil {
				return nil, err
			}
			for _, l := range items {
				addSum(e.Tag.String(), l.AllocationId, big.NewInt(l.Amount))
			}
		case event.TagUpdateUserPayedFees:
			items, err := c20Items[event.UserAggregate](e.Data)
			if err != nil {
				return nil, err
			}
			for _, u := range items {
				addSum(e.Tag.String(), u.UserID, big.NewInt(u.PayedFees))
			}
		case event.TagUpdateUserCollectedRewards:
			items, err := c20Items[event.UserAggregate](e.Data)
			if err != nil {
				return nil, err
			}
			for _, u := range items {
				addSum(e.Tag.String(), u.UserID, big.NewInt(u.CollectedReward))
			}
		}
	}
	out := map[string]string{}
	if len(tickets) > 0 {
		sort.Strings(tickets)
		out["burn-tickets"] = strings.Join(tickets, " ")
	}
	for k, v := range sums {
		out[k] = v.String()
	}
	return out, nil
}

// c20Items reads event data that is a T, a *T, a []T or a *[]T.
func c20Items[T any](data any) ([]T, error) {
	switch v := data.(type) {
	case T:
		return []T{v}, nil
	case *T:
		return []T{*v}, nil
	case []T:
		return v, nil
	case *[]T:
		return *v, nil
	}
	return nil, fmt.Errorf("unexpected event data type %T", data)
}

func c20Render(m map[string]string) string {
	ks := make([]string, 0, len(m))
	for k := range m {
		ks = append(ks, k)
	}
	sort.Strings(ks)
	var sb strings.Builder
	for _, k := range ks {
		fmt.Fprintf(&sb, "%s=%s; ", k, m[k])
	}
	return sb.String()
}

var c20MergerOf = map[string]string{
	"burn-tickets":          "mergeAddBurnTicket",
	"authorizer-burn-total": "mergeAuthorizerBurnEvents",
	"authorizer-mint-total": "mergeAddBridgeMintEvents",
}

type c20Finding struct {
	key, what string
	seq       []int
}

func c20Main() {
	run := ev.Start("C20")
	alpha := c20Alphabet(run.Thorough())
	maxLen := 4
	run.Rule = fmt.Sprintf("every event list of length 0..%d over %d event letters (bridge burn tickets, authorizer burns, bridge mints, stake/read-pool/write-pool locks%s; same and different index keys) in every order (a burn ticket / mint letter, being tied to one transaction, at most once per list) through the real mergeEvents; distinct = distinct abstract effects of the merged lists", maxLen, len(alpha), map[bool]string{true: ", unlocks, user fee / collected-reward updates", false: ""}[run.Thorough()])
	run.Bounds["max_list_length"] = maxLen
	var names []string
	for _, l := range alpha {
		names = append(names, l.Name)
	}
	run.Bounds["alphabet"] = names

	// all sequences by length, then lexicographic: the first finding per key is minimal
	var seqs [][]int
	var gen func(prefix []int, n int)
	gen = func(prefix []int, n int) {
		if len(prefix) == n {
			seqs = append(seqs, append([]int{}, prefix...))
			return
		}
		for i := range alpha {
			dup := false
			for _, p := range prefix {
				dup = dup || (p == i && alpha[i].Unique)
			}
			if !dup {
				gen(append(prefix, i), n)
			}
		}
	}
	for n := 0; n <= maxLen; n++ {
		gen(nil, n)
	}

	workers := runtime.NumCPU()
	if workers > 16 {
		workers = 16
	}
	var mu sync.Mutex
	best := map[string]c20Finding{}
	bestIdx := map[string]int{}
	effects := map[string]struct{}{}
	report := func(idx int, key, what string) {
		mu.Lock()
		if old, ok := bestIdx[key]; !ok || idx < old {
			bestIdx[key] = idx
			best[key] = c20Finding{key, what, seqs[idx]}
		}
		mu.Unlock()
	}
	var wg sync.WaitGroup
	for w := 0; w < workers; w++ {
		wg.Add(1)
		go func(w int) {
			defer wg.Done()
			local := map[string]struct{}{}
			for idx := w; idx < len(seqs); idx += workers {
				seq := seqs[idx]
				mk := func() []event.Event {
					evs := make([]event.Event, len(seq))
					for i, l := range seq {
						evs[i] = alpha[l].Make()
					}
					return evs
				}
				before, err := c20Effect(mk())
				if err != nil {
					ev.Fatal("effect of input: %v", err)
				}
				merged, err := event.VerifMergeEvents(7, "blockhash", mk())
				if err != nil {
					report(idx, "C20:mergeEvents:error", fmt.Sprintf("mergeEvents failed on a well-formed list (all its events would be lost): %v", err))
					continue
				}
				after, err := c20Effect(merged)
				if err != nil {
					report(idx, "C20:mergeEvents:unreadable-output", err.Error())
					continue
				}
				local[c20Render(after)] = struct{}{}
				comps := map[string]bool{}
				for k := range before {
					comps[k] = true
				}
				for k := range after {
					comps[k] = true
				}
				for k := range comps {
					if before[k] == after[k] {
						continue
					}
					comp := strings.SplitN(k, "|", 2)[0]
					var key string
					if m, ok := c20MergerOf[comp]; ok {
						key = "C20:" + m + ":same-index-dropped"
					} else {
						key = "C20:merge:" + comp + ":sum-changed"
					}
					report(idx, key, fmt.Sprintf("%s: before merging %q, after merging %q", k, before[k], after[k]))
				}
			}
			mu.Lock()
			for k := range local {
				effects[k] = struct{}{}
			}
			mu.Unlock()
		}(w)
	}
	wg.Wait()
	run.Add(int64(len(seqs)), int64(len(seqs)), int64(len(seqs)))
	for k := range effects {
		run.Outcome(k)
	}
	keys := make([]string, 0, len(best))
	for k := range best {
		keys = append(keys, k)
	}
	sort.Strings(keys)
	for _, k := range keys {
		f := best[k]
		var evs []string
		for _, l := range f.seq {
			evs = append(evs, alpha[l].Name)
		}
		run.Violation(f.key, fmt.Sprintf("block events %v: %s", evs, f.what), map[string]any{"events_in_block_order": evs, "call": "mergeEvents(round, blockHash, events)"})
	}
	for _, i := range []int{len(seqs) / 3, len(seqs) / 2, len(seqs) - 7} {
		var evs []string
		for _, l := range seqs[i] {
			evs = append(evs, alpha[l].Name)
		}
		run.Sample(evs)
	}
	run.Assumptions = []string{
		"merge layer only: what the handlers then store from the merged events is the DB part of C20",
		"effect keys: burn ticket = (ethereum address, txn hash, amount, nonce); authorizer burn total per burner; authorizer mint total per signer; stake/read-pool lock sums per client; write-pool lock sums per allocation (the index the contracts emit the event under)",
		"events are built as the contracts emit them (tag, index, pointer/value data kind taken from zcnsc/burn.go, zcnsc/mint.go, stakepool/lock.go, storagesc/readpool.go, storagesc/writepool.go)",
	}
	run.Finish()
}
