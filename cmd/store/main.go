// Binary "store": bounded exhaustive checks of the storage-side properties
//
//	C08 lossless canonical serialization of state entities      (c08.go)
//	C10 exact reward distribution                               (c10.go)
//	C20 event merging never drops additive/append-only effects  (c20.go, part "merge")
//	C25 partitions behave as a set                              (c25.go)
//	C26 block DB / block store read back exactly                (c26.go)
//
// Invoked as `store <PropId> <quick|thorough>`; `store worker-<x> ...` are killable worker
// subprocesses used for hang detection and parallelism.
package main

import (
	"fmt"
	"os"
	"strings"
	"time"

	"github.com/0chain/common/core/logging"
	"go.uber.org/zap"
)

func main() {
	logging.Logger = zap.NewNop()
	logging.N2n = zap.NewNop()
	logging.MemUsage = zap.NewNop()
	if len(os.Args) < 2 {
		fmt.Fprintln(os.Stderr, "usage: store <C08|C10|C20|C25|C26> <quick|thorough>")
		os.Exit(2)
	}
	if strings.HasPrefix(os.Args[1], "worker-") {
		// a worker never outlives its parent (e.g. when a check run is killed)
		parent := os.Getppid()
		go func() {
			for {
				time.Sleep(time.Second)
				if os.Getppid() != parent {
					os.Exit(3)
				}
			}
		}()
	}
	switch os.Args[1] {
	case "C07":
		c07CloneMain()
	case "C08":
		c08Main()
	case "C10":
		c10Main()
	case "C20":
		if len(os.Args) > 3 && os.Args[3] == "db" {
			c20dbMain()
		}
		if len(os.Args) > 3 && os.Args[3] == "chain" {
			c20chainMain()
		}
		c20Main()
	case "C25":
		c25Main()
	case "C26":
		c26Main()
	case "worker-c26idx":
		c26IndexWorker()
	case "worker-c26db":
		c26DBWorker()
	case "worker-c26bs":
		c26BlockStoreWorker()
	case "worker-c25":
		c25Worker()
	default:
		fmt.Fprintln(os.Stderr, "unknown property", os.Args[1])
		os.Exit(2)
	}
}
