package main

import (
	"bufio"
	"bytes"
	"context"
	"encoding/json"
	"fmt"
	"os"
	"os/exec"
	"strings"
	"sync"
	"time"

	"verif/lib/ev"
)

// A worker subprocess talks to its parent through tab-separated stdout lines:
//
//	V <key> <what> <replay json>   a violation candidate
//	O <outcome key>                a distinct outcome / canonical state
//	N <states> <transitions> <evaluations>
//	S <sample json>
//	X <free text>                  extra line handed to the caller
type workerOut struct {
	lines    []string
	timedOut bool
	err      error
	stderr   string
}

func selfBin() string {
	if b := os.Getenv("VERIF_BIN"); b != "" {
		return b
	}
	b, err := os.Executable()
	if err != nil {
		ev.Fatal("cannot find own binary: %v", err)
	}
	return b
}

// runWorker runs `self args...` with a hard wall-clock cap (a budget, not an oracle: a cap hit
// is reported to the caller as timedOut and handled there).
func runWorker(args []string, env []string, limit time.Duration) workerOut {
	ctx, cancel := context.WithTimeout(context.Background(), limit)
	defer cancel()
	cmd := exec.CommandContext(ctx, selfBin(), args...)
	cmd.Env = append(os.Environ(), env...)
	var out, errb bytes.Buffer
	cmd.Stdout = &out
	cmd.Stderr = &errb
	err := cmd.Run()
	res := workerOut{stderr: errb.String()}
	if ctx.Err() == context.DeadlineExceeded {
		res.timedOut = true
	} else if err != nil {
		res.err = err
	}
	sc := bufio.NewScanner(&out)
	sc.Buffer(make([]byte, 1<<20), 1<<28)
	for sc.Scan() {
		res.lines = append(res.lines, sc.Text())
	}
	return res
}

// runWorkers runs the jobs on at most par workers at a time and returns results in job order.
func runWorkers(jobs [][]string, env []string, par int, limit time.Duration) []workerOut {
	res := make([]workerOut, len(jobs))
	var wg sync.WaitGroup
	sem := make(chan struct{}, par)
	for i := range jobs {
		wg.Add(1)
		sem <- struct{}{}
		go func(i int) {
			defer wg.Done()
			defer func() { <-sem }()
			res[i] = runWorker(jobs[i], env, limit)
		}(i)
	}
	wg.Wait()
	return res
}

// absorb folds the standard worker lines into the run; X lines are returned.
func absorb(run *ev.Run, w workerOut) (extra []string) {
	for _, l := range w.lines {
		f := strings.SplitN(l, "\t", 4)
		switch f[0] {
		case "V":
			if len(f) == 4 {
				var rp any
				_ = json.Unmarshal([]byte(f[3]), &rp)
				run.Violation(f[1], f[2], rp)
			}
		case "O":
			if len(f) >= 2 {
				run.Outcome(f[1])
			}
		case "N":
			var a, b, c int64
			fmt.Sscan(strings.Join(f[1:], " "), &a, &b, &c)
			run.Add(a, b, c)
		case "S":
			if len(f) >= 2 {
				var s any
				_ = json.Unmarshal([]byte(strings.Join(f[1:], "\t")), &s)
				run.Sample(s)
			}
		case "X":
			extra = append(extra, strings.Join(f[1:], "\t"))
		}
	}
	return
}

type wout struct {
	w  *bufio.Writer
	mu sync.Mutex
}

func newWout() *wout { return &wout{w: bufio.NewWriterSize(os.Stdout, 1<<16)} }

func (o *wout) line(parts ...string) {
	o.mu.Lock()
	for i, p := range parts {
		if i > 0 {
			o.w.WriteByte('\t')
		}
		o.w.WriteString(strings.NewReplacer("\n", " ", "\t", " ").Replace(p))
	}
	o.w.WriteByte('\n')
	o.mu.Unlock()
}

func (o *wout) violation(key, what string, replay any) {
	b, _ := json.Marshal(replay)
	o.line("V", key, what, string(b))
}
func (o *wout) outcome(k string)    { o.line("O", k) }
func (o *wout) count(s, t, e int64) { o.line("N", fmt.Sprint(s), fmt.Sprint(t), fmt.Sprint(e)) }
func (o *wout) sample(v any)        { b, _ := json.Marshal(v); o.line("S", string(b)) }
func (o *wout) extra(s string)      { o.line("X", s) }
func (o *wout) flush()              { o.mu.Lock(); o.w.Flush(); o.mu.Unlock() }
