// C20 (part "db") — after a block is finalized the query database holds one burn ticket per burn
// of the block and counts every mint and burn toward the authorizers' totals.
//
// The real EventDb.ProcessEvents (mergeEvents + the real handlers) runs on the repository's
// in-memory sqlite event DB. Every block made of <= 3 (quick) / 4 (thorough) distinct bridge
// transactions — burns (each emits TagAuthorizerBurn + TagAddBurnTicket exactly as zcnsc/burn.go
// does) and mints (TagAddBridgeMint as zcnsc/mint.go does) — in every order is processed as one
// block; then burn_tickets (read with the real GetBurnTickets) and the authorizers' total_burn /
// total_mint (read with the real GetAuthorizer) are compared with the sums over the block.
//
// The two authorizer-total handlers issue PostgreSQL-only SQL (UpdateBuilder: UPDATE .. FROM
// (SELECT unnest(?::text[]) ..)), which sqlite rejects. That statement is intercepted at the
// last portable seam — the gorm raw-exec callback, i.e. the exact SQL text and bound arrays the
// handler hands to the driver — and executed row by row with the statement's own SET / WHERE
// expressions (t.<col> replaced by the row's bound value; a target row joined by several rows is
// updated by the first of them only, which is what PostgreSQL guarantees at most).
package main

import (
	"context"
	"database/sql/driver"
	"fmt"
	"regexp"
	"sort"
	"strconv"
	"strings"

	"0chain.net/chaincore/state"
	"0chain.net/core/common"
	"0chain.net/core/config"
	"0chain.net/smartcontract/dbs/event"
	"github.com/0chain/common/core/currency"
	"gorm.io/gorm"

	"verif/lib/ev"
)

type c20Txn struct {
	Kind    string   `json:"kind"` // "burn" | "mint"
	Client  string   `json:"client"`
	Eth     string   `json:"ethereum_address,omitempty"`
	Hash    string   `json:"txn_hash"`
	Amount  uint64   `json:"amount"`
	Nonce   int64    `json:"nonce"`
	Signers []string `json:"signers,omitempty"`
}

func (t c20Txn) String() string {
	if t.Kind == "burn" {
		return fmt.Sprintf("burn(client=%s,eth=%s,txn=%s,amount=%d,nonce=%d)", t.Client, t.Eth, t.Hash, t.Amount, t.Nonce)
	}
	return fmt.Sprintf("mint(user=%s,txn=%s,amount=%d,nonce=%d,signers=%v)", t.Client, t.Hash, t.Amount, t.Nonce, t.Signers)
}

// events of one transaction, built as the bridge contract emits them
func (t c20Txn) events(round int64) []event.Event {
	mk := func(tag event.EventTag, index string, data any) event.Event {
		return event.Event{BlockNumber: round, TxHash: t.Hash, Type: event.TypeStats, Tag: tag, Index: index, Data: data, Version: event.Version1}
	}
	if t.Kind == "burn" {
		return []event.Event{
			mk(event.TagAuthorizerBurn, t.Client, state.Burn{Burner: t.Client, Amount: currency.Coin(t.Amount)}),
			mk(event.TagAddBurnTicket, t.Eth, &event.BurnTicket{EthereumAddress: t.Eth, Hash: t.Hash, Amount: currency.Coin(t.Amount), Nonce: t.Nonce}),
		}
	}
	return []event.Event{mk(event.TagAddBridgeMint, t.Client, &event.BridgeMint{UserID: t.Client, MintNonce: t.Nonce, Amount: currency.Coin(t.Amount), Signers: append([]string{}, t.Signers...)})}
}

var c20dbAlphabet = []c20Txn{
	{Kind: "burn", Client: "X", Eth: "0xA", Hash: "b1", Amount: 5, Nonce: 1},
	{Kind: "burn", Client: "X", Eth: "0xA", Hash: "b2", Amount: 7, Nonce: 2},
	{Kind: "burn", Client: "X", Eth: "0xB", Hash: "b3", Amount: 11, Nonce: 3},
	{Kind: "burn", Client: "Y", Eth: "0xA", Hash: "b4", Amount: 13, Nonce: 9},
	{Kind: "mint", Client: "X", Hash: "m1", Amount: 10, Nonce: 1, Signers: []string{"s1", "s2"}},
	{Kind: "mint", Client: "X", Hash: "m2", Amount: 20, Nonce: 2, Signers: []string{"s1"}},
	{Kind: "mint", Client: "Y", Hash: "m3", Amount: 40, Nonce: 1, Signers: []string{"s2"}},
}

// totals every authorizer starts a block with (non-zero, so that "add" and "assign" differ)
const (
	c20BaseMint = 1000
	c20BaseBurn = 100
)

var c20dbAuthorizers = []string{"X", "Y", "s1", "s2"} // burners and signers that are authorizers

// ---------------------------------------------------------------------------------------------
// the PostgreSQL unnest-update seam

var (
	c20ReUpdate = regexp.MustCompile(`(?s)^UPDATE (\w+) SET(.*?) FROM \(SELECT (.*)\) AS t (WHERE .*)$`)
	c20ReUnnest = regexp.MustCompile(`unnest\(\?::\w+\[\]\) AS (\w+)`)
	c20ReTcol   = regexp.MustCompile(`\bt\.(\w+)\b`)
)

type c20Captured struct {
	table, sets string
	arrays      map[string][]string
}

type c20Seam struct {
	captured   []c20Captured
	statements int
	dupTargets []string // table.id updated by more than one row of a single statement
	errs       []string
}

func c20ParsePgArray(v any) ([]string, error) {
	for {
		inner, ok := v.([]interface{})
		if !ok || len(inner) != 1 {
			break
		}
		v = inner[0]
	}
	val, ok := v.(driver.Valuer)
	if !ok {
		return nil, fmt.Errorf("bound value %T is not a pq array", v)
	}
	dv, err := val.Value()
	if err != nil {
		return nil, err
	}
	s, ok := dv.(string)
	if !ok {
		return nil, fmt.Errorf("pq array renders as %T", dv)
	}
	s = strings.TrimSuffix(strings.TrimPrefix(s, "{"), "}")
	if s == "" {
		return nil, nil
	}
	var out []string
	for _, f := range strings.Split(s, ",") {
		out = append(out, strings.Trim(f, `"`))
	}
	return out, nil
}

// install registers the interception on the event DB's gorm handle.
func (sm *c20Seam) install(db *gorm.DB) error {
	return db.Callback().Raw().Before("gorm:raw").Register("verif:pg_unnest_update", func(tx *gorm.DB) {
		sqlText := tx.Statement.SQL.String()
		if !strings.Contains(sqlText, "unnest(") {
			return
		}
		m := c20ReUpdate.FindStringSubmatch(sqlText)
		if m == nil {
			sm.errs = append(sm.errs, "unrecognised unnest statement: "+sqlText)
			return
		}
		table, sets, unnests, where := m[1], m[2], m[3], m[4]
		var cols []string
		for _, u := range c20ReUnnest.FindAllStringSubmatch(unnests, -1) {
			cols = append(cols, u[1])
		}
		if len(cols) != len(tx.Statement.Vars) {
			sm.errs = append(sm.errs, fmt.Sprintf("%d unnest columns, %d bound arrays: %s", len(cols), len(tx.Statement.Vars), sqlText))
			return
		}
		arrays := map[string][]string{}
		n := -1
		for i, c := range cols {
			a, err := c20ParsePgArray(tx.Statement.Vars[i])
			if err != nil {
				sm.errs = append(sm.errs, err.Error())
				return
			}
			arrays[c] = a
			if n >= 0 && len(a) != n {
				sm.errs = append(sm.errs, "bound arrays of different length: "+sqlText)
				return
			}
			n = len(a)
		}
		sm.statements++
		sm.captured = append(sm.captured, c20Captured{table, sets, arrays})
		seenTarget := map[string]bool{}
		for row := 0; row < n; row++ {
			var args []any
			sub := func(s string) string {
				return c20ReTcol.ReplaceAllStringFunc(s, func(tok string) string {
					col := tok[2:]
					v := arrays[col][row]
					if iv, err := strconv.ParseInt(v, 10, 64); err == nil && col != cols[0] {
						args = append(args, iv)
					} else {
						args = append(args, v)
					}
					return "?"
				})
			}
			target := table + "." + arrays[cols[0]][row]
			if seenTarget[target] {
				if arrays[cols[0]][row] != "" {
					sm.dupTargets = append(sm.dupTargets, target)
				}
				continue // PostgreSQL applies at most one joined row to a target row
			}
			seenTarget[target] = true
			stmt := "UPDATE " + table + " SET" + sub(sets) + " " + sub(where)
			if _, err := tx.Statement.ConnPool.ExecContext(tx.Statement.Context, stmt, args...); err != nil {
				sm.errs = append(sm.errs, fmt.Sprintf("%s: %v", stmt, err))
			}
		}
		// the original statement becomes a no-op for sqlite
		tx.Statement.SQL.Reset()
		tx.Statement.SQL.WriteString("UPDATE " + table + " SET id = id WHERE 1 = 0")
		tx.Statement.Vars = nil
	})
}

// ---------------------------------------------------------------------------------------------

func c20dbMain() {
	run := ev.Start("C20")
	maxLen := run.Pick(3, 4)
	common.SetupRootContext(context.Background())
	edb, err := event.NewInMemoryEventDb(config.DbAccess{}, config.DbSettings{
		PartitionChangePeriod:          1 << 40,
		PermanentPartitionChangePeriod: 1 << 40,
		PartitionKeepCount:             10,
	})
	if err != nil {
		ev.Fatal("in-memory event db: %v", err)
	}
	seam := &c20Seam{}
	if err := seam.install(edb.Store.Get()); err != nil {
		ev.Fatal("install seam: %v", err)
	}
	noStore := func(event.BlockEvents) error { return nil }
	round := int64(1000)

	// the authorizers, through the real TagAddAuthorizer events (one block)
	var setup []event.Event
	for _, id := range c20dbAuthorizers {
		setup = append(setup, event.Event{BlockNumber: round, TxHash: "add-" + id, Type: event.TypeStats, Tag: event.TagAddAuthorizer, Index: id, Version: event.Version1,
			Data: &event.Authorizer{Provider: event.Provider{ID: id, DelegateWallet: "w-" + id, Rewards: event.ProviderRewards{ProviderID: id}}, URL: "http://" + id, CreationRound: round}})
	}
	if _, _, err := edb.ProcessEvents(context.Background(), setup, round, "setup-block", len(setup), noStore, event.CommitNow()); err != nil {
		ev.Fatal("adding authorizers through TagAddAuthorizer failed: %v", err)
	}
	for _, id := range c20dbAuthorizers {
		if _, err := edb.GetAuthorizer(id); err != nil {
			ev.Fatal("authorizer %s not in the DB after TagAddAuthorizer: %v", id, err)
		}
	}

	run.Rule = fmt.Sprintf("every block of 0..%d distinct bridge transactions over %d letters (4 burns: same client / same Ethereum address / different address / other client with distinct nonces; 3 mints: same user twice with different signer sets, other user) in every order, each processed as one block by the real EventDb.ProcessEvents on the in-memory sqlite event DB (tables reset between blocks); distinct = distinct resulting (burn_tickets, authorizer totals) contents", maxLen, len(c20dbAlphabet))
	run.Bounds["max_transactions_per_block"] = maxLen
	var names []string
	for _, t := range c20dbAlphabet {
		names = append(names, t.String())
	}
	run.Bounds["alphabet"] = names
	run.Bounds["authorizers"] = c20dbAuthorizers

	var lists [][]int
	var gen func(prefix []int, n int)
	gen = func(prefix []int, n int) {
		if len(prefix) == n {
			lists = append(lists, append([]int{}, prefix...))
			return
		}
		for i := range c20dbAlphabet {
			used := false
			for _, p := range prefix {
				used = used || p == i
			}
			if !used {
				gen(append(prefix, i), n)
			}
		}
	}
	for n := 0; n <= maxLen; n++ {
		gen(nil, n)
	}

	reported := map[string]bool{}
	for li, l := range lists {
		round++
		var txns []c20Txn
		var evs []event.Event
		var desc []string
		for _, i := range l {
			txns = append(txns, c20dbAlphabet[i])
			evs = append(evs, c20dbAlphabet[i].events(round)...)
			desc = append(desc, c20dbAlphabet[i].String())
		}
		violate := func(key, what string) {
			if reported[key] {
				return
			}
			reported[key] = true
			run.Violation(key, fmt.Sprintf("block of transactions %v: %s", desc, what), map[string]any{"transactions_in_block_order": txns, "call": "EventDb.ProcessEvents(ctx, events, round, hash, n, storeEvents, CommitNow())"})
		}
		// reset the observed tables (harness housekeeping between independent blocks)
		db := edb.Store.Get()
		if err := db.Exec("DELETE FROM burn_tickets").Error; err != nil {
			ev.Fatal("reset burn_tickets: %v", err)
		}
		if err := db.Exec("DELETE FROM users").Error; err != nil {
			ev.Fatal("reset users: %v", err)
		}
		if err := db.Exec("UPDATE authorizers SET total_mint = ?, total_burn = ?", c20BaseMint, c20BaseBurn).Error; err != nil {
			ev.Fatal("reset authorizers: %v", err)
		}
		seam.errs, seam.dupTargets, seam.captured = nil, nil, nil
		_, _, err := edb.ProcessEvents(context.Background(), evs, round, fmt.Sprintf("block-%d", li), len(txns), noStore, event.CommitNow())
		run.Add(1, int64(len(evs)), 1)
		if len(seam.errs) > 0 {
			ev.Fatal("unnest seam: %v", seam.errs)
		}
		if err != nil {
			violate("C20:db:ProcessEvents:block-rejected", fmt.Sprintf("ProcessEvents failed, nothing of the block is stored: %v", err))
			run.Outcome("error:" + err.Error())
			continue
		}
		if len(seam.dupTargets) > 0 {
			violate("C20:db:authorizer-totals:one-update-statement-hits-a-row-twice", fmt.Sprintf("a single UPDATE .. FROM unnest statement carries several rows for %v; PostgreSQL applies only one of them", seam.dupTargets))
		}
		// ---- expected contents, from the statement
		type ticket struct {
			eth, hash string
			amount    uint64
			nonce     int64
		}
		wantTickets := map[ticket]bool{}
		wantBurn, wantMint := map[string]uint64{}, map[string]uint64{}
		burnsOf, mintsOf, burnsTo := map[string]int{}, map[string]int{}, map[string]int{}
		nBurns := 0
		for _, t := range txns {
			if t.Kind == "burn" {
				wantTickets[ticket{t.Eth, t.Hash, t.Amount, t.Nonce}] = true
				wantBurn[t.Client] += t.Amount
				burnsOf[t.Client]++
				burnsTo[t.Eth]++
				nBurns++
			} else {
				for _, s := range t.Signers {
					wantMint[s] += t.Amount
				}
				mintsOf[t.Client]++
			}
		}
		// ---- observed
		var gotAll []string
		gotTickets := map[ticket]bool{}
		for _, addr := range []string{"0xA", "0xB"} {
			rows, err := edb.GetBurnTickets(addr)
			if err != nil {
				ev.Fatal("GetBurnTickets: %v", err)
			}
			for _, r := range rows {
				k := ticket{r.EthereumAddress, r.Hash, uint64(r.Amount), r.Nonce}
				if gotTickets[k] {
					violate("C20:db:burn_tickets:duplicate-row", fmt.Sprintf("ticket %v stored twice", k))
				}
				gotTickets[k] = true
				gotAll = append(gotAll, fmt.Sprintf("%v", k))
				if !wantTickets[k] {
					// right (address, nonce) but other fields wrong?
					wrongFields := false
					for w := range wantTickets {
						if w.eth == k.eth && (w.nonce == k.nonce || w.hash == k.hash) {
							wrongFields = true
						}
					}
					if wrongFields {
						violate("C20:db:burn_tickets:wrong-fields", fmt.Sprintf("stored ticket %+v matches no burn of the block exactly (burns: %v)", k, wantTickets))
					} else {
						violate("C20:db:burn_tickets:unexpected-row", fmt.Sprintf("stored ticket %+v belongs to no burn of the block", k))
					}
				}
			}
		}
		for w := range wantTickets {
			if gotTickets[w] {
				continue
			}
			stillWrongFields := false
			for g := range gotTickets {
				if g.eth == w.eth && (g.nonce == w.nonce || g.hash == w.hash) {
					stillWrongFields = true
				}
			}
			switch {
			case stillWrongFields:
				// reported above as wrong-fields
			case burnsTo[w.eth] > 1:
				violate("C20:db:burn_tickets:burn-with-same-address-missing", fmt.Sprintf("%d burns to %s in the block, burn_tickets holds %v", burnsTo[w.eth], w.eth, gotAll))
			case nBurns > 1:
				violate("C20:db:burn_tickets:only-first-ticket-of-block-stored", fmt.Sprintf("%d burns to different addresses in the block, burn_tickets holds only %v", nBurns, gotAll))
			default:
				violate("C20:db:burn_tickets:burn-missing", fmt.Sprintf("the only burn of the block has no ticket; burn_tickets holds %v", gotAll))
			}
		}
		var totals []string
		for _, id := range c20dbAuthorizers {
			a, err := edb.GetAuthorizer(id)
			if err != nil {
				ev.Fatal("GetAuthorizer: %v", err)
			}
			// growth over the block
			a.TotalBurn -= c20BaseBurn
			a.TotalMint -= c20BaseMint
			totals = append(totals, fmt.Sprintf("%s:burn+%d,mint+%d", id, int64(a.TotalBurn), int64(a.TotalMint)))
			if uint64(a.TotalBurn) != wantBurn[id] {
				if burnsOf[id] > 1 && uint64(a.TotalBurn) < wantBurn[id] {
					violate("C20:db:authorizer-total-burn:same-client-counted-once", fmt.Sprintf("%s burned %d times in the block for %d in total, its total_burn grew by %d", id, burnsOf[id], wantBurn[id], int64(a.TotalBurn)))
				} else {
					violate("C20:db:authorizer-total-burn:wrong", fmt.Sprintf("%s: burns of the block sum to %d, total_burn grew by %d", id, wantBurn[id], int64(a.TotalBurn)))
				}
			}
			if uint64(a.TotalMint) != wantMint[id] {
				// one user minting more than once in the block is the DB face of the known merge finding
				// (mergeAddBridgeMintEvents overwrites by user id): keep it apart from every other discrepancy
				multiMint := false
				for _, n := range mintsOf {
					multiMint = multiMint || n > 1
				}
				if multiMint {
					violate("C20:db:authorizer-total-mint:same-user-counted-once", fmt.Sprintf("one user mints more than once in the block; signer %s: mints of the block sum to %d, total_mint grew by %d", id, wantMint[id], int64(a.TotalMint)))
				} else if a.TotalMint == 0 {
					var ids []string
					for _, c := range seam.captured {
						if strings.Contains(c.sets, "total_mint") {
							ids = append(ids, fmt.Sprintf("%q", c.arrays["id"]))
						}
					}
					violate("C20:db:authorizer-total-mint:mint-not-counted", fmt.Sprintf("signer %s: mints of the block sum to %d, total_mint did not change; the handler's UPDATE addresses authorizer ids %v", id, wantMint[id], strings.Join(ids, " ")))
				} else {
					violate("C20:db:authorizer-total-mint:wrong", fmt.Sprintf("signer %s: mints of the block sum to %d, total_mint grew by %d", id, wantMint[id], int64(a.TotalMint)))
				}
			}
		}
		// what the mint handler hands to the database (seam): one amount per signer, equal to the
		// sums over all mints of the block - checked here because the rows may never reach the table
		{
			var gotAmts, wantAmts []string
			for _, c := range seam.captured {
				if strings.Contains(c.sets, "total_mint") {
					gotAmts = append(gotAmts, c.arrays["total_mint"]...)
				}
			}
			for _, v := range wantMint {
				wantAmts = append(wantAmts, strconv.FormatUint(v, 10))
			}
			sort.Strings(gotAmts)
			sort.Strings(wantAmts)
			if strings.Join(gotAmts, ",") != strings.Join(wantAmts, ",") {
				multi := false
				for _, n := range mintsOf {
					multi = multi || n > 1
				}
				if multi {
					violate("C20:db:authorizer-total-mint:same-user-counted-once", fmt.Sprintf("one user mints more than once in the block: per-signer sums are %v, the amounts the handler adds to total_mint are %v", wantAmts, gotAmts))
				} else {
					violate("C20:db:authorizer-total-mint:wrong-amounts", fmt.Sprintf("per-signer sums are %v, the amounts the handler adds to total_mint are %v", wantAmts, gotAmts))
				}
			}
		}
		sort.Strings(gotAll)
		run.Outcome(strings.Join(gotAll, " ") + " | " + strings.Join(totals, " "))
		if li%97 == 5 {
			run.Sample(desc)
		}
	}
	run.Extra["postgres_only_statements_intercepted"] = seam.statements
	run.Assumptions = []string{
		"updateAuthorizersTotalBurn / updateAuthorizersTotalMint use PostgreSQL-only SQL (unnest, ::casts); observed at the last portable seam: the exact statement and bound arrays given to the driver are executed row by row with the statement's own SET/WHERE expressions on sqlite; everything else (merge, handlers, burn_tickets, users upsert, events table) runs unmodified on sqlite",
		"burning clients X, Y and signers s1, s2 are registered authorizers (added through real TagAddAuthorizer events); the handlers update the authorizers row whose id is the burner / the signer",
		"each block is judged on its own: burn_tickets, users and the authorizer totals are reset between blocks",
	}
	run.Finish()
}
