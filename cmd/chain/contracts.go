package main

import (
	"verif/lib/chainsim"
	"verif/lib/world"
)

// contractAlphabet: representative success and failure calls of the contracts that need no
// scripted set-up (the storage scenario has its own alphabet).
func contractAlphabet(w *world.World) []chainsim.Action {
	return []chainsim.Action{
		call(w, "c0", "faucetsc", "pour", nil, 0, 0, ""),
		call(w, "c1", "faucetsc", "pour", nil, 0, 10, "+fee"),
		call(w, "c0", "faucetsc", "refill", nil, 1000, 0, ""),
		call(w, "c0", "faucetsc", "nosuchfunction", nil, 5, 10, ""),
	}
}
