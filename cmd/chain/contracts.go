package main

import (
	"verif/lib/chainsim"
	"verif/lib/world"
)

// contractAlphabet: representative success and failure calls of the contracts that need no
// scripted set-up (the storage scenario has its own alphabet).
func contractAlphabet(w *world.World) []chainsim.Action {
	return []chainsim.Action{
		call(w, "c0", "faucetsc", "pour", nil, 0, 0, ""),
		call(w, "c1", "faucetsc", "pour", nil, 0, 10, "+fee"),
		call(w, "c0", "faucetsc", "refill", nil, 1000, 0, ""),
		call(w, "c0", "faucetsc", "nosuchfunction", nil, 5, 10, ""),
	}
}

// failingAlphabet: calls that fail after the contract already wrote state / queued transfers.
func failingAlphabet(w *world.World) []chainsim.Action {
	return []chainsim.Action{
		call(w, "c0", "faucetsc", "refill", nil, 0, 7, "-zero"),
		call(w, "c2", "faucetsc", "update-settings", map[string]any{"fields": map[string]string{"pour_amount": "1"}}, 0, 5, "-notowner"),
	}
}
