package main

import (
	"github.com/0chain/common/core/statecache"
	"0chain.net/chaincore/transaction"
	"time"

	"verif/lib/chainsim"
	"verif/lib/envs"
	"verif/lib/ev"
	"verif/lib/kvsc"
	"verif/lib/world"
)

func init() {
	checks["C06"] = c06
	checks["C07"] = c07chain
	checks["C02:warm"] = c02warm
}

func fieldsInput(kv ...string) map[string]any {
	m := map[string]string{}
	for i := 0; i+1 < len(kv); i += 2 {
		m[kv[i]] = kv[i+1]
	}
	return map[string]any{"fields": m}
}

// governanceAlphabet: settings updates of every contract with 1-3 entries of which 0-3 are
// invalid (the first-error-wins shape), by the owner and by a stranger.
func governanceAlphabet(w *world.World) []chainsim.Action {
	var acts []chainsim.Action
	add := func(sc, fn, tag string, kv ...string) {
		acts = append(acts, call(w, "owner", sc, fn, fieldsInput(kv...), 0, 0, "-"+tag))
	}
	// minersc update_settings
	add("minersc", "update_settings", "valid1", "max_delegates", "150")
	add("minersc", "update_settings", "valid2", "max_delegates", "100", "reward_rate", "0.5")
	add("minersc", "update_settings", "valid3", "reward_rate", "0.7")
	add("minersc", "update_settings", "bad2", "max_n", "abc", "min_n", "xyz")
	add("minersc", "update_settings", "bad3", "max_n", "abc", "min_n", "xyz", "max_s", "q")
	add("minersc", "update_settings", "valid+bad", "max_delegates", "120", "nosuchkey", "1")
	// an entry of the MAP-valued part of the settings (cost table) applied before a later entry fails:
	// a copy of the cached settings node that shares the map would keep the rejected cost
	add("minersc", "update_settings", "cost+bad", "cost.add_miner", "999", "max_n", "abc")
	add("minersc", "update_settings", "cost-valid", "cost.add_miner", "500")
	add("minersc", "update_settings", "unknown2", "nosuchkey1", "1", "nosuchkey2", "2")
	add("minersc", "update_settings", "fails-validate", "max_n", "1", "min_n", "5")
	// minersc update_globals
	add("minersc", "update_globals", "valid1", "server_chain.block.max_block_size", "20")
	add("minersc", "update_globals", "bad2", "server_chain.block.max_block_size", "abc", "server_chain.block.min_block_size", "xyz")
	add("minersc", "update_globals", "immutable+unknown", "server_chain.owner", "x", "nosuchsetting", "1")
	// storagesc update_settings
	add("storagesc", "update_settings", "valid1", "max_mint", "1500000.02")
	add("storagesc", "update_settings", "valid3", "max_stake", "30000")
	add("storagesc", "update_settings", "bad2", "max_mint", "abc", "time_unit", "xyz")
	add("storagesc", "update_settings", "valid+bad", "max_mint", "1500000.03", "nosuchkey", "1")
	acts = append(acts, call(w, "owner", "storagesc", "commit_settings_changes", nil, 0, 0, ""))
	// faucetsc, vestingsc, zcnsc
	add("faucetsc", "update-settings", "valid1", "pour_amount", "2")
	add("faucetsc", "update-settings", "bad2", "pour_amount", "abc", "max_pour_amount", "xyz")
	add("vestingsc", "vestingsc-update-settings", "valid1", "max_destinations", "4")
	add("vestingsc", "vestingsc-update-settings", "bad2", "min_lock", "abc", "max_destinations", "xyz")
	add("zcnsc", "update-global-config", "valid1", "min_mint", "2")
	add("zcnsc", "update-global-config", "bad2", "min_mint", "abc", "min_burn", "xyz")
	// two transactions in ONE block: a rejected update followed by an accepted one (they share the block's cache)
	sameBlock := func(tag string, first, second map[string]any) {
		o := w.Actors["owner"]
		acts = append(acts, chainsim.Action{Name: "minersc.update_settings(owner)-same-block-" + tag,
			Before: func(x *chainsim.Ctx) []*world.TxnSpec {
				return []*world.TxnSpec{{From: o, To: world.SCAddresses["minersc"], Type: transaction.TxnTypeSmartContract, Nonce: x.Nonce(o) + 1, Data: world.SC("update_settings", first)}}
			},
			Build: func(x *chainsim.Ctx) *world.TxnSpec {
				return &world.TxnSpec{From: o, To: world.SCAddresses["minersc"], Type: transaction.TxnTypeSmartContract, Nonce: x.Nonce(o) + 2, Data: world.SC("update_settings", second)}
			}})
	}
	sameBlock("cost+bad-then-valid", fieldsInput("cost.add_miner", "999", "max_n", "abc"), fieldsInput("max_delegates", "101"))
	sameBlock("bad2-then-valid", fieldsInput("max_n", "abc", "min_n", "xyz"), fieldsInput("reward_rate", "0.6"))
	// a stranger
	acts = append(acts, call(w, "c0", "minersc", "update_settings", fieldsInput("max_delegates", "7"), 0, 0, "-stranger"))
	// readers of the settings nodes
	acts = append(acts, call(w, "c0", "faucetsc", "pour", nil, 0, 0, ""))
	return acts
}

func c06(run *ev.Run) {
	w := world.New(world.Options{})
	acts := governanceAlphabet(w)
	// second start state: the settings nodes have been written (and are therefore in a warm cache)
	// before the explored sequence starts — a rejected update can only leak into an entry that is cached
	roots := [][]chainsim.Action{nil, {acts[0], acts[10]}} // minersc settings + globals written once
	e := &chainsim.Explorer{Run: run, W: w, Actions: acts, Roots: roots, Depth: run.Pick(2, 3), Budget: time.Duration(run.Pick(50, 780)) * time.Second}
	d := &chainsim.Differential{E: e, Prop: "C06", Envs: envs.Determinism, WarmLineage: true, KeyPrefix: "C06"}
	run.Rule = "every action sequence up to the depth bound (no dedup); each transition is executed on the same pre-state in the reference environment (sorted map order, real clock, cold cache) and again under every other environment answer: all map iteration orders of the settings loops (seam), two wall-clock answers (seam), cache warmed by the path's own lineage; (error, status, output, state root, change count, events) must be identical; distinct = distinct (root, output) pairs"
	run.Extra["seam_sites"] = envs.SeamSites()
	run.Assumptions = []string{"map-order nondeterminism is explored at the settings-update loops listed in seam_sites (pattern-matched range-over-map sites in the anchored settings files); other map ranges in contract code are not rewritten", "goroutine scheduling inside a transition is left to the Go scheduler (the helper goroutine is joined before anything is observed)", "one transaction per block"}
	d.Run()
}

// c07chain: part "chain" of C07 — the cache clause at the level of the real chain: warm caches
// (path lineage; and one cache shared by every fork the worker executes) against the cold trie.
func c07chain(run *ev.Run) {
	w := world.New(world.Options{})
	kvsc.Register()
	acts := append(kvCache(w), governanceAlphabet(w)[:11]...)
	// start states: genesis, and a state where the key exists two blocks up and the block in between did not touch it
	roots := [][]chainsim.Action{nil, {kv(w, "c0", "rmw", kget("a"), kput("a", "1")), governanceAlphabet(w)[0]}}
	e := &chainsim.Explorer{Run: run, W: w, Actions: acts, Roots: roots, Depth: run.Pick(3, 4), Budget: time.Duration(run.Pick(50, 780)) * time.Second}
	d := &chainsim.Differential{E: e, Prop: "C07", WarmLineage: true, KeyPrefix: "C07:chain", SharedPasses: 2, ShardDepth: 1,
		Envs: envs.Cache}
	run.Rule = "every action sequence up to the depth bound over settings updates (successful, failing late after mutating the value returned by a read) and readers of the cached settings nodes; each transition executed with a cold cache (trie only), with the cache warmed by exactly the path's own blocks, and with one cache shared by all forks explored by the worker; outcomes must be identical"
	run.Assumptions = []string{"cacheable entity types reached: minersc GlobalNode, storagesc Config, settings nodes; partitions/allocation/miner-node entities are covered by the scenario binaries' own cache parts when present"}
	d.Run()
}

// c02warm: part "warm" of C02 — a failed call must leave nothing behind for LATER transactions either.
// The failed transaction's own trie diff (part main) cannot see a write that survives only in the
// state cache; here every sequence of late-failing writers, one successful writer and readers is
// executed with the cache warmed by exactly the path's own blocks and compared with cold execution.
// Only the linear (lineage) cache is used: the known fork-tree defect of the dependency's cache (C07)
// cannot occur on a linear history.
func c02warm(run *ev.Run) {
	w := world.New(world.Options{})
	kvsc.Register()
	acts := append(kvLateFailures(w), kv(w, "c1", "get2", kget("a"), kget("a")), kv(w, "c1", "rmw", kget("a"), kput("a", "7")), kv(w, "c1", "rmw-b", kget("b"), kput("b", "7")))
	acts = append(acts, governanceAlphabet(w)[:11]...)
	e := &chainsim.Explorer{Run: run, W: w, Actions: acts, Depth: run.Pick(3, 4), Budget: time.Duration(run.Pick(50, 600)) * time.Second}
	d := &chainsim.Differential{E: e, Prop: "C02", WarmLineage: true, KeyPrefix: "C02:warm",
		Envs: func(lineage, _ *statecache.StateCache) []*chainsim.Env { // lineage only: fork-shared caches are C07's (known dependency defect)
			return []*chainsim.Env{{Name: "warm-lineage-cache", Cache: lineage}}
		}}
	run.Rule = "every action sequence up to the depth bound over calls that fail AFTER writing / deleting cacheable values (test contract and settings updates failing late), one successful writer, and readers / read-modify-writers of the same keys; each transition executed with a cold cache (trie only) and with the cache warmed by exactly the path's own blocks; (error, status, output, state root, change count, events) must be identical, i.e. nothing a failed call wrote is visible to a later transaction"
	run.Assumptions = []string{"linear histories only (fork-shared caches belong to C07)", "one transaction per block: the leak path failed txn -> block cache -> state cache -> later block is covered, two transactions inside one block are not"}
	d.Run()
}
