package main

import (
	"fmt"
	"math"
	"time"

	"0chain.net/chaincore/transaction"
	"0chain.net/core/common"
	"0chain.net/core/config"
	"github.com/0chain/common/core/currency"
	"verif/lib/chainsim"
	"verif/lib/ev"
	"verif/lib/kvsc"
	"verif/lib/world"
)

func init() {
	checks["C02"] = c02
	checks["C03"] = c03
	checks["C04"] = c04
	checks["C05"] = c05
}

func sendAlphabet(w *world.World) []chainsim.Action {
	var acts []chainsim.Action
	for _, p := range [][2]string{{"c0", "c1"}, {"c1", "c0"}, {"c0", "c2"}} {
		acts = append(acts,
			send(w, p[0], p[1], constAmt(1), "1", 0),
			send(w, p[0], p[1], constAmt(0), "0", 100),
			send(w, p[0], p[1], balRel(w, p[0], 0), "bal", 0),
			send(w, p[0], p[1], balRel(w, p[0], -100), "bal-fee", 100),
			send(w, p[0], p[1], balRel(w, p[0], -99), "bal-fee+1", 100),
			send(w, p[0], p[1], balRel(w, p[0], 1), "bal+1", 0),
			send(w, p[0], p[1], constAmt(currency.Coin(config.MaxTokenSupply)), "supply", 0),
			send(w, p[0], p[1], constAmt(currency.Coin(config.MaxTokenSupply)+1), "supply+1", 0),
			send(w, p[0], p[1], constAmt(math.MaxUint64), "2^64-1", 0),
			send(w, p[0], p[1], constAmt(1), "1", math.MaxUint64),
		)
	}
	acts = append(acts, send(w, "c0", world.SCAddresses["minersc"], constAmt(7), "7", 3))
	acts = append(acts, send(w, "c0", "c0", constAmt(5), "self", 0))
	return acts
}

func explore(run *ev.Run, w *world.World, acts []chainsim.Action, roots [][]chainsim.Action, dq, dt int, mons ...chainsim.Monitor) {
	e := &chainsim.Explorer{Run: run, W: w, Actions: acts, Roots: roots, Depth: run.Pick(dq, dt), Monitors: mons,
		Budget: time.Duration(run.Pick(50, 780)) * time.Second}
	run.Assumptions = append(run.Assumptions, "account leaves = every leaf written through StateContext.SetClientState since genesis (keytap seam)",
		"cold state cache per transition (cache warmth is explored by C06/C07)", "grocksdb replaced by the in-memory stand-in", "one transaction per block")
	e.Explore()
}

// --- C02 -----------------------------------------------------------------------------------------

func c02(run *ev.Run) {
	w := world.New(world.Options{})
	kvsc.Register()
	acts := append(contractAlphabet(w), failingAlphabet(w)...)
	acts = append(acts, kvLateFailures(w)...)
	acts = append(acts, send(w, "c0", "c1", constAmt(1), "1", 0))
	run.Rule = "BFS over sequences of contract calls (success and late-failing variants of every scripted function); oracle on every transition that ends with status error: leaf diff = sender (-fee, nonce+1) and miner-contract wallet (+fee) only, exactly one error event"
	explore(run, w, acts, nil, 3, 4, failMonitor, supplyMonitor)
}

// --- C03 -----------------------------------------------------------------------------------------

// sendN: a transfer with an explicit nonce (relative to the sender's state nonce, or absolute)
// and a FIXED creation time, so that repeating the action replays the very same signed transaction.
func sendN(w *world.World, from, to string, rel bool, n int64, fee currency.Coin, typ int) chainsim.Action {
	name := fmt.Sprintf("send(%s->%s,nonce=%d,fee=%d)", from, to, n, fee)
	if rel {
		name = fmt.Sprintf("send(%s->%s,nonce=state%+d,fee=%d)", from, to, n, fee)
	}
	if typ == transaction.TxnTypeSmartContract {
		name = "sc" + name
	}
	return chainsim.Action{Name: name, Build: func(x *chainsim.Ctx) *world.TxnSpec {
		f := w.Actors[from]
		nonce := n
		if rel {
			nonce = x.Nonce(f) + n
		}
		sp := &world.TxnSpec{From: f, To: w.Actors[to].ID, Type: typ, Value: 1, Fee: fee, Nonce: nonce, Time: common.Timestamp(1700000000)}
		if typ == transaction.TxnTypeSmartContract {
			sp.To = world.SCAddresses["faucetsc"]
			sp.Value = 0
			sp.Data = world.SC("nosuchfunction", nil) // chargeable failure
		}
		return sp
	}}
}

// freshN: a zero-value, zero-fee transfer / data transaction from an account that has NO state node
// yet (never funded, never transacted) with an absolute nonce and fixed time.
func freshN(w *world.World, who string, n int64, typ int) chainsim.Action {
	name := fmt.Sprintf("fresh-send(%s,nonce=%d)", who, n)
	if typ == transaction.TxnTypeData {
		name = fmt.Sprintf("fresh-data(%s,nonce=%d)", who, n)
	}
	return chainsim.Action{Name: name, Build: func(x *chainsim.Ctx) *world.TxnSpec {
		f := w.Actors[who]
		return &world.TxnSpec{From: f, To: w.Actors["c1"].ID, Type: typ, Value: 0, Fee: 0, Nonce: n, Time: common.Timestamp(1700000000), Data: "d"}
	}}
}

func c03(run *ev.Run) {
	w := world.New(world.Options{})
	for _, n := range []string{"fresh0", "fresh1"} { // key pairs without any genesis state
		a := world.DetKey(n)
		w.Actors[n] = a
		w.ByID[a.ID] = a
	}
	var acts []chainsim.Action
	for _, n := range []int64{1, 2, 3, 0, -1, 7} {
		acts = append(acts, freshN(w, "fresh0", n, transaction.TxnTypeSend))
	}
	acts = append(acts, freshN(w, "fresh1", 2, transaction.TxnTypeData), freshN(w, "fresh1", 1, transaction.TxnTypeData))
	for _, from := range []string{"c0", "c1"} {
		to := map[string]string{"c0": "c1", "c1": "c0"}[from]
		for _, n := range []int64{2, 3, 4} { // absolute nonces: repeating the action = replaying the signed txn
			acts = append(acts, sendN(w, from, to, false, n, 0, transaction.TxnTypeSend))
		}
		acts = append(acts,
			sendN(w, from, to, true, 0, 0, transaction.TxnTypeSend),  // current nonce again
			sendN(w, from, to, true, 2, 0, transaction.TxnTypeSend),  // skips one
			sendN(w, from, to, false, 0, 0, transaction.TxnTypeSend), // zero
			sendN(w, from, to, false, -1, 0, transaction.TxnTypeSend),
			sendN(w, from, to, false, math.MaxInt64, 0, transaction.TxnTypeSend),
			sendN(w, from, to, true, 1, 10, transaction.TxnTypeSmartContract), // chargeable failure with the right nonce
			sendN(w, from, to, true, 2, 10, transaction.TxnTypeSmartContract), // chargeable failure with a gap
			sendN(w, from, to, false, 3, 10, transaction.TxnTypeSmartContract),
		)
	}
	acts = append(acts, send(w, "c0", "c1", balRel(w, "c0", 1), "bal+1", 0)) // right nonce, unaffordable
	acts = append(acts, call(w, "c0", "faucetsc", "pour", nil, 0, 0, ""))
	run.Rule = "BFS over sequences of transfers / failing and successful contract calls of 2 senders with absolute and state-relative nonces (absolute nonce + fixed time = exact replay of a signed transaction); oracle: applied <=> nonce == state+1, applied => nonce raised by exactly 1, rejected => no leaf changes, no foreign nonce moves"
	explore(run, w, acts, nil, 4, 5, nonceMonitor)
}

// --- C04 -----------------------------------------------------------------------------------------

func c04(run *ev.Run) {
	w := world.New(world.Options{})
	acts := append(sendAlphabet(w)[:12], contractAlphabet(w)...)
	acts = append(acts, failingAlphabet(w)...)
	run.Rule = "BFS over sends and contract calls; oracle per transition: an account that loses tokens is the sender (by at most value+fee), the called contract's wallet, or the source of a validly signed transfer of exactly that amount"
	explore(run, w, acts, nil, 3, 4, debitMonitor(w))
}

// --- C05 -----------------------------------------------------------------------------------------

func c05(run *ev.Run) {
	w := world.New(world.Options{})
	acts := append(sendAlphabet(w), contractAlphabet(w)...)
	run.Rule = "BFS over boundary-valued sends (0, 1, bal-fee, bal-fee+1, bal, bal+1, supply, supply+1, 2^64-1, fee 2^64-1, self) and multi-transfer contract calls; oracle: post balances == big-int sum of the queued transfers over the pre balances; any partial sum outside [0,2^64) => transaction rejected with all leaves unchanged"
	explore(run, w, acts, nil, 3, 4, balanceMonitor, supplyMonitor)
}
