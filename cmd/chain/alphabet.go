package main

import (
	"fmt"

	"0chain.net/chaincore/transaction"
	"github.com/0chain/common/core/currency"
	"verif/lib/chainsim"
	"verif/lib/world"
)

// send builds a plain transfer action; nonceOff is added to the sender's next valid nonce.
func send(w *world.World, from, to string, value func(x *chainsim.Ctx) currency.Coin, vname string, fee currency.Coin) chainsim.Action {
	return chainsim.Action{
		Name: fmt.Sprintf("send(%s->%s,%s,fee=%d)", from, to, vname, fee),
		Build: func(x *chainsim.Ctx) *world.TxnSpec {
			f := w.Actors[from]
			toID := to
			if a, ok := w.Actors[to]; ok {
				toID = a.ID
			}
			return &world.TxnSpec{From: f, To: toID, Type: transaction.TxnTypeSend, Value: value(x), Fee: fee, Nonce: x.Nonce(f) + 1}
		},
	}
}

func constAmt(v currency.Coin) func(*chainsim.Ctx) currency.Coin {
	return func(*chainsim.Ctx) currency.Coin { return v }
}

// balRel returns the sender's balance plus delta (saturating at 0).
func balRel(w *world.World, who string, delta int64) func(*chainsim.Ctx) currency.Coin {
	return func(x *chainsim.Ctx) currency.Coin {
		b := int64(x.Bal(w.Actors[who].ID)) + delta
		if b < 0 {
			b = 0
		}
		return currency.Coin(b)
	}
}

// call builds a smart-contract call action.
func call(w *world.World, from, sc, fn string, input any, value, fee currency.Coin, tag string) chainsim.Action {
	return chainsim.Action{
		Name: fmt.Sprintf("%s.%s(%s)%s", sc, fn, from, tag),
		Build: func(x *chainsim.Ctx) *world.TxnSpec {
			f := w.Actors[from]
			return &world.TxnSpec{From: f, To: world.SCAddresses[sc], Type: transaction.TxnTypeSmartContract, Value: value, Fee: fee,
				Nonce: x.Nonce(f) + 1, Data: world.SC(fn, input)}
		},
	}
}
