package main

import (
	"fmt"
	"math/big"
	"sort"

	"0chain.net/chaincore/state"
	"0chain.net/chaincore/transaction"
	"0chain.net/core/encryption"
	"0chain.net/smartcontract/dbs/event"
	"0chain.net/smartcontract/minersc"
	"verif/lib/chainsim"
	"verif/lib/world"
)

type acct struct {
	Bal   uint64
	Nonce int64
	Has   bool
}

func accounts(ls []world.Leaf) map[string]acct {
	m := map[string]acct{}
	for _, l := range ls {
		if world.Tap.IsAccount(l.Path) {
			if st, ok := chainsim.DecodeAccount(l.Value); ok {
				m[l.Path] = acct{uint64(st.Balance), st.Nonce, true}
			}
		}
	}
	return m
}

// effectiveTransfers returns the transfers of the final state context of the transition (those
// queued after the last EmitError reset), in order, followed by the signed transfers.
func effectiveTransfers(s *chainsim.Step) (ts []*state.Transfer, sts []*state.SignedTransfer) {
	for _, r := range s.Tap {
		switch r.Op {
		case "emit_error":
			ts, sts = nil, nil
		case "add_transfer":
			t := r.Obj.(*state.Transfer)
			if encryption.IsHash(t.ToClientID) {
				ts = append(ts, t)
			}
		case "add_signed_transfer":
			sts = append(sts, r.Obj.(*state.SignedTransfer))
		}
	}
	return
}

// nonceMonitor (C03)
func nonceMonitor(s *chainsim.Step, v func(key, what string)) {
	pre := accounts(s.Pre.Leaves)[s.Txn.ClientID]
	post := accounts(s.Post.Leaves)[s.Txn.ClientID]
	cls := actionClass(s.Action.Name)
	if s.Err == nil {
		if s.Txn.Nonce != pre.Nonce+1 {
			v("C03:applied-with-wrong-nonce:"+cls, fmt.Sprintf("txn nonce %d applied while state nonce was %d", s.Txn.Nonce, pre.Nonce))
		}
		if post.Nonce != pre.Nonce+1 {
			v("C03:nonce-not-raised-by-one:"+cls, fmt.Sprintf("state nonce %d -> %d after an applied transaction (status %d)", pre.Nonce, post.Nonce, s.Txn.Status))
		}
	} else if len(s.Diff) > 0 {
		v("C03:rejected-txn-changed-state:"+cls, fmt.Sprintf("%d leaves changed by a rejected transaction (err %v)", len(s.Diff), s.Err))
	}
	// no other account's nonce moves
	for p, a := range accounts(s.Post.Leaves) {
		if p == s.Txn.ClientID {
			continue
		}
		if b := accounts(s.Pre.Leaves)[p]; b.Nonce != a.Nonce && b.Has {
			v("C03:foreign-nonce-changed:"+cls, fmt.Sprintf("nonce of %s changed %d -> %d by a transaction of %s", p, b.Nonce, a.Nonce, s.Txn.ClientID))
		}
	}
}

// balanceMonitor (C05): post balances equal the big-int result of applying the effective
// transfers to the pre balances; if any partial sum leaves [0, 2^64) the transaction must have
// been rejected with every leaf unchanged.
func balanceMonitor(s *chainsim.Step, v func(key, what string)) {
	cls := actionClass(s.Action.Name)
	pre, post := accounts(s.Pre.Leaves), accounts(s.Post.Leaves)
	if s.Err != nil {
		if len(s.Diff) > 0 {
			v("C05:rejected-txn-changed-state:"+cls, fmt.Sprintf("%d leaves changed although the transaction was rejected (%v)", len(s.Diff), s.Err))
		}
		return
	}
	ts, sts := effectiveTransfers(s)
	bal := map[string]*big.Int{}
	get := func(id string) *big.Int {
		if b, ok := bal[id]; ok {
			return b
		}
		b := new(big.Int).SetUint64(pre[id].Bal)
		bal[id] = b
		return b
	}
	max := new(big.Int).Lsh(big.NewInt(1), 64)
	bad := ""
	apply := func(from, to string, amt uint64) {
		if amt == 0 {
			return
		}
		a := new(big.Int).SetUint64(amt)
		get(from).Sub(get(from), a)
		if get(from).Sign() < 0 && bad == "" {
			bad = fmt.Sprintf("transfer of %d overdraws %s", amt, from)
		}
		get(to).Add(get(to), a)
		if get(to).Cmp(max) >= 0 && bad == "" {
			bad = fmt.Sprintf("transfer of %d overflows %s", amt, to)
		}
	}
	for _, t := range ts {
		apply(t.ClientID, t.ToClientID, uint64(t.Amount))
	}
	for _, t := range sts {
		apply(t.ClientID, t.ToClientID, uint64(t.Amount))
	}
	if bad != "" {
		v("C05:overdraw-or-overflow-applied:"+cls, "transaction was applied although "+bad)
		return
	}
	ids := map[string]bool{}
	for id := range pre {
		ids[id] = true
	}
	for id := range post {
		ids[id] = true
	}
	for id := range bal {
		ids[id] = true
	}
	for id := range ids {
		want := new(big.Int).SetUint64(pre[id].Bal)
		if b, ok := bal[id]; ok {
			want = b
		}
		if want.Cmp(new(big.Int).SetUint64(post[id].Bal)) != 0 {
			v("C05:balance-differs-from-transfer-sum:"+cls, fmt.Sprintf("account %s: pre %d, transfers give %s, state has %d", id, pre[id].Bal, want.String(), post[id].Bal))
		}
	}
}

// failMonitor (C02): a chargeable failure leaves only the fee payment, the nonce increment and
// one error event.
func failMonitor(s *chainsim.Step, v func(key, what string)) {
	if s.Err != nil || s.Txn.Status != transaction.TxnError {
		return
	}
	cls := actionClass(s.Action.Name)
	// was this a LATE failure (the body had already written state / queued transfers)?
	writes := 0
	for _, r := range s.Tap {
		if r.Op == "emit_error" {
			break
		}
		if r.Op == "insert" || r.Op == "delete" || r.Op == "add_transfer" || r.Op == "set_client" {
			writes++
		}
	}
	if writes > 0 {
		s.Tag("late-failure:" + cls)
	} else {
		s.Tag("early-failure:" + cls)
	}
	pre, post := accounts(s.Pre.Leaves), accounts(s.Post.Leaves)
	fee := uint64(s.Txn.Fee)
	for _, d := range s.Diff {
		switch {
		case d.Path == s.Txn.ClientID && world.Tap.IsAccount(d.Path):
			a, b := pre[d.Path], post[d.Path]
			if b.Nonce != a.Nonce+1 || a.Bal-b.Bal != fee || b.Bal > a.Bal {
				v("C02:sender-change-not-fee-and-nonce:"+cls, fmt.Sprintf("sender %d/%d -> %d/%d with fee %d", a.Bal, a.Nonce, b.Bal, b.Nonce, fee))
			}
		case d.Path == minersc.ADDRESS && world.Tap.IsAccount(d.Path):
			a, b := pre[d.Path], post[d.Path]
			if b.Bal-a.Bal != fee || b.Nonce != a.Nonce {
				v("C02:miner-contract-change-not-fee:"+cls, fmt.Sprintf("miner contract wallet %d -> %d with fee %d", a.Bal, b.Bal, fee))
			}
		default:
			what := world.Tap.KeyOf(d.Path)
			if world.Tap.IsAccount(d.Path) {
				what = "account " + d.Path
			}
			v("C02:failed-call-left-state-change:"+cls, fmt.Sprintf("leaf %s (%s) changed by a failed call: pre %d bytes, post %d bytes", d.Path, what, len(d.Pre), len(d.Post)))
		}
	}
	nErr := 0
	for _, e := range s.Events {
		switch {
		case e.Type == event.TypeError:
			nErr++
		case e.Tag == event.TagAddOrOverwriteUser || e.Tag == event.TagUniqueAddress:
		default:
			v("C02:failed-call-left-event:"+cls, fmt.Sprintf("event type %v tag %v index %s survived a failed call", e.Type, e.Tag, e.Index))
		}
	}
	if nErr != 1 {
		v("C02:error-event-count:"+cls, fmt.Sprintf("%d error events, want 1", nErr))
	}
}

// debitMonitor (C04): who may lose tokens in a transaction.
func debitMonitor(w *world.World) chainsim.Monitor {
	contracts := map[string]bool{}
	for _, a := range world.SCAddresses {
		contracts[a] = true
	}
	return func(s *chainsim.Step, v func(key, what string)) {
		if s.Err != nil {
			return
		}
		cls := actionClass(s.Action.Name)
		pre, post := accounts(s.Pre.Leaves), accounts(s.Post.Leaves)
		_, sts := effectiveTransfers(s)
		var ids []string
		for id := range pre {
			ids = append(ids, id)
		}
		sort.Strings(ids)
		for _, id := range ids {
			a, b := pre[id], post[id]
			if b.Bal >= a.Bal {
				continue
			}
			lost := a.Bal - b.Bal
			switch {
			case id == s.Txn.ClientID:
				if allowed := uint64(s.Txn.Value) + uint64(s.Txn.Fee); lost > allowed {
					v("C04:sender-debited-beyond-value-plus-fee:"+cls, fmt.Sprintf("sender lost %d, value+fee = %d", lost, allowed))
				}
			case id == s.Txn.ToClientID && contracts[id]:
				// the called contract's own wallet
			default:
				ok := false
				for _, st := range sts {
					if st.ClientID == id && uint64(st.Amount) == lost && st.VerifySignature(true) == nil {
						ok = true
					}
				}
				if !ok && s.Txn.FunctionName == "free_allocation_request" {
					ok = freeStorageDebitOK(w, s, id)
				}
				if !ok {
					v("C04:third-party-debited:"+cls, fmt.Sprintf("account %s lost %d in a transaction of %s to %s", id, lost, s.Txn.ClientID, s.Txn.ToClientID))
				}
			}
		}
	}
}

// freeStorageDebitOK is refined by the storage scenario; until a free-storage action exists in
// an alphabet no transition reaches it.
var freeStorageDebitOK = func(w *world.World, s *chainsim.Step, id string) bool { return false }
