package main

import (
	"verif/lib/chainsim"
	"verif/lib/mon"
	"verif/lib/world"
)

// The monitors live in verif/lib/mon so that every scenario binary can run them.
var (
	supplyMonitor  = mon.SupplyMonitor
	nonceMonitor   = mon.NonceMonitor
	balanceMonitor = mon.BalanceMonitor
	failMonitor    = mon.FailMonitor
	actionClass    = mon.ActionClass
)

func debitMonitor(w *world.World) chainsim.Monitor { return mon.DebitMonitor(w) }
