package main

import (
	"encoding/json"
	"fmt"
	"strings"

	"0chain.net/chaincore/transaction"
	"verif/lib/chainsim"
	"verif/lib/kvsc"
	"verif/lib/world"
)

// kv builds a call of the harness test contract: a list of chosen trie operations executed through
// the real UpdateState path (values are cacheable entities).
func kv(w *world.World, from string, class string, ops ...kvsc.Op) chainsim.Action {
	var parts []string
	for _, o := range ops {
		parts = append(parts, strings.TrimSpace(o.Op+" "+o.K+" "+o.V))
	}
	data, _ := json.Marshal(ops)
	return chainsim.Action{Name: fmt.Sprintf("kv:%s(%s by %s)", class, strings.Join(parts, "; "), from), Build: func(x *chainsim.Ctx) *world.TxnSpec {
		f := w.Actors[from]
		return &world.TxnSpec{From: f, To: kvsc.Address, Type: transaction.TxnTypeSmartContract, Fee: 3, Nonce: x.Nonce(f) + 1, Data: world.SC("run", json.RawMessage(data))}
	}}
}

func kput(k, v string) kvsc.Op { return kvsc.Op{Op: "put", K: k, V: v} }
func kget(k string) kvsc.Op    { return kvsc.Op{Op: "get", K: k} }
func kdel(k string) kvsc.Op    { return kvsc.Op{Op: "del", K: k} }
func kfail() kvsc.Op           { return kvsc.Op{Op: "fail"} }

// kvLateFailures: calls that fail AFTER writing nodes (and after reading / deleting them).
func kvLateFailures(w *world.World) []chainsim.Action {
	return []chainsim.Action{
		kv(w, "c0", "put", kput("a", "1")),
		kv(w, "c0", "put-fail", kput("a", "2"), kfail()),
		kv(w, "c1", "put-del-fail", kput("b", "1"), kdel("a"), kfail()),
		kv(w, "c0", "get-put-fail", kget("a"), kput("a", "3"), kfail()),
		kv(w, "c0", "get", kget("a"), kget("b")),
	}
}

// kvCache: reads, read-modify-writes, BLIND writes and deletes of cacheable values.
func kvCache(w *world.World) []chainsim.Action {
	// blind writes first: a depth-first walk then executes them BEFORE any sibling block reads the key
	return []chainsim.Action{
		kv(w, "c0", "blind-put", kput("a", "3")),
		kv(w, "c0", "blind-del", kdel("a")),
		kv(w, "c0", "get", kget("a")),
		kv(w, "c0", "rmw", kget("a"), kput("a", "1")),
		kv(w, "c0", "rmw", kget("a"), kput("a", "2")),
		kv(w, "c0", "put-fail", kput("a", "9"), kfail()),
		kv(w, "c1", "get2", kget("a"), kget("a")),
	}
}
