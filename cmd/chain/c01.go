package main

import (
	"encoding/json"
	"fmt"
	"strings"
	"time"

	"0chain.net/chaincore/transaction"
	"verif/lib/kvsc"
	"verif/lib/mon"

	"0chain.net/core/config"
	"github.com/0chain/common/core/currency"
	"verif/lib/chainsim"
	"verif/lib/ev"
	"verif/lib/world"
)

func init() { checks["C01"] = c01; checks["C01:fan"] = c01fan; checks["C05:multi"] = c05multi }

func c01(run *ev.Run) {
	w := world.New(world.Options{})
	acts := []chainsim.Action{}
	// plain sends over a boundary-rich amount alphabet, forced to collide on 3 accounts
	for _, p := range [][2]string{{"c0", "c1"}, {"c1", "c0"}, {"c0", "c2"}} {
		acts = append(acts,
			send(w, p[0], p[1], constAmt(1), "1", 0),
			send(w, p[0], p[1], constAmt(0), "0", 100),
			send(w, p[0], p[1], balRel(w, p[0], 0), "bal", 0),
			send(w, p[0], p[1], balRel(w, p[0], -100), "bal-fee", 100),
			send(w, p[0], p[1], balRel(w, p[0], 1), "bal+1", 0),
			send(w, p[0], p[1], constAmt(currency.Coin(config.MaxTokenSupply)), "supply", 0),
			send(w, p[0], p[1], constAmt(currency.Coin(config.MaxTokenSupply)+1), "supply+1", 0),
		)
	}
	acts = append(acts, send(w, "c0", world.SCAddresses["minersc"], constAmt(7), "7", 3))
	acts = append(acts, send(w, "c0", "c0", constAmt(5), "self", 0))
	// the same account id spelled in upper-case hex (ids are validated as hashes case-insensitively)
	acts = append(acts, send(w, "c0", strings.ToUpper(w.Actors["c1"].ID), constAmt(9), "9-to-uppercase-c1", 0))
	acts = append(acts, send(w, "c0", strings.ToUpper(w.Actors["c0"].ID), constAmt(9), "9-to-uppercase-self", 0))
	acts = append(acts, contractAlphabet(w)...)
	e := &chainsim.Explorer{Run: run, W: w, Actions: acts, Depth: run.Pick(4, 5), Monitors: []chainsim.Monitor{supplyMonitor},
		Budget: time.Duration(run.Pick(50, 780)) * time.Second, IgnoreTimeInKey: false}
	run.Rule = "BFS over all action sequences up to the depth bound from genesis, one real Chain.UpdateState per transition, states deduplicated by the canonical full-trie form; oracle after every transition: sum of all account leaves == MaxTokenSupply, rejected transactions change nothing"
	run.Assumptions = []string{"account leaves = every leaf written through StateContext.SetClientState since genesis (keytap seam)", "cold state cache per transition", "grocksdb replaced by the in-memory stand-in"}
	e.Explore()
}

// c01fan: part "fan" of C01 — transactions that touch MANY accounts. One contract call pays k times to
// each of n accounts (existing funded clients first, then never-seen ids); n sweeps the powers of two
// and their neighbours (per-transaction bookkeeping such as the state context's client-state cache is
// where a size threshold would sit), k in 1..3 so accounts are credited again after all were touched.
func c01fan(run *ev.Run) {
	const existing = 70
	w := world.New(world.Options{NumClients: existing})
	kvsc.Register()
	ids := make([]string, 0, 140)
	for i := 0; i < existing; i++ {
		ids = append(ids, w.Actors[fmt.Sprintf("c%d", i)].ID)
	}
	for i := 0; len(ids) < 140; i++ {
		ids = append(ids, world.DetKey(fmt.Sprintf("fan-fresh-%d", i)).ID)
	}
	var acts []chainsim.Action
	ns := []int{1, 2, 3, 7, 8, 9, 15, 16, 17, 31, 32, 33, 61, 62, 63, 64, 65, 66, 127, 128, 129}
	if !run.Thorough() {
		ns = []int{1, 2, 15, 16, 17, 31, 32, 33, 61, 62, 63, 64, 65, 66, 127, 128, 129}
	}
	for _, n := range ns {
		for k := 1; k <= 3; k++ {
			for _, off := range []int{1, 40} { // start inside the existing clients / straddle existing and fresh ids
				n, k, off := n, k, off
				if off+n > len(ids) {
					continue
				}
				ops := []kvsc.Op{{Op: "fund"}}
				for r := 0; r < k; r++ {
					for i := 0; i < n; i++ {
						ops = append(ops, kvsc.Op{Op: "pay", K: ids[off+i], V: "7"})
					}
				}
				data, _ := json.Marshal(ops)
				total := currency.Coin(7 * n * k)
				acts = append(acts, chainsim.Action{Name: fmt.Sprintf("kv:fan(n=%d,k=%d,from=%d)", n, k, off), Build: func(x *chainsim.Ctx) *world.TxnSpec {
					f := w.Actors["c0"]
					return &world.TxnSpec{From: f, To: kvsc.Address, Type: transaction.TxnTypeSmartContract, Value: total + 5, Fee: 3, Nonce: x.Nonce(f) + 1, Data: world.SC("run", json.RawMessage(data))}
				}})
			}
		}
	}
	e := &chainsim.Explorer{Run: run, W: w, Actions: acts, Depth: run.Pick(1, 2), Monitors: []chainsim.Monitor{supplyMonitor, fanMonitor},
		Budget: time.Duration(run.Pick(50, 600)) * time.Second}
	run.Rule = "every sequence up to the depth bound of contract calls that pay k x 7 tokens to each of n accounts in ONE transaction (n over powers of two and their neighbours up to 129, k in 1..3, recipients inside the existing clients or straddling existing and never-seen ids); oracle after every transition: total supply unchanged, and every account's balance changed by exactly what the executed transfers say"
	run.Bounds["n"] = ns
	e.Explore()
}

// fanMonitor: exact per-account effect of a fan call (supply conservation alone would accept tokens
// moved to the wrong account).
func fanMonitor(s *chainsim.Step, v func(key, what string)) {
	var n, k, off int
	if s.Err != nil || s.Txn == nil || s.Txn.Status != transaction.TxnSuccess {
		return
	}
	if _, err := fmt.Sscanf(s.Action.Name, "kv:fan(n=%d,k=%d,from=%d)", &n, &k, &off); err != nil {
		return
	}
	pre, post := mon.Accounts(s.PreLeaves), mon.Accounts(s.Post.Leaves)
	skip := map[string]bool{s.Txn.ClientID: true, kvsc.Address: true, world.SCAddresses["minersc"]: true}
	credited := 0
	for id, a := range post {
		if skip[id] || a.Bal == pre[id].Bal {
			continue
		}
		credited++
		if int64(a.Bal)-int64(pre[id].Bal) != int64(7*k) {
			v("C01:fan:recipient-credit-differs-from-transfers", fmt.Sprintf("account %s changed by %d, the call paid it %d", id, int64(a.Bal)-int64(pre[id].Bal), 7*k))
			return
		}
	}
	if credited != n && !skipOverlap(s, n, off) {
		v("C01:fan:number-of-credited-accounts", fmt.Sprintf("%d accounts credited, %d paid", credited, n))
	}
	if d := int64(post[kvsc.Address].Bal) - int64(pre[kvsc.Address].Bal); d != 5 {
		v("C01:fan:contract-wallet-not-debited-by-the-sum-paid", fmt.Sprintf("contract wallet changed by %d, expected +5 (value %d in, %d out)", d, 7*n*k+5, 7*n*k))
	}
}

// the sender c0 is never among the recipients (ranges start at index 1), so no overlap case exists
func skipOverlap(*chainsim.Step, int, int) bool { return false }

// c05multi: part "multi" of C05 — one transaction queueing SEVERAL transfers, the same (from, to)
// pair more than once, with a debit of the receiver in between, and amounts whose sum passes 2^64.
// Every sequence of 1..3 queued transfers over 4 pairs x 3 amounts, executed by one call of the test
// contract from genesis; oracle = the C05 balance monitor (the queued transfers replayed in order with
// unbounded integers: applied although one of them overdraws / overflows is a violation) + supply.
func c05multi(run *ev.Run) {
	w := world.New(world.Options{})
	kvsc.Register()
	a, c := w.Actors["c1"].ID, w.Actors["c2"].ID
	b := world.DetKey("multi-empty-account").ID // owns nothing
	pairs := [][2]string{{a, b}, {b, c}, {a, c}, {b, a}}
	amts := []uint64{50, 100, 1<<64 - 50}
	type mv struct {
		p   int
		amt uint64
	}
	var letters []mv
	for p := range pairs {
		for _, x := range amts {
			letters = append(letters, mv{p, x})
		}
	}
	var acts []chainsim.Action
	names := []string{"A>B", "B>C", "A>C", "B>A"}
	var rec func(seq []mv)
	maxLen := run.Pick(3, 4)
	rec = func(seq []mv) {
		if len(seq) > 0 {
			var ops []kvsc.Op
			var parts []string
			for _, m := range seq {
				ops = append(ops, kvsc.Op{Op: "move", K: pairs[m.p][0] + ">" + pairs[m.p][1], V: fmt.Sprint(m.amt)})
				parts = append(parts, fmt.Sprintf("%s:%d", names[m.p], m.amt))
			}
			data, _ := json.Marshal(ops)
			acts = append(acts, chainsim.Action{Name: "kv:moves(" + strings.Join(parts, ",") + ")", Build: func(x *chainsim.Ctx) *world.TxnSpec {
				f := w.Actors["c0"]
				return &world.TxnSpec{From: f, To: kvsc.Address, Type: transaction.TxnTypeSmartContract, Fee: 3, Nonce: x.Nonce(f) + 1, Data: world.SC("run", json.RawMessage(data))}
			}})
		}
		if len(seq) == maxLen {
			return
		}
		for _, l := range letters {
			rec(append(append([]mv{}, seq...), l))
		}
	}
	rec(nil)
	e := &chainsim.Explorer{Run: run, W: w, Actions: acts, Depth: 1, Monitors: []chainsim.Monitor{supplyMonitor, balanceMonitor},
		Budget: time.Duration(run.Pick(50, 600)) * time.Second}
	run.Rule = "every sequence of 1..3 (thorough 4) transfers queued by ONE contract call over the pairs {A>B, B>C, A>C, B>A} (A, C funded, B owns nothing) and the amounts {50, 100, 2^64-50}, executed by the real Chain.UpdateState from genesis; oracle: the transaction is applied only if replaying its queued transfers in order never overdraws a source or overflows a destination, and then every balance equals that replay; total supply unchanged"
	e.Explore()
}
