package main

import (
	"time"

	"0chain.net/core/config"
	"github.com/0chain/common/core/currency"
	"verif/lib/chainsim"
	"verif/lib/ev"
	"verif/lib/world"
)

func init() { checks["C01"] = c01 }

func c01(run *ev.Run) {
	w := world.New(world.Options{})
	acts := []chainsim.Action{}
	// plain sends over a boundary-rich amount alphabet, forced to collide on 3 accounts
	for _, p := range [][2]string{{"c0", "c1"}, {"c1", "c0"}, {"c0", "c2"}} {
		acts = append(acts,
			send(w, p[0], p[1], constAmt(1), "1", 0),
			send(w, p[0], p[1], constAmt(0), "0", 100),
			send(w, p[0], p[1], balRel(w, p[0], 0), "bal", 0),
			send(w, p[0], p[1], balRel(w, p[0], -100), "bal-fee", 100),
			send(w, p[0], p[1], balRel(w, p[0], 1), "bal+1", 0),
			send(w, p[0], p[1], constAmt(currency.Coin(config.MaxTokenSupply)), "supply", 0),
			send(w, p[0], p[1], constAmt(currency.Coin(config.MaxTokenSupply)+1), "supply+1", 0),
		)
	}
	acts = append(acts, send(w, "c0", world.SCAddresses["minersc"], constAmt(7), "7", 3))
	acts = append(acts, send(w, "c0", "c0", constAmt(5), "self", 0))
	acts = append(acts, contractAlphabet(w)...)
	e := &chainsim.Explorer{Run: run, W: w, Actions: acts, Depth: run.Pick(4, 5), Monitors: []chainsim.Monitor{supplyMonitor},
		Budget: time.Duration(run.Pick(50, 780)) * time.Second, IgnoreTimeInKey: false}
	run.Rule = "BFS over all action sequences up to the depth bound from genesis, one real Chain.UpdateState per transition, states deduplicated by the canonical full-trie form; oracle after every transition: sum of all account leaves == MaxTokenSupply, rejected transactions change nothing"
	run.Assumptions = []string{"account leaves = every leaf written through StateContext.SetClientState since genesis (keytap seam)", "cold state cache per transition", "grocksdb replaced by the in-memory stand-in"}
	e.Explore()
}
