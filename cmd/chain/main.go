// Group I checks on the chain-level state transition (engine E1, lib/chainsim).
package main

import (
	"fmt"
	"os"

	"verif/lib/ev"
)

var checks = map[string]func(run *ev.Run){}

func main() {
	if len(os.Args) < 2 {
		fmt.Println("usage: chain <PropId> [quick|thorough]")
		os.Exit(2)
	}
	name := os.Args[1]
	if len(os.Args) > 3 { // a named part: chain <PropId> <tier> <part>
		name += ":" + os.Args[3]
	}
	f, ok := checks[name]
	if !ok {
		ev.Fatal("unknown property %s", os.Args[1])
	}
	run := ev.Start(os.Args[1])
	f(run)
	if os.Getenv("VERIF_SHARD") == "" {
		run.Finish()
	}
}
