package main

import (
	"bytes"
	"fmt"
	"time"

	"0chain.net/chaincore/block"
	"0chain.net/chaincore/transaction"
	"0chain.net/core/datastore"
	"github.com/0chain/common/core/util"
	"verif/lib/chainsim"
	"verif/lib/ev"
	"verif/lib/world"
)

func init() { checks["C28"] = c28 }

// receiverBlock builds the block as a syncing node holds it: header only, no computed state.
func receiverBlock(w *world.World, src *block.Block) *block.Block {
	b := block.NewBlock(w.Chain.GetKey(), src.Round)
	b.Hash = src.Hash
	b.CreationDate = src.CreationDate
	b.MinerID = src.MinerID
	b.ClientStateHash = append([]byte{}, src.ClientStateHash...)
	b.StateChangesCount = src.StateChangesCount
	b.SetPreviousBlock(src.PrevBlock)
	return b
}

// transport encodes and decodes the change set the way a requesting node receives it.
func transport(bsc *block.StateChange, msgpack bool) (*block.StateChange, error) {
	out := datastore.GetEntityMetadata("block_state_change").Instance().(*block.StateChange)
	if msgpack {
		buf := datastore.ToMsgpack(bsc)
		if err := datastore.FromMsgpack(buf.Bytes(), out); err != nil {
			return nil, err
		}
	} else {
		buf := datastore.ToJSON(bsc)
		if err := datastore.FromJSON(buf.Bytes(), out); err != nil {
			return nil, err
		}
	}
	if err := out.ComputeProperties(); err != nil {
		return nil, err
	}
	return out, nil
}

func leafKey(ls []world.Leaf) string {
	var b bytes.Buffer
	for _, l := range ls {
		b.WriteString(l.Path)
		b.WriteByte(0)
		b.Write(l.Value)
		b.WriteByte(1)
	}
	return b.String()
}

func c28(run *ev.Run) {
	w := world.New(world.Options{})
	acts := append(sendAlphabet(w)[:6], contractAlphabet(w)...)
	acts = append(acts, governanceAlphabet(w)[:6]...)
	var foreign []util.Node // nodes of other blocks, for "node of another block" tampering
	mon := func(s *chainsim.Step, v func(key, what string)) {
		if s.Err != nil {
			return
		}
		src := s.Post.N.Block
		cls := actionClass(s.Action.Name)
		bsc, err := block.NewBlockStateChange(src)
		if err != nil {
			if src.StateChangesCount == 0 {
				s.Tag("empty-change-set")
				return
			}
			v("C28:NewBlockStateChange:error:"+cls, err.Error())
			return
		}
		parentLeaves := leafKey(s.Pre.Leaves)
		dbSize := w.Chain.GetStateDB().Size(w.Ctx)
		untouched := func(where string, rb *block.Block) {
			if rb.ClientState != nil || rb.IsStateComputed() {
				v("C28:rejected-but-state-set:"+where, "the receiving block got a client state / computed status although the change set was rejected")
			}
			if leafKey(world.Leaves(s.Pre.N.State)) != parentLeaves {
				v("C28:rejected-but-parent-state-changed:"+where, "previous block's state changed")
			}
			if w.Chain.GetStateDB().Size(w.Ctx) != dbSize {
				v("C28:rejected-but-statedb-changed:"+where, "persistent state DB changed")
			}
		}
		for _, mp := range []bool{false, true} {
			// 1. honest change set
			got, err := transport(bsc, mp)
			if err != nil {
				v("C28:honest-change-set-rejected-at-decode:"+cls, err.Error())
				continue
			}
			rb := receiverBlock(w, src)
			if err := rb.ApplyBlockStateChange(got, w.Chain); err != nil {
				v("C28:honest-change-set-rejected:"+cls, err.Error())
				continue
			}
			if !bytes.Equal(rb.ClientState.GetRoot(), src.ClientStateHash) {
				v("C28:applied-root-differs:"+cls, "root after applying the published changes differs from the declared one")
			}
			if leafKey(world.Leaves(rb.ClientState)) != leafKey(s.Post.Leaves) {
				v("C28:applied-state-differs-from-executed:"+cls, "full leaf set after applying the changes differs from the executed block's")
			}
			s.Tag("honest-applied")
			// 2. tamperings named by the statement: root, block hash, node count
			type tamper struct {
				name string
				f    func(c *block.StateChange, rb *block.Block)
			}
			var ts []tamper
			ts = append(ts,
				tamper{"wrong-block-hash", func(c *block.StateChange, rb *block.Block) { c.Block = "0000" + c.Block[4:] }},
				tamper{"wrong-root", func(c *block.StateChange, rb *block.Block) {
					h := append([]byte{}, c.Hash...)
					h[0] ^= 1
					c.Hash = h
				}},
				tamper{"declared-count+1", func(c *block.StateChange, rb *block.Block) { rb.StateChangesCount++ }},
				tamper{"declared-count-1", func(c *block.StateChange, rb *block.Block) { rb.StateChangesCount-- }},
				tamper{"root-of-previous-block", func(c *block.StateChange, rb *block.Block) {
					c.Hash = append([]byte{}, s.Pre.N.Block.ClientStateHash...)
				}},
			)
			for i := range got.Nodes {
				i := i
				ts = append(ts, tamper{fmt.Sprintf("drop-node"), func(c *block.StateChange, rb *block.Block) {
					c.Nodes = append(append([]util.Node{}, c.Nodes[:i]...), c.Nodes[i+1:]...)
				}})
				if len(foreign) > 0 {
					ts = append(ts, tamper{"extra-foreign-node", func(c *block.StateChange, rb *block.Block) {
						c.Nodes = append(append([]util.Node{}, c.Nodes...), foreign[i%len(foreign)])
					}})
				}
				ts = append(ts, tamper{"duplicate-node", func(c *block.StateChange, rb *block.Block) {
					c.Nodes = append(append([]util.Node{}, c.Nodes...), c.Nodes[i])
				}})
				// pairs that keep the LENGTH of the node list equal to the declared count
				for _, j := range []int{(i + 1) % len(got.Nodes), 0, len(got.Nodes) - 1} { // next node, first, last (the root is among them)
					j := j
					if j == i || mp { // (pairs over the JSON transport only)
						continue
					}
					ts = append(ts, tamper{"drop-node+repeat-another", func(c *block.StateChange, rb *block.Block) {
						n := append([]util.Node{}, c.Nodes...)
						n[i] = n[j] // node i is gone, node j is listed twice
						c.Nodes = n
					}})
				}
				if len(foreign) > 0 {
					ts = append(ts, tamper{"replace-node-by-foreign", func(c *block.StateChange, rb *block.Block) {
						n := append([]util.Node{}, c.Nodes...)
						n[i] = foreign[i%len(foreign)]
						c.Nodes = n
					}})
				}
			}
			for _, t := range ts {
				c, err := transport(bsc, mp)
				if err != nil {
					continue
				}
				rb := receiverBlock(w, src)
				t.f(c, rb)
				// re-transport: the tampered set is what arrives; a set that no longer decodes is rejected at decode
				c2, err := transport(c, mp)
				if err != nil {
					s.Tag("tampered-rejected-at-decode:" + t.name)
					untouched(t.name, rb)
					continue
				}
				c2.Block = c.Block
				err = rb.ApplyBlockStateChange(c2, w.Chain)
				if err == nil {
					if t.name == "replace-node-by-foreign" {
						// same number of distinct nodes, same root, same block hash: outside the statement's
						// rejection clause (recorded as an observation only)
						s.Tag("outside-clause-accepted:" + t.name)
						continue
					}
					if _, lerr := safeLeaves(rb.ClientState); lerr != nil {
						v("C28:mismatching-change-set-accepted:"+t.name, fmt.Sprintf("change set with %s was applied and the synced state is not completely readable: %v", t.name, lerr))
						continue
					}
					// semantically neutral? (e.g. duplicate of an identical node changes neither count nor content after dedup)
					if len(c2.Nodes) == rb.StateChangesCount && c2.Block == rb.Hash && bytes.Equal(c2.Hash, rb.ClientStateHash) &&
						rb.ClientState != nil && leafKey(world.Leaves(rb.ClientState)) == leafKey(s.Post.Leaves) {
						s.Tag("tampering-neutral:" + t.name)
						continue
					}
					v("C28:mismatching-change-set-accepted:"+t.name, fmt.Sprintf("change set with %s was applied (nodes %d, declared %d)", t.name, len(c2.Nodes), rb.StateChangesCount))
					continue
				}
				s.Tag("tampered-rejected:" + t.name)
				untouched(t.name, rb)
			}
		}
		if len(foreign) < 64 {
			foreign = append(foreign, bsc.Nodes...)
		}
		_ = transaction.TxnSuccess
	}
	e := &chainsim.Explorer{Run: run, W: w, Actions: acts, Depth: run.Pick(2, 3), Monitors: []chainsim.Monitor{mon},
		Budget: time.Duration(run.Pick(50, 780)) * time.Second}
	run.Rule = "BFS over blocks built from sends, contract calls and settings updates; for every explored block: the published change set (JSON and msgpack transport) applied to a header-only copy of the block must reproduce the declared root and the executed block's full leaf set; every single tampering of block hash, root, declared count, and every drop / foreign insertion / duplication of a node at every position must be rejected with block, previous state and state DB untouched"
	run.Assumptions = []string{"one transaction per block", "node count is read as the number of DISTINCT nodes delivered (a list that repeats a node delivers fewer nodes than declared); tamperings that keep root, block hash and the number of distinct nodes (a node replaced by a foreign one) are outside the statement's rejection clause: they are counted (tag outside-clause-accepted) but not demanded — observation: the real code accepts them and marks the block synched with an incomplete state"}
	e.Explore()
}

// safeLeaves iterates a state that may have missing nodes.
func safeLeaves(mpt util.MerklePatriciaTrieI) (ls []world.Leaf, err error) {
	defer func() {
		if r := recover(); r != nil {
			err = fmt.Errorf("%v", r)
		}
	}()
	return world.Leaves(mpt), nil
}
