// C46 (sequential part): explicit-state search over the real orderbuffer.OrderBuffer.
// State = (capacity, Buffer contents); transitions = Add(r,d) / First / Pop on the real object;
// oracle = the four clauses of the statement, evaluated on every transition.
package main

import (
	"fmt"
	"sort"

	"0chain.net/core/util/orderbuffer"
	"verif/lib/ev"
)

type item struct {
	R int64
	D string
}

func snapshot(b *orderbuffer.OrderBuffer) []item {
	out := make([]item, len(b.Buffer))
	for i, it := range b.Buffer {
		out[i] = item{it.Round, it.Data.(string)}
	}
	return out
}

func build(capacity int, st []item) *orderbuffer.OrderBuffer {
	b := orderbuffer.New(capacity)
	for _, it := range st {
		b.Buffer = append(b.Buffer, orderbuffer.Item{Round: it.R, Data: it.D})
	}
	return b
}

func key(capacity int, st []item) string { return fmt.Sprint(capacity, st) }

func multiset(st []item) map[item]int {
	m := map[item]int{}
	for _, it := range st {
		m[it]++
	}
	return m
}

func minRound(st []item) int64 {
	m := st[0].R
	for _, it := range st {
		if it.R < m {
			m = it.R
		}
	}
	return m
}

func main() {
	run := ev.Start("C46")
	rounds := []int64{1, 2, 3, 5}
	var alpha []item
	for _, r := range rounds {
		alpha = append(alpha, item{r, fmt.Sprintf("b%d", r)}, item{r, fmt.Sprintf("b%d'", r)})
	}
	caps := []int{1, 2, 3}
	if run.Thorough() {
		caps = []int{1, 2, 3, 4}
	}
	run.Rule = "BFS over all reachable (capacity, buffer) states of the real OrderBuffer; ops Add(r,d) for 4 rounds x 2 blocks per round, First, Pop; distinct = distinct reachable states"
	run.Bounds["capacities"] = caps
	run.Bounds["rounds"] = rounds
	run.Bounds["blocks_per_round"] = 2
	run.Bounds["depth"] = "unbounded (full reachable state space)"

	for _, capacity := range caps {
		seen := map[string]bool{key(capacity, nil): true}
		frontier := [][]item{nil}
		for len(frontier) > 0 {
			pre := frontier[0]
			frontier = frontier[1:]
			run.Add(1, 0, 0)
			run.Outcome(key(capacity, pre))
			type op struct {
				name string
				it   item
			}
			ops := []op{{"First", item{}}, {"Pop", item{}}}
			for _, a := range alpha {
				ops = append(ops, op{"Add", a})
			}
			for _, o := range ops {
				b := build(capacity, pre)
				bad := func(clause, msg string, post []item) {
					run.Violation("C46:seq:"+clause, fmt.Sprintf("cap=%d pre=%v op=%s%v post=%v: %s", capacity, pre, o.name, o.it, post, msg),
						map[string]any{"capacity": capacity, "pre": pre, "op": o.name, "item": o.it})
				}
				switch o.name {
				case "Add":
					ok := b.Add(o.it.R, o.it.D)
					post := snapshot(b)
					if !ok {
						bad("add-returns-false", "Add returned false", post)
					}
					if !sort.SliceIsSorted(post, func(i, j int) bool { return post[i].R < post[j].R }) {
						bad("unsorted", "buffer not ordered by round", post)
					}
					if len(post) > capacity {
						bad("over-capacity", "holds more than its capacity", post)
					}
					// the block "at that position": last entry with round <= r
					var at *item
					for i := range pre {
						if pre[i].R <= o.it.R {
							at = &pre[i]
						}
					}
					if at != nil && *at == o.it {
						if fmt.Sprint(post) != fmt.Sprint(pre) {
							bad("repeat-not-ignored", "exact repeat of the block held at that position was not ignored", post)
						}
					} else {
						want := len(pre) + 1
						if want > capacity {
							want = capacity
						}
						if len(post) != want {
							bad("add-lost", fmt.Sprintf("size %d, want %d", len(post), want), post)
						}
						all := multiset(append(append([]item{}, pre...), o.it))
						for it, n := range multiset(post) {
							if all[it] < n {
								bad("add-invented", "entry not from previous content or the added block", post)
							}
							all[it] -= n
						}
						if len(post) > 0 {
							maxKept := post[len(post)-1].R
							for _, it := range post {
								if it.R > maxKept {
									maxKept = it.R
								}
							}
							for it, n := range all {
								if n > 0 && it.R < maxKept {
									bad("dropped-not-highest", fmt.Sprintf("dropped %v although round %d is kept", it, maxKept), post)
								}
							}
						}
					}
					if k := key(capacity, post); !seen[k] {
						seen[k] = true
						frontier = append(frontier, post)
					}
				case "First", "Pop":
					var got orderbuffer.Item
					var ok bool
					if o.name == "First" {
						got, ok = b.First()
					} else {
						got, ok = b.Pop()
					}
					post := snapshot(b)
					if ok != (len(pre) > 0) {
						bad("empty-flag", "ok flag wrong", post)
					}
					if ok {
						g := item{got.Round, got.Data.(string)}
						if g.R != minRound(pre) {
							bad("not-lowest-first", fmt.Sprintf("handed out round %d, lowest is %d", g.R, minRound(pre)), post)
						}
						want := multiset(pre)
						if want[g] == 0 {
							bad("handed-out-unknown", "handed out a block it did not hold", post)
						}
						if o.name == "Pop" {
							want[g]--
							if len(post) != len(pre)-1 {
								bad("pop-size", "Pop did not remove exactly one", post)
							}
						}
						for it, n := range multiset(post) {
							want[it] -= n
						}
						for it, n := range want {
							if n != 0 {
								bad("content-changed", fmt.Sprintf("content changed for %v", it), post)
							}
						}
					}
					if k := key(capacity, post); !seen[k] {
						seen[k] = true
						frontier = append(frontier, post)
					}
				}
				run.Add(0, 1, 1)
				if o.name == "Add" && len(pre) == capacity {
					run.Sample(map[string]any{"capacity": capacity, "pre": pre, "op": o.name, "item": o.it})
				}
			}
		}
	}
	run.Assumptions = []string{"block data values determine their round (as real blocks do)", "sequential part only; concurrent use is explored by the sched engine"}
	run.Finish()
}
