// C35: generator ranking and per-round notarized blocks.
//
// Part "ranks": every miner set of size 1..N drawn from N+1 harness keys, inserted into a fresh
// real node.Pool in EVERY order (plus: re-adding a member, cloning the pool), every seed of the
// alphabet; the rank vector read through the real Round.SetRandomSeed / GetMinerRank /
// GetMinersByRank must be a permutation of 0..n-1 and identical for every insertion order.
//
// Part "notarized": explicit-state BFS over all reachable notarized-block lists of a real Round;
// operations AddNotarizedBlock(o), UpdateNotarizedBlock(o) for every block object o of the alphabet
// (R ranks x 2 hashes per rank x 2 distinct objects per hash) and the three read accessors. After
// every transition: at most one block per rank, heaviest -> lightest, nothing invented, nothing of
// another rank lost, update stores the GIVEN object.
package main

import (
	"fmt"
	"math"
	"sort"
	"strings"

	"0chain.net/chaincore/block"
	"0chain.net/chaincore/node"
	"0chain.net/chaincore/round"

	"verif/lib/ev"
)

func c35() {
	initRepo()
	run := ev.Start("C35")
	c35Ranks(run)
	c35SeedHistories(run)
	c35Notarized(run)
	run.Rule = "ranks: all miner sets (size 1..N of N+1 keys) x all insertion orders x {plain, re-add member, clone} x seed alphabet, distinct = distinct (set, seed, rank vector); notarized: BFS closure of reachable notarized lists of a real Round under Add/Update of every block object and the read accessors, distinct = distinct reachable list"
	run.Assumptions = []string{
		"a block's hash determines its rank within the round (two objects with one hash carry one rank)",
		"ranks of the alphabet are 0..R-1 (Weight() = 2^-rank is then strictly decreasing in rank)",
		"sequential use; concurrent use of the round is explored by the sched engine (C44)",
	}
	run.Finish()
}

// ---------------------------------------------------------------------------------------------

func c35Ranks(run *ev.Run) {
	maxN := run.Pick(5, 6)
	universe := maxN + 1
	seeds := []int64{math.MinInt64, -7, -1}
	for s := int64(0); s <= 15; s++ {
		seeds = append(seeds, s)
	}
	seeds = append(seeds, 1<<40+3, math.MaxInt64)
	run.Bounds["ranks.max_miners"] = maxN
	run.Bounds["ranks.key_universe"] = universe
	run.Bounds["ranks.seeds"] = seeds
	run.Bounds["ranks.pool_variants"] = []string{"plain", "re-add first member at the end", "Clone()"}

	// the shim'd generator itself: a permutation for every (seed, n)
	for n := 0; n <= maxN+2; n++ {
		for _, s := range seeds {
			p := round.VerifStructsComputeMinerRanks(s, n)
			run.Add(0, 0, 1)
			if !isPerm(p, n) {
				run.Violation("C35:computeMinerRanks:not-a-permutation", fmt.Sprintf("computeMinerRanks(%d,%d)=%v", s, n, p),
					map[string]any{"seed": s, "n": n})
			}
		}
	}

	for n := 1; n <= maxN; n++ {
		subsets(universe, n, func(sub []int) {
			ids := make([]string, n)
			for i, k := range sub {
				ids[i] = nodeID(k)
			}
			ids = sortedCopy(ids)
			type res struct {
				ranks  []int    // by sorted id
				byRank []string // ids in GetMinersByRank order
			}
			canon := map[int64]*res{}
			var canonOrder []int
			permutations(sub, func(order []int) {
				for variant := 0; variant < 3; variant++ {
					pool := node.NewPool(node.NodeTypeMiner)
					for _, k := range order {
						if err := pool.AddNode(mkNode(node.NodeTypeMiner, k, true)); err != nil {
							ev.Fatal("AddNode: %v", err)
						}
					}
					switch variant {
					case 1:
						if err := pool.AddNode(mkNode(node.NodeTypeMiner, order[0], true)); err != nil {
							ev.Fatal("AddNode: %v", err)
						}
					case 2:
						pool = pool.Clone()
					}
					if pool.Size() != n {
						run.Violation("C35:Pool.AddNode:size", fmt.Sprintf("pool of %d distinct miners reports size %d", n, pool.Size()),
							map[string]any{"order": order, "variant": variant})
						continue
					}
					for _, s := range seeds {
						r := round.NewRound(7)
						r.SetRandomSeed(s, pool.Size())
						got := &res{}
						for _, id := range ids {
							nd := pool.GetNode(id)
							if nd == nil {
								ev.Fatal("node %s missing from pool", id)
							}
							got.ranks = append(got.ranks, r.GetMinerRank(nd))
						}
						for _, nd := range r.GetMinersByRank(pool.CopyNodes()) {
							got.byRank = append(got.byRank, nd.GetKey())
						}
						run.Add(0, 1, 1)
						replay := map[string]any{"miner_keys": sub, "insertion_order": order, "variant": variant, "seed": s}
						if !isPerm(got.ranks, n) {
							run.Violation("C35:GetMinerRank:not-a-permutation",
								fmt.Sprintf("miners %v inserted %v variant %d seed %d: ranks %v are not a permutation of 0..%d", sub, order, variant, s, got.ranks, n-1), replay)
						}
						if fmt.Sprint(sortedCopy(got.byRank)) != fmt.Sprint(ids) {
							run.Violation("C35:GetMinersByRank:not-a-permutation",
								fmt.Sprintf("miners %v inserted %v seed %d: GetMinersByRank returned %v", sub, order, s, got.byRank), replay)
						}
						if c, ok := canon[s]; !ok {
							canon[s] = got
							canonOrder = order
							run.Outcome(fmt.Sprintf("rank:%v:%d:%v", sub, s, got.ranks))
							run.Add(1, 0, 0)
						} else {
							if fmt.Sprint(c.ranks) != fmt.Sprint(got.ranks) {
								run.Violation("C35:GetMinerRank:depends-on-insertion-order",
									fmt.Sprintf("miners %v seed %d: order %v gives ranks %v, order %v (variant %d) gives %v", sub, s, canonOrder, c.ranks, order, variant, got.ranks), replay)
							}
							if fmt.Sprint(c.byRank) != fmt.Sprint(got.byRank) {
								run.Violation("C35:GetMinersByRank:depends-on-insertion-order",
									fmt.Sprintf("miners %v seed %d: order %v gives %v, order %v (variant %d) gives %v", sub, s, canonOrder, c.byRank, order, variant, got.byRank), replay)
							}
						}
					}
					if n == maxN && variant == 0 {
						run.Sample(map[string]any{"part": "ranks", "miner_keys": sub, "insertion_order": order})
					}
				}
			})
		})
	}
}

// c35SeedHistories: a node that reaches round seed s through ANY history of seed operations
// (first seed, re-seed from a notarized block of another timeout, restart and seed again) must hold
// the same ranking as a node that seeds a fresh round with s.
func c35SeedHistories(run *ev.Run) {
	seeds := []int64{1, 2, -5}
	type sop struct {
		Kind string
		S    int64
	}
	var alpha []sop
	for _, s := range seeds {
		alpha = append(alpha, sop{"SetRandomSeed", s}, sop{"SetRandomSeedForNotarizedBlock", s})
	}
	alpha = append(alpha, sop{"Restart", 0})
	depth := run.Pick(3, 4)
	for n := 1; n <= 5; n++ {
		pool := node.NewPool(node.NodeTypeMiner)
		for k := 0; k < n; k++ {
			if err := pool.AddNode(mkNode(node.NodeTypeMiner, k, true)); err != nil {
				ev.Fatal("AddNode: %v", err)
			}
		}
		ranksOf := func(r *round.Round) []int {
			var out []int
			for k := 0; k < n; k++ {
				out = append(out, r.GetMinerRank(pool.GetNode(nodeID(k))))
			}
			return out
		}
		fresh := map[int64][]int{}
		for _, s := range seeds {
			r := round.NewRound(7)
			r.SetRandomSeed(s, n)
			fresh[s] = ranksOf(r)
		}
		var rec func(prefix []sop)
		rec = func(prefix []sop) {
			if len(prefix) > 0 {
				r := round.NewRound(7)
				for _, o := range prefix {
					switch o.Kind {
					case "SetRandomSeed":
						r.SetRandomSeed(o.S, n)
					case "SetRandomSeedForNotarizedBlock":
						r.SetRandomSeedForNotarizedBlock(o.S, n)
					case "Restart":
						_ = r.Restart()
					}
				}
				run.Add(0, 1, 1)
				if s := r.GetRandomSeed(); s != 0 {
					got := ranksOf(r)
					run.Outcome(fmt.Sprintf("seed-history:%d:%d:%v", n, s, got))
					if fmt.Sprint(got) != fmt.Sprint(fresh[s]) {
						run.Violation("C35:ranking-differs-from-a-fresh-round-with-the-same-seed:"+prefix[len(prefix)-1].Kind,
							fmt.Sprintf("%d miners, history %v: round seed is %d, ranks %v; a fresh round seeded with %d has ranks %v", n, prefix, s, got, s, fresh[s]),
							map[string]any{"miners": n, "history": fmt.Sprint(prefix)})
					}
				}
			}
			if len(prefix) == depth {
				return
			}
			for _, o := range alpha {
				rec(append(append([]sop{}, prefix...), o))
			}
		}
		rec(nil)
	}
}

func isPerm(p []int, n int) bool {
	if len(p) != n {
		return false
	}
	seen := make([]bool, n)
	for _, v := range p {
		if v < 0 || v >= n || seen[v] {
			return false
		}
		seen[v] = true
	}
	return true
}

// ---------------------------------------------------------------------------------------------

type nbOp struct {
	Kind string // Add | Update | Best | Heaviest | List
	Obj  int
}

func (o nbOp) String() string {
	if o.Kind == "Add" || o.Kind == "Update" {
		return fmt.Sprintf("%s(%s)", o.Kind, objName(o.Obj))
	}
	return o.Kind
}

// object o: hash index o/2 (two objects per hash), rank = hash index / hashesPerRank.
const c35HashesPerRank = 2

func objHash(o int) int { return o / 2 }
func objRank(o int) int { return objHash(o) / c35HashesPerRank }
func objName(o int) string {
	return fmt.Sprintf("r%dh%d%s", objRank(o), objHash(o)%c35HashesPerRank, []string{"", "'"}[o%2])
}

type nbWorld struct {
	r    *round.Round
	objs []*block.Block
	name map[*block.Block]int
}

func newNBWorld(nObjs int) *nbWorld {
	w := &nbWorld{r: round.NewRound(9), name: map[*block.Block]int{}}
	for o := 0; o < nObjs; o++ {
		b := block.NewBlock("", 9)
		b.Hash = fmt.Sprintf("%064x", 0xabc000+objHash(o))
		b.RoundRank = objRank(o)
		b.MinerID = fmt.Sprintf("miner-%d", objRank(o))
		w.objs = append(w.objs, b)
		w.name[b] = o
	}
	return w
}

func (w *nbWorld) list() []int {
	var out []int
	for _, b := range w.r.GetNotarizedBlocks() {
		o, ok := w.name[b]
		if !ok {
			o = -1
		}
		out = append(out, o)
	}
	return out
}

func (w *nbWorld) apply(op nbOp) (ret int) {
	ret = -2
	switch op.Kind {
	case "Add":
		w.r.AddNotarizedBlock(w.objs[op.Obj])
	case "Update":
		w.r.UpdateNotarizedBlock(w.objs[op.Obj])
	case "Best", "Heaviest":
		var b *block.Block
		if op.Kind == "Best" {
			b = w.r.GetBestRankedNotarizedBlock()
		} else {
			b = w.r.GetHeaviestNotarizedBlock()
		}
		if b == nil {
			return -1
		}
		o, ok := w.name[b]
		if !ok {
			return -3
		}
		return o
	case "List":
		_ = w.r.GetNotarizedBlocks()
	}
	return
}

func listNames(l []int) string {
	s := make([]string, len(l))
	for i, o := range l {
		if o < 0 {
			s[i] = "?"
		} else {
			s[i] = objName(o)
		}
	}
	return "[" + strings.Join(s, " ") + "]"
}

func c35Notarized(run *ev.Run) {
	ranks := run.Pick(3, 4)
	nObjs := ranks * c35HashesPerRank * 2
	run.Bounds["notarized.ranks"] = ranks
	run.Bounds["notarized.hashes_per_rank"] = c35HashesPerRank
	run.Bounds["notarized.objects_per_hash"] = 2
	run.Bounds["notarized.depth"] = "unbounded (closure of reachable lists)"

	var ops []nbOp
	for o := 0; o < nObjs; o++ {
		ops = append(ops, nbOp{"Add", o})
	}
	for o := 0; o < nObjs; o++ {
		ops = append(ops, nbOp{"Update", o})
	}
	ops = append(ops, nbOp{"Best", 0}, nbOp{"Heaviest", 0}, nbOp{"List", 0})

	type st struct{ path []nbOp }
	seen := map[string]bool{"[]": true}
	frontier := []st{{}}
	const maxStates = 200000
	for len(frontier) > 0 {
		cur := frontier[0]
		frontier = frontier[1:]
		run.Add(1, 0, 0)
		for _, op := range ops {
			w := newNBWorld(nObjs)
			for _, p := range cur.path {
				w.apply(p)
			}
			pre := w.list()
			ret := w.apply(op)
			post := w.list()
			run.Add(0, 1, 1)
			run.Outcome("nb:" + listNames(post))
			path := append(append([]nbOp{}, cur.path...), op)
			replay := map[string]any{"ops": fmt.Sprint(path), "pre": listNames(pre), "post": listNames(post)}
			bad := func(key, msg string) {
				run.Violation("C35:"+key, fmt.Sprintf("after %v: list %s -> %s: %s", path, listNames(pre), listNames(post), msg), replay)
			}
			c35CheckStep(w, op, ret, pre, post, bad)
			k := listNames(post)
			if !seen[k] && len(seen) < maxStates {
				seen[k] = true
				frontier = append(frontier, st{path})
				if len(post) == ranks {
					run.Sample(map[string]any{"part": "notarized", "ops": fmt.Sprint(path), "list": k})
				}
			}
		}
	}
	if len(seen) >= maxStates {
		run.Capped("notarized: state cap reached")
	}
	run.Extra["notarized_states"] = len(seen)
}

// c35CheckStep is the oracle for one transition, written from the statement.
func c35CheckStep(w *nbWorld, op nbOp, ret int, pre, post []int, bad func(key, msg string)) {
	fn := map[string]string{"Add": "AddNotarizedBlock", "Update": "UpdateNotarizedBlock", "Best": "GetBestRankedNotarizedBlock",
		"Heaviest": "GetHeaviestNotarizedBlock", "List": "GetNotarizedBlocks"}[op.Kind]
	// (1) at most one block per rank; (2) heaviest -> lightest; (3) only known objects
	rankSeen := map[int]bool{}
	for i, o := range post {
		if o < 0 {
			bad(fn+":unknown-object", "list holds an object that was never given to the round")
			return
		}
		if rankSeen[objRank(o)] {
			bad(fn+":two-blocks-of-one-rank", fmt.Sprintf("two notarized blocks of rank %d", objRank(o)))
		}
		rankSeen[objRank(o)] = true
		if i > 0 && w.objs[post[i-1]].Weight() < w.objs[o].Weight() {
			bad(fn+":not-heaviest-first", "list is not ordered heaviest -> lightest")
		}
	}
	inPre := map[int]bool{}
	for _, o := range pre {
		inPre[o] = true
	}
	inPost := map[int]bool{}
	for _, o := range post {
		inPost[o] = true
	}
	hashAt := func(l []int, h int) int { // object stored for hash h, or -1
		for _, o := range l {
			if objHash(o) == h {
				return o
			}
		}
		return -1
	}
	switch op.Kind {
	case "Add":
		for _, o := range post {
			if !inPre[o] && o != op.Obj {
				bad(fn+":invented", "a block that was neither stored nor added appeared")
			}
		}
		for _, o := range pre {
			if objRank(o) != objRank(op.Obj) && !inPost[o] {
				bad(fn+":lost-other-rank", fmt.Sprintf("block %s of another rank was dropped", objName(o)))
			}
		}
		if !rankSeen[objRank(op.Obj)] {
			bad(fn+":rank-empty-after-add", "no block of the added block's rank is stored after the call")
		}
	case "Update":
		h := objHash(op.Obj)
		if was := hashAt(pre, h); was >= 0 {
			now := hashAt(post, h)
			if now != op.Obj {
				if now == was && was != op.Obj {
					bad(fn+":stores-old-object", fmt.Sprintf("the round still holds the previous object %s instead of the given %s", objName(was), objName(op.Obj)))
				} else {
					bad(fn+":given-block-not-stored", "the given block is not the one stored for its hash")
				}
			}
		}
		// everything else is untouched
		for i := range pre {
			if objHash(pre[i]) == h {
				continue
			}
			if i >= len(post) || post[i] != pre[i] {
				bad(fn+":touched-other-block", "a block with another hash changed")
				break
			}
		}
		if len(post) != len(pre) {
			bad(fn+":size-changed", "the number of notarized blocks changed")
		}
	default:
		// read accessors do not change the content
		a, b := append([]int{}, pre...), append([]int{}, post...)
		sort.Ints(a)
		sort.Ints(b)
		if fmt.Sprint(a) != fmt.Sprint(b) {
			bad(fn+":read-changed-content", "a read accessor changed the set of notarized blocks")
		}
		if op.Kind != "List" {
			if len(pre) == 0 {
				if ret != -1 {
					bad(fn+":non-nil-on-empty", "returned a block although none is notarized")
				}
				return
			}
			if ret < 0 || !inPre[ret] {
				bad(fn+":returned-unknown", "returned a block that is not in the list")
				return
			}
			for _, o := range pre {
				if op.Kind == "Best" && objRank(o) < objRank(ret) {
					bad(fn+":not-best-rank", fmt.Sprintf("returned %s although %s has a better rank", objName(ret), objName(o)))
				}
				if op.Kind == "Heaviest" && w.objs[o].Weight() > w.objs[ret].Weight() {
					bad(fn+":not-heaviest", fmt.Sprintf("returned %s although %s is heavier", objName(ret), objName(o)))
				}
			}
		}
	}
}
