// C43: hard-fork behaviour switches exactly at the fork round.
//
// A real StateContext on a real in-memory Merkle-Patricia trie. Fork names x recording histories
// (never recorded; recorded once at r; recorded twice r1 then r2; another name recorded) x two ways
// of recording (direct trie insert of the real HardFork node; the real miner contract function
// add_hardfork) x two ways of reading (the recording context; a fresh context on a child level
// of the trie) x block rounds around every recorded round. Observed (1) through WithActivation
// itself (which closure ran, how often, what it returned), (2) through GetRoundByName, and
// (3) through a real gated contract path, StakePool.getRandPools ("demeter"), differentially:
// its result at block round b must equal its result under an unrecorded fork when b < r and its
// result under a fork recorded at round 0 otherwise.
package main

import (
	"context"
	"errors"
	"fmt"
	"math"
	"sort"
	"strconv"
	"strings"

	"0chain.net/chaincore/block"
	cstate "0chain.net/chaincore/chain/state"
	"0chain.net/chaincore/transaction"
	"0chain.net/core/config"
	"0chain.net/core/encryption"
	"0chain.net/smartcontract/minersc"
	"0chain.net/smartcontract/stakepool"
	"github.com/0chain/common/core/statecache"
	"github.com/0chain/common/core/util"

	"verif/lib/ev"
)

type c43World struct {
	mpt util.MerklePatriciaTrieI
}

func newC43World() *c43World {
	db := util.NewLevelNodeDB(util.NewMemoryNodeDB(), util.NewMemoryNodeDB(), false)
	return &c43World{mpt: util.NewMerklePatriciaTrie(db, 1, nil, statecache.NewEmpty())}
}

// ctx builds a state context for a block of the given round on the given trie.
func c43Ctx(mpt util.MerklePatriciaTrieI, blockRound int64) *cstate.StateContext {
	b := block.NewBlock("", blockRound)
	b.Round = blockRound
	txn := &transaction.Transaction{}
	txn.ClientID = "owner"
	return cstate.NewStateContext(b, mpt, txn, nil, nil, nil, nil, nil, nil)
}

// child returns a fresh trie level on top of the saved state of w (what the next block sees).
func (w *c43World) child() util.MerklePatriciaTrieI {
	db := util.NewLevelNodeDB(util.NewMemoryNodeDB(), w.mpt.GetNodeDB(), false)
	return util.NewMerklePatriciaTrie(db, 2, w.mpt.GetRoot(), statecache.NewEmpty())
}

type c43Rec struct {
	Name  string
	Round int64
}

func c43() {
	initRepo()
	run := ev.Start("C43")
	names := []string{"electra", "demeter", "hermes"}
	recRounds := []int64{-1, 0, 1, 5, 100, math.MaxInt64 - 1, math.MaxInt64}
	if run.Thorough() {
		recRounds = append(recRounds, 2, 6, 99, 101, 1<<40)
	}
	run.Bounds["fork_names"] = names
	run.Bounds["recorded_rounds"] = recRounds
	run.Bounds["block_rounds"] = "0, 1, r-1, r, r+1 for every recorded round r, 2^63-2 (and 2^63-1 when the queried fork is recorded)"
	run.Bounds["recording"] = []string{"never", "once", "twice (last wins)", "only another name"}
	run.Bounds["record_via"] = []string{"InsertTrieNode(HardFork)", "minersc add_hardfork"}
	run.Bounds["read_via"] = []string{"recording context", "fresh context on a child trie level"}
	run.Rule = "complete product of the alphabets above; distinct = distinct (history, block round, observed branch / contract result)"

	// histories
	type hist struct {
		recs []c43Rec // applied in order
	}
	var hists []hist
	hists = append(hists, hist{})
	for _, n := range names[:2] {
		for _, r := range recRounds {
			hists = append(hists, hist{[]c43Rec{{n, r}}})
			// another name recorded as well (must not matter)
			other := names[(indexOf(names, n)+1)%len(names)]
			hists = append(hists, hist{[]c43Rec{{other, 3}, {n, r}}})
		}
	}
	for _, r1 := range recRounds {
		for _, r2 := range recRounds {
			if r1 != r2 {
				hists = append(hists, hist{[]c43Rec{{"demeter", r1}, {"demeter", r2}}})
			}
		}
	}
	for _, r := range recRounds {
		hists = append(hists, hist{[]c43Rec{{"hermes", r}}}) // only another name
	}

	// reference results of the gated contract path
	sp := stakepool.NewStakePool()
	for i := 0; i < 5; i++ {
		id := fmt.Sprintf("delegate-%d", i)
		sp.Pools[id] = &stakepool.DelegatePool{DelegateID: id, Balance: 10}
	}
	const nPick = 2
	seeds := []int64{1, 2, 3, 4, 5, 6, 7, 8}
	pick := func(ctx cstate.StateContextI) string {
		var parts []string
		for _, s := range seeds {
			var ids []string
			for _, p := range sp.VerifStructsGetRandPools(ctx, s, nPick) {
				ids = append(ids, strings.TrimPrefix(p.DelegateID, "delegate-"))
			}
			parts = append(parts, strings.Join(ids, ""))
		}
		return strings.Join(parts, " ")
	}
	var refPre, refPost string
	{
		w := newC43World()
		refPre = pick(c43Ctx(w.mpt, 50))
		w2 := newC43World()
		ctx := c43Ctx(w2.mpt, 50)
		f := cstate.NewHardFork("demeter", 0)
		if _, err := ctx.InsertTrieNode(f.GetKey(), f); err != nil {
			ev.Fatal("insert hard fork: %v", err)
		}
		refPost = pick(ctx)
		run.Extra["gated_path_pre_fork"] = refPre
		run.Extra["gated_path_post_fork"] = refPost
	}

	msc := &minersc.MinerSmartContract{}
	gn := &minersc.GlobalNode{OwnerId: "owner"}
	var incomplete c43IncompleteStats

	for _, h := range hists {
		for _, via := range []string{"insert", "contract"} {
			w := newC43World()
			rctx := c43Ctx(w.mpt, 7)
			// unrelated records, so that the trie has inner nodes on the way to the fork records
			for i := 0; i < c43Fillers; i++ {
				f := cstate.NewHardFork(fmt.Sprintf("filler-%d", i), 9)
				if _, err := rctx.InsertTrieNode(f.GetKey(), f); err != nil {
					ev.Fatal("insert filler: %v", err)
				}
			}
			for _, rec := range h.recs {
				switch via {
				case "insert":
					f := cstate.NewHardFork(rec.Name, rec.Round)
					if _, err := rctx.InsertTrieNode(f.GetKey(), f); err != nil {
						ev.Fatal("insert hard fork: %v", err)
					}
				case "contract":
					sm := config.NewStringMap()
					sm.Fields[rec.Name] = strconv.FormatInt(rec.Round, 10)
					if _, err := msc.VerifStructsAddHardFork(rctx.GetTransaction(), sm.Encode(), gn, rctx); err != nil {
						ev.Fatal("add_hardfork: %v", err)
					}
				}
			}
			// reference: name -> last recorded round
			recorded := map[string]int64{}
			for _, rec := range h.recs {
				recorded[rec.Name] = rec.Round
			}
			for _, readVia := range []string{"same", "child"} {
				for _, name := range names {
					r, isRec := recorded[name]
					brs := map[int64]bool{0: true, 1: true, math.MaxInt64 - 1: true}
					for _, rec := range h.recs {
						for d := int64(-1); d <= 1; d++ {
							if v := rec.Round + d; v >= 0 && (d <= 0 || rec.Round < math.MaxInt64) {
								brs[v] = true
							}
						}
					}
					if isRec {
						brs[math.MaxInt64] = true
					} else {
						// an unrecorded fork is looked up as round 2^63-1 by the code; a block of that very
						// round is outside every realistic history and is excluded (see final report)
						delete(brs, math.MaxInt64)
					}
					var rounds []int64
					for v := range brs {
						rounds = append(rounds, v)
					}
					sort.Slice(rounds, func(i, j int) bool { return rounds[i] < rounds[j] })
					for _, br := range rounds {
						var ctx *cstate.StateContext
						if readVia == "same" {
							ctx = c43Ctx(w.mpt, br)
						} else {
							ctx = c43Ctx(w.child(), br)
						}
						wantAfter := isRec && br >= r
						desc := fmt.Sprintf("history %v via %s, read via %s, fork %q, block round %d", h.recs, via, readVia, name, br)
						replay := map[string]any{"history": h.recs, "record_via": via, "read_via": readVia, "fork": name, "block_round": br}
						cls := "unrecorded"
						if isRec {
							switch {
							case br == r:
								cls = "at-fork-round"
							case br == r-1:
								cls = "one-before-fork-round"
							case br < r:
								cls = "before-fork-round"
							default:
								cls = "after-fork-round"
							}
							if len(h.recs) == 2 && h.recs[0].Name == h.recs[1].Name {
								cls = "recorded-twice:" + cls
							}
						}
						// (1) WithActivation
						for _, failing := range []bool{false, true} {
							nb, na := 0, 0
							eb, ea := errors.New("before failed"), errors.New("after failed")
							err := cstate.WithActivation(ctx, name, func() error {
								nb++
								if failing {
									return eb
								}
								return nil
							}, func() error {
								na++
								if failing {
									return ea
								}
								return nil
							})
							run.Add(0, 1, 1)
							run.Outcome(fmt.Sprintf("%v|%s|%s|%s|%d|b%d a%d e%v", h.recs, via, readVia, name, br, nb, na, err))
							switch {
							case nb+na != 1:
								run.Violation("C43:WithActivation:"+cls+":not-exactly-one-branch", desc+fmt.Sprintf(": before ran %d times, after ran %d times (err %v)", nb, na, err), replay)
							case wantAfter && na != 1:
								run.Violation("C43:WithActivation:"+cls+":pre-fork-rules-used", desc+": the pre-fork branch ran", replay)
							case !wantAfter && nb != 1:
								run.Violation("C43:WithActivation:"+cls+":post-fork-rules-used", desc+": the post-fork branch ran", replay)
							}
							var wantErr error
							if failing {
								wantErr = eb
								if wantAfter {
									wantErr = ea
								}
							}
							if nb+na == 1 && (na == 1) == wantAfter && err != wantErr {
								run.Violation("C43:WithActivation:"+cls+":branch-result-not-returned", desc+fmt.Sprintf(": returned %v, the branch returned %v", err, wantErr), replay)
							}
						}
						// (2) GetRoundByName
						gr, gerr := cstate.GetRoundByName(ctx, name)
						run.Add(0, 0, 1)
						if isRec && (gerr != nil || gr != r) {
							run.Violation("C43:GetRoundByName:recorded:wrong-round", desc+fmt.Sprintf(": GetRoundByName=%d,%v, recorded %d", gr, gerr, r), replay)
						}
						if !isRec && gerr == nil {
							run.Violation("C43:GetRoundByName:unrecorded:no-error", desc+fmt.Sprintf(": GetRoundByName=%d without error", gr), replay)
						}
						// (3) gated contract path
						if name == "demeter" {
							got := pick(ctx)
							run.Add(0, 0, 1)
							run.Outcome(fmt.Sprintf("gated|%v|%d|%s", h.recs, br, got))
							want := refPre
							if wantAfter {
								want = refPost
							}
							if got != want {
								run.Violation("C43:getRandPools:"+cls+":wrong-rules", desc+fmt.Sprintf(": delegate pools picked %q, reference %q", got, want), replay)
							}
						}
					}
				}
			}
			c43Incomplete(run, w, h.recs, via, recorded, names, &incomplete)
			run.Add(1, 0, 0)
			if len(h.recs) == 2 {
				run.Sample(map[string]any{"history": h.recs, "record_via": via})
			}
		}
	}
	run.Extra["incomplete_state.node_deletions"] = incomplete.deletions
	run.Extra["incomplete_state.lookups_through_a_missing_node"] = incomplete.unreadable
	run.Extra["incomplete_state.lookups_not_touching_the_missing_node"] = incomplete.readable
	run.Extra["incomplete_state.node_kinds_deleted"] = incomplete.kinds
	if incomplete.unreadable == 0 || incomplete.readable == 0 {
		ev.Fatal("incomplete-state dimension is vacuous: %+v", incomplete)
	}
	run.Bounds["incomplete_state"] = fmt.Sprintf("for every history and way of recording: every node of the trie (root, inner, leaf; %d unrelated filler records give the trie inner nodes) deleted from the node DB one at a time, then every fork name x {trie reopened on the same node DB, child trie level} (cold node cache) x block rounds 0, r-1, r, r+1", c43Fillers)
	// observation (recorded, not judged): the sentinel collision at block round 2^63-1
	{
		w := newC43World()
		ran := ""
		_ = cstate.WithActivation(c43Ctx(w.mpt, math.MaxInt64), "never-recorded", func() error { ran = "pre-fork branch"; return nil },
			func() error { ran = "post-fork branch"; return nil })
		run.Extra["observation_unrecorded_fork_at_block_round_2^63-1"] = ran
	}
	if refPre == refPost && run.Violations() == 0 {
		// only reachable when the gated path is not gated at all: the differential part would be vacuous
		ev.Fatal("gated path getRandPools shows the same behaviour before and after the fork (%s): vacuous", refPre)
	}
	run.Assumptions = []string{
		"a fork recorded twice switches at the round recorded last",
		"block round 2^63-1 is asked only for recorded forks (the code represents 'never recorded' by the sentinel round 2^63-1)",
		"the gated contract path is compared differentially with its own behaviour under 'never recorded' / 'recorded at round 0'",
	}
	run.Finish()
}

func indexOf(xs []string, x string) int {
	for i, v := range xs {
		if v == x {
			return i
		}
	}
	return -1
}

const c43Fillers = 20

type c43IncompleteStats struct {
	deletions, unreadable, readable int
	kinds                           map[string]int
}

// c43Incomplete is the "incomplete local state" dimension: each node of the trie is removed from
// the node DB in turn (partial state during sync, pruned node). A lookup of hardfork:<name> walks
// through exactly the nodes whose position is a prefix of the record's path; when one of them is
// missing the state is unreadable and NEITHER branch may run: the caller must get an error that
// is util.ErrNodeNotFound (it triggers a state sync on it). Lookups that do not touch the missing
// node behave as on complete state.
func c43Incomplete(run *ev.Run, w *c43World, recs []c43Rec, via string, recorded map[string]int64, names []string, st *c43IncompleteStats) {
	if st.kinds == nil {
		st.kinds = map[string]int{}
	}
	type tn struct {
		prefix string
		key    util.Key
		kind   string
	}
	var nodes []tn
	err := w.mpt.Iterate(context.Background(), func(ctx context.Context, path util.Path, key util.Key, node util.Node) error {
		kind := fmt.Sprintf("%T", node)
		nodes = append(nodes, tn{string(path), append(util.Key{}, key...), strings.TrimPrefix(kind, "*util.")})
		return nil
	}, util.NodeTypeLeafNode|util.NodeTypeFullNode|util.NodeTypeExtensionNode)
	if err != nil {
		ev.Fatal("iterate: %v", err)
	}
	db := w.mpt.GetNodeDB()
	for _, nd := range nodes {
		saved, err := db.GetNode(nd.key)
		if err != nil {
			ev.Fatal("node %x listed by Iterate is not in the node DB: %v", nd.key, err)
		}
		if err := db.DeleteNode(nd.key); err != nil {
			ev.Fatal("delete node: %v", err)
		}
		st.deletions++
		st.kinds[nd.kind]++
		for _, name := range names {
			target := string(util.Path(encryption.Hash(cstate.NewHardFork(name, 0).GetKey())))
			unreadable := strings.HasPrefix(target, nd.prefix)
			r, isRec := recorded[name]
			brs := map[int64]bool{0: true}
			if isRec {
				for d := int64(-1); d <= 1; d++ {
					if v := r + d; v >= 0 && (d <= 0 || r < math.MaxInt64) {
						brs[v] = true
					}
				}
			} else {
				brs[5] = true
			}
			for br := range brs {
				for _, readVia := range []string{"reopened", "child"} {
					var ctx *cstate.StateContext
					if readVia == "reopened" {
						// a fresh trie object on the same node DB and root (the recording trie object keeps the
						// nodes it wrote in its in-memory node cache, which would hide the missing node)
						ctx = c43Ctx(util.NewMerklePatriciaTrie(db, 1, w.mpt.GetRoot(), statecache.NewEmpty()), br)
					} else {
						ctx = c43Ctx(w.child(), br)
					}
					desc := fmt.Sprintf("history %v via %s, %s node at trie position %q missing from the node DB, read via %s, fork %q, block round %d", recs, via, nd.kind, nd.prefix, readVia, name, br)
					replay := map[string]any{"history": recs, "record_via": via, "missing_node_position": nd.prefix, "missing_node_kind": nd.kind, "read_via": readVia, "fork": name, "block_round": br}
					nb, na := 0, 0
					werr := cstate.WithActivation(ctx, name, func() error { nb++; return nil }, func() error { na++; return nil })
					gr, gerr := cstate.GetRoundByName(ctx, name)
					run.Add(0, 1, 2)
					run.Outcome(fmt.Sprintf("incomplete|%v|%s|%s|%s|%s|%d|b%d a%d %v", recs, via, nd.prefix, readVia, name, br, nb, na, werr))
					if unreadable {
						st.unreadable++
						switch {
						case nb > 0:
							run.Violation("C43:WithActivation:unreadable-state:pre-fork-rules-used", desc+fmt.Sprintf(": the pre-fork branch ran (returned %v)", werr), replay)
						case na > 0:
							run.Violation("C43:WithActivation:unreadable-state:post-fork-rules-used", desc+fmt.Sprintf(": the post-fork branch ran (returned %v)", werr), replay)
						case !errors.Is(werr, util.ErrNodeNotFound):
							run.Violation("C43:WithActivation:unreadable-state:error-is-not-node-not-found", desc+fmt.Sprintf(": returned %v", werr), replay)
						}
						if gerr == nil || !errors.Is(gerr, util.ErrNodeNotFound) {
							run.Violation("C43:GetRoundByName:unreadable-state:error-is-not-node-not-found", desc+fmt.Sprintf(": GetRoundByName=%d, %v", gr, gerr), replay)
						}
						continue
					}
					st.readable++
					wantAfter := isRec && br >= r
					if nb+na != 1 || (na == 1) != wantAfter || werr != nil {
						run.Violation("C43:WithActivation:unrelated-node-missing:wrong-branch", desc+fmt.Sprintf(": before ran %d, after ran %d, returned %v; the record's path does not touch the missing node", nb, na, werr), replay)
					}
					if isRec && (gerr != nil || gr != r) || !isRec && gerr == nil {
						run.Violation("C43:GetRoundByName:unrelated-node-missing:wrong-answer", desc+fmt.Sprintf(": GetRoundByName=%d, %v", gr, gerr), replay)
					}
				}
			}
		}
		if err := db.PutNode(nd.key, saved); err != nil {
			ev.Fatal("restore node: %v", err)
		}
	}
}
