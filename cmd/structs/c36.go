// C36: finalization picks the common ancestor and extends a single chain.
//
// Part "compute": every block tree over rounds 1..R with 0..K blocks per round (K = 2, 3, thorough 4;
// every assignment rank -> parent in the previous round; one root in round 0), every subset of the blocks
// marked notarized in their round objects, every query round r and every latest-finalized round
// 0..r, on a real chain.Chain with real round.Round / block.Block objects; previous-block links
// either all set or all unset (then resolved by the real GetPreviousBlock through the chain's block
// cache); additionally with the round objects of rounds without notarized blocks missing.
// Reference: start = the latest round in (lfb round, r] that has notarized blocks; expected = the
// common strict ancestor of all notarized blocks of that round with the greatest round.
//
// Part "finalize" (c36_finalize.go): the real finalizeRound + FinalizedBlockWorker +
// finalizeBlockProcess + finalizeBlock on a real chain with genesis, driven round by round.
package main

import (
	"context"
	"fmt"
	"runtime"
	"sort"
	"strings"
	"sync"
	"time"

	"0chain.net/chaincore/block"
	"0chain.net/chaincore/chain"
	"0chain.net/chaincore/round"

	"verif/lib/ev"
)

// c36Tree is a block tree: block 0 is the root (round 0); Parent[i] < i.
type c36Tree struct {
	Parent []int
	Round  []int
	Rank   []int
}

func (t c36Tree) String() string {
	var s []string
	for i := 1; i < len(t.Parent); i++ {
		s = append(s, fmt.Sprintf("b%d(r%d)<-b%d", i, t.Round[i], t.Parent[i]))
	}
	return "[" + strings.Join(s, " ") + "]"
}

// c36Trees enumerates every tree over rounds 1..R with at most K blocks per round: a round holds
// j = 0..K blocks with ranks 0..j-1 and EVERY function rank -> parent among the blocks of the
// previous round (so every order of ranks among siblings and cousins occurs: "rank0->p, rank1->p,
// rank2->q" and "rank0->p, rank1->q, rank2->p" are different trees). Once a round is empty the tree ends.
func c36Trees(R, K int) []c36Tree {
	var out []c36Tree
	var rec func(t c36Tree, rnd int, prevRound []int)
	rec = func(t c36Tree, rnd int, prevRound []int) {
		out = append(out, c36Tree{append([]int{}, t.Parent...), append([]int{}, t.Round...), append([]int{}, t.Rank...)})
		if rnd > R || len(prevRound) == 0 {
			return
		}
		for j := 1; j <= K; j++ {
			// every assignment of parents to the j blocks of this round
			total := 1
			for i := 0; i < j; i++ {
				total *= len(prevRound)
			}
			for a := 0; a < total; a++ {
				n := len(t.Parent)
				t2 := c36Tree{append([]int{}, t.Parent...), append([]int{}, t.Round...), append([]int{}, t.Rank...)}
				x := a
				var cur []int
				for i := 0; i < j; i++ {
					t2.Parent = append(t2.Parent, prevRound[x%len(prevRound)])
					x /= len(prevRound)
					t2.Round = append(t2.Round, rnd)
					t2.Rank = append(t2.Rank, i)
					cur = append(cur, n+i)
				}
				rec(t2, rnd+1, cur)
			}
		}
	}
	rec(c36Tree{[]int{-1}, []int{0}, []int{0}}, 1, []int{0})
	return out
}

// c36Family is one bounded family of trees of the compute part.
type c36Family struct {
	Name string
	R, K int
	// LastRoundMasks: instead of every subset of all blocks, every subset of the blocks of the last
	// populated round (all other blocks listed) and "all but one block listed".
	LastRoundMasks bool
}

func (f c36Family) masks(t c36Tree) []int {
	nb := len(t.Parent) - 1
	if !f.LastRoundMasks {
		out := make([]int, 1<<nb)
		for i := range out {
			out[i] = i
		}
		return out
	}
	full := 1<<nb - 1
	last := 0
	for i := 1; i <= nb; i++ {
		if t.Round[i] > last {
			last = t.Round[i]
		}
	}
	var top []int
	for i := 1; i <= nb; i++ {
		if t.Round[i] == last {
			top = append(top, i)
		}
	}
	seen := map[int]bool{}
	var out []int
	add := func(m int) {
		if !seen[m] {
			seen[m] = true
			out = append(out, m)
		}
	}
	for sub := 0; sub < 1<<len(top); sub++ {
		m := full
		for k, i := range top {
			if sub&(1<<k) == 0 {
				m &^= 1 << (i - 1)
			}
		}
		add(m)
	}
	for i := 1; i <= nb; i++ {
		add(full &^ (1 << (i - 1)))
	}
	return out
}

type c36World struct {
	c      *chain.Chain
	ctx    context.Context
	blocks []*block.Block
	rounds []*round.Round
}

var c36ProviderMu sync.Mutex

func c36Hash(i int) string { return fmt.Sprintf("%064x", 0xb10c000+i) }

func newC36World(t c36Tree) *c36World {
	c36ProviderMu.Lock()
	c := chain.Provider().(*chain.Chain) // touches process-global configuration
	c36ProviderMu.Unlock()
	w := &c36World{c: c, ctx: context.Background()}
	for i := range t.Parent {
		b := block.NewBlock("", int64(t.Round[i]))
		b.Hash = c36Hash(i)
		b.RoundRank = t.Rank[i]
		b.MinerID = fmt.Sprintf("miner-%d", t.Rank[i])
		b.SetStateStatus(block.StateSuccessful)
		if i > 0 {
			b.PrevHash = c36Hash(t.Parent[i])
		}
		w.blocks = append(w.blocks, b)
		w.c.SetBlock(b)
	}
	w.c.LatestFinalizedBlock = w.blocks[0]
	return w
}

// link sets or clears every previous-block pointer.
func (w *c36World) link(t c36Tree, linked bool) {
	for i := 1; i < len(w.blocks); i++ {
		if linked {
			w.blocks[i].PrevBlock = w.blocks[t.Parent[i]]
		} else {
			w.blocks[i].PrevBlock = nil
		}
	}
}

// setRounds installs fresh round objects 1..R whose notarized lists follow mask; when sparse, a
// round without notarized blocks gets no round object (except round `keep`). order selects the
// order in which the blocks are added to their round (the round keeps them sorted by rank).
func (w *c36World) setRounds(t c36Tree, R int, mask int, sparse bool, keep int, order int) {
	for _, r := range w.rounds {
		if r != nil {
			w.c.VerifStructsDeleteRound(w.ctx, r)
		}
	}
	w.rounds = make([]*round.Round, R+1)
	for k := 1; k <= R; k++ {
		var nb []int
		for i := 1; i < len(t.Parent); i++ {
			if t.Round[i] == k && mask&(1<<(i-1)) != 0 {
				nb = append(nb, i)
			}
		}
		if sparse && len(nb) == 0 && k != keep {
			continue
		}
		r := round.NewRound(int64(k))
		// order in which the round learns of its notarized blocks: by rank, reversed, rotated
		switch order {
		case 1:
			for a, b := 0, len(nb)-1; a < b; a, b = a+1, b-1 {
				nb[a], nb[b] = nb[b], nb[a]
			}
		case 2:
			if len(nb) > 1 {
				nb = append(nb[1:], nb[0])
			}
		}
		for _, i := range nb {
			r.AddNotarizedBlock(w.blocks[i])
		}
		w.rounds[k] = r
		w.c.AddRound(r)
	}
}

// c36Reference returns the expected block index (-1 = none) and the start round (0 = none).
func c36Reference(t c36Tree, mask int, r, lfbr int) (want int, start int) {
	for k := r; k > lfbr; k-- {
		var nb []int
		for i := 1; i < len(t.Parent); i++ {
			if t.Round[i] == k && mask&(1<<(i-1)) != 0 {
				nb = append(nb, i)
			}
		}
		if len(nb) == 0 {
			continue
		}
		// common strict ancestors
		count := map[int]int{}
		for _, b := range nb {
			for a := t.Parent[b]; a >= 0; a = t.Parent[a] {
				count[a]++
			}
		}
		best := -1
		for a, c := range count {
			if c == len(nb) && (best < 0 || t.Round[a] > t.Round[best]) {
				best = a
			}
		}
		return best, k
	}
	return -1, 0
}

func c36IsAncestor(t c36Tree, a, b int) bool { // a strict ancestor of b
	for x := t.Parent[b]; x >= 0; x = t.Parent[x] {
		if x == a {
			return true
		}
	}
	return false
}

func c36() {
	initRepo()
	run := ev.Start("C36")
	fams := []c36Family{{"k2", 4, 2, false}, {"k3", 3, 3, false}}
	if run.Thorough() {
		fams = []c36Family{{"k2", 5, 2, false}, {"k3", 3, 3, false}, {"k4", 2, 4, false}, {"k3deep", 4, 3, true}}
	}
	type item struct {
		fam c36Family
		fi  int
		ti  int
		t   c36Tree
	}
	var items []item
	var famDesc []string
	for fi, f := range fams {
		ts := c36Trees(f.R, f.K)
		for ti, t := range ts {
			items = append(items, item{f, fi, ti, t})
		}
		m := "every subset of the non-root blocks listed as notarized"
		if f.LastRoundMasks {
			m = "every subset of the last populated round listed (all others listed), and all-but-one"
		}
		famDesc = append(famDesc, fmt.Sprintf("%s: %d rounds, 0..%d blocks per round, every rank->parent assignment, %d trees; %s", f.Name, f.R, f.K, len(ts), m))
	}
	run.Bounds["compute.families"] = famDesc
	run.Bounds["compute.trees"] = len(items)
	run.Bounds["compute.query"] = "every round r in 1..R x every latest-finalized round 0..r"
	run.Bounds["compute.modes"] = []string{"previous-block pointers set, blocks added to their round in rank order", "pointers unset (blocks in the chain's cache), added in reverse rank order", "pointers set, no round object for rounds without notarized blocks, added in rotated order (2-blocks-per-round family only)"}

	tCompute := time.Now()
	workers := runtime.NumCPU()
	if workers > 16 {
		workers = 16
	}
	type viol struct {
		order     int
		key, what string
		replay    any
	}
	var mu sync.Mutex
	var viols []viol
	outcomes := map[string]struct{}{}
	var wg sync.WaitGroup
	for wk := 0; wk < workers; wk++ {
		wg.Add(1)
		go func(wk int) {
			defer wg.Done()
			local := map[string]struct{}{}
			var states, calls int64
			for ii := wk; ii < len(items); ii += workers {
				it := items[ii]
				t, R, ti := it.t, it.fam.R, ii
				w := newC36World(t)
				nb := len(t.Parent) - 1
				for _, mask := range it.fam.masks(t) {
					states++
					for mode := 0; mode < 3; mode++ {
						sparse := mode == 2
						if sparse && it.fam.K > 2 {
							continue // the missing-round-object mode is explored on the 2-blocks-per-round family
						}
						for r := 1; r <= R; r++ {
							w.link(t, mode != 1)
							w.setRounds(t, R, mask, sparse, r, mode)
							for lfbr := 0; lfbr <= r; lfbr++ {
								if mode == 1 {
									w.link(t, false)
								}
								rd := w.c.GetRound(int64(r))
								got := w.c.ComputeFinalizedBlock(w.ctx, int64(lfbr), rd)
								calls++
								gi := -1
								if got != nil {
									gi = -2
									for i, b := range w.blocks {
										if b == got {
											gi = i
										}
									}
								}
								want, start := c36Reference(t, mask, r, lfbr)
								local[fmt.Sprintf("%d|%d|%d|%d", ti, r, start, gi)] = struct{}{}
								if gi == want {
									continue
								}
								if sparse && gi == -1 {
									// a missing round object stops the downward scan: nothing is chosen (allowed)
									continue
								}
								key := "wrong-block"
								switch {
								case want == -1:
									key = "block-chosen-without-notarized-blocks-in-range"
								case gi == -1:
									key = "nothing-chosen-although-all-blocks-are-present"
								case gi == -2:
									key = "unknown-block-returned"
								case t.Round[gi] >= start:
									key = "chosen-block-not-in-an-earlier-round"
								case !c36AllDescend(t, mask, start, gi):
									key = "chosen-block-is-not-an-ancestor-of-every-notarized-block"
								default:
									key = "chosen-block-is-not-the-most-recent-common-ancestor"
								}
								if mode == 1 {
									key += ":unlinked"
								}
								desc := fmt.Sprintf("tree %v notarized %s r=%d lfb round=%d mode=%d: chose %s, reference %s (latest round with notarized blocks: %d)",
									t, c36MaskNames(mask, nb), r, lfbr, mode, c36Name(gi), c36Name(want), start)
								mu.Lock()
								viols = append(viols, viol{ti, "C36:ComputeFinalizedBlock:" + key, desc,
									map[string]any{"parents": t.Parent, "rounds": t.Round, "notarized_mask": mask, "r": r, "lfb_round": lfbr, "mode": mode}})
								mu.Unlock()
							}
						}
					}
				}
			}
			mu.Lock()
			for k := range local {
				outcomes[k] = struct{}{}
			}
			mu.Unlock()
			run.Add(states, calls, calls)
		}(wk)
	}
	wg.Wait()
	run.Extra["compute_wall_s"] = time.Since(tCompute).Seconds()
	sort.SliceStable(viols, func(i, j int) bool { return viols[i].order < viols[j].order })
	for _, v := range viols {
		run.Violation(v.key, v.what, v.replay)
	}
	for k := range outcomes {
		run.Outcome("compute|" + k)
	}
	for _, ii := range []int{len(items) - 1, len(items) / 2, len(items) / 3} {
		run.Sample(map[string]any{"part": "compute", "family": items[ii].fam.Name, "tree": items[ii].t.String(), "then": "every notarized subset, r, lfb round, 3 modes"})
	}

	c36Finalize(run)

	run.Rule = "compute: every block tree of each family (<=K blocks per round, every rank->parent assignment, R rounds) x every notarized subset x every (r, lfb round) x 3 link/round-object modes, distinct = distinct (tree, r, start round, chosen block); finalize: see bounds"
	run.Assumptions = []string{
		"'the latest round that has any' is searched from the given round downwards but not at or below the latest finalized round (the function's contract)",
		"every block of a round's notarized list belongs to that round and its parent to the previous round (as block validation enforces)",
		"when a round object is missing the function may decline to choose (returns nil)",
	}
	run.Finish()
}

func c36AllDescend(t c36Tree, mask, start, a int) bool {
	for i := 1; i < len(t.Parent); i++ {
		if t.Round[i] == start && mask&(1<<(i-1)) != 0 && !c36IsAncestor(t, a, i) {
			return false
		}
	}
	return true
}

func c36Name(i int) string {
	switch i {
	case -1:
		return "nil"
	case -2:
		return "?"
	}
	return fmt.Sprintf("b%d", i)
}

func c36MaskNames(mask, nb int) string {
	var s []string
	for i := 1; i <= nb; i++ {
		if mask&(1<<(i-1)) != 0 {
			s = append(s, fmt.Sprintf("b%d", i))
		}
	}
	return "{" + strings.Join(s, ",") + "}"
}
