// Binary structs serves the "structs" group of properties (engine E3: bounded exhaustive
// enumeration of inputs / operation sequences of the REAL repository code against a boring
// reference model written from the property statement):
//
//	C35 generator ranking and per-round notarized blocks
//	C36 finalization picks the common ancestor and extends a single chain
//	C39 view-change node selection
//	C40 magic-block lookup
//	C42 replicating sharders
//	C43 hard-fork switch
//
// Invocation: structs <PropId> <quick|thorough>.
package main

import (
	"encoding/hex"
	"fmt"
	"os"
	"sort"
	"sync"

	"0chain.net/chaincore/block"
	"0chain.net/chaincore/client"
	"0chain.net/chaincore/node"
	"0chain.net/chaincore/round"
	"0chain.net/core/config"
	"0chain.net/core/encryption"
	"github.com/0chain/common/core/logging"
	"go.uber.org/zap"

	"verif/lib/ev"
)

var initOnce sync.Once

// initRepo prepares the process-global state the repository code expects: no-op loggers,
// viper defaults, entity metadata for round/block (no store is ever used), ed25519 as the
// client scheme (so that any 32-byte string is an acceptable public key for node.Pool.AddNode).
func initRepo() {
	initOnce.Do(func() {
		logging.Logger = zap.NewNop()
		logging.N2n = zap.NewNop()
		logging.MemUsage = zap.NewNop()
		config.SetupDefaultConfig()
		config.Configuration().ChainID = "verif-structs"
		config.SetServerChainID("verif-structs")
		client.SetClientSignatureScheme(encryption.SignatureSchemeEd25519)
		round.SetupEntity(nil)
		block.SetupEntity(nil)
	})
}

// nodeKey is the deterministic "public key" of harness node k (32 bytes, hex).
func nodeKey(k int) string {
	return hex.EncodeToString(encryption.RawHash(fmt.Sprintf("verif-structs-node-%d", k)))
}

// nodeID is the id AddNode will derive for node k (hash of the public key bytes).
func nodeID(k int) string {
	b, _ := hex.DecodeString(nodeKey(k))
	return encryption.Hash(b)
}

// mkNode builds a fresh node object for harness node k. withIDBytes selects whether the scoring
// bytes are set (node.NewNode / SetID route) or left empty (the route the view-change contract
// uses when it builds a magic block: node.Provider() + field assignments).
func mkNode(typ node.NodeType, k int, withIDBytes bool) *node.Node {
	n := node.Provider()
	n.Type = typ
	n.Host = fmt.Sprintf("10.0.0.%d", k+1)
	n.Port = 7000 + k
	n.Status = node.NodeStatusActive
	n.PublicKey = nodeKey(k)
	if withIDBytes {
		if err := n.SetID(nodeID(k)); err != nil {
			ev.Fatal("SetID: %v", err)
		}
	} else {
		n.ID = nodeID(k)
	}
	return n
}

// permutations calls f with every permutation of xs (Heap's algorithm, deterministic order).
func permutations(xs []int, f func([]int)) {
	a := append([]int{}, xs...)
	var rec func(k int)
	rec = func(k int) {
		if k == 1 {
			f(append([]int{}, a...))
			return
		}
		for i := 0; i < k; i++ {
			rec(k - 1)
			if k%2 == 0 {
				a[i], a[k-1] = a[k-1], a[i]
			} else {
				a[0], a[k-1] = a[k-1], a[0]
			}
		}
	}
	if len(a) == 0 {
		f(nil)
		return
	}
	rec(len(a))
}

// subsets calls f with every subset of {0..n-1} of size k (lexicographic).
func subsets(n, k int, f func([]int)) {
	cur := make([]int, 0, k)
	var rec func(start int)
	rec = func(start int) {
		if len(cur) == k {
			f(append([]int{}, cur...))
			return
		}
		for i := start; i < n; i++ {
			cur = append(cur, i)
			rec(i + 1)
			cur = cur[:len(cur)-1]
		}
	}
	rec(0)
}

func sortedCopy(xs []string) []string {
	out := append([]string{}, xs...)
	sort.Strings(out)
	return out
}

func main() {
	if len(os.Args) < 2 {
		fmt.Fprintln(os.Stderr, "usage: structs <C35|C36|C39|C40|C42|C43> <quick|thorough>")
		os.Exit(2)
	}
	switch os.Args[1] {
	case "C35":
		c35()
	case "C36":
		c36()
	case "C39":
		c39()
	case "C40":
		c40()
	case "C42":
		c42()
	case "C43":
		c43()
	case "c36-finalize-worker":
		c36FinalizeWorker()
	default:
		ev.Fatal("unknown property %q", os.Args[1])
	}
}
