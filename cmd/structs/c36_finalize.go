package main

import "verif/lib/ev"

func c36Finalize(run *ev.Run) {}

func c36FinalizeWorker() {}
