// C36, part "finalize": the real Chain.finalizeRound, the real FinalizedBlockWorker,
// finalizeBlockProcess and finalizeBlock on a real chain with a real genesis (lib/world), driven
// round by round over every small block tree. Runs in worker subprocesses (one real chain per
// process; a panic or hang must only take down a worker).
//
// Scenario = block tree (<= 2 blocks per round, R rounds, every block a real empty block on top of
// its parent's real state) x which blocks their round object lists as notarized (all; all but one)
// x schedule of finalizeRound calls (rounds 1..R+3 ascending: each once; for the full lists also
// each twice / one skipped) x configured "LFB ticket ahead" (5 as deployed, 2 to reach the back-walk cap).
//
// Oracle (from the statement): every block handed to BlockStateHandler.UpdateFinalizedBlock (i.e.
// every newly finalized block) must descend from the latest finalized block in force at that
// moment, and must be the reference choice or one of its ancestors (the reference choice being
// the most recent common ancestor of the notarized blocks of the latest round that has any above
// the finalized round). The documented recovery branch (LFB moved back to a common ancestor
// without finalizing anything) is recorded, must target an ancestor of the old LFB, and is not
// counted as a newly finalized block.
package main

import (
	"bufio"
	"context"
	"encoding/json"
	"fmt"
	"os"
	"os/exec"
	"sort"
	"strconv"
	"strings"
	"sync"
	"time"

	"0chain.net/chaincore/block"
	"0chain.net/chaincore/chain"
	"0chain.net/chaincore/round"
	"0chain.net/core/common"
	"0chain.net/core/datastore"

	"verif/lib/ev"
	"verif/lib/world"
)

type c36FinResult struct {
	Scenarios  int64             `json:"scenarios"`
	Calls      int64             `json:"calls"`
	Finalized  int64             `json:"finalized"`
	Rollbacks  int64             `json:"rollbacks"`
	Outcomes   []string          `json:"outcomes"`
	Violations []c36FinViolation `json:"violations"`
	Samples    []map[string]any  `json:"samples"`
	Info       map[string]any    `json:"info"`
	seen       map[string]bool
}

type c36FinViolation struct {
	Order  int            `json:"order"`
	Key    string         `json:"key"`
	What   string         `json:"what"`
	Replay map[string]any `json:"replay"`
}

// c36Finalize is the parent side: spawn the workers, merge their reports.
func c36Finalize(run *ev.Run) {
	bin := os.Getenv("VERIF_BIN")
	if bin == "" {
		var err error
		if bin, err = os.Executable(); err != nil {
			ev.Fatal("cannot find own binary: %v", err)
		}
	}
	R := run.Pick(5, 6)
	shards := run.Pick(6, 7)
	aheads := []int{5, 2}
	run.Bounds["finalize.rounds"] = R
	run.Bounds["finalize.trees"] = len(c36Trees(R, 2))
	run.Bounds["finalize.round_lists"] = "all blocks listed as notarized; each single block missing from its round's list"
	run.Bounds["finalize.schedules"] = fmt.Sprintf("finalizeRound(1..%d) ascending: each once; for the full lists also each twice and each single round skipped (quick tier: only under ahead=5)", R+3)
	run.Bounds["finalize.lfb_ticket_ahead"] = aheads
	type job struct{ ahead, shard, R, K int }
	var jobs []job
	for _, a := range aheads {
		for s := 0; s < shards; s++ {
			jobs = append(jobs, job{a, s, R, 2})
		}
	}
	// second family: up to 3 blocks per round (3 generators configured), 3 rounds
	for s := 0; s < shards; s++ {
		jobs = append(jobs, job{5, s, 3, 3})
	}
	run.Bounds["finalize.family_k3"] = fmt.Sprintf("3 rounds, 0..3 blocks per round, every rank->parent assignment, %d trees; lists: all / all but one; finalizeRound(1..6) each once; ahead=5; 3 generators", len(c36Trees(3, 3)))
	results := make([]*c36FinResult, len(jobs))
	errs := make([]error, len(jobs))
	capped := make([]string, len(jobs))
	var wg sync.WaitGroup
	for i, j := range jobs {
		wg.Add(1)
		go func(i int, j job) {
			defer wg.Done()
			ctx, cancel := context.WithTimeout(context.Background(), time.Duration(run.Pick(300, 2400))*time.Second)
			defer cancel()
			cmd := exec.CommandContext(ctx, bin, "c36-finalize-worker", strconv.Itoa(j.R), strconv.Itoa(j.ahead), strconv.Itoa(j.shard), strconv.Itoa(shards), strconv.Itoa(j.K))
			cmd.Stderr = os.Stderr
			cmd.Env = append(os.Environ(), "VERIF_TIER="+run.Tier)
			out, err := cmd.Output()
			timedOut := ctx.Err() != nil
			if err != nil && !timedOut {
				errs[i] = fmt.Errorf("worker ahead=%d k=%d shard=%d: %v", j.ahead, j.K, j.shard, err)
				return
			}
			// violations are streamed as they are found (VIOL lines); the report is the RESULT line
			r := &c36FinResult{}
			complete := false
			sc := bufio.NewScanner(strings.NewReader(string(out)))
			sc.Buffer(make([]byte, 1<<20), 1<<30)
			for sc.Scan() {
				l := sc.Text()
				switch {
				case strings.HasPrefix(l, "VIOL "):
					v := c36FinViolation{}
					if json.Unmarshal([]byte(l[5:]), &v) == nil {
						r.Violations = append(r.Violations, v)
					}
				case strings.HasPrefix(l, "RESULT "):
					vs := r.Violations
					if e := json.Unmarshal([]byte(l[7:]), r); e != nil {
						errs[i] = e
						return
					}
					r.Violations = vs
					complete = true
				}
			}
			if !complete {
				if !timedOut {
					errs[i] = fmt.Errorf("worker ahead=%d shard=%d printed no result", j.ahead, j.shard)
					return
				}
				capped[i] = fmt.Sprintf("finalize worker ahead=%d shard=%d/%d did not finish within its time budget", j.ahead, j.shard, shards)
			}
			results[i] = r
		}(i, j)
	}
	wg.Wait()
	for _, e := range errs {
		if e != nil {
			ev.Fatal("C36 finalize: %v", e)
		}
	}
	for _, c := range capped {
		if c != "" {
			run.Capped(c)
		}
	}
	var viols []c36FinViolation
	var finalized, rollbacks, scenarios int64
	for i, r := range results {
		run.Add(r.Scenarios, r.Calls, r.Calls)
		scenarios += r.Scenarios
		finalized += r.Finalized
		rollbacks += r.Rollbacks
		for _, o := range r.Outcomes {
			run.Outcome(fmt.Sprintf("finalize|a%d|k%d|%s", jobs[i].ahead, jobs[i].K, o))
		}
		viols = append(viols, r.Violations...)
		if jobs[i].shard == 0 {
			for _, s := range r.Samples {
				run.Sample(s)
			}
			for k, v := range r.Info {
				run.Extra[fmt.Sprintf("finalize.a%d.k%d.%s", jobs[i].ahead, jobs[i].K, k)] = v
			}
		}
	}
	sort.SliceStable(viols, func(i, j int) bool { return viols[i].Order < viols[j].Order })
	for _, v := range viols {
		run.Violation(v.Key, v.What, v.Replay)
	}
	run.Extra["finalize.scenarios"] = scenarios
	run.Extra["finalize.blocks_finalized"] = finalized
	run.Extra["finalize.rollbacks_observed"] = rollbacks
	if finalized == 0 && run.Exhaustive {
		ev.Fatal("C36 finalize: no block was ever finalized (vacuous)")
	}
}

// ---------------------------------------------------------------------------------------------
// worker

type c36BSH struct {
	mu  sync.Mutex
	seq []*block.Block
	lfb []*block.Block // LFB in force when the block was handed over
	c   *chain.Chain
}

func (h *c36BSH) SaveMagicBlock() chain.MagicBlockSaveFunc { return nil }
func (h *c36BSH) UpdatePendingBlock(ctx context.Context, b *block.Block, txns []datastore.Entity) {
}
func (h *c36BSH) UpdateFinalizedBlock(ctx context.Context, b *block.Block) error {
	h.mu.Lock()
	h.seq = append(h.seq, b)
	h.lfb = append(h.lfb, h.c.GetLatestFinalizedBlock())
	h.mu.Unlock()
	return nil
}
func (h *c36BSH) take() (seq, lfb []*block.Block) {
	h.mu.Lock()
	seq, lfb = h.seq, h.lfb
	h.seq, h.lfb = nil, nil
	h.mu.Unlock()
	return
}

type c36VC struct{}

func (c36VC) ViewChange(ctx context.Context, lfb *block.Block) error { return nil }

func c36FinalizeWorker() {
	if len(os.Args) < 6 {
		ev.Fatal("usage: structs c36-finalize-worker R ahead shard shards")
	}
	R, _ := strconv.Atoi(os.Args[2])
	ahead, _ := strconv.Atoi(os.Args[3])
	shard, _ := strconv.Atoi(os.Args[4])
	shards, _ := strconv.Atoi(os.Args[5])
	thorough := os.Getenv("VERIF_TIER") == "thorough"
	K := 2
	if len(os.Args) > 6 {
		K, _ = strconv.Atoi(os.Args[6])
	}

	w := world.New(world.Options{Viper: map[string]any{
		"server_chain.lfb_ticket.ahead":           ahead,
		"server_chain.block.finalization.timeout": "30m",
		"server_chain.block.min_generators":       K,
	}})
	c := w.Chain
	c.SetViewChanger(c36VC{})
	bsh := &c36BSH{c: c}
	go c.FinalizedBlockWorker(w.Ctx, bsh)
	res := &c36FinResult{Info: map[string]any{
		"block_finalization_timeout": c.ChainConfig.BlockFinalizationTimeout().String(),
		"generators":                 c.GetGeneratorsNum(),
	}}
	outcomes := map[string]struct{}{}

	trees := c36Trees(R, K)
	maxCall := R + 3
	for ti := shard; ti < len(trees); ti += shards {
		t := trees[ti]
		nb := len(t.Parent) - 1
		if nb == 0 {
			continue
		}
		full := 1<<nb - 1
		masks := []int{full}
		for i := 0; i < nb; i++ {
			masks = append(masks, full&^(1<<i))
		}
		for mi, mask := range masks {
			// schedules
			var scheds [][]int
			once := make([]int, 0, maxCall)
			twice := make([]int, 0, 2*maxCall)
			for r := 1; r <= maxCall; r++ {
				once = append(once, r)
				twice = append(twice, r, r)
			}
			scheds = append(scheds, once)
			if mi == 0 && (ahead == 5 || thorough) && K == 2 {
				scheds = append(scheds, twice)
				for skip := 1; skip <= maxCall; skip++ {
					var s []int
					for r := 1; r <= maxCall; r++ {
						if r != skip {
							s = append(s, r)
						}
					}
					scheds = append(scheds, s)
				}
			}
			for si, sched := range scheds {
				res.Scenarios++
				c36RunScenario(w, bsh, t, ti, mask, sched, maxCall, ahead, res, outcomes)
				if ti%97 == 0 && mi == 0 && si == 0 && len(res.Samples) < 3 {
					res.Samples = append(res.Samples, map[string]any{"part": "finalize", "tree": t.String(), "notarized_lists": c36MaskNames(mask, nb), "schedule": sched, "ahead": ahead})
				}
			}
		}
	}
	for k := range outcomes {
		res.Outcomes = append(res.Outcomes, k)
	}
	sort.Strings(res.Outcomes)
	data, _ := json.Marshal(res)
	fmt.Println("RESULT " + string(data))
	os.Exit(0)
}

func c36RunScenario(w *world.World, bsh *c36BSH, t c36Tree, ti, mask int, sched []int, maxCall, ahead int, res *c36FinResult, outcomes map[string]struct{}) {
	c := w.Chain
	ctx := w.Ctx
	// reset the chain to "only genesis is finalized"
	c.SetLatestFinalizedBlock(w.Genesis)
	c.LatestDeterministicBlock = w.Genesis
	bsh.take()

	// real blocks
	nodes := make([]*world.Node, len(t.Parent))
	nodes[0] = w.GenesisNode()
	idx := map[*block.Block]int{w.Genesis: 0}
	for i := 1; i < len(t.Parent); i++ {
		p := nodes[t.Parent[i]]
		n := w.Open(p, int64(t.Round[i]), w.Genesis.CreationDate+common.Timestamp(10*t.Round[i]), w.Miners[t.Rank[i]], int64(1000+t.Round[i]), fmt.Sprintf("t%d-b%d", ti, i))
		w.CloseBlock(n)
		n.Block.RoundRank = t.Rank[i]
		n.Block.SetBlockNotarized()
		nodes[i] = n
		idx[n.Block] = i
		c.SetBlock(n.Block)
	}
	// real rounds 1..maxCall
	rounds := make([]*round.Round, maxCall+1)
	for k := 1; k <= maxCall; k++ {
		if old := c.GetRound(int64(k)); old != nil {
			c.VerifStructsDeleteRound(ctx, old)
		}
		r := round.NewRound(int64(k))
		r.SetRandomSeed(int64(1000+k), c.GetMiners(int64(k)).Size())
		for i := 1; i < len(t.Parent); i++ {
			if t.Round[i] == k && mask&(1<<(i-1)) != 0 {
				r.AddNotarizedBlock(nodes[i].Block)
			}
		}
		rounds[k] = r
		c.AddRound(r)
	}
	defer func() {
		for i := 1; i < len(nodes); i++ {
			c.DeleteBlock(ctx, nodes[i].Block)
		}
	}()

	name := func(b *block.Block) string {
		if b == nil {
			return "nil"
		}
		if i, ok := idx[b]; ok {
			return fmt.Sprintf("b%d", i)
		}
		return "?" + b.Hash[:6]
	}
	isAncOrEq := func(a, b int) bool { return a == b || c36IsAncestor(t, a, b) }
	replay := map[string]any{"parents": t.Parent, "rounds": t.Round, "listed_mask": mask, "schedule": sched, "lfb_ticket_ahead": ahead}
	var trace []string
	viol := func(key, what string) {
		k := "C36:finalizeRound:" + key
		if res.seen == nil {
			res.seen = map[string]bool{}
		}
		if res.seen[k] {
			return // one (the first, smallest) case per key and worker
		}
		res.seen[k] = true
		v := c36FinViolation{Order: ti*1000 + len(sched), Key: k,
			What: fmt.Sprintf("tree %v lists %s schedule %v ahead=%d: %s; trace: %s", t, c36MaskNames(mask, len(t.Parent)-1), sched, ahead, what, strings.Join(trace, " ")), Replay: replay}
		data, _ := json.Marshal(v)
		fmt.Println("VIOL " + string(data))
	}
	cur := 0 // tree index of the LFB the harness believes in force
	for _, r := range sched {
		plfb := c.GetLatestFinalizedBlock()
		pi, known := idx[plfb]
		if !known {
			viol("unknown-lfb", "latest finalized block is not a block of the tree: "+name(plfb))
			return
		}
		want, _ := c36Reference(t, mask, r, t.Round[pi])
		c.VerifStructsFinalizeRound(ctx, rounds[r])
		res.Calls++
		seq, lfbs := bsh.take()
		step := fmt.Sprintf("r%d:", r)
		for k, fb := range seq {
			fi, ok := idx[fb]
			step += name(fb)
			res.Finalized++
			if !ok {
				viol("finalized-unknown-block", "finalized a block that is not in the tree")
				return
			}
			li, ok2 := idx[lfbs[k]]
			if !ok2 || li != cur {
				viol("lfb-not-the-previously-finalized-block", fmt.Sprintf("LFB in force is %s, the previously finalized block is b%d", name(lfbs[k]), cur))
			}
			if !c36IsAncestor(t, cur, fi) {
				viol("finalized-block-does-not-descend-from-previous", fmt.Sprintf("newly finalized %s does not descend from the previously finalized b%d", name(fb), cur))
			}
			if want < 0 || !isAncOrEq(fi, want) {
				viol("finalized-block-not-a-common-ancestor", fmt.Sprintf("finalizeRound(%d) finalized %s; reference choice %s", r, name(fb), c36Name(want)))
			}
			cur = fi
		}
		nlfb := c.GetLatestFinalizedBlock()
		ni, ok := idx[nlfb]
		if !ok {
			viol("unknown-lfb", "latest finalized block is not a block of the tree: "+name(nlfb))
			return
		}
		if ni != cur {
			if len(seq) == 0 && c36IsAncestor(t, ni, cur) {
				// documented recovery: LFB moved back to a common ancestor
				res.Rollbacks++
				step += "ROLLBACK->" + name(nlfb)
				if want < 0 || !isAncOrEq(ni, want) {
					viol("rollback-target-not-a-common-ancestor", fmt.Sprintf("LFB moved back to %s which is not an ancestor of the reference choice %s", name(nlfb), c36Name(want)))
				}
				cur = ni
			} else {
				viol("lfb-differs-from-last-finalized-block", fmt.Sprintf("after finalizeRound(%d) LFB is %s, last finalized block is b%d", r, name(nlfb), cur))
				cur = ni
			}
		}
		trace = append(trace, step)
	}
	outcomes[fmt.Sprintf("%d|%d|%s", ti, mask, strings.Join(trace, " "))] = struct{}{}
}
