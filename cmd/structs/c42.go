// C42: replicating sharders are chosen deterministically.
//
// Every sharder set of size 1..N (of N+1 harness keys), inserted into a fresh real node.Pool in
// every order (and cloned), installed as the sharder pool of the magic block of a real chain.Chain
// whose configured replicator count runs over 0..n+1; a block-hash alphabet that contains hashes
// for which two sharders score equal (ties at and around the cut-off) and hashes for which they
// do not. Observed through Chain.IsBlockSharder / IsBlockSharderFromHash /
// CanShardBlockWithReplicators. Two ways of building a node are covered: with scoring bytes
// (node.NewNode / SetID) and without (node.Provider() + fields, the way the view-change contract
// builds magic-block nodes).
package main

import (
	"encoding/hex"
	"encoding/json"
	"fmt"
	"sort"
	"strings"

	"0chain.net/chaincore/block"
	"0chain.net/chaincore/chain"
	"0chain.net/chaincore/node"
	"0chain.net/core/encryption"
	"0chain.net/core/viper"

	"verif/lib/ev"
)

// c42Hashes returns a deterministic hash alphabet found by searching the space
// sha3("verif-structs-block-i"), i = 0,1,2,..., exhaustively in order with the real XOR scorer:
// `plain` hashes under which no two sharders of the universe score equal, and for EVERY pair of
// sharders the first hash under which exactly these two tie (for a pool that holds both, the tie
// is at the replicator boundary for the count k that cuts between them; every k is enumerated),
// and the first hash with a three-way tie.
func c42Hashes(keys []int, plain int) (out []string, desc []string) {
	universe := len(keys)
	sc := encryption.NewXORHashScorer()
	ids := make([][]byte, universe)
	for k := range ids {
		ids[k], _ = hex.DecodeString(nodeID(keys[k]))
	}
	type pair struct{ a, b int }
	needPair := map[pair]bool{}
	for a := 0; a < universe; a++ {
		for b := a + 1; b < universe; b++ {
			needPair[pair{a, b}] = true
		}
	}
	needTriple := true
	np := 0
	for i := 0; (np < plain || len(needPair) > 0 || needTriple) && i < 2000000; i++ {
		h := encryption.RawHash(fmt.Sprintf("verif-structs-block-%d", i))
		byScore := map[int32][]int{}
		for k, id := range ids {
			s := sc.Score(id, h)
			byScore[s] = append(byScore[s], k)
		}
		var tied [][]int
		for _, g := range byScore {
			if len(g) > 1 {
				tied = append(tied, g)
			}
		}
		switch {
		case len(tied) == 0 && np < plain:
			np++
			out = append(out, hex.EncodeToString(h))
			desc = append(desc, "no tie")
		case len(tied) == 1 && len(tied[0]) == 2 && needPair[pair{tied[0][0], tied[0][1]}]:
			delete(needPair, pair{tied[0][0], tied[0][1]})
			out = append(out, hex.EncodeToString(h))
			desc = append(desc, fmt.Sprintf("keys %d and %d tie", keys[tied[0][0]], keys[tied[0][1]]))
		case len(tied) == 1 && len(tied[0]) >= 3 && needTriple:
			needTriple = false
			out = append(out, hex.EncodeToString(h))
			var ks []int
			for _, x := range tied[0] {
				ks = append(ks, keys[x])
			}
			desc = append(desc, fmt.Sprintf("keys %v tie", ks))
		}
	}
	if len(needPair) > 0 {
		ev.Fatal("hash search did not find a tie for every pair of sharders: %v", needPair)
	}
	return out, desc
}

// c42Keys returns the first u harness keys whose ids have an even number of one bits. (The XOR score
// of two ids against one hash can only be equal when the ids have the same bit-count parity, so
// with same-parity ids EVERY pair of sharders can tie.)
func c42Keys(u int) []int {
	var out []int
	for k := 0; len(out) < u; k++ {
		b, _ := hex.DecodeString(nodeID(k))
		ones := 0
		for _, x := range b {
			for ; x != 0; x &= x - 1 {
				ones++
			}
		}
		if ones%2 == 0 {
			out = append(out, k)
		}
	}
	return out
}

// c42BuildPool builds a sharder pool holding the keys of `order` through one construction history.
// variant: 0 plain adds in the given order; 1 Clone of that; 2+j: key order[j] added again at the
// end (a fresh node object replaces the stored one); 2+n+j: key order[j] added twice in a row;
// 2+2n: every key added again in reverse order; 3+2n: JSON round trip of the pool.
func c42BuildPool(order []int, variant int, withBytes bool) (*node.Pool, string) {
	n := len(order)
	pool := node.NewPool(node.NodeTypeSharder)
	add := func(k int) {
		if err := pool.AddNode(mkNode(node.NodeTypeSharder, k, withBytes)); err != nil {
			ev.Fatal("AddNode: %v", err)
		}
	}
	for j, k := range order {
		add(k)
		if variant == 2+n+j {
			add(k)
		}
	}
	switch {
	case variant == 0:
		return pool, "added in order"
	case variant == 1:
		return pool.Clone(), "Clone()"
	case variant >= 2 && variant < 2+n:
		add(order[variant-2])
		return pool, fmt.Sprintf("key %d added again at the end", order[variant-2])
	case variant >= 2+n && variant < 2+2*n:
		return pool, fmt.Sprintf("key %d added twice in a row", order[variant-2-n])
	case variant == 2+2*n:
		for j := n - 1; j >= 0; j-- {
			add(order[j])
		}
		return pool, "every key added again in reverse order"
	default:
		data, err := json.Marshal(pool)
		if err != nil {
			ev.Fatal("pool JSON: %v", err)
		}
		p2 := node.NewPool(node.NodeTypeSharder)
		if err := json.Unmarshal(data, p2); err != nil {
			ev.Fatal("pool JSON decode: %v", err)
		}
		return p2, "JSON round trip"
	}
}

func c42() {
	initRepo()
	run := ev.Start("C42")
	maxN := run.Pick(4, 5)
	universe := maxN + 1
	keys := c42Keys(universe)
	run.Bounds["harness_keys"] = fmt.Sprintf("%v (ids of equal bit-count parity, so that every pair can score equal)", keys)
	hashes, hashDesc := c42Hashes(keys, run.Pick(3, 5))
	run.Bounds["block_hash_alphabet"] = hashDesc
	run.Bounds["max_sharders"] = maxN
	run.Bounds["key_universe"] = universe
	run.Bounds["block_hashes"] = len(hashes)
	run.Bounds["replicators"] = "0..n+1 and -1"
	run.Bounds["node_construction"] = []string{"with scoring bytes (SetID)", "without scoring bytes (Provider()+fields)"}
	run.Bounds["pool_construction_histories"] = "every insertion order x {plain, Clone(), each key added again at the end, each key added twice in a row, every key added again in reverse, JSON round trip (nodes without scoring bytes)}"
	run.Rule = "every sharder set x every pool construction history (insertion orders, re-adds that replace the stored node object, clone, JSON round trip) x 2 node constructions x every block hash of the alphabet x every replicator count; distinct = distinct (set, hash, replicators, construction, replicator id set)"

	// one real chain per replicator count (the count is read from the configuration when the chain is built)
	chains := map[int]*chain.Chain{}
	for r := -1; r <= maxN+1; r++ {
		viper.Set("server_chain.block.replicators", r)
		c := chain.Provider().(*chain.Chain)
		if c.NumReplicators() != r {
			ev.Fatal("chain built with replicators=%d reports %d", r, c.NumReplicators())
		}
		chains[r] = c
	}

	type caseKey struct {
		set, hash string
		r         int
		withBytes bool
	}
	canon := map[caseKey]string{}
	boundaryTies := 0
	scorer := node.NewHashPoolScorer(encryption.NewXORHashScorer())
	noBytesCases, noBytesAll := 0, 0 // observation: nodes without scoring bytes, 1 <= replicators < n
	canonOrder := map[caseKey]string{}

	for n := 1; n <= maxN; n++ {
		subsets(universe, n, func(sub []int) {
			for i := range sub {
				sub[i] = keys[sub[i]]
			}
			ids := make([]string, n)
			for i, k := range sub {
				ids[i] = nodeID(k)
			}
			ids = sortedCopy(ids)
			permutations(sub, func(order []int) {
				for _, withBytes := range []bool{true, false} {
					nVariants := 3 + 2*n
					if !withBytes {
						nVariants++ // JSON round trip (decoded nodes never carry scoring bytes)
					}
					for variant := 0; variant < nVariants; variant++ {
						pool, how := c42BuildPool(order, variant, withBytes)
						if pool.Size() != n {
							run.Violation("C42:Pool:size-after-construction", fmt.Sprintf("sharders %v inserted %v (%s): pool size %d", sub, order, how, pool.Size()), nil)
							continue
						}
						mb := block.NewMagicBlock()
						mb.StartingRound = 0
						mb.Miners = node.NewPool(node.NodeTypeMiner)
						mb.Sharders = pool
						for r := -1; r <= n+1; r++ {
							c := chains[r]
							c.SetMagicBlock(mb)
							for _, h := range hashes {
								ck := caseKey{fmt.Sprint(sub), h, r, withBytes}
								desc := fmt.Sprintf("sharders %v inserted %v (%s, scoring bytes %v) hash %s.. replicators %d", sub, order, how, withBytes, h[:8], r)
								replay := map[string]any{"sharder_keys": sub, "insertion_order": order, "variant": variant, "construction": how, "with_scoring_bytes": withBytes, "hash": h, "replicators": r}
								got, ok := c42Observe(run, c, pool, ids, h, desc, replay)
								run.Add(0, 1, 1)
								if !ok {
									continue
								}
								set := strings.Join(got, ",")
								if variant == 0 && withBytes && r >= 1 && r < n {
									if scs := scorer.ScoreHashString(pool, h); len(scs) == n && scs[r-1].Score == scs[r].Score {
										boundaryTies++ // measured with the real scorer: the tie sits exactly at the replicator boundary
									}
								}
								if !withBytes && r >= 1 && r < n {
									noBytesCases++
									if len(got) == n {
										noBytesAll++
									}
								}
								// clause: all sharders when replication is off
								if r <= 0 && len(got) != n {
									run.Violation("C42:IsBlockSharder:replication-off:not-every-sharder", desc+fmt.Sprintf(": only %d of %d sharders store the block", len(got), n), replay)
								}
								// clause: at least the configured number when enough sharders exist
								if r >= 1 && r <= n && len(got) < r {
									run.Violation("C42:IsBlockSharder:fewer-than-configured-replicators", desc+fmt.Sprintf(": %d sharders store the block", len(got)), replay)
								}
								// clause: same set for every insertion order / every node
								if prev, seen := canon[ck]; !seen {
									canon[ck] = set
									canonOrder[ck] = fmt.Sprint(order)
									run.Outcome(fmt.Sprintf("%v|%s|%d|%v|%s", sub, h[:8], r, withBytes, shortSet(got)))
									run.Add(1, 0, 0)
								} else if prev != set && variant != 0 {
									run.Violation("C42:IsBlockSharder:depends-on-pool-construction-history", desc+fmt.Sprintf(": set %s, but the pool built by plain adds in order %s gave %s", shortSet(got), canonOrder[ck], prev), replay)
								} else if prev != set {
									run.Violation("C42:IsBlockSharder:depends-on-insertion-order", desc+fmt.Sprintf(": set %s, but order %s gave %s", shortSet(got), canonOrder[ck], prev), replay)
								}
							}
						}
						if n == maxN && variant == 0 && withBytes {
							run.Sample(map[string]any{"sharder_keys": sub, "insertion_order": order})
						}
					}
				}
			})
		})
	}
	run.Extra["cases_with_score_tie_exactly_at_the_replicator_boundary"] = boundaryTies
	if boundaryTies == 0 {
		ev.Fatal("no enumerated case has a score tie at the replicator boundary (vacuous)")
	}
	run.Extra["observation_nodes_without_scoring_bytes"] = fmt.Sprintf("%d of %d cases with 1 <= replicators < n made every sharder responsible", noBytesAll, noBytesCases)
	run.Assumptions = []string{
		"'enough sharders exist' = the sharder set is at least as large as the configured replicator count; nothing but determinism is required when it is smaller",
		"the replicator count is the chain configuration value server_chain.block.replicators",
	}
	run.Finish()
}

func shortSet(ids []string) string {
	s := make([]string, len(ids))
	for i, id := range ids {
		s[i] = id[:6]
	}
	return "{" + strings.Join(s, ",") + "}"
}

// c42Observe asks the three real entry points for every sharder and requires that they agree.
// It returns the sorted id set of the sharders responsible for the block.
func c42Observe(run *ev.Run, c *chain.Chain, pool *node.Pool, ids []string, hash, desc string, replay any) (set []string, ok bool) {
	defer func() {
		if p := recover(); p != nil {
			run.Violation("C42:IsBlockSharder:panic", desc+fmt.Sprintf(": panic %v", p), replay)
			ok = false
		}
	}()
	b := block.NewBlock("", 1)
	b.Hash = hash
	var fromNodes map[string]string
	for _, id := range ids {
		nd := pool.GetNode(id)
		a := c.IsBlockSharder(b, nd)
		f := c.IsBlockSharderFromHash(1, hash, nd)
		w, nodes := c.CanShardBlockWithReplicators(1, hash, nd)
		if a != f || a != w {
			run.Violation("C42:IsBlockSharder:entry-points-disagree", desc+fmt.Sprintf(": sharder %s IsBlockSharder=%v FromHash=%v WithReplicators=%v", id[:6], a, f, w), replay)
		}
		var ns []string
		for _, x := range nodes {
			ns = append(ns, x.GetKey())
		}
		sort.Strings(ns)
		if fromNodes == nil {
			fromNodes = map[string]string{}
		}
		fromNodes[id] = strings.Join(ns, ",")
		if a {
			set = append(set, id)
		}
	}
	sort.Strings(set)
	want := strings.Join(set, ",")
	for _, id := range ids {
		// CanShardBlockWithReplicators reports the replicator list only when there are enough sharders
		if fromNodes[id] != want && !(fromNodes[id] == "" && len(set) == 0) {
			run.Violation("C42:CanShardBlockWithReplicators:list-differs-from-membership", desc+fmt.Sprintf(": asked for %s the list is {%s}, membership says {%s}", id[:6], fromNodes[id], want), replay)
		}
	}
	return set, true
}
