// C42: replicating sharders are chosen deterministically.
//
// Every sharder set of size 1..N (of N+1 harness keys), inserted into a fresh real node.Pool in
// every order (and cloned), installed as the sharder pool of the magic block of a real chain.Chain
// whose configured replicator count runs over 0..n+1; a block-hash alphabet that contains hashes
// for which two sharders score equal (ties at and around the cut-off) and hashes for which they
// do not. Observed through Chain.IsBlockSharder / IsBlockSharderFromHash /
// CanShardBlockWithReplicators. Two ways of building a node are covered: with scoring bytes
// (node.NewNode / SetID) and without (node.Provider() + fields, the way the view-change contract
// builds magic-block nodes).
package main

import (
	"encoding/hex"
	"fmt"
	"sort"
	"strings"

	"0chain.net/chaincore/block"
	"0chain.net/chaincore/chain"
	"0chain.net/chaincore/node"
	"0chain.net/core/encryption"
	"0chain.net/core/viper"

	"verif/lib/ev"
)

// c42Hashes returns a deterministic hash alphabet: `plain` hashes without a score tie among the
// universe and `tied` hashes with at least one pair of equally scoring sharders.
func c42Hashes(universe, plain, tied int) []string {
	sc := encryption.NewXORHashScorer()
	ids := make([][]byte, universe)
	for k := range ids {
		ids[k], _ = hex.DecodeString(nodeID(k))
	}
	var out []string
	np, nt := 0, 0
	for i := 0; np < plain || nt < tied; i++ {
		h := encryption.RawHash(fmt.Sprintf("verif-structs-block-%d", i))
		seen := map[int32]int{}
		maxMult := 0
		for _, id := range ids {
			s := sc.Score(id, h)
			seen[s]++
			if seen[s] > maxMult {
				maxMult = seen[s]
			}
		}
		if maxMult >= 2 && nt < tied {
			nt++
			out = append(out, hex.EncodeToString(h))
		} else if maxMult == 1 && np < plain {
			np++
			out = append(out, hex.EncodeToString(h))
		}
	}
	return out
}

func c42() {
	initRepo()
	run := ev.Start("C42")
	maxN := run.Pick(4, 5)
	universe := maxN + 1
	hashes := c42Hashes(universe, run.Pick(3, 5), run.Pick(5, 11))
	run.Bounds["max_sharders"] = maxN
	run.Bounds["key_universe"] = universe
	run.Bounds["block_hashes"] = len(hashes)
	run.Bounds["replicators"] = "0..n+1 and -1"
	run.Bounds["node_construction"] = []string{"with scoring bytes (SetID)", "without scoring bytes (Provider()+fields)"}
	run.Bounds["pool_variants"] = []string{"plain", "Clone()"}
	run.Rule = "every sharder set x every insertion order x {plain, clone} x 2 node constructions x every block hash of the alphabet x every replicator count; distinct = distinct (set, hash, replicators, construction, replicator id set)"

	// one real chain per replicator count (the count is read from the configuration when the chain is built)
	chains := map[int]*chain.Chain{}
	for r := -1; r <= maxN+1; r++ {
		viper.Set("server_chain.block.replicators", r)
		c := chain.Provider().(*chain.Chain)
		if c.NumReplicators() != r {
			ev.Fatal("chain built with replicators=%d reports %d", r, c.NumReplicators())
		}
		chains[r] = c
	}

	type caseKey struct {
		set, hash string
		r         int
		withBytes bool
	}
	canon := map[caseKey]string{}
	noBytesCases, noBytesAll := 0, 0 // observation: nodes without scoring bytes, 1 <= replicators < n
	canonOrder := map[caseKey]string{}

	for n := 1; n <= maxN; n++ {
		subsets(universe, n, func(sub []int) {
			ids := make([]string, n)
			for i, k := range sub {
				ids[i] = nodeID(k)
			}
			ids = sortedCopy(ids)
			permutations(sub, func(order []int) {
				for _, withBytes := range []bool{true, false} {
					for variant := 0; variant < 2; variant++ {
						pool := node.NewPool(node.NodeTypeSharder)
						for _, k := range order {
							if err := pool.AddNode(mkNode(node.NodeTypeSharder, k, withBytes)); err != nil {
								ev.Fatal("AddNode: %v", err)
							}
						}
						if variant == 1 {
							pool = pool.Clone()
						}
						mb := block.NewMagicBlock()
						mb.StartingRound = 0
						mb.Miners = node.NewPool(node.NodeTypeMiner)
						mb.Sharders = pool
						for r := -1; r <= n+1; r++ {
							c := chains[r]
							c.SetMagicBlock(mb)
							for _, h := range hashes {
								ck := caseKey{fmt.Sprint(sub), h, r, withBytes}
								desc := fmt.Sprintf("sharders %v inserted %v (variant %d, scoring bytes %v) hash %s.. replicators %d", sub, order, variant, withBytes, h[:8], r)
								replay := map[string]any{"sharder_keys": sub, "insertion_order": order, "variant": variant, "with_scoring_bytes": withBytes, "hash": h, "replicators": r}
								got, ok := c42Observe(run, c, pool, ids, h, desc, replay)
								run.Add(0, 1, 1)
								if !ok {
									continue
								}
								set := strings.Join(got, ",")
								if !withBytes && r >= 1 && r < n {
									noBytesCases++
									if len(got) == n {
										noBytesAll++
									}
								}
								// clause: all sharders when replication is off
								if r <= 0 && len(got) != n {
									run.Violation("C42:IsBlockSharder:replication-off:not-every-sharder", desc+fmt.Sprintf(": only %d of %d sharders store the block", len(got), n), replay)
								}
								// clause: at least the configured number when enough sharders exist
								if r >= 1 && r <= n && len(got) < r {
									run.Violation("C42:IsBlockSharder:fewer-than-configured-replicators", desc+fmt.Sprintf(": %d sharders store the block", len(got)), replay)
								}
								// clause: same set for every insertion order / every node
								if prev, seen := canon[ck]; !seen {
									canon[ck] = set
									canonOrder[ck] = fmt.Sprint(order)
									run.Outcome(fmt.Sprintf("%v|%s|%d|%v|%s", sub, h[:8], r, withBytes, shortSet(got)))
									run.Add(1, 0, 0)
								} else if prev != set {
									run.Violation("C42:IsBlockSharder:depends-on-insertion-order", desc+fmt.Sprintf(": set %s, but order %s gave %s", shortSet(got), canonOrder[ck], prev), replay)
								}
							}
						}
						if n == maxN && variant == 0 && withBytes {
							run.Sample(map[string]any{"sharder_keys": sub, "insertion_order": order})
						}
					}
				}
			})
		})
	}
	run.Extra["observation_nodes_without_scoring_bytes"] = fmt.Sprintf("%d of %d cases with 1 <= replicators < n made every sharder responsible", noBytesAll, noBytesCases)
	run.Assumptions = []string{
		"'enough sharders exist' = the sharder set is at least as large as the configured replicator count; nothing but determinism is required when it is smaller",
		"the replicator count is the chain configuration value server_chain.block.replicators",
	}
	run.Finish()
}

func shortSet(ids []string) string {
	s := make([]string, len(ids))
	for i, id := range ids {
		s[i] = id[:6]
	}
	return "{" + strings.Join(s, ",") + "}"
}

// c42Observe asks the three real entry points for every sharder and requires that they agree.
// It returns the sorted id set of the sharders responsible for the block.
func c42Observe(run *ev.Run, c *chain.Chain, pool *node.Pool, ids []string, hash, desc string, replay any) (set []string, ok bool) {
	defer func() {
		if p := recover(); p != nil {
			run.Violation("C42:IsBlockSharder:panic", desc+fmt.Sprintf(": panic %v", p), replay)
			ok = false
		}
	}()
	b := block.NewBlock("", 1)
	b.Hash = hash
	var fromNodes map[string]string
	for _, id := range ids {
		nd := pool.GetNode(id)
		a := c.IsBlockSharder(b, nd)
		f := c.IsBlockSharderFromHash(1, hash, nd)
		w, nodes := c.CanShardBlockWithReplicators(1, hash, nd)
		if a != f || a != w {
			run.Violation("C42:IsBlockSharder:entry-points-disagree", desc+fmt.Sprintf(": sharder %s IsBlockSharder=%v FromHash=%v WithReplicators=%v", id[:6], a, f, w), replay)
		}
		var ns []string
		for _, x := range nodes {
			ns = append(ns, x.GetKey())
		}
		sort.Strings(ns)
		if fromNodes == nil {
			fromNodes = map[string]string{}
		}
		fromNodes[id] = strings.Join(ns, ",")
		if a {
			set = append(set, id)
		}
	}
	sort.Strings(set)
	want := strings.Join(set, ",")
	for _, id := range ids {
		// CanShardBlockWithReplicators reports the replicator list only when there are enough sharders
		if fromNodes[id] != want && !(fromNodes[id] == "" && len(set) == 0) {
			run.Violation("C42:CanShardBlockWithReplicators:list-differs-from-membership", desc+fmt.Sprintf(": asked for %s the list is {%s}, membership says {%s}", id[:6], fromNodes[id], want), replay)
		}
	}
	return set, true
}
