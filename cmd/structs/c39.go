// C39: view-change node selection is exact and stake-ordered.
//
// The real minersc SimpleNodes.reduce (through an export shim) on every candidate layout:
// n <= N candidates with ids a<b<c<..., every stake vector over {0,1,2}, every previous-set
// membership, every limit 0..n+1, every percentage of the alphabet, every seed 0..63. The callers
// DKGMinerNodes.reduceNodes and MinerSmartContract.reduceShardersList are driven with a real state
// context for the layouts they accept.
//
// Reference (from the statement): with m = min(limit, n) and q = min(#previous members among the
// candidates, ceil(percentage*m)), a result S is VALID iff |S| = m and there is a quota Q of q
// previous members inside S that are highest-staked previous members (no previous member outside
// Q has a strictly higher stake than one inside) such that no unselected candidate has a strictly
// higher stake than a selected non-quota one. A candidate is FREE when some valid result contains
// it and another does not (it is tied at a cut-off). Seed-only tie break: every free candidate is
// selected under some seed of the alphabet and rejected under another.
package main

import (
	"encoding/json"
	"fmt"
	"hash/fnv"
	"math"
	"os"
	"path/filepath"
	"runtime"
	"sort"
	"strings"
	"sync"
	"time"

	"0chain.net/chaincore/block"
	cstate "0chain.net/chaincore/chain/state"
	"0chain.net/chaincore/node"
	"0chain.net/chaincore/transaction"
	"0chain.net/smartcontract/minersc"
	"github.com/0chain/common/core/currency"
	"github.com/0chain/common/core/statecache"
	"github.com/0chain/common/core/util"

	"verif/lib/ev"
	"verif/lib/vmap"
)

type c39Pool map[string]bool

func (p c39Pool) HasNode(id string) bool { return p[id] }

type c39Layout struct {
	N      int
	Stakes []int // per candidate (candidate i has id c39ID(i))
	Prev   int   // bit mask of previous-set members
	Limit  int
	X      float64
	Seeds  int  // seeds 0..Seeds-1 are evaluated
	NoTie  bool // skip the seed-only tie-break clause (large tie groups: 64 seeds would not decide it)
}

func c39ID(i int) string { return string(rune('a' + i)) }

func c39SN(id string, stake int) *minersc.SimpleNode {
	sn := &minersc.SimpleNode{}
	sn.ID = id
	sn.TotalStaked = currency.Coin(stake)
	return sn
}

func (l c39Layout) String() string {
	var c []string
	for i := 0; i < l.N; i++ {
		p := ""
		if l.Prev&(1<<i) != 0 {
			p = "*"
		}
		c = append(c, fmt.Sprintf("%s%s:%d", c39ID(i), p, l.Stakes[i]))
	}
	return fmt.Sprintf("candidates[%s] (*=previous member) limit=%d percent=%.2f", strings.Join(c, " "), l.Limit, l.X)
}

// c39Run calls the real reduce (the order in which it iterates the candidate map is vmap.Choice).
func c39Run(l c39Layout, seed int64) (ret int, sel int, err any) {
	defer func() {
		if p := recover(); p != nil {
			err = p
		}
	}()
	sns := minersc.NewSimpleNodes()
	for i := 0; i < l.N; i++ {
		sns[c39ID(i)] = c39SN(c39ID(i), l.Stakes[i])
	}
	var pool minersc.Pooler
	prev := c39Pool{}
	for i := 0; i < l.N; i++ {
		if l.Prev&(1<<i) != 0 {
			prev[c39ID(i)] = true
		}
	}
	prev["not-a-candidate"] = true
	pool = prev
	ret = minersc.VerifStructsReduce(sns, l.Limit, l.X, seed, pool)
	for id, sn := range sns {
		if len(id) != 1 || sn == nil || sn.ID != id {
			return ret, -1, nil
		}
		i := int(id[0] - 'a')
		if i < 0 || i >= l.N {
			return ret, -1, nil
		}
		sel |= 1 << i
	}
	return ret, sel, nil
}

func popcount(x int) int {
	c := 0
	for ; x != 0; x &= x - 1 {
		c++
	}
	return c
}

// c39Valid reports whether selection S (bit mask) is valid for the layout.
func c39Valid(l c39Layout, S, m, q int) bool {
	if popcount(S) != m {
		return false
	}
	all := 1<<l.N - 1
	sp := S & l.Prev
	if popcount(sp) < q {
		return false
	}
	// choose quota Q subset of S&Prev with |Q| = q
	for Q := sp; ; Q = (Q - 1) & sp {
		if popcount(Q) == q {
			ok := true
			// Q are highest-staked previous members
			minQ := math.MaxInt
			for i := 0; i < l.N; i++ {
				if Q&(1<<i) != 0 && l.Stakes[i] < minQ {
					minQ = l.Stakes[i]
				}
			}
			for i := 0; i < l.N && ok; i++ {
				if l.Prev&(1<<i) != 0 && Q&(1<<i) == 0 && l.Stakes[i] > minQ {
					ok = false
				}
			}
			// rest prefers higher stake
			if ok {
				minR := math.MaxInt
				for i := 0; i < l.N; i++ {
					if S&(1<<i) != 0 && Q&(1<<i) == 0 && l.Stakes[i] < minR {
						minR = l.Stakes[i]
					}
				}
				for i := 0; i < l.N && ok; i++ {
					if (all&^S)&(1<<i) != 0 && l.Stakes[i] > minR {
						ok = false
					}
				}
			}
			if ok {
				return true
			}
		}
		if Q == 0 {
			break
		}
	}
	return false
}

func maskNames(l c39Layout, m int) string {
	var s []string
	for i := 0; i < l.N; i++ {
		if m&(1<<i) != 0 {
			s = append(s, c39ID(i))
		}
	}
	return "{" + strings.Join(s, ",") + "}"
}

// c39TieClass names the input class of a tie whose outcome does not depend on the seed.
func c39TieClass(l c39Layout, m, q, cand int) string {
	// previous members sorted by stake
	var ps []int
	for i := 0; i < l.N; i++ {
		if l.Prev&(1<<i) != 0 {
			ps = append(ps, l.Stakes[i])
		}
	}
	sort.Sort(sort.Reverse(sort.IntSlice(ps)))
	quotaTie := false
	tq := -1
	if q > 0 {
		tq = ps[q-1]
		if q < len(ps) && ps[q] == tq {
			quotaTie = true
		}
	}
	isPrev := l.Prev&(1<<cand) != 0
	if quotaTie && isPrev && l.Stakes[cand] == tq {
		return "tie-among-previous-members-at-quota-cutoff"
	}
	if quotaTie {
		return "cutoff-tie-combined-with-quota-tie"
	}
	// quota is unique: the top-q previous members. Remaining candidates sorted by stake.
	inQ := map[int]bool{}
	for k := 0; k < q; k++ {
		best := -1
		for i := 0; i < l.N; i++ {
			if l.Prev&(1<<i) != 0 && !inQ[i] && (best < 0 || l.Stakes[i] > l.Stakes[best]) {
				best = i
			}
		}
		inQ[best] = true
	}
	maxRest := -1
	for i := 0; i < l.N; i++ {
		if !inQ[i] && l.Stakes[i] > maxRest {
			maxRest = l.Stakes[i]
		}
	}
	if l.Stakes[cand] == maxRest {
		return "cutoff-tie-group-is-the-highest-staked-remaining"
	}
	return "cutoff-tie-below-higher-staked-candidates"
}

func c39() {
	initRepo()
	run := ev.Start("C39")
	maxN := run.Pick(4, 6)
	stakes := []int{0, 1, 2}
	xs := []float64{0, 0.25, 0.5, 0.75, 1}
	nSeeds := 64
	run.Bounds["max_candidates"] = maxN
	run.Bounds["stakes"] = "{0,1,2} ({0,1} for 6 candidates)"
	run.Bounds["previous_set"] = "every subset of the candidates (plus one member that is not a candidate)"
	run.Bounds["limit"] = "0..n+1"
	run.Bounds["percent"] = "{0,.25,.5,.75,1} ({0,.5,1} for 6 candidates)"
	run.Bounds["seeds"] = "0..63"
	run.Rule = "complete product: candidates 1..N x stake vectors x previous-set subsets x limits x percentages x seeds, seeds 0..3 of every layout re-evaluated under every map iteration order of the seam; distinct = distinct (layout, set of selections over the seeds)"

	t0 := time.Now()
	var layouts []c39Layout
	for n := 0; n <= maxN; n++ {
		nStakes, nxs := stakes, xs
		if n == 6 { // thorough only: the largest size with a reduced alphabet
			nStakes, nxs = []int{0, 1}, []float64{0, 0.5, 1}
		}
		total := 1
		for i := 0; i < n; i++ {
			total *= len(nStakes)
		}
		for sv := 0; sv < total; sv++ {
			st := make([]int, n)
			x := sv
			for i := 0; i < n; i++ {
				st[i] = nStakes[x%len(nStakes)]
				x /= len(nStakes)
			}
			for prev := 0; prev < 1<<n; prev++ {
				for limit := 0; limit <= n+1; limit++ {
					for _, xp := range nxs {
						layouts = append(layouts, c39Layout{N: n, Stakes: st, Prev: prev, Limit: limit, X: xp, Seeds: nSeeds})
					}
				}
			}
		}
	}
	famA := len(layouts)
	// family B: more candidates than slots with tie groups straddling the cut-off among non-previous
	// candidates: 6 candidates (thorough: also 7 and 8), every stake vector over {0,1,2}, previous set in
	// {none, lowest id, highest id, two middle ids}, limit 3..5, percent {0,.5}, seeds 0..15
	for n := 6; n <= run.Pick(6, 8); n++ {
		total := 1
		for i := 0; i < n; i++ {
			total *= 3
		}
		for sv := 0; sv < total; sv++ {
			st := make([]int, n)
			x := sv
			for i := 0; i < n; i++ {
				st[i] = x % 3
				x /= 3
			}
			for _, prev := range []int{0, 1, 1 << (n - 1), 1<<(n/2) | 1<<(n/2-1)} {
				for limit := 3; limit <= 5; limit++ {
					for _, xp := range []float64{0, 0.5} {
						layouts = append(layouts, c39Layout{N: n, Stakes: st, Prev: prev, Limit: limit, X: xp, Seeds: 16, NoTie: true})
					}
				}
			}
		}
	}
	run.Extra["layouts"] = len(layouts)
	run.Extra["layouts_family_a"] = famA
	run.Extra["layouts_family_b"] = len(layouts) - famA
	run.Bounds["family_b"] = fmt.Sprintf("6..%d candidates, every stake vector over {0,1,2}, previous set in {none, lowest id, highest id, two middle ids}, limit 3..5, percent {0,.5}, seeds 0..15 (validity and function-of-inputs clauses)", run.Pick(6, 8))
	run.Bounds["map_iteration_orders"] = "every order the map seam can produce for the candidate map (n! for n<=3, the 2n rotations of the sorted and the reversed order above), for seeds 0..3 of every layout"

	// the map-iteration seam must reach the `range sns` site of reduce, otherwise the
	// function-of-inputs clause could not be decided
	if site := c39SeamSite(); site == "" {
		ev.Fatal("the maporder seam did not rewrite the `range sns` loop of SimpleNodes.reduce (see .work/seams*/maporder.sites.json)")
	} else {
		run.Extra["maporder_seam_site"] = site
	}
	vmap.Choice = 0
	calls0 := vmap.Calls
	c39Run(c39Layout{N: 3, Stakes: []int{0, 0, 0}, Limit: 2}, 0)
	if vmap.Calls == calls0 {
		ev.Fatal("reduce did not go through the map-iteration seam")
	}
	base := make([][c39OrderSeeds]int16, len(layouts))

	workers := runtime.NumCPU()
	if workers > 16 {
		workers = 16
	}
	var wg sync.WaitGroup
	type viol struct {
		order     int
		key, what string
		replay    any
	}
	var mu sync.Mutex
	var viols []viol
	report := func(order int, key, what string, replay any) {
		mu.Lock()
		viols = append(viols, viol{order, key, what, replay})
		mu.Unlock()
	}
	for w := 0; w < workers; w++ {
		wg.Add(1)
		go func(w int) {
			defer wg.Done()
			for li := w; li < len(layouts); li += workers {
				c39CheckLayout(run, li, layouts[li], &base[li], report)
			}
		}(w)
	}
	wg.Wait()
	// the same inputs under every other map iteration order (the order is a process-wide setting of
	// the seam, so the orders are visited one after the other, the layouts in parallel)
	for c := 1; c < vmap.NumOrders(run.Pick(6, 8)); c++ {
		vmap.Choice = c
		for w := 0; w < workers; w++ {
			wg.Add(1)
			go func(w int) {
				defer wg.Done()
				for li := w; li < len(layouts); li += workers {
					if c < vmap.NumOrders(layouts[li].N) {
						c39CheckOrder(run, li, layouts[li], c, &base[li], report)
					}
				}
			}(w)
		}
		wg.Wait()
	}
	vmap.Choice = 0
	// deterministic reporting: smallest layout index first per key
	sort.SliceStable(viols, func(i, j int) bool { return viols[i].order < viols[j].order })
	for _, v := range viols {
		run.Violation(v.key, v.what, v.replay)
	}

	run.Extra["reduce_wall_s"] = time.Since(t0).Seconds()
	t1 := time.Now()
	c39Callers(run)
	run.Extra["callers_wall_s"] = time.Since(t1).Seconds()

	run.Assumptions = []string{
		"'the required number of previous-set members' = min(previous members among the candidates, ceil(percentage * min(limit, candidates)))",
		"'depends only on the seed, never on their ids' is decided over the 64-seed alphabet: a candidate that is free under the stake rules must be selected under at least one seed and rejected under at least one",
		"limits are non-negative; stakes are from {0,1,2}",
	}
	run.Finish()
}

const c39OrderSeeds = 4

// c39SeamSite returns the maporder-seam site record of the candidate loop in reduce ("" if absent).
func c39SeamSite() string {
	dir := "seams"
	if sfx := os.Getenv("VERIF_BIN_SUFFIX"); sfx != "" {
		dir = "seams." + sfx
	}
	data, err := os.ReadFile(filepath.Join(ev.Root(), ".work", dir, "maporder.sites.json"))
	if err != nil {
		return ""
	}
	var sites map[string][]string
	if json.Unmarshal(data, &sites) != nil {
		return ""
	}
	// the first `range sns` in models.go is the loop that splits the candidates inside reduce
	for _, s := range sites["smartcontract/minersc"] {
		if strings.HasPrefix(s, "models.go:") && strings.HasSuffix(s, "range sns") {
			return s
		}
	}
	return ""
}

// c39CheckOrder re-evaluates seeds 0..3 of a layout under map iteration order c.
func c39CheckOrder(run *ev.Run, li int, l c39Layout, c int, base *[c39OrderSeeds]int16, report func(int, string, string, any)) {
	for seed := int64(0); seed < c39OrderSeeds && seed < int64(l.Seeds); seed++ {
		_, sel, perr := c39Run(l, seed)
		run.Add(0, 1, 1)
		if perr != nil {
			report(li, "C39:reduce:panic", fmt.Sprintf("%v seed %d map order %d: panic %v", l, seed, c, perr), nil)
			return
		}
		if int16(sel) != base[seed] {
			report(li, "C39:reduce:result-depends-on-map-iteration-order",
				fmt.Sprintf("%v seed %d: selected %s when the candidate map is iterated in sorted order and %s under iteration order %d of the seam (identical inputs)", l, seed, maskNames(l, int(base[seed])), maskNames(l, sel), c),
				map[string]any{"stakes_by_id": l.Stakes, "previous_mask": l.Prev, "limit": l.Limit, "percent": l.X, "seed": seed, "map_order_choice": c})
			return
		}
	}
}

func c39CheckLayout(run *ev.Run, li int, l c39Layout, base *[c39OrderSeeds]int16, report func(int, string, string, any)) {
	nSeeds := l.Seeds
	m := l.Limit
	if l.N < m {
		m = l.N
	}
	q := int(math.Ceil(l.X * float64(m)))
	if pc := popcount(l.Prev); pc < q {
		q = pc
	}
	replay := func(seed int64) map[string]any {
		return map[string]any{"stakes_by_id": l.Stakes, "previous_mask": l.Prev, "limit": l.Limit, "percent": l.X, "seed": seed}
	}
	// valid selections and free candidates
	var inSome, inAll = 0, 1<<l.N - 1
	nValid := 0
	for S := 0; S < 1<<l.N; S++ {
		if c39Valid(l, S, m, q) {
			nValid++
			inSome |= S
			inAll &= S
		}
	}
	if nValid == 0 {
		ev.Fatal("reference has no valid selection for %v", l)
	}
	free := inSome &^ inAll
	ever, never := 0, 0 // selected under some seed / rejected under some seed
	outcomes := map[int]bool{}
	for seed := int64(0); seed < int64(nSeeds); seed++ {
		ret, sel, perr := c39Run(l, seed)
		run.Add(0, 1, 1)
		if perr != nil {
			report(li, "C39:reduce:panic", fmt.Sprintf("%v seed %d: panic %v", l, seed, perr), replay(seed))
			return
		}
		if seed < c39OrderSeeds {
			base[seed] = int16(sel)
		}
		if sel < 0 {
			report(li, "C39:reduce:foreign-node-in-result", fmt.Sprintf("%v seed %d: result holds a node that is not a candidate", l, seed), replay(seed))
			continue
		}
		if popcount(sel) != m || ret != m {
			report(li, "C39:reduce:size-not-min-of-limit-and-candidates", fmt.Sprintf("%v seed %d: selected %s, returned %d, want exactly %d", l, seed, maskNames(l, sel), ret, m), replay(seed))
			continue
		}
		if !c39Valid(l, sel, m, q) {
			// which clause?
			key := "C39:reduce:lower-stake-preferred"
			if popcount(sel&l.Prev) < q {
				key = "C39:reduce:too-few-previous-members"
			} else {
				// quota cannot be formed from highest-staked previous members?
				okQuota := false
				for S2 := 0; S2 < 1<<l.N; S2++ {
					if S2&l.Prev == sel&l.Prev && c39Valid(l, S2, popcount(S2), q) && popcount(S2) == m {
						okQuota = true
					}
				}
				if !okQuota {
					key = "C39:reduce:previous-members-not-the-highest-staked"
				}
			}
			report(li, key, fmt.Sprintf("%v seed %d: selected %s, required previous members %d", l, seed, maskNames(l, sel), q), replay(seed))
			continue
		}
		ever |= sel
		never |= (1<<l.N - 1) &^ sel
		outcomes[sel] = true
	}
	var outs []string
	for s := range outcomes {
		outs = append(outs, maskNames(l, s))
	}
	sort.Strings(outs)
	run.Add(1, 0, 0)
	h := fnv.New64a()
	fmt.Fprintf(h, "%v|%v", l, outs)
	run.Outcome(fmt.Sprintf("%016x", h.Sum64())) // (layout, set of selections over the seeds), hashed to bound memory
	if li%9973 == 0 {
		run.Sample(map[string]any{"layout": l.String(), "selections_over_seeds": outs})
	}
	for i := 0; i < l.N && !l.NoTie; i++ {
		if free&(1<<i) == 0 {
			continue
		}
		if ever&(1<<i) == 0 || never&(1<<i) == 0 {
			how := "is selected under every seed"
			if ever&(1<<i) == 0 {
				how = "is rejected under every seed"
			}
			cls := c39TieClass(l, m, q, i)
			report(li, "C39:reduce:"+cls+":id-decides", fmt.Sprintf("%v: candidate %s is tied at the cut-off (valid results with and without it exist) but %s of 0..%d; selections seen: %v", l, c39ID(i), how, nSeeds-1, outs), replay(0))
		}
	}
}

// ---------------------------------------------------------------------------------------------
// callers

// c39Safe turns a panic of the called repository code into an error.
func c39Safe(f func() error) (err error) {
	defer func() {
		if p := recover(); p != nil {
			err = fmt.Errorf("panic: %v", p)
		}
	}()
	return f()
}

func c39Callers(run *ev.Run) {
	// real node pools of the "previous magic block"
	mkPool := func(typ node.NodeType, n int, mask int) (*node.Pool, []string) {
		p := node.NewPool(typ)
		ids := make([]string, n)
		for i := 0; i < n; i++ {
			ids[i] = nodeID(i)
			if mask&(1<<i) != 0 {
				if err := p.AddNode(mkNode(typ, i, true)); err != nil {
					ev.Fatal("AddNode: %v", err)
				}
			}
		}
		// a member that is no candidate
		if err := p.AddNode(mkNode(typ, 40, true)); err != nil {
			ev.Fatal("AddNode: %v", err)
		}
		return p, ids
	}
	n := 4
	stakes := []int{0, 1, 2}
	msc := &minersc.MinerSmartContract{}
	calls := 0
	for prev := 1; prev < 1<<n; prev++ {
		miners, ids := mkPool(node.NodeTypeMiner, n, prev)
		sharders, _ := mkPool(node.NodeTypeSharder, n, prev)
		idx := map[string]int{}
		for i, id := range ids {
			idx[id] = i
		}
		toMask := func(got []string) int {
			mk := 0
			for _, id := range got {
				i, ok := idx[id]
				if !ok {
					return -1
				}
				mk |= 1 << i
			}
			return mk
		}
		for _, seed := range []int64{0, 1, 2, 3, 5, 8, 13, 21} {
			pmb := block.NewBlock("", 100)
			pmb.RoundRandomSeed = seed
			pmb.MagicBlock = block.NewMagicBlock()
			pmb.MagicBlock.Miners = miners
			pmb.MagicBlock.Sharders = sharders
			mpt := util.NewMerklePatriciaTrie(util.NewLevelNodeDB(util.NewMemoryNodeDB(), util.NewMemoryNodeDB(), false), 1, nil, statecache.NewEmpty())
			ctx := cstate.NewStateContext(block.NewBlock("", 101), mpt, &transaction.Transaction{}, nil,
				func() *block.Block { return pmb }, nil, nil, nil, nil)
			for sv := 0; sv < 81; sv++ {
				st := make([]int, n)
				x := sv
				for i := 0; i < n; i++ {
					st[i] = stakes[x%3]
					x /= 3
				}
				for limit := 1; limit <= n+1; limit++ {
					for _, xp := range []float64{0.25, 0.5, 1} {
						l := c39Layout{N: n, Stakes: st, Prev: prev, Limit: limit, X: xp}
						m := limit
						if n < m {
							m = n
						}
						q := int(math.Ceil(xp * float64(m)))
						if pc := popcount(prev); pc < q {
							q = pc
						}
						gn := &minersc.GlobalNode{MaxN: limit, MinN: 1, MaxS: limit, MinS: 1, XPercent: xp}
						replay := map[string]any{"stakes": st, "previous_mask": prev, "limit": limit, "percent": xp, "seed": seed}

						// reduceNodes(final=true)
						dkg := minersc.NewDKGMinerNodes()
						dkg.MinN, dkg.MaxN = 1, limit
						for i, id := range ids {
							dkg.SimpleNodes[id] = c39SN(id, st[i])
						}
						if err := c39Safe(func() error { return dkg.VerifStructsReduceNodes(true, gn, ctx) }); err != nil {
							run.Violation("C39:reduceNodes:error", fmt.Sprintf("%v: %v", l, err), replay)
						} else {
							var got []string
							for id := range dkg.SimpleNodes {
								got = append(got, id)
							}
							sel := toMask(got)
							if sel < 0 || !c39Valid(l, sel, m, q) {
								run.Violation("C39:reduceNodes:invalid-selection", fmt.Sprintf("%v seed %d: reduceNodes selected %s (required previous members %d, size %d)", l, seed, maskNames(l, sel), q, m), replay)
							}
							run.Outcome(fmt.Sprintf("reduceNodes|%v|%d|%s", l, seed, maskNames(l, sel)))
						}
						// reduceNodes(final=false) leaves the list alone
						dkg2 := minersc.NewDKGMinerNodes()
						dkg2.MinN, dkg2.MaxN = 1, limit
						for i, id := range ids {
							dkg2.SimpleNodes[id] = c39SN(id, st[i])
						}
						if err := c39Safe(func() error { return dkg2.VerifStructsReduceNodes(false, gn, ctx) }); err != nil || len(dkg2.SimpleNodes) != n {
							run.Violation("C39:reduceNodes:non-final-call-changes-list", fmt.Sprintf("%v: err=%v size=%d", l, err, len(dkg2.SimpleNodes)), replay)
						}

						// reduceShardersList
						keep, all := &minersc.MinerNodes{}, &minersc.MinerNodes{}
						for i, id := range ids {
							mn := minersc.NewMinerNode()
							mn.ID = id
							mn.TotalStaked = currency.Coin(st[i])
							all.Nodes = append(all.Nodes, mn)
							kn := minersc.NewMinerNode()
							kn.ID = id
							keep.Nodes = append(keep.Nodes, kn)
						}
						func() {
							defer func() {
								if p := recover(); p != nil {
									run.Violation("C39:reduceShardersList:panic", fmt.Sprintf("%v seed %d: panic %v", l, seed, p), replay)
								}
							}()
							nodes, err := msc.VerifStructsReduceShardersList(keep, all, gn, ctx)
							if err != nil {
								run.Violation("C39:reduceShardersList:error", fmt.Sprintf("%v: %v", l, err), replay)
								return
							}
							var got []string
							for _, x := range nodes {
								got = append(got, x.ID)
							}
							sel := toMask(got)
							if sel < 0 || len(got) != popcount(sel) || !c39Valid(l, sel, m, q) {
								run.Violation("C39:reduceShardersList:invalid-selection", fmt.Sprintf("%v seed %d: reduceShardersList selected %v = %s (required previous members %d, size %d)", l, seed, got, maskNames(l, sel), q, m), replay)
							}
							run.Outcome(fmt.Sprintf("reduceShardersList|%v|%d|%s", l, seed, maskNames(l, sel)))
						}()
						calls += 3
						run.Add(0, 3, 3)
					}
				}
			}
		}
	}
	run.Extra["caller_calls"] = calls
	run.Bounds["callers"] = "reduceNodes(final/non-final), reduceShardersList: 4 candidates, all stake vectors, every non-empty previous set, limit 1..5, percent {.25,.5,1}, 8 seeds"
}
