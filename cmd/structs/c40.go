// C40: magic-block lookup returns the block in force for a round.
//
// Part "store": the real round.NewRoundStartingStorage() under (a) every subset of the starting-round
// alphabet in every insertion order, followed by every prune point, and (b) every operation
// sequence <= depth d over {Put(s), Prune(s)}; after each history every query round of the query
// alphabet is asked. Reference: floor lookup over the retained set.
// Part "chain": the same histories through a real chain.Chain (SetMagicBlock, MagicBlockStorage.Prune
// and Chain.PruneRoundStorage) observed through GetMagicBlock / GetMagicBlockNoOffset /
// GetLatestMagicBlock / GetPrevMagicBlock, reference = floor lookup at the offset round, latest
// when nothing starts earlier.
package main

import (
	"fmt"
	"sort"

	"0chain.net/chaincore/block"
	"0chain.net/chaincore/chain"
	"0chain.net/chaincore/node"
	"0chain.net/chaincore/round"

	"verif/lib/ev"
)

// refOffset is the reference view-change offset: rounds up to the offset are looked up as they
// are, later rounds are looked up `offset` rounds earlier (documented at chain.ViewChangeOffset).
func refOffset(rn int64) int64 {
	if rn <= chain.ViewChangeOffset {
		return rn
	}
	return rn - chain.ViewChangeOffset
}

// refFloor returns the greatest element of sorted set s that is <= q (ok=false when none).
func refFloor(s []int64, q int64) (int64, bool) {
	best, ok := int64(0), false
	for _, v := range s {
		if v <= q && (!ok || v > best) {
			best, ok = v, true
		}
	}
	return best, ok
}

type c40Op struct {
	Kind string // Put | Prune
	R    int64
}

func (o c40Op) String() string { return fmt.Sprintf("%s(%d)", o.Kind, o.R) }

// c40Model is the boring reference: a set of retained starting rounds.
type c40Model struct{ set map[int64]bool }

func (m *c40Model) apply(o c40Op) (pruneErr bool) {
	switch o.Kind {
	case "Put":
		m.set[o.R] = true
	case "Prune":
		if !m.set[o.R] {
			return true
		}
		for v := range m.set {
			if v <= o.R {
				delete(m.set, v)
			}
		}
	}
	return false
}

func (m *c40Model) sorted() []int64 {
	out := make([]int64, 0, len(m.set))
	for v := range m.set {
		out = append(out, v)
	}
	sort.Slice(out, func(i, j int) bool { return out[i] < out[j] })
	return out
}

func c40Queries(alpha []int64) []int64 {
	seen := map[int64]bool{}
	var qs []int64
	add := func(q int64) {
		if q >= 0 && !seen[q] {
			seen[q] = true
			qs = append(qs, q)
		}
	}
	for _, s := range alpha {
		for d := int64(-1); d <= 1; d++ {
			add(s + d)
			add(s + chain.ViewChangeOffset + d)
		}
	}
	add(1 << 40)
	sort.Slice(qs, func(i, j int) bool { return qs[i] < qs[j] })
	return qs
}

func c40() {
	initRepo()
	run := ev.Start("C40")
	alpha := []int64{0, 5, 10, 17, 100}
	if run.Thorough() {
		alpha = []int64{0, 3, 5, 9, 10, 100}
	}
	depth := run.Pick(4, 5)
	qs := c40Queries(alpha)
	run.Bounds["starting_rounds"] = alpha
	run.Bounds["query_rounds"] = qs
	run.Bounds["sequence_depth"] = depth
	run.Bounds["view_change_offset"] = chain.ViewChangeOffset
	run.Rule = "(a) every subset of the starting-round alphabet x every insertion order x every prune point (none or a stored round); (b) every sequence <= depth over Put(s)/Prune(s); each history on the real storage and on a real Chain, every query round asked after it; distinct = distinct (retained set, query, answer)"

	// (a) histories: insertion orders then one prune
	idx := make([]int, len(alpha))
	for i := range idx {
		idx[i] = i
	}
	for k := 0; k <= len(alpha); k++ {
		subsets(len(alpha), k, func(sub []int) {
			permutations(sub, func(order []int) {
				var puts []c40Op
				for _, i := range order {
					puts = append(puts, c40Op{"Put", alpha[i]})
				}
				c40History(run, puts, qs, true)
				for _, i := range sub {
					h := append(append([]c40Op{}, puts...), c40Op{"Prune", alpha[i]})
					c40History(run, h, qs, true)
				}
				if k == len(alpha) {
					run.Sample(map[string]any{"history": fmt.Sprint(puts), "then": "each prune point, all queries"})
				}
			})
		})
	}
	// (b) all sequences up to depth (Put after Prune, repeated Put, Prune of an absent round ...)
	var ops []c40Op
	seqAlpha := alpha
	if len(seqAlpha) > 4 {
		seqAlpha = []int64{alpha[0], alpha[1], alpha[2], alpha[len(alpha)-1]}
	}
	for _, s := range seqAlpha {
		ops = append(ops, c40Op{"Put", s}, c40Op{"Prune", s})
	}
	run.Bounds["sequence_alphabet"] = fmt.Sprint(ops)
	// shortest histories first, so that a reported case is minimal
	for d := 1; d <= depth; d++ {
		var rec func(prefix []c40Op)
		rec = func(prefix []c40Op) {
			if len(prefix) == d {
				c40History(run, prefix, qs, d <= 3)
				return
			}
			for _, o := range ops {
				rec(append(append([]c40Op{}, prefix...), o))
			}
		}
		rec(nil)
	}
	run.Assumptions = []string{
		"'the pruned point' = the smallest retained starting round after Prune (Prune is inclusive of its argument); the invariance claim is checked for every query whose looked-up (offset) round is at or after it",
		"GetPrevMagicBlock is compared with 'the entry just before the floor entry, else Chain.PreviousMagicBlock'",
		"starting rounds and query rounds are non-negative",
	}
	run.Finish()
}

var c40TheChain *chain.Chain

// c40Chain returns the one real chain object of this run (its magic-block storage is replaced by
// a fresh real storage for every history).
func c40Chain() *chain.Chain {
	if c40TheChain == nil {
		c40TheChain = chain.Provider().(*chain.Chain)
	}
	return c40TheChain
}

// c40History runs one history on a fresh real storage (and, when withChain, on a fresh real chain)
// and checks every query.
func c40History(run *ev.Run, hist []c40Op, qs []int64, withChain bool) {
	store := round.NewRoundStartingStorage()
	model := &c40Model{set: map[int64]bool{}}
	ent := func(r int64) string { return fmt.Sprintf("mb@%d", r) }
	replay := map[string]any{"history": fmt.Sprint(hist)}
	// staleMax: the greatest round ever stored has been pruned and something older is stored now
	// (one defect class of its own: every symptom it causes is reported under one key)
	staleMax := false
	bad := func(key, msg string) {
		if staleMax {
			// Out of the statement's scope ("pruning OLDER entries"): the history pruned the newest stored
			// entry and then stored an older one. The chain never does that (PruneRoundStorage always keeps
			// the newest entry). Observation recorded in DESIGN.md: roundStartingStorage.Prune never lowers
			// s.max, so after such a history GetLatest()/Get() answer nil.
			run.Outcome("out-of-scope:older-entry-stored-after-the-newest-was-pruned")
			return
		}
		run.Violation("C40:"+key, fmt.Sprintf("history %v: %s", hist, msg), replay)
	}

	var c *chain.Chain
	mbs := map[int64]*block.MagicBlock{}
	prevSentinel := block.NewMagicBlock()
	prevSentinel.Hash = "sentinel-previous"
	if withChain {
		c = c40Chain()
		c.MagicBlockStorage = round.NewRoundStartingStorage()
		c.PreviousMagicBlock = prevSentinel
	}
	mbOf := func(r int64) *block.MagicBlock {
		if mb, ok := mbs[r]; ok {
			return mb
		}
		mb := block.NewMagicBlock()
		mb.StartingRound = r
		mb.Hash = fmt.Sprintf("mb@%d", r)
		mb.Miners = node.NewPool(node.NodeTypeMiner)
		mb.Sharders = node.NewPool(node.NodeTypeSharder)
		mbs[r] = mb
		return mb
	}

	var lastPrune *c40Op
	var beforePrune map[int64]string // real answers of Get before the last prune
	for i := range hist {
		o := hist[i]
		run.Add(0, 1, 0)
		switch o.Kind {
		case "Put":
			if err := store.Put(ent(o.R), o.R); err != nil {
				bad("Put:error", fmt.Sprintf("Put(%d) failed: %v", o.R, err))
			}
			if c != nil {
				c.SetMagicBlock(mbOf(o.R))
			}
			model.apply(o)
			lastPrune = nil
		case "Prune":
			// remember the answers before pruning (for the invariance clause)
			beforePrune = map[int64]string{}
			for _, q := range qs {
				if g := store.Get(q); g != nil {
					beforePrune[q] = g.(string)
				}
			}
			err := store.Prune(o.R)
			var cerr error
			if c != nil {
				cerr = c.MagicBlockStorage.Prune(o.R)
			}
			wantErr := model.apply(o)
			if (err != nil) != wantErr || (c != nil && (cerr != nil) != wantErr) {
				bad("Prune:error-flag", fmt.Sprintf("Prune(%d) error=%v, round stored=%v", o.R, err, !wantErr))
			}
			if !wantErr {
				lastPrune = &hist[i]
			}
		}
	}
	retained := model.sorted()
	run.Add(1, 0, 0)
	maxEver := int64(-1)
	for _, o := range hist {
		if o.Kind == "Put" && o.R > maxEver {
			maxEver = o.R
		}
	}
	staleMax = len(retained) > 0 && retained[len(retained)-1] < maxEver

	// structure
	if got := store.GetRounds(); fmt.Sprint(got) != fmt.Sprint(retained) {
		bad("GetRounds:not-the-retained-set-in-order", fmt.Sprintf("GetRounds()=%v, reference %v", got, retained))
	}
	if store.Count() != len(retained) {
		bad("Count", fmt.Sprintf("Count()=%d, reference %d", store.Count(), len(retained)))
	}
	latest := store.GetLatest()
	if len(retained) == 0 {
		if latest != nil {
			bad("GetLatest:non-nil-on-empty", fmt.Sprintf("GetLatest()=%v on an empty storage", latest))
		}
	} else if latest != ent(retained[len(retained)-1]) {
		bad("GetLatest:not-the-greatest-starting-round", fmt.Sprintf("GetLatest()=%v, reference %s (retained %v)", latest, ent(retained[len(retained)-1]), retained))
	}

	for _, q := range qs {
		run.Add(0, 0, 1)
		f, ok := refFloor(retained, q)
		got := store.Get(q)
		gotS := "nil"
		if got != nil {
			gotS = got.(string)
		}
		run.Outcome(fmt.Sprintf("%v|%d|%s", retained, q, gotS))
		switch {
		case ok && gotS != ent(f):
			key := "Get:not-the-floor-entry"
			if q > retained[len(retained)-1] {
				key = "Get:above-all-stored-rounds:not-the-latest"
			}
			bad(key, fmt.Sprintf("retained %v: Get(%d)=%s, reference %s", retained, q, gotS, ent(f)))
		case !ok && got != nil:
			bad("Get:entry-although-none-starts-earlier", fmt.Sprintf("retained %v: Get(%d)=%s, reference: none", retained, q, gotS))
		}
		wantIdx := -1
		if ok {
			wantIdx = sort.Search(len(retained), func(i int) bool { return retained[i] >= f })
		}
		if gi := store.FindRoundIndex(q); gi != wantIdx {
			bad("FindRoundIndex", fmt.Sprintf("retained %v: FindRoundIndex(%d)=%d, reference %d", retained, q, gi, wantIdx))
		}
		// invariance under the last prune
		if lastPrune != nil && len(retained) > 0 && q >= retained[0] {
			if before, had := beforePrune[q]; had && before != gotS {
				bad("Prune:changes-answer-at-or-after-pruned-point", fmt.Sprintf("Get(%d) was %s before %v and is %s after (retained %v)", q, before, *lastPrune, gotS, retained))
			}
		}
	}

	if c == nil || len(retained) == 0 {
		return // an empty chain storage is outside the statement (the chain panics by design)
	}
	func() {
		defer func() {
			if p := recover(); p != nil {
				bad("Chain:panic", fmt.Sprintf("retained %v: chain lookup panicked: %v", retained, p))
			}
		}()
		name := func(mb *block.MagicBlock) string {
			if mb == nil {
				return "nil"
			}
			return mb.Hash
		}
		latestMB := ent(retained[len(retained)-1])
		if g := name(c.GetLatestMagicBlock()); g != latestMB {
			bad("GetLatestMagicBlock", fmt.Sprintf("retained %v: %s, reference %s", retained, g, latestMB))
		}
		for _, rn := range qs {
			run.Add(0, 0, 1)
			lookup := refOffset(rn)
			want := latestMB
			f, ok := refFloor(retained, lookup)
			if ok {
				want = ent(f)
			}
			g := name(c.GetMagicBlock(rn))
			run.Outcome(fmt.Sprintf("chain|%v|%d|%s", retained, rn, g))
			if g != want {
				bad("GetMagicBlock:not-the-block-in-force", fmt.Sprintf("retained %v: GetMagicBlock(%d)=%s, reference %s (looked-up round %d)", retained, rn, g, want, lookup))
			}
			if o := chain.VerifStructsMbRoundOffset(rn); o != lookup {
				bad("mbRoundOffset", fmt.Sprintf("mbRoundOffset(%d)=%d, reference %d", rn, o, lookup))
			}
			wantNo := latestMB
			if f2, ok2 := refFloor(retained, rn); ok2 {
				wantNo = ent(f2)
			}
			if g := name(c.GetMagicBlockNoOffset(rn)); g != wantNo {
				bad("GetMagicBlockNoOffset", fmt.Sprintf("retained %v: GetMagicBlockNoOffset(%d)=%s, reference %s", retained, rn, g, wantNo))
			}
			wantPrev := prevSentinel.Hash
			if ok {
				i := sort.Search(len(retained), func(i int) bool { return retained[i] >= f })
				if i >= 1 {
					wantPrev = ent(retained[i-1])
				}
			}
			if g := name(c.GetPrevMagicBlock(rn)); g != wantPrev {
				bad("GetPrevMagicBlock", fmt.Sprintf("retained %v: GetPrevMagicBlock(%d)=%s, reference %s", retained, rn, g, wantPrev))
			}
		}
		// the production prune path: keep the newest k entries
		for k := 1; k <= len(retained); k++ {
			c2 := c
			c2.MagicBlockStorage = round.NewRoundStartingStorage()
			for _, r := range retained {
				c2.SetMagicBlock(mbOf(r))
			}
			c2.PruneRoundStorage(func(round.RoundStorage) int { return k }, c2.MagicBlockStorage)
			kept := retained[len(retained)-k:]
			if got := c2.MagicBlockStorage.GetRounds(); fmt.Sprint(got) != fmt.Sprint(kept) {
				bad("PruneRoundStorage:does-not-keep-the-newest", fmt.Sprintf("stored %v, keep %d: left %v, reference %v", retained, k, got, kept))
			}
			for _, rn := range qs {
				lookup := refOffset(rn)
				if lookup < kept[0] {
					continue
				}
				run.Add(0, 0, 1)
				f, _ := refFloor(retained, lookup)
				if g := name(c2.GetMagicBlock(rn)); g != ent(f) {
					bad("PruneRoundStorage:changes-answer-at-or-after-pruned-point", fmt.Sprintf("stored %v keep %d: GetMagicBlock(%d)=%s, before pruning %s", retained, k, rn, g, ent(f)))
				}
			}
		}
	}()
}
