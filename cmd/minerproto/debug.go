package main

import (
	"fmt"
	"os"

	"0chain.net/chaincore/transaction"
	"0chain.net/core/common"
	"verif/lib/world"
)

func debug45() {
	w := world.New(c45Options(os.Getenv("TIGHT") != ""))
	m := setupMiner(w)
	e := &c45env{m: m, w: w, now: common.Now()}
	a := e.alphabet([]int64{1, 1}, "genesis")
	byName := map[string]*transaction.Transaction{}
	for _, x := range a {
		byName[x.Name] = x.T
	}
	var pool []*transaction.Transaction
	for _, n := range os.Args[3:] {
		t, ok := byName[n]
		if !ok {
			fmt.Println("unknown", n)
			for k := range byName {
				fmt.Println(" ", k)
			}
			return
		}
		pool = append(pool, t)
	}
	b, err := e.generate(1, w.Genesis, nil, 1, 9001, pool)
	fmt.Println("gen err:", err)
	for i, c := range w.Clients {
		bal, n := world.Balance(w.Genesis.ClientState, c.ID)
		fmt.Printf("c%d %s bal=%d nonce=%d\n", i, c.ID[:8], bal, n)
	}
	for _, t := range b.Txns {
		fmt.Printf("txn %s client=%.8s pk=%.8s nonce=%d fn=%s status=%d out=%.80s\n", t.Hash[:8], t.ClientID, t.PublicKey, t.Nonce, t.FunctionName, t.Status, t.TransactionOutput)
	}
	rb, err := e.wire(b, false)
	fmt.Println("wire err:", err)
	_, err = e.verify(2, rb, nil)
	fmt.Println("verify err:", err)
	for i, c := range w.Clients {
		bal, n := world.Balance(rb.ClientState, c.ID)
		fmt.Printf("after: c%d bal=%d nonce=%d\n", i, bal, n)
	}
}
