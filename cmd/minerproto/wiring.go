package main

import (
	"context"
	"errors"

	"0chain.net/chaincore/block"
	"0chain.net/chaincore/chain"
	"0chain.net/chaincore/node"
	"0chain.net/chaincore/round"
	"0chain.net/core/datastore"
	"0chain.net/core/memorystore"
	"0chain.net/miner"
	"github.com/gomodule/redigo/redis"
	"verif/lib/world"
)

// nopConn stands in for a redis connection: the "txn"/"client" entities live in the world's
// MemStore, so the connection objects the miner code opens and closes around store calls are
// never used for I/O.
type nopConn struct{}

func (nopConn) Close() error                                       { return nil }
func (nopConn) Err() error                                         { return nil }
func (nopConn) Do(string, ...interface{}) (interface{}, error)     { return nil, errors.New("verif: no redis") }
func (nopConn) Send(string, ...interface{}) error                  { return errors.New("verif: no redis") }
func (nopConn) Flush() error                                       { return nil }
func (nopConn) Receive() (interface{}, error)                      { return nil, errors.New("verif: no redis") }

func nopPool() *redis.Pool {
	return &redis.Pool{MaxIdle: 4, Dial: func() (redis.Conn, error) { return nopConn{}, nil }}
}

// minerWorld is the world plus the miner chain on top of it.
type minerWorld struct {
	W   *world.World
	MC  *miner.Chain
	MB  *block.MagicBlock
	GR  *miner.Round // genesis round as a miner round
	Ctx context.Context
}

// setupMiner puts miner.SetupMinerChain on top of the world's chain the way miner/miner/main does
// (minus network handlers and workers): miner round factory, genesis round wrapped into a miner
// round, redis pools replaced by no-op pools.
func setupMiner(w *world.World) *minerWorld {
	memorystore.AddPool("txndb", nopPool())
	memorystore.AddPool("clientdb", nopPool())
	miner.SetupNotarizationEntity()
	block.SetupBVTEntity()
	miner.SetupMinerChain(w.Chain)
	// production N2N senders/requestors (miner/miner: initN2NHandlers); every other node is
	// inactive, so each send / fetch is a no-op that finds nobody
	miner.SetupM2MSenders()
	miner.SetupM2SSenders()
	miner.SetupM2SRequestors()
	miner.SetupM2MRequestors()
	chain.SetupX2MRequestors()
	chain.SetupX2SRequestors()
	chain.SetupLFBTicketSender()
	mc := miner.GetMinerChain()
	w.Chain.VerifStartBlockFetchWorker(w.Ctx) // as Chain.SetupWorkers does; every fetch finds no active node
	mc.SetGenerationTimeout(15)
	mc.SetRetryWaitTime(5)
	gr, ok := w.GenesisRound.(*round.Round)
	if !ok {
		panic("genesis round is not a *round.Round")
	}
	mgr := mc.CreateRound(gr)
	w.Chain.VerifResetTo(w.Genesis, mgr)
	mb := mc.GetMagicBlock(0)
	return &minerWorld{W: w, MC: mc, MB: mb, GR: mgr, Ctx: w.Ctx}
}

// reset forgets every round and block except genesis.
func (m *minerWorld) reset() {
	m.W.Chain.VerifResetRoundsBlocks(m.W.Genesis, m.GR)
	m.W.Chain.VerifSetCurrentRound(0)
}

func (m *minerWorld) minerNode(i int) *node.Node { return m.MB.Miners.GetNode(m.W.Miners[i].ID) }
func (m *minerWorld) sharderNode(i int) *node.Node {
	return m.MB.Sharders.GetNode(m.W.Sharders[i].ID)
}

var _ = datastore.EmptyKey
