// Binary minerproto: miner-side protocol properties on a real chain.Chain + miner.Chain built
// in-process (world + miner.SetupMinerChain), without network or redis.
//
//	C33  all miners derive the same round random seed          (c33.go)
//	C31  notarized only with enough verified tickets           (c31.go)
//	C45  blocks of an honest generator pass honest verification (c45.go)
//
// Every property is a bounded exhaustive enumeration; the work is sharded over worker
// subprocesses (one world per process), the parent merges counters, outcomes and violations.
package main

import (
	"crypto/sha256"
	"encoding/json"
	"fmt"
	"os"
	"os/exec"
	"runtime"
	"runtime/pprof"
	"sort"
	"time"

	"verif/lib/ev"
)

// shardOut is what a worker reports to the parent.
type shardOut struct {
	States      int64               `json:"states"`
	Transitions int64               `json:"transitions"`
	Evals       int64               `json:"evals"`
	Outcomes    map[string]int64    `json:"outcomes"`
	Counters    map[string]int64    `json:"counters"`
	Violations  []vio               `json:"violations"`
	Samples     []any               `json:"samples"`
	Capped      string              `json:"capped"`
	Sets        map[string][]string `json:"sets"` // named value sets merged across workers (C33 seeds)
}

type vio struct {
	Key    string `json:"key"`
	What   string `json:"what"`
	Replay any    `json:"replay"`
	Size   int    `json:"size"` // smaller = simpler case; the parent keeps the simplest per key
}

func newShardOut() *shardOut {
	return &shardOut{Outcomes: map[string]int64{}, Counters: map[string]int64{}, Sets: map[string][]string{}}
}

func (s *shardOut) violate(key, what string, replay any) { s.violateSized(key, what, replay, 0) }

func (s *shardOut) violateSized(key, what string, replay any, size int) {
	for i, v := range s.Violations {
		if v.Key == key {
			if size < v.Size {
				s.Violations[i] = vio{key, what, replay, size}
			}
			return
		}
	}
	s.Violations = append(s.Violations, vio{key, what, replay, size})
}

func (s *shardOut) sample(v any) {
	if len(s.Samples) < 3 {
		s.Samples = append(s.Samples, v)
	}
}

func (s *shardOut) addSet(name, v string) {
	for _, x := range s.Sets[name] {
		if x == v {
			return
		}
	}
	s.Sets[name] = append(s.Sets[name], v)
}

func shard() (idx, n int, ok bool) {
	sh := os.Getenv("VERIF_SHARD")
	if sh == "" {
		return 0, 1, false
	}
	fmt.Sscanf(sh, "%d/%d", &idx, &n)
	return idx, n, true
}

// workerDeadline is the per-worker budget (a budget, never a verdict).
func workerDeadline(run *ev.Run, quickS, thoroughS int) time.Time {
	return time.Now().Add(time.Duration(run.Pick(quickS, thoroughS)) * time.Second)
}

// fanout runs n workers of this binary and merges their outputs.
// extraWorkerEnv, when set, adds environment variables for worker i (C44: GORACE log path).
var extraWorkerEnv func(i int) []string

func fanout(run *ev.Run) *shardOut { return fanoutN(run, 0) }

// fanoutN runs exactly n workers when n > 0 (a check whose workers are split into fixed
// configuration groups), otherwise min(16, CPUs) or VERIF_WORKERS.
func fanoutN(run *ev.Run, fixed int) *shardOut {
	n := runtime.NumCPU()
	if n > 16 {
		n = 16
	}
	if v := os.Getenv("VERIF_WORKERS"); v != "" {
		fmt.Sscanf(v, "%d", &n)
	}
	if fixed > 0 {
		n = fixed
	}
	bin := os.Getenv("VERIF_BIN")
	if bin == "" {
		bin, _ = os.Executable()
	}
	_ = os.MkdirAll(ev.Root()+"/.work", 0o755)
	dir, err := os.MkdirTemp(ev.Root()+"/.work", "minerproto")
	if err != nil {
		ev.Fatal("mkdir: %v", err)
	}
	defer os.RemoveAll(dir)
	type res struct {
		i   int
		err error
		log string
	}
	ch := make(chan res, n)
	for i := 0; i < n; i++ {
		go func(i int) {
			cmd := exec.Command(bin, os.Args[1:]...)
			cmd.Env = append(os.Environ(), "VERIF_BIN="+bin)
			if extraWorkerEnv != nil {
				cmd.Env = append(cmd.Env, extraWorkerEnv(i)...)
			}
			cmd.Env = append(cmd.Env, fmt.Sprintf("VERIF_SHARD=%d/%d", i, n), fmt.Sprintf("VERIF_SHARD_OUT=%s/%d.json", dir, i), "GOMAXPROCS=2")
			out, err := cmd.CombinedOutput()
			ch <- res{i, err, string(out)}
		}(i)
	}
	total := newShardOut()
	for k := 0; k < n; k++ {
		r := <-ch
		data, rerr := os.ReadFile(fmt.Sprintf("%s/%d.json", dir, r.i))
		if r.err != nil || rerr != nil {
			tail := r.log
			if len(tail) > 3000 {
				tail = tail[len(tail)-3000:]
			}
			ev.Fatal("worker %d failed: %v %v\n%s", r.i, r.err, rerr, tail)
		}
		var so shardOut
		if err := json.Unmarshal(data, &so); err != nil {
			ev.Fatal("shard output: %v", err)
		}
		total.States += so.States
		total.Transitions += so.Transitions
		total.Evals += so.Evals
		for k, c := range so.Outcomes {
			total.Outcomes[k] += c
		}
		for k, c := range so.Counters {
			total.Counters[k] += c
		}
		for _, v := range so.Violations {
			total.violateSized(v.Key, v.What, v.Replay, v.Size)
		}
		for _, s := range so.Samples {
			if len(total.Samples) < 6 {
				total.Samples = append(total.Samples, s)
			}
		}
		if so.Capped != "" && total.Capped == "" {
			total.Capped = so.Capped
		}
		for name, vs := range so.Sets {
			for _, v := range vs {
				total.addSet(name, v)
			}
		}
	}
	sort.Slice(total.Violations, func(i, j int) bool { return total.Violations[i].Key < total.Violations[j].Key })
	return total
}

func writeShard(so *shardOut) {
	data, err := json.Marshal(so)
	if err != nil {
		ev.Fatal("marshal shard: %v", err)
	}
	if err := os.WriteFile(os.Getenv("VERIF_SHARD_OUT"), data, 0o644); err != nil {
		ev.Fatal("write shard: %v", err)
	}
	pprof.StopCPUProfile()
	os.Exit(0)
}

// report copies a merged shard result into the run.
func report(run *ev.Run, t *shardOut) {
	run.Add(t.States, t.Transitions, t.Evals)
	keys := make([]string, 0, len(t.Outcomes))
	for k := range t.Outcomes {
		keys = append(keys, k)
		run.Outcome(k)
	}
	sort.Strings(keys)
	run.Extra["outcomes"] = t.Outcomes
	run.Extra["counters"] = t.Counters
	for _, s := range t.Samples {
		run.Sample(s)
	}
	if t.Capped != "" {
		run.Capped(t.Capped)
	}
	for _, v := range t.Violations {
		run.Violation(v.Key, v.What, v.Replay)
	}
}

// detRand is a deterministic byte stream (SHA-256 in counter mode) used as the herumi RNG, so
// that the DKG polynomials are the same in every worker and every run.
type detRand struct {
	ctr uint64
	buf []byte
}

func (d *detRand) Read(p []byte) (int, error) {
	for i := range p {
		if len(d.buf) == 0 {
			h := sha256.Sum256([]byte(fmt.Sprintf("verif-minerproto-rand-%d", d.ctr)))
			d.ctr++
			d.buf = h[:]
		}
		p[i] = d.buf[0]
		d.buf = d.buf[1:]
	}
	return len(p), nil
}

func main() {
	if len(os.Args) < 2 {
		ev.Fatal("usage: minerproto <C33|C31|C45> <quick|thorough>")
	}
	if pf := os.Getenv("VERIF_CPUPROFILE"); pf != "" {
		f, _ := os.Create(pf)
		_ = pprof.StartCPUProfile(f)
		defer pprof.StopCPUProfile()
	}
	switch os.Args[1] {
	case "C33":
		c33()
	case "C31":
		c31()
	case "C44":
		c44()
	case "C45":
		if len(os.Args) > 2 && os.Args[2] == "debug" {
			debug45()
			return
		}
		c45()
	default:
		ev.Fatal("unknown property %s", os.Args[1])
	}
}
