// C33: all miners derive the same round random seed.
//
// A real DKG (chaincore/threshold/bls, deterministic polynomial stream) is run for (t,n) in
// {(2,3),(3,4)} among the first n miners of the world's magic block. For every context
// (round, timeout count, previous round seed, verifying miner) and every invalid-share family,
// EVERY sequence of L share messages over the letters
//
//	V(p)  share of DKG party p made by the real GetBlsShare under p's own DKG
//	X(p)  an invalid share claimed by party p (family: other party's key / other previous seed /
//	      other timeout count, mislabelled / other timeout count, honestly labelled (parked in the
//	      share cache) / undecodable)
//	O     a share from a registered node that is no DKG party (a sharder): own key, or the zero
//	      signature (family dependent)
//
// (a party may speak twice: exact duplicate, valid+invalid in both orders) is delivered through the
// real miner.Chain.handleVRFShare -> AddVRFShare -> verifyVRFShare -> Round.AddVRFShare ->
// ThresholdNumBLSSigReceived -> CalBlsGpSign -> computeRoundRandomSeed on a fresh miner round.
// After every delivery:
//
//	(a) every share the round counts belongs to a DKG party and verifies (herumi Verify under the
//	    public key of that party's own secret share, over the round's message);
//	(b) a seed is set only if >= t distinct parties have delivered a share that verifies;
//	(c) all runs (all orders, subsets, families, verifying miners, workers) of one
//	    (t,n,round,timeout count,previous seed) that set a seed set the same seed.
package main

import (
	"fmt"
	"os"
	"sort"
	"strings"
	"time"

	"0chain.net/chaincore/node"
	"0chain.net/chaincore/round"
	tbls "0chain.net/chaincore/threshold/bls"
	"0chain.net/miner"
	hbls "github.com/herumi/bls-go-binary/bls"
	"verif/lib/ev"
	"verif/lib/world"
)

type c33ctx struct {
	T, N     int
	Round    int64
	TC       int
	PrevSeed int64
	Self     int // verifying miner (whose DKG object verifies)
}

func (c c33ctx) seedKey() string {
	return fmt.Sprintf("t=%d n=%d round=%d tc=%d prev=%d", c.T, c.N, c.Round, c.TC, c.PrevSeed)
}

var c33Families = []string{"other-key", "other-prev-seed", "other-tc-mislabelled", "other-tc-cached", "undecodable", "other-round"}
var c33Outsider = map[string]string{"other-key": "own-key", "other-prev-seed": "zero-sig", "other-tc-mislabelled": "own-key", "other-tc-cached": "zero-sig", "undecodable": "own-key", "other-round": "zero-sig"}

type c33letter struct {
	Party int    // index into parties; -1 = outsider
	Kind  string // "V", "X", "O"
}

func (l c33letter) String() string {
	if l.Party < 0 {
		return "O"
	}
	return fmt.Sprintf("%s%d", l.Kind, l.Party)
}

type c33dkg struct {
	t, n  int
	dkgs  []*tbls.DKG
	pubs  []*hbls.PublicKey // public key of each party's own aggregated secret share
	nodes []*node.Node
}

func makeDKG(m *minerWorld, t, n int) *c33dkg {
	d := &c33dkg{t: t, n: n}
	ids := make([]string, n)
	pids := make([]tbls.PartyID, n)
	mpks := map[tbls.PartyID][]tbls.PublicKey{}
	for i := 0; i < n; i++ {
		ids[i] = m.W.Miners[i].ID
		d.nodes = append(d.nodes, m.minerNode(i))
		d.dkgs = append(d.dkgs, tbls.MakeDKG(t, n, ids[i]))
		pids[i] = tbls.ComputeIDdkg(ids[i])
		mpks[pids[i]] = d.dkgs[i].GetMPKs()
	}
	for i := 0; i < n; i++ {
		for j := 0; j < n; j++ {
			s, err := d.dkgs[i].ComputeDKGKeyShare(pids[j])
			if err != nil {
				ev.Fatal("dkg share: %v", err)
			}
			if !d.dkgs[j].ValidateShare(mpks[pids[i]], s) {
				ev.Fatal("dkg share %d->%d does not validate", i, j)
			}
			if err := d.dkgs[j].AddSecretShare(pids[i], s.GetHexString(), false); err != nil {
				ev.Fatal("dkg add share: %v", err)
			}
		}
	}
	for j := 0; j < n; j++ {
		d.dkgs[j].AggregateSecretKeyShares()
		if err := d.dkgs[j].AggregatePublicKeyShares(mpks); err != nil {
			ev.Fatal("dkg aggregate: %v", err)
		}
		d.pubs = append(d.pubs, d.dkgs[j].Si.GetPublicKey())
	}
	return d
}

var refMemo = map[string]bool{}

// refVerify is the reference verification (memoised on identical inputs).
func refVerify(pub *hbls.PublicKey, share, msg string) bool {
	k := pub.GetHexString() + "|" + share + "|" + msg
	if v, ok := refMemo[k]; ok {
		return v
	}
	v := refVerifyRaw(pub, share, msg)
	refMemo[k] = v
	return v
}

func refVerifyRaw(pub *hbls.PublicKey, share, msg string) bool {
	var s hbls.Sign
	if err := s.SetHexString(share); err != nil {
		return false
	}
	return s.Verify(pub, msg)
}

func c33() {
	run := ev.Start("C33")
	L := run.Pick(4, 5)
	c33Thorough = run.Thorough()
	if _, _, isWorker := shard(); isWorker {
		c33worker(run, L)
		return
	}
	t := fanout(run)
	// (c) agreement across everything that shares (t,n,round,tc,prev)
	names := make([]string, 0, len(t.Sets))
	for k := range t.Sets {
		names = append(names, k)
	}
	sort.Strings(names)
	accepting := 0
	for _, k := range names {
		seeds := t.Sets[k]
		sort.Strings(seeds)
		if len(seeds) > 0 {
			accepting++
		}
		if len(seeds) > 1 {
			t.violate("C33:computeRoundRandomSeed:seeds-differ-across-runs", fmt.Sprintf("context %s: accepting runs set different seeds %v", k, seeds), map[string]any{"context": k, "seeds": seeds})
		}
	}
	report(run, t)
	run.Rule = "for (t,n) in {(2,3),(3,4)} x contexts (round, timeout count, previous seed, verifying miner) x 6 invalid-share families: all sequences of exactly L messages over {valid share of party p, invalid share claimed by p, outsider share}, each party speaking at most twice, oracle evaluated after every delivery (so every shorter sequence is covered as a prefix); plus, for each of three parking reasons (share for a future round / previous round's seed unknown / share of a higher timeout count), all sequences of L-1 such messages with the parking-ending event before message 1..L-1, so that valid and invalid shares are parked unverified in the VRF share cache in every order relative to the round start and the on-time shares; distinct = (t,n,family,#parties with a verifying share,#counted,seed set?) classes"
	run.Bounds["sequence_length"] = L
	run.Bounds["parked_sequence_length"] = L - 1
	run.Bounds["parking_reasons"] = []string{"future-round (current round = round-1, ended by SetCurrentRound)", "prev-seed-unknown (ended by SetRandomSeed on the previous round)", "higher-timeout (round one timeout behind, ended by Restart+IncrementTimeoutCount as restartRound does; contexts with timeout count 1)"}
	run.Bounds["parking_end_positions"] = "before message 1..L-1 (position 0 = the on-time sequences)"
	run.Bounds["tn"] = "(2,3),(3,4)"
	run.Bounds["families"] = c33Families
	run.Bounds["contexts"] = len(c33Contexts(2, 3)) + len(c33Contexts(3, 4))
	run.Extra["contexts_with_a_seed"] = accepting
	run.Extra["seed_per_context"] = t.Sets
	run.Assumptions = []string{
		"DKG polynomials come from a fixed deterministic stream (bls.SetRandFunc); one DKG instance per (t,n)",
		"'verified' = herumi Verify under the public key of the party's own aggregated secret share over the message the real GetBlsMessageForRound builds for (round, timeout count, previous seed); the message layout itself is the implementation's",
		"the node's current round equals the share's round, so TryProposeBlock/StartVerification run as in production (no block to extend, other nodes inactive); their effects are not observed",
		">= t verifying shares delivered but no seed (liveness) is recorded as an outcome, not demanded",
	}
	run.Finish()
}

var c33Thorough bool

func c33Contexts(t, n int) []c33ctx {
	var out []c33ctx
	for i, rn := range []int64{2, 12} {
		for j, tc := range []int{0, 1} {
			for k, ps := range []int64{1, -7046029254386353131} {
				if !c33Thorough && (i+j+k)%2 == 1 {
					continue // quick tier: a 4-context half of the product in which every value of every coordinate occurs twice
				}
				out = append(out, c33ctx{T: t, N: n, Round: rn, TC: tc, PrevSeed: ps, Self: 0})
			}
		}
	}
	// the same contexts seen by another verifying miner (its DKG object holds the group keys)
	out = append(out, c33ctx{T: t, N: n, Round: 2, TC: 0, PrevSeed: 1, Self: n - 1})
	out = append(out, c33ctx{T: t, N: n, Round: 12, TC: 1, PrevSeed: 1, Self: 1})
	return out
}

func c33worker(run *ev.Run, L int) {
	idx, nsh, _ := shard()
	deadline := workerDeadline(run, 170, 840)
	hbls.SetRandFunc(&detRand{})
	w := world.New(world.Options{})
	m := setupMiner(w)
	so := newShardOut()
	outsider := m.sharderNode(0)
	outKey := world.DetKey("c33-outsider")
	_ = outKey
	var zero hbls.Sign
	zeroHex := zero.GetHexString()

	dk := []*c33dkg{makeDKG(m, 2, 3), makeDKG(m, 3, 4)}
	counter := 0
	for _, d := range dk {
		// letters
		var letters []c33letter
		for p := 0; p < d.n; p++ {
			letters = append(letters, c33letter{p, "V"}, c33letter{p, "X"})
		}
		letters = append(letters, c33letter{-1, "O"})
		for _, cx := range c33Contexts(d.t, d.n) {
			// share strings of this context, made by the real share-producing path of each party
			mkRounds := func(rn int64, tc int, prev int64, seedKnown bool) (*miner.Round, *miner.Round) {
				m.reset()
				pr := m.MC.CreateRound(round.NewRound(rn - 1))
				pr = m.MC.AddRound(pr).(*miner.Round)
				if seedKnown && !m.MC.SetRandomSeed(pr, prev) {
					ev.Fatal("cannot set previous seed")
				}
				mr := m.MC.CreateRound(round.NewRound(rn))
				mr = m.MC.AddRound(mr).(*miner.Round)
				if tc > 0 {
					mr.SetTimeoutCount(tc)
				}
				w.Chain.VerifSetCurrentRound(rn)
				return pr, mr
			}
			signAll := func(rn int64, tc int, prev int64) ([]string, string) {
				_, mr := mkRounds(rn, tc, prev, true)
				msg, err := m.MC.GetBlsMessageForRound(mr.Round)
				if err != nil {
					ev.Fatal("bls message: %v", err)
				}
				out := make([]string, d.n)
				for p := 0; p < d.n; p++ {
					if err := m.MC.SetDKG(d.dkgs[p], 0); err != nil {
						ev.Fatal("set dkg: %v", err)
					}
					s, err := m.MC.GetBlsShare(m.Ctx, mr.Round)
					if err != nil {
						ev.Fatal("GetBlsShare: %v", err)
					}
					out[p] = s
				}
				return out, msg
			}
			valid, msg := signAll(cx.Round, cx.TC, cx.PrevSeed)
			otherPrev, _ := signAll(cx.Round, cx.TC, cx.PrevSeed+1)
			otherTC, _ := signAll(cx.Round, cx.TC+1, cx.PrevSeed)
			otherRound, _ := signAll(cx.Round+1, cx.TC, cx.PrevSeed)
			for p := 0; p < d.n; p++ {
				if !refVerify(d.pubs[p], valid[p], msg) || refVerify(d.pubs[p], otherPrev[p], msg) || refVerify(d.pubs[p], otherTC[p], msg) || refVerify(d.pubs[p], otherRound[p], msg) || refVerify(d.pubs[(p+1)%d.n], valid[p], msg) {
					ev.Fatal("reference verification inconsistent for party %d in %+v", p, cx)
				}
			}
			outOwn := outKeySign(msg)
			if err := m.MC.SetDKG(d.dkgs[cx.Self], 0); err != nil {
				ev.Fatal("set dkg: %v", err)
			}

			for _, fam := range c33Families {
				// share of a letter: (label tc, share string)
				shareOf := func(l c33letter) (int, string) {
					if l.Party < 0 {
						if c33Outsider[fam] == "zero-sig" {
							return cx.TC, zeroHex
						}
						return cx.TC, outOwn
					}
					if l.Kind == "V" {
						return cx.TC, valid[l.Party]
					}
					switch fam {
					case "other-key":
						return cx.TC, valid[(l.Party+1)%d.n]
					case "other-prev-seed":
						return cx.TC, otherPrev[l.Party]
					case "other-tc-mislabelled":
						return cx.TC, otherTC[l.Party]
					case "other-tc-cached":
						return cx.TC + 1, otherTC[l.Party]
					case "other-round":
						return cx.TC, otherRound[l.Party]
					default:
						return cx.TC, "zz" + valid[l.Party][2:]
					}
				}
				// reason "" = every share arrives on time (sequence length L); otherwise the node starts in
				// a state in which shares of the target (round, timeout count) are parked unverified, and the
				// event that ends that state happens before message number epos (sequence length L-1)
				reasons := []string{"", "future-round", "prev-seed-unknown"}
				if cx.TC > 0 {
					reasons = append(reasons, "higher-timeout")
				}
				for _, reason := range reasons {
					n := L
					eposList := []int{0}
					if reason != "" {
						n = L - 1
						eposList = eposList[:0]
						for ep := 1; ep <= n; ep++ {
							eposList = append(eposList, ep)
						}
					}
					seq := make([]int, n)
					var rec func(pos int)
					rec = func(pos int) {
						if pos == n {
							for _, epos := range eposList {
								counter++
								if counter%nsh != idx {
									continue
								}
								if so.Capped == "" && time.Now().After(deadline) {
									so.Capped = fmt.Sprintf("worker time budget reached in %s", cx.seedKey())
								}
								if so.Capped != "" {
									return
								}
								c33run(m, so, d, cx, fam, msg, letters, seq, shareOf, mkRounds, outsider, reason, epos)
							}
							return
						}
						for li, l := range letters {
							// each speaker at most twice
							cnt := 0
							for _, prev := range seq[:pos] {
								if letters[prev].Party == l.Party {
									cnt++
								}
							}
							if cnt >= 2 {
								continue
							}
							seq[pos] = li
							rec(pos + 1)
						}
					}
					rec(0)
				}
			}
		}
	}
	so.Counters["bls_zero_signature_hex_len"] = int64(len(zeroHex))
	writeShard(so)
	_ = os.Stdout
}

// outKeySign signs msg with a key that belongs to no DKG party.
func outKeySign(msg string) string {
	var sk hbls.SecretKey
	if err := sk.SetHexString("1f2e3d4c5b6a79880102030405060708090a0b0c0d0e0f101112131415161718"); err != nil {
		ev.Fatal("outsider key: %v", err)
	}
	return sk.Sign(msg).GetHexString()
}

func c33run(m *minerWorld, so *shardOut, d *c33dkg, cx c33ctx, fam, msg string, letters []c33letter, seq []int,
	shareOf func(c33letter) (int, string), mkRounds func(int64, int, int64, bool) (*miner.Round, *miner.Round), outsider *node.Node, reason string, epos int) {
	var pr, mr *miner.Round
	switch reason {
	case "":
		pr, mr = mkRounds(cx.Round, cx.TC, cx.PrevSeed, true)
	case "future-round": // the node is still in the previous round: shares of round rn are parked by handleVRFShare
		pr, mr = mkRounds(cx.Round, cx.TC, cx.PrevSeed, true)
		m.W.Chain.VerifSetCurrentRound(cx.Round - 1)
	case "prev-seed-unknown": // GetBlsMessageForRound fails: AddVRFShare parks the share
		pr, mr = mkRounds(cx.Round, cx.TC, cx.PrevSeed, false)
	case "higher-timeout": // the round is one timeout behind: AddVRFShare parks shares of the higher timeout count
		pr, mr = mkRounds(cx.Round, cx.TC-1, cx.PrevSeed, true)
	}
	// the event that ends the parking state, done the way the production code does it
	event := func() {
		switch reason {
		case "future-round": // startNextRound
			m.MC.SetCurrentRound(cx.Round)
			if m.MC.GetCurrentRound() != cx.Round {
				ev.Fatal("current round not advanced")
			}
		case "prev-seed-unknown": // the previous round's VRF completes
			if !m.MC.SetRandomSeed(pr, cx.PrevSeed) {
				ev.Fatal("cannot set previous seed (event)")
			}
		case "higher-timeout": // restartRound: Restart, then IncrementTimeoutCount
			if err := mr.Restart(); err != nil {
				ev.Fatal("round restart: %v", err)
			}
			mr.IncrementTimeoutCount(cx.PrevSeed, m.MC.GetMiners(cx.Round))
			if mr.GetTimeoutCount() != cx.TC {
				ev.Fatal("timeout count %d after restart, want %d", mr.GetTimeoutCount(), cx.TC)
			}
		}
	}
	defer mr.CancelVerification()
	so.States++
	names := make([]string, len(seq))
	for i, li := range seq {
		names[i] = letters[li].String()
	}
	replay := func(step int) map[string]any {
		return map[string]any{"t": d.t, "n": d.n, "round": cx.Round, "timeout_count": cx.TC, "previous_seed": cx.PrevSeed, "verifying_miner": cx.Self,
			"invalid_family": fam, "outsider_share": c33Outsider[fam], "sequence": names, "failing_step": step,
			"parking_reason": reason, "parking_ends_before_message": epos}
	}
	validParties := map[int]bool{}
	seedSeen := int64(0)
	for step, li := range seq {
		if reason != "" && step == epos {
			event()
			so.Transitions++
		}
		l := letters[li]
		tcLabel, share := shareOf(l)
		party := outsider
		if l.Party >= 0 {
			party = d.nodes[l.Party]
			if tcLabel == cx.TC && refVerify(d.pubs[l.Party], share, msg) {
				validParties[l.Party] = true
			}
		}
		vrfs := &round.VRFShare{Round: cx.Round, RoundTimeoutCount: tcLabel, Share: share}
		vrfs.SetParty(party)
		bm := miner.NewBlockMessage(miner.MessageVRFShare, party, nil, nil)
		bm.VRFShare = vrfs
		m.MC.VerifHandleVRFShare(m.Ctx, bm)
		so.Transitions++

		// (a) every counted share verifies and belongs to a DKG party
		counted := mr.GetVRFShares()
		for id, sh := range counted {
			pi := -1
			for p := 0; p < d.n; p++ {
				if d.nodes[p].ID == id {
					pi = p
				}
			}
			so.Evals++
			if pi < 0 {
				so.violate("C33:AddVRFShare:share-of-non-party-counted:"+c33Outsider[fam], fmt.Sprintf("a share from node %s, which is no party of the round's DKG, is counted (share %q)", id[:8], sh.Share), replay(step))
				continue
			}
			if !refVerify(d.pubs[pi], sh.Share, msg) {
				so.violate("C33:AddVRFShare:unverifiable-share-counted:"+fam, fmt.Sprintf("party %d's counted share does not verify under its key for the round message", pi), replay(step))
			}
		}
		// (b) seed only with >= t verifying parties
		seed := mr.GetRandomSeed()
		so.Evals++
		if seed != 0 {
			if len(validParties) < d.t {
				so.violate("C33:ThresholdNumBLSSigReceived:seed-with-fewer-than-t-verified-shares:"+fam, fmt.Sprintf("seed %d set after %d parties delivered a verifying share (t=%d)", seed, len(validParties), d.t), replay(step))
			}
			if seedSeen != 0 && seedSeen != seed {
				so.violate("C33:computeRoundRandomSeed:seed-changed-within-run", fmt.Sprintf("seed changed from %d to %d", seedSeen, seed), replay(step))
			}
			if seedSeen == 0 {
				so.addSet(cx.seedKey(), fmt.Sprint(seed))
			}
			seedSeen = seed
		}
		phase := "on-time"
		if reason != "" {
			phase = reason + ":parked"
			if step >= epos {
				phase = reason + ":after"
			}
		}
		so.Outcomes[fmt.Sprintf("%s/t=%d n=%d/%s/verifying-parties=%d/counted=%d/cached=%d/seed=%v", phase, d.t, d.n, fam, len(validParties), len(counted), len(mr.VerifCachedVRFShares()), seed != 0)]++
	}
	if so.States%997 == 1 {
		so.sample(map[string]any{"context": cx.seedKey(), "family": fam, "sequence": strings.Join(names, " "), "seed": seedSeen})
	}
}
