// C45: blocks built by an honest generator pass honest verification.
//
// For every previous state (genesis; a scripted round-1 successor in which sender c0 has already
// spent nonce 1), every generator of the tier's generator set and EVERY ordered selection (= pool
// contents in every pool iteration order) of up to 3 (4) distinct signed transactions from the
// alphabet below, the real miner.Chain.generateBlock is run as that generator over an in-memory
// "txn" collection that yields the pool in exactly that order. The block then goes over the wire
// (datastore.ToMsgpack -> FromMsgpack into a fresh block, as VerifyBlockSender / the N2N receiver
// do; every second case JSON), and another miner with a cold state cache runs the real
// miner.Chain.VerifyBlock (Validate, ValidateTransactions, cost check, ComputeState,
// verifySmartContracts, sign) on the decoded block against the same previous state.
//
// Alphabet per sender s in {c0,c1} (n = nonce of s in the previous state):
//
//	ok        send, nonce n+1                      badsig   send, nonce n+1, signature of another hash
//	past      send, nonce n (n=0: nonce 0)         fut1     send, nonce n+2
//	futfar    send, nonce n+2+future_nonce+1       dupfee   send, nonce n+1, higher fee
//	scfail    faucet.pour above the limit, n+1 (chargeable failure)   exempt   faucet.pour, nonce n+1 (fee-exempt function)
//
// Oracle (from the statement): verification succeeds; the verifier's recomputed state root equals
// the generator's and the declared one; every transaction's output, output hash and status are
// equal on both sides; the declared change count equals the recomputed one; the block contains
// no transaction hash twice; per sender the nonces in block order are n+1, n+2, ...; the summed
// estimated cost is <= max_block_cost; each built-in function name occurs at most once.
package main

import (
	"bytes"
	"context"
	"encoding/hex"
	"fmt"
	"sort"
	"strings"
	"time"

	"0chain.net/chaincore/block"
	"0chain.net/chaincore/chain"
	"0chain.net/chaincore/node"
	"0chain.net/chaincore/round"
	"0chain.net/chaincore/transaction"
	"0chain.net/core/common"
	"0chain.net/core/datastore"
	"0chain.net/core/encryption"
	"0chain.net/miner"
	"github.com/0chain/common/core/currency"
	"github.com/0chain/common/core/util"
	"verif/lib/ev"
	"verif/lib/world"
)

type c45txn struct {
	Name string
	Kind string
	From int
	T    *transaction.Transaction
}

type c45env struct {
	m    *minerWorld
	w    *world.World
	now  common.Timestamp
	self int
}

// become makes this process act as miner i (node.Self carries the keys that sign blocks, built-in
// transactions and tickets).
func (e *c45env) become(i int) {
	if err := node.Self.SetSignatureScheme(e.w.Miners[i].Scheme); err != nil {
		ev.Fatal("become: %v", err)
	}
	e.self = i
}

var c45Builtin = map[string]bool{"payFees": true, "generate_challenge": true, "blobber_block_rewards": true, "commit_settings_changes": true}

// c45Limits: block cost limit per configuration (0 = docker.local default 10000).
//   tight: round 2: built-ins cost 2806, one faucet call 100, a send 10: one contract call fits, a second does not
//   run2 / run3: round 1: built-ins cost 1956, a send 10: exactly 2 / 3 sends fit (generator skips when cost+c >= limit)
var c45Limits = map[string]int{"default": 0, "tight": 2950, "run2": 1980, "run3": 1990}

func c45Options(tight bool) world.Options {
	if tight {
		return c45OptionsFor("tight")
	}
	return c45OptionsFor("default")
}

func c45OptionsFor(cfg string) world.Options {
	o := c45OptionsBase()
	if l := c45Limits[cfg]; l > 0 {
		o.Viper["server_chain.block.max_block_cost"] = l
	}
	return o
}

// c45Group maps a worker index (of 16) to its configuration and its shard within that group.
func c45Group(idx int) (cfg string, gidx, gn int) {
	switch {
	case idx < 9:
		return "default", idx, 9
	case idx < 12:
		return "tight", idx - 9, 3
	case idx < 14:
		return "run2", idx - 12, 2
	default:
		return "run3", idx - 14, 2
	}
}

// runAlphabet: one sender (c0) with a run of consecutive nonces n+1..n+4, mixed with the other
// sender's current, next and same-nonce transactions.
func (e *c45env) runAlphabet(n []int64, salt string) []c45txn {
	w := e.w
	var out []c45txn
	to := w.Clients[2].ID
	fee := currency.Coin(1e8)
	mk := func(s int, kind string, nonce int64, value, f currency.Coin) {
		t := w.Txn(world.TxnSpec{From: w.Clients[s], To: to, Type: transaction.TxnTypeSend, Value: value, Fee: f, Nonce: nonce, Time: e.now})
		out = append(out, c45txn{Name: fmt.Sprintf("%s(c%d,nonce=%d)", kind, s, nonce), Kind: kind, From: s, T: t})
	}
	mk(0, "ok", n[0]+1, 1100, fee)
	mk(0, "fut1", n[0]+2, 1200, fee)
	mk(0, "fut2", n[0]+3, 1300, 2*fee)
	mk(0, "fut3", n[0]+4, 1400, 3*fee)
	mk(1, "ok", n[1]+1, 2100, fee)
	mk(1, "fut1", n[1]+2, 2200, fee)
	mk(1, "dupfee", n[1]+1, 2300, 2*fee)
	return out
}

func c45OptionsBase() world.Options {
	return world.Options{
		Viper: map[string]any{
			// creation-date checks (txn within TXN_TIME_TOLERANCE of the block's wall-clock creation
			// date) can never reject: the alphabet's transactions carry the worker's start time
			"server_chain.transaction.timeout":                  1000000000,
			// generateBlock collects pool transactions under a wall-clock budget (180 ms in
			// docker.local); raised so that the wall clock cannot cut the pool iteration short
			"server_chain.block.proposal.max_wait_time": "10m",
			"server_chain.smart_contract.setting_update_period": 2,
		},
		SC: map[string]any{
			"smart_contracts.storagesc.challenge_generation_gap":    1,
			"smart_contracts.storagesc.block_reward.trigger_period": 2,
		},
	}
}

// alphabet builds the signed transactions for a previous state in which the senders' nonces are n[s].
func (e *c45env) alphabet(n []int64, salt string) []c45txn {
	w := e.w
	var out []c45txn
	futWin := int64(e.m.MC.ChainConfig.TxnFutureNonce())
	to := w.Clients[2].ID
	for s := 0; s < 2; s++ {
		from := w.Clients[s]
		mk := func(kind string, nonce int64, value, fee currency.Coin, typ int, toID, data string) {
			t := w.Txn(world.TxnSpec{From: from, To: toID, Type: typ, Value: value, Fee: fee, Nonce: nonce, Data: data, Time: e.now})
			out = append(out, c45txn{Name: fmt.Sprintf("%s(c%d,nonce=%d)", kind, s, nonce), Kind: kind, From: s, T: t})
		}
		fee := currency.Coin(1e8) // well above the estimated fee of every transaction in the alphabet
		mk("ok", n[s]+1, 1000+currency.Coin(s), fee, transaction.TxnTypeSend, to, "")
		mk("badsig", n[s]+1, 2000+currency.Coin(s), fee, transaction.TxnTypeSend, to, "")
		bad := out[len(out)-1].T
		sig, err := from.Scheme.Sign(encryption.Hash("verif-c45-other-hash" + salt))
		if err != nil {
			ev.Fatal("sign: %v", err)
		}
		bad.Signature = sig
		mk("past", n[s], 3000+currency.Coin(s), fee, transaction.TxnTypeSend, to, "")
		mk("fut1", n[s]+2, 4000+currency.Coin(s), fee, transaction.TxnTypeSend, to, "")
		mk("futfar", n[s]+2+futWin+1, 5000+currency.Coin(s), fee, transaction.TxnTypeSend, to, "")
		mk("dupfee", n[s]+1, 6000+currency.Coin(s), 2*fee, transaction.TxnTypeSend, to, "")
		mk("scfail", n[s]+1, 1e15, fee, transaction.TxnTypeSmartContract, world.SCAddresses["faucetsc"], world.SC("pour", nil))
		mk("exempt", n[s]+1, 0, 0, transaction.TxnTypeSmartContract, world.SCAddresses["faucetsc"], world.SC("pour", nil))
	}
	return out
}

type c45result struct {
	GenErr    string
	VerErr    string
	Block     *block.Block // generator's block
	Recv      *block.Block // verifier's decoded block
	Included  []string
	CostSum   int
	NumBuiltin int
}

// prepareBlock fills the fields generateRoundBlock fills before it calls GenerateBlock.
func (e *c45env) prepareBlock(parent *block.Block, rn int64, seed int64) (*block.Block, *miner.Round) {
	mc := e.m.MC
	mr := mc.CreateRound(round.NewRound(rn))
	mr = mc.AddRound(mr).(*miner.Round)
	mc.SetRandomSeed(mr, seed)
	b := block.NewBlock(mc.GetKey(), rn)
	lfmbr := mc.GetLatestFinalizedMagicBlockRound(rn)
	if lfmbr == nil {
		ev.Fatal("no lfmbr")
	}
	b.LatestFinalizedMagicBlockHash = lfmbr.Hash
	b.LatestFinalizedMagicBlockRound = lfmbr.Round
	b.MinerID = node.Self.Underlying().GetKey()
	b.SetRoundRandomSeed(seed)
	mc.SetPreviousBlock(mr, b, parent)
	return b, mr
}

// chainOf re-registers the given ancestor blocks (oldest first; genesis is always there).
func (e *c45env) resetTo(rn int64, ancestors []*block.Block) {
	e.m.reset()
	for _, a := range ancestors {
		e.m.MC.AddBlock(a)
		r := e.m.MC.CreateRound(round.NewRound(a.Round))
		r = e.m.MC.AddRound(r).(*miner.Round)
		e.m.MC.SetRandomSeed(r, a.GetRoundRandomSeed())
	}
	e.w.Chain.VerifSetCurrentRound(rn)
}

func (e *c45env) setPool(order []*transaction.Transaction) {
	e.w.Store.DeleteAll("txn")
	keys := make([]string, 0, len(order))
	for _, t := range order {
		c := t.Clone()
		if err := e.w.Store.Write(e.m.Ctx, c); err != nil {
			ev.Fatal("pool write: %v", err)
		}
		keys = append(keys, t.Hash)
	}
	e.w.Store.SetCollectionOrder("txn", keys)
}

func (e *c45env) generate(gen int, parent *block.Block, ancestors []*block.Block, rn, seed int64, pool []*transaction.Transaction) (*block.Block, error) {
	e.become(gen)
	e.resetTo(rn, ancestors)
	e.setPool(pool)
	b, _ := e.prepareBlock(parent, rn, seed)
	ctx, cancel := context.WithCancel(e.m.Ctx)
	defer cancel()
	err := e.m.MC.VerifGenerateBlock(ctx, b, e.m.MC, true, make(chan struct{}, 1))
	return b, err
}

func (e *c45env) wire(b *block.Block, json bool) (*block.Block, error) {
	rb := datastore.GetEntityMetadata("block").Instance().(*block.Block)
	if json {
		buf := datastore.ToJSON(b)
		if err := datastore.FromJSON(bytes.NewReader(buf.Bytes()), rb); err != nil {
			return nil, err
		}
		return rb, nil
	}
	buf := datastore.ToMsgpack(b)
	if err := datastore.FromMsgpack(bytes.NewReader(buf.Bytes()), rb); err != nil {
		return nil, err
	}
	return rb, nil
}

func (e *c45env) verify(ver int, rb *block.Block, ancestors []*block.Block) (*block.BlockVerificationTicket, error) {
	e.become(ver)
	e.resetTo(rb.Round, ancestors)
	e.m.MC.SetupStateCache() // another node: nothing of the generator's run is cached
	r := e.m.MC.CreateRound(round.NewRound(rb.Round))
	r = e.m.MC.AddRound(r).(*miner.Round)
	e.m.MC.SetRandomSeed(r, rb.GetRoundRandomSeed())
	ctx, cancel := context.WithCancel(e.m.Ctx)
	defer cancel()
	return e.m.MC.VerifyBlock(ctx, rb)
}

func c45() {
	run := ev.Start("C45")
	maxPool := run.Pick(3, 4)
	if _, _, isWorker := shard(); isWorker {
		c45worker(run, maxPool)
		return
	}
	t := fanoutN(run, 16)
	report(run, t)
	run.Bounds["configurations"] = "16 workers: 9 default cost limit (10000), 3 tight (2950, round-2 state), 2 run2 (1980) + 2 run3 (1990): round-1 state, limit = built-ins + 2 / 3 sends"
	run.Bounds["run_alphabet"] = "c0: nonces n+1..n+4 (fees rising with the nonce); c1: n+1, n+2, n+1 with higher fee; pools of <= maxPool+1 in every order"
	run.Rule = "previous state in {genesis, scripted round-1 successor} x generator x every ordered selection of <= k distinct transactions from the 16-letter alphabet (8 kinds x 2 senders) = every pool content in every pool iteration order; plus, under two small block cost limits (room for exactly 2 / 3 sends beyond the built-ins), every ordered selection of <= k+1 transactions from a 7-letter run alphabet (one sender's nonces n+1..n+4 in every order incl. descending, mixed with the other sender's) so that the second pass of generateBlock (promotion of parked future transactions) runs into the cost limit; each case: real generateBlock, wire round trip, real VerifyBlock by another miner with a cold state cache; distinct = (previous state, sorted kinds in the pool, kinds included in block order, verification result) classes"
	run.Bounds["max_pool_size"] = maxPool
	run.Bounds["alphabet"] = 16
	run.Bounds["previous_states"] = 2
	run.Assumptions = []string{
		"common.Now() is the wall clock: the chain's transaction time tolerance is raised to 1e9 s and the alphabet's transactions carry the worker's start time, so no creation-date check can reject; the wall clock enters only the block creation date and the hashes of the generator's built-in transactions, which the oracle does not look at (too-old / too-new transactions are outside the alphabet)",
		"pool = distinct transactions (a real pool is keyed by hash); 'duplicate nonce' is two different transactions with the same nonce",
		"generateBlock's wall-clock budget for collecting pool transactions (block.proposal.max_wait_time) is raised to 10 min, so the pool iteration is never cut short by the clock",
		"generator and verifier share one process: node.Self is switched between miner identities, the chain's block/round registries are reset before each step and the verifier gets a fresh state cache; the node DB holds only genesis, so both sides read the previous state from the same in-memory tries",
		"storage settings: challenge_generation_gap=1, block_reward.trigger_period=2, setting_update_period=2, so that round 1 carries payFees+generate_challenge and round 2 all four built-in transactions",
	}
	run.Finish()
}

func c45worker(run *ev.Run, maxPool int) {
	idx, nsh, _ := shard()
	deadline := workerDeadline(run, 170, 840)
	// four configurations in fixed worker groups (see c45Group); a run with another worker count
	// (manual shard probes) runs the default configuration only
	cfgKind := "default"
	if nsh == 16 {
		cfgKind, idx, nsh = c45Group(idx)
	}
	tight := cfgKind == "tight"
	runCfg := cfgKind == "run2" || cfgKind == "run3"
	cfg := cfgKind + "-cost-limit"
	w := world.New(c45OptionsFor(cfgKind))
	m := setupMiner(w)
	e := &c45env{m: m, w: w, now: common.Now()}
	so := newShardOut()
	if runCfg {
		c45runWorker(run, e, so, cfgKind, cfg, idx, nsh, maxPool+1, deadline)
		writeShard(so)
	}

	// previous states
	type prev struct {
		Name      string
		Block     *block.Block
		Ancestors []*block.Block
		Nonces    []int64
		Round     int64 // round of the block to generate
	}
	noncesOf := func(b *block.Block) []int64 {
		_, n0 := world.Balance(b.ClientState, w.Clients[0].ID)
		_, n1 := world.Balance(b.ClientState, w.Clients[1].ID)
		return []int64{n0, n1}
	}
	prevs := []prev{{Name: "genesis", Block: w.Genesis, Nonces: noncesOf(w.Genesis), Round: 1}}
	{
		// scripted successor: c0 sends once in round 1 (generated and verified by the real code too)
		a0 := e.alphabet(noncesOf(w.Genesis), "script")
		b1, err := e.generate(1, w.Genesis, nil, 1, 7001, []*transaction.Transaction{a0[0].T})
		if err != nil {
			ev.Fatal("scripted block: %v", err)
		}
		if n := noncesOf(b1); n[0] != noncesOf(w.Genesis)[0]+1 {
			if !tight {
				ev.Fatal("scripted block did not include the send: nonces %v", n)
			}
			// the tight cost limit left no room for the scripted send (cannot happen on the unchanged
			// tree: round 1 built-ins cost 1956 of 2950): nothing to explore in this configuration
			so.Capped = "tight-cost-limit configuration: the scripted round-1 block could not include its transaction"
			writeShard(so)
		}
		prevs = append(prevs, prev{Name: "round1(ok(c0))", Block: b1, Ancestors: []*block.Block{b1}, Nonces: noncesOf(b1), Round: 2})
	}
	gens := []int{1}
	if run.Thorough() {
		gens = []int{1, 2}
	}
	counter := 0
	for _, p := range prevs {
		if tight && p.Round != 2 {
			continue
		}
		alpha := e.alphabet(p.Nonces, p.Name)
		for _, gen := range gens {
			sel := make([]int, 0, maxPool)
			var rec func()
			rec = func() {
				if len(sel) > 0 {
					counter++
					if counter%nsh == idx {
						if so.Capped == "" && time.Now().After(deadline) {
							so.Capped = "worker time budget reached"
						}
						if so.Capped == "" {
							c45case(e, so, cfg+"/"+p.Name, p.Block, p.Ancestors, p.Nonces, p.Round, gen, alpha, sel, counter%2 == 0)
						}
					}
				}
				if len(sel) == maxPool {
					return
				}
				for i := range alpha {
					used := false
					for _, j := range sel {
						if j == i {
							used = true
						}
					}
					if used {
						continue
					}
					sel = append(sel, i)
					rec()
					sel = sel[:len(sel)-1]
				}
			}
			rec()
		}
	}
	writeShard(so)
}

func c45case(e *c45env, so *shardOut, prevName string, parent *block.Block, ancestors []*block.Block, nonces []int64, rn int64, gen int, alpha []c45txn, sel []int, json bool) {
	so.States++
	names := make([]string, len(sel))
	kinds := make([]string, len(sel))
	pool := make([]*transaction.Transaction, len(sel))
	byHash := map[string]c45txn{}
	for i, j := range sel {
		names[i] = alpha[j].Name
		kinds[i] = fmt.Sprintf("%s%d", alpha[j].Kind, alpha[j].From)
		pool[i] = alpha[j].T
		byHash[alpha[j].T.Hash] = alpha[j]
	}
	ver := (gen + 1) % len(e.w.Miners)
	if ver == 0 {
		ver = 3
	}
	replay := map[string]any{"previous_state": prevName, "round": rn, "generator": fmt.Sprintf("m%d", gen), "verifier": fmt.Sprintf("m%d", ver), "pool_in_iteration_order": names, "wire": map[bool]string{true: "json", false: "msgpack"}[json]}
	tag := func(s string) string { return "C45:" + s }
	sortedKinds := append([]string{}, kinds...)
	sort.Strings(sortedKinds)

	seed := int64(9000 + rn)
	b, err := e.generate(gen, parent, ancestors, rn, seed, pool)
	so.Transitions++
	if err != nil {
		so.Outcomes[fmt.Sprintf("%s/gen-error:%s", prevName, errCode(err))]++
		// the statement is about blocks that are generated; a generator that produces none is legal
		return
	}
	// structure of the generated block
	seen := map[string]bool{}
	next := map[string]int64{}
	for s := 0; s < 2; s++ {
		next[e.w.Clients[s].ID] = nonces[s]
	}
	builtins := map[string]int{}
	var included []string
	genID := e.w.Miners[gen].ID
	_, genNonce := world.Balance(parent.ClientState, genID)
	next[genID] = genNonce
	for _, t := range b.Txns {
		so.Evals++
		if seen[t.Hash] {
			so.violateSized(tag("generateBlock:transaction-twice"), "the generated block contains transaction "+t.Hash[:8]+" twice", replay, len(sel))
		}
		seen[t.Hash] = true
		cid := t.ClientID
		if cid == "" {
			cid = encryption.Hash(mustHexBytes(t.PublicKey))
		}
		if want, ok := next[cid]; ok {
			if t.Nonce != want+1 {
				so.violateSized(tag("generateBlock:nonces-not-consecutive"), fmt.Sprintf("sender %s: nonce %d follows %d in the generated block", cid[:8], t.Nonce, want), replay, len(sel))
			}
			next[cid] = t.Nonce
		}
		if a, ok := byHash[t.Hash]; ok {
			included = append(included, fmt.Sprintf("%s%d", a.Kind, a.From))
		} else if t.TransactionType == transaction.TxnTypeSmartContract && c45Builtin[t.FunctionName] {
			builtins[t.FunctionName]++
			if builtins[t.FunctionName] > 1 {
				so.violateSized(tag("generateBlock:built-in-twice:"+t.FunctionName), "built-in transaction "+t.FunctionName+" occurs twice in the generated block", replay, len(sel))
			}
		} else {
			so.violateSized(tag("generateBlock:foreign-transaction"), "the generated block contains a transaction that is neither in the pool nor a built-in: "+t.Hash[:8], replay, len(sel))
		}
	}
	// cost (estimated against the LFB exactly as the protocol defines block cost)
	cost := 0
	lfb := e.m.MC.GetLatestFinalizedBlock()
	for _, t := range b.Txns {
		c, err := e.m.MC.EstimateTransactionCost(e.m.Ctx, lfb, t, chain.WithSync())
		if err != nil {
			so.violateSized(tag("generateBlock:cost-not-estimable"), "cost of an included transaction cannot be estimated: "+err.Error(), replay, len(sel))
			continue
		}
		cost += c
	}
	so.Evals++
	if cost > e.m.MC.ChainConfig.MaxBlockCost() {
		so.violateSized(tag("generateBlock:cost-above-limit"), fmt.Sprintf("block cost %d > max_block_cost %d", cost, e.m.MC.ChainConfig.MaxBlockCost()), replay, len(sel))
	}
	// coverage of generateBlock's second pass (promotion of parked future transactions): walk the pool
	// in iteration order; an included transaction whose nonce was not the sender's next one when it
	// was iterated can only have entered through the second pass
	{
		nextN := append([]int64{}, nonces...)
		lastIncl := append([]int64{}, nonces...)
		lastFirstPass := []int{-1, -1}
		for pos, j := range sel {
			a := alpha[j]
			if !seen[a.T.Hash] {
				continue
			}
			if a.T.Nonce > lastIncl[a.From] {
				lastIncl[a.From] = a.T.Nonce
			}
			if a.T.Nonce == nextN[a.From]+1 {
				nextN[a.From]++
				lastFirstPass[a.From] = pos
				so.Counters["pool_txn_included_in_first_pass"]++
			} else {
				so.Counters["pool_txn_included_in_second_pass"]++
			}
		}
		for pos, j := range sel {
			a := alpha[j]
			if seen[a.T.Hash] || a.T.Nonce != lastIncl[a.From]+1 || lastIncl[a.From] == nonces[a.From] || pos > lastFirstPass[a.From] {
				continue
			}
			// parked before a first-pass success of its sender and next in line, yet left out
			if c, err := e.m.MC.EstimateTransactionCost(e.m.Ctx, lfb, a.T, chain.WithSync()); err == nil && cost+c >= e.m.MC.ChainConfig.MaxBlockCost() {
				so.Counters["second_pass_stopped_by_cost_limit"]++
			}
		}
		if cost+10 >= e.m.MC.ChainConfig.MaxBlockCost() {
			so.Counters["blocks_at_cost_limit"]++
		}
	}
	genRoot := util.ToHex(b.ClientState.GetRoot())
	genChanges := b.ClientState.GetChangeCount()

	// the wire and the verifier
	rb, err := e.wire(b, json)
	if err != nil {
		so.violateSized(tag("wire:decode-failed"), "the generated block does not survive the wire: "+err.Error(), replay, len(sel))
		return
	}
	_, verr := e.verify(ver, rb, ancestors)
	so.Transitions++
	so.Evals++
	res := "ok"
	if verr != nil {
		res = "rejected:" + errCode(verr)
		hasBadSig := false
		for _, k := range included {
			if strings.HasPrefix(k, "badsig") {
				hasBadSig = true
			}
		}
		if hasBadSig {
			so.violateSized(tag("generateBlock:pool-transaction-with-invalid-signature-included:block-rejected"), fmt.Sprintf("generateBlock does not check signatures of pool transactions: block generated by m%d from pool %v contains a transaction whose signature is invalid and is rejected by m%d: %v", gen, names, ver, verr), replay, len(sel))
		} else {
			so.violateSized(tag("VerifyBlock:honest-block-rejected:"+errCode(verr)), fmt.Sprintf("block generated by m%d from pool %v is rejected by m%d: %v", gen, names, ver, verr), replay, len(sel))
		}
	} else {
		if rb.ClientState == nil || util.ToHex(rb.ClientState.GetRoot()) != genRoot || util.ToHex(rb.ClientStateHash) != genRoot {
			so.violateSized(tag("VerifyBlock:state-root-differs"), "verifier's recomputed state root differs from the generator's", replay, len(sel))
		}
		so.Evals++
		if rb.ClientState != nil && (rb.ClientState.GetChangeCount() != genChanges || rb.StateChangesCount != genChanges) {
			so.violateSized(tag("VerifyBlock:change-count-differs"), fmt.Sprintf("change count: generator %d, declared %d, verifier %d", genChanges, rb.StateChangesCount, rb.ClientState.GetChangeCount()), replay, len(sel))
		}
		if len(rb.Txns) != len(b.Txns) {
			so.violateSized(tag("wire:transaction-count-differs"), "transaction count changed on the wire", replay, len(sel))
		} else {
			for i := range b.Txns {
				so.Evals++
				g, v := b.Txns[i], rb.Txns[i]
				if g.Hash != v.Hash || g.TransactionOutput != v.TransactionOutput || g.OutputHash != v.OutputHash || g.Status != v.Status {
					so.violateSized(tag("VerifyBlock:transaction-output-differs"), fmt.Sprintf("transaction %d (%s): generator output %q status %d, verifier output %q status %d", i, g.Hash[:8], g.TransactionOutput, g.Status, v.TransactionOutput, v.Status), replay, len(sel))
				}
			}
		}
	}
	bi := make([]string, 0, len(builtins))
	for k := range builtins {
		bi = append(bi, k)
	}
	sort.Strings(bi)
	_ = sortedKinds
	so.Outcomes[fmt.Sprintf("%s/included[%s]/builtins=%d/%s", prevName, strings.Join(included, ","), len(bi), res)]++
	so.Counters["included_pool_txns"] += int64(len(included))
	so.Counters["blocks_verified"]++
	if so.States%211 == 1 {
		so.sample(map[string]any{"previous_state": prevName, "pool": names, "included": included, "builtins": bi, "cost": cost, "verify": res})
	}
}

// c45runWorker: the small-cost-limit configurations (run2 / run3) over the run alphabet.
func c45runWorker(run *ev.Run, e *c45env, so *shardOut, cfgKind, cfg string, idx, nsh, maxPool int, deadline time.Time) {
	w := e.w
	_, n0 := world.Balance(w.Genesis.ClientState, w.Clients[0].ID)
	_, n1 := world.Balance(w.Genesis.ClientState, w.Clients[1].ID)
	nonces := []int64{n0, n1}
	// the limit must leave room for exactly k sends beyond the round-1 built-ins
	eb, err := e.generate(1, w.Genesis, nil, 1, 9001, nil)
	if err != nil {
		ev.Fatal("empty-pool block in %s: %v", cfgKind, err)
	}
	base := 0
	for _, t := range eb.Txns {
		c, err := e.m.MC.EstimateTransactionCost(e.m.Ctx, e.m.MC.GetLatestFinalizedBlock(), t, chain.WithSync())
		if err != nil {
			ev.Fatal("built-in cost: %v", err)
		}
		base += c
	}
	alpha := e.runAlphabet(nonces, cfgKind)
	sendCost, err := e.m.MC.EstimateTransactionCost(e.m.Ctx, e.m.MC.GetLatestFinalizedBlock(), alpha[0].T, chain.WithSync())
	if err != nil {
		ev.Fatal("send cost: %v", err)
	}
	k := map[string]int{"run2": 2, "run3": 3}[cfgKind]
	limit := e.m.MC.ChainConfig.MaxBlockCost()
	if !(base+k*sendCost < limit && limit <= base+(k+1)*sendCost) {
		// the tree under test prices or composes the built-in transactions differently: this small-limit
		// configuration does not bind where it was designed to; skip it (reported as a cap), the
		// other configurations still run
		so.Capped = fmt.Sprintf("%s: cost layout differs (built-ins %d, send %d, limit %d), configuration skipped", cfgKind, base, sendCost, limit)
		so.Counters["run_config_skipped_cost_layout_differs"]++
		return
	}
	so.Counters["run_config_builtin_cost"] = int64(base)
	gens := []int{1}
	if run.Thorough() {
		gens = []int{1, 2}
	}
	counter := 0
	for _, gen := range gens {
		sel := make([]int, 0, maxPool)
		var rec func()
		rec = func() {
			if len(sel) > 0 {
				counter++
				if counter%nsh == idx {
					if so.Capped == "" && time.Now().After(deadline) {
						so.Capped = "worker time budget reached"
					}
					if so.Capped == "" {
						c45case(e, so, cfg+"/genesis", w.Genesis, nil, nonces, 1, gen, alpha, sel, counter%2 == 0)
					}
				}
			}
			if len(sel) == maxPool {
				return
			}
			for i := range alpha {
				used := false
				for _, j := range sel {
					if j == i {
						used = true
					}
				}
				if !used {
					sel = append(sel, i)
					rec()
					sel = sel[:len(sel)-1]
				}
			}
		}
		rec()
	}
}

func errCode(err error) string {
	if ce, ok := err.(*common.Error); ok {
		return ce.Code
	}
	s := err.Error()
	if len(s) > 40 {
		s = s[:40]
	}
	return strings.ReplaceAll(s, " ", "_")
}

func mustHexBytes(s string) []byte {
	b, err := hex.DecodeString(s)
	if err != nil {
		ev.Fatal("hex: %v", err)
	}
	return b
}
