package main

func c45() {}
