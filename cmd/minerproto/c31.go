// C31: a block counts as notarized only with enough verified tickets.
//
// Node under test: miner m0 of the 4-miner magic block (threshold from config: ceil(66% of 4) = 3).
// An honest block B of round 1 is produced by the real generateBlock as m1. The harness holds all
// four miner keys and one outsider key and delivers to m0, through the real handlers
//
//	BLOCK(list)   B as received on the wire with the ticket list attached   -> processVerifyBlock
//	NOTAR(list)   a notarization message for B carrying the list            -> handleNotarizationMessage, notarizationProcess
//	NBLOCK(list)  B as a "notarized block" message with the list attached   -> handleNotarizedBlockMessage
//	TICKET(i,k)   one verification-ticket message                           -> handleVerificationTicketMessage
//
// where a list assigns to every miner one of {absent, valid, bad signature (other key), valid for
// another block hash, duplicated valid} and optionally adds an outsider's ticket.
//
//	part A  all 1250 lists x 5 single-list delivery shapes x 2 round seeds
//	part B  all sequences of L ticket messages over 13 letters (4 miners x {valid, bad, other hash} +
//	        outsider), the same letter may repeat, with BLOCK(no tickets) at every position or absent
//	part C  all sequences of <= 3 messages over BLOCK/NOTAR of 7 representative lists and 8 ticket letters
//
// After EVERY delivery: if m0 treats B as notarized (a block object it holds for B's hash, or the
// received object, answers IsBlockNotarized(), or round 1's notarized list contains the hash), then
// the number of DISTINCT miners of the magic block for which some delivered ticket carries a valid
// signature on B's hash (reference: fresh BLS scheme, the miner's public key) must be >= threshold.
package main

import (
	"bytes"
	hbls "github.com/herumi/bls-go-binary/bls"
	"0chain.net/chaincore/node"
	"context"
	"fmt"
	"sort"
	"strings"
	"time"

	"0chain.net/chaincore/block"
	"0chain.net/chaincore/round"
	"0chain.net/chaincore/transaction"
	"0chain.net/core/common"
	"0chain.net/core/datastore"
	"0chain.net/core/encryption"
	"0chain.net/miner"
	"verif/lib/ev"
	"verif/lib/world"
)

const (
	tkAbsent = iota
	tkValid
	tkBadSig
	tkOtherHash
	tkDup
	tkDupRespelled // list entries: the valid ticket twice, second time with its signature in upper-case hex
	tkValidUpper   // ticket message: the valid signature in upper-case hex
	tkValidMiracl  // ticket message: the valid signature in MIRACL "(x,y)" form
	tkOtherRound   // ticket message of X: valid signature of a miner of another magic block, round field mislabelled
)

const c31OtherRound = 1000 // a round governed by the second magic block (miners m0..m3 + X)

var tkNames = []string{"-", "valid", "badsig", "otherhash", "dup", "dup-respelled", "VALID-UPPER", "valid-miracl", "valid-for-round-1000"}

type c31msg struct {
	Type string // BLOCK NOTAR NBLOCK TICKET
	List []int  // per miner variant (len 4) + outsider flag (len 5) for list-carrying messages
	Who  int    // TICKET: miner index, 4 = outsider
	Kind int    // TICKET: tkValid / tkBadSig / tkOtherHash
}

func (m c31msg) String() string {
	if m.Type == "TICKET" {
		who := fmt.Sprintf("m%d", m.Who)
		if m.Who == 4 {
			who = "outsider"
		}
		if m.Who == 5 {
			who = "X"
		}
		return fmt.Sprintf("TICKET(%s,%s)", who, tkNames[m.Kind])
	}
	var parts []string
	for i, v := range m.List {
		if v == tkAbsent {
			continue
		}
		if i == 4 {
			parts = append(parts, "outsider:valid")
		} else {
			parts = append(parts, fmt.Sprintf("m%d:%s", i, tkNames[v]))
		}
	}
	if m.Type == "NOTARX" {
		parts = append(parts, "X:valid-for-round-1000")
	}
	return m.Type + "[" + strings.Join(parts, " ") + "]"
}

type c31env struct {
	*c45env
	so        *shardOut
	H         string
	otherH    string
	wireB     []byte
	seed      int64
	threshold int
	outsider  *world.Actor
	extra     *world.Actor // X: miner of the second magic block only
	pubs      []string
	sig       map[string]string // memo "who/kind" -> signature
	refMemo   map[string]bool
}

func (e *c31env) ticket(who, kind int) *block.VerificationTicket {
	k := fmt.Sprintf("%d/%d", who, kind)
	id := e.outsider.ID
	if who < 4 {
		id = e.w.Miners[who].ID
	}
	if who == 5 {
		id = e.extra.ID
	}
	if s, ok := e.sig[k]; ok {
		return &block.VerificationTicket{VerifierID: id, Signature: s}
	}
	var s string
	var err error
	switch {
	case who == 4:
		s, err = e.outsider.Scheme.Sign(e.H)
	case who == 5:
		s, err = e.extra.Scheme.Sign(e.H)
	case kind == tkValid || kind == tkDup:
		s, err = e.w.Miners[who].Scheme.Sign(e.H)
	case kind == tkValidUpper:
		s, err = e.w.Miners[who].Scheme.Sign(e.H)
		s = strings.ToUpper(s)
	case kind == tkValidMiracl:
		s, err = e.w.Miners[who].Scheme.Sign(e.H)
		if err == nil {
			s = miraclForm(s)
		}
	case kind == tkBadSig:
		s, err = e.outsider.Scheme.Sign(e.H) // right hash, wrong key
	case kind == tkOtherHash:
		s, err = e.w.Miners[who].Scheme.Sign(e.otherH)
	}
	if err != nil {
		ev.Fatal("sign ticket: %v", err)
	}
	e.sig[k] = s
	return &block.VerificationTicket{VerifierID: id, Signature: s}
}

func (e *c31env) tickets(list []int) []*block.VerificationTicket {
	var out []*block.VerificationTicket
	for i, v := range list {
		switch {
		case v == tkAbsent:
		case i == 4:
			out = append(out, e.ticket(4, tkValid))
		case v == tkDup:
			out = append(out, e.ticket(i, tkValid), e.ticket(i, tkValid))
		case v == tkDupRespelled:
			out = append(out, e.ticket(i, tkValid), e.ticket(i, tkValidUpper))
		default:
			out = append(out, e.ticket(i, v))
		}
	}
	return out
}

// refValid: is this a valid signature of a magic-block miner on B's hash? (reference)
func (e *c31env) refValid(vt *block.VerificationTicket) (int, bool) {
	for i, a := range e.w.Miners {
		if a.ID != vt.VerifierID {
			continue
		}
		k := a.ID + "|" + vt.Signature
		if v, ok := e.refMemo[k]; ok {
			return i, v
		}
		s := encryption.NewBLS0ChainScheme()
		if err := s.SetPublicKey(a.PublicKey); err != nil {
			ev.Fatal("ref scheme: %v", err)
		}
		ok, _ := s.Verify(vt.Signature, e.H)
		e.refMemo[k] = ok
		return i, ok
	}
	return -1, false
}

// miraclForm respells a herumi-serialised G1 signature as the "(x,y)" form wallets send.
func miraclForm(sig string) string {
	var s hbls.Sign
	if err := s.DeserializeHexStr(sig); err != nil {
		ev.Fatal("miracl form: %v", err)
	}
	f := strings.Fields(s.GetHexString()) // "1 x y"
	if len(f) != 3 {
		ev.Fatal("unexpected point text %q", s.GetHexString())
	}
	return "(" + f[1] + "," + f[2] + ")"
}

func (e *c31env) decodeBlock(list []int) *block.Block {
	rb := datastore.GetEntityMetadata("block").Instance().(*block.Block)
	if err := datastore.FromMsgpack(bytes.NewReader(e.wireB), rb); err != nil {
		ev.Fatal("decode block: %v", err)
	}
	if list == nil {
		return rb
	}
	// attach the tickets and send it over the wire once more, as a byzantine sender would
	rb.VerificationTickets = e.tickets(list)
	buf := datastore.ToMsgpack(rb)
	rb2 := datastore.GetEntityMetadata("block").Instance().(*block.Block)
	if err := datastore.FromMsgpack(bytes.NewReader(buf.Bytes()), rb2); err != nil {
		ev.Fatal("decode block with tickets: %v", err)
	}
	return rb2
}

func c31() {
	run := ev.Start("C31")
	L := run.Pick(3, 4)
	if _, _, isWorker := shard(); isWorker {
		c31worker(run, L)
		return
	}
	t := fanout(run)
	report(run, t)
	run.Rule = "part A: all 5^4 x 2 ticket lists (per miner absent/valid/bad signature/other hash/duplicated, outsider ticket or not) x 5 single-list delivery shapes x 2 round seeds; part B: all sequences of L individual ticket messages over 13 letters (repeats allowed) x position of the ticket-less block (6 incl. absent); part C: all sequences of <= 3 messages over 22 letters (block / notarization with 7 representative lists, 8 ticket letters), at most one block message; oracle after every delivery; distinct = (delivery shape, #valid distinct miners, tickets held, notarized?) classes"
	run.Bounds["ticket_message_sequence_length"] = L
	run.Bounds["miners"] = 4
	run.Bounds["threshold"] = t.Counters["threshold"] / maxI64(t.Counters["workers"], 1)
	delete(t.Counters, "threshold")
	run.Assumptions = []string{
		"the node's current round is 2 while the messages concern round 1 (blocks of round >= current-1 are processed), so that ProgressOnNotarization does not start background round changes; everything else is the production path",
		"messages enter at the miner-level handlers (processVerifyBlock, handleNotarizationMessage + notarizationProcess as the NotarizationProcessWorker runs it, handleNotarizedBlockMessage, handleVerificationTicketMessage); the HTTP-level pre-filters only drop messages, so at most one BLOCK message per scenario is delivered (a second copy with the same hash would be dropped there)",
		"reading: valid tickets of distinct miners count wherever they were carried (attached tickets that verify are not a violation); 'valid' = reference BLS verification under the miner's registered public key",
		"a notarization for a block the node does not hold leads to a fetch from other nodes, which finds nobody; recorded as outcome",
	}
	run.Finish()
}

func maxI64(a, b int64) int64 {
	if a > b {
		return a
	}
	return b
}

func c31worker(run *ev.Run, L int) {
	idx, nsh, _ := shard()
	deadline := workerDeadline(run, 170, 840)
	w := world.New(c45Options(false))
	m := setupMiner(w)
	base := &c45env{m: m, w: w, now: common.Now()}
	so := newShardOut()
	e := &c31env{c45env: base, so: so, sig: map[string]string{}, refMemo: map[string]bool{}, outsider: world.DetKey("c31-outsider")}

	// the honest block B of round 1, generated by m1
	_, n0 := world.Balance(w.Genesis.ClientState, w.Clients[0].ID)
	_, n1 := world.Balance(w.Genesis.ClientState, w.Clients[1].ID)
	alpha := base.alphabet([]int64{n0, n1}, "c31")
	e.seed = 424242
	B, err := base.generate(1, w.Genesis, nil, 1, e.seed, []*transaction.Transaction{alpha[0].T})
	if err != nil {
		ev.Fatal("generate B: %v", err)
	}
	e.H = B.Hash
	e.otherH = encryption.Hash("verif-c31-other-block")
	e.wireB = datastore.ToMsgpack(B).Bytes()
	base.become(0)
	e.threshold = m.MC.GetNotarizationThresholdCount(m.MB.Miners.Size())
	so.Counters["threshold"] = int64(e.threshold)
	so.Counters["workers"] = 1

	// a second magic block for rounds >= 500: the same miners plus X (C31 hole (c): a ticket whose round
	// field names a round in which its signer is a miner, for a block of a round in which it is not)
	e.extra = world.DetKey("c31-extra-miner")
	{
		mb2 := m.MB.Clone()
		mb2.StartingRound = 500
		mb2.MagicBlockNumber = m.MB.MagicBlockNumber + 1
		mb2.PreviousMagicBlockHash = m.MB.Hash
		mb2.Hash = encryption.Hash("verif-c31-mb2")
		x := node.Provider()
		x.Type = node.NodeTypeMiner
		x.ID = e.extra.ID
		x.PublicKey = e.extra.PublicKey
		x.Host, x.N2NHost, x.Port = "x.invalid", "x.invalid", 7999
		if err := mb2.Miners.AddNode(x); err != nil {
			ev.Fatal("mb2 add node: %v", err)
		}
		for _, n := range mb2.Miners.CopyNodes() {
			n.SetStatus(node.NodeStatusInactive)
		}
		for _, n := range mb2.Sharders.CopyNodes() {
			n.SetStatus(node.NodeStatusInactive)
		}
		m.MC.SetMagicBlock(mb2)
		if m.MC.GetMiners(1).GetNode(e.extra.ID) != nil || m.MC.GetMiners(c31OtherRound).GetNode(e.extra.ID) == nil || m.MC.GetMiners(1).Size() != 4 {
			ev.Fatal("second magic block not in place")
		}
	}
	if _, ok := e.refValid(e.ticket(1, tkValidUpper)); !ok {
		ev.Fatal("upper-case respelling is not a valid signature for the reference")
	}
	if _, ok := e.refValid(e.ticket(1, tkValidMiracl)); !ok {
		ev.Fatal("MIRACL respelling is not a valid signature for the reference")
	}

	counter := 0
	do := func(part string, roundState string, msgs []c31msg) {
		counter++
		if counter%nsh != idx {
			return
		}
		if so.Capped == "" && time.Now().After(deadline) {
			so.Capped = "worker time budget reached in part " + part
		}
		if so.Capped != "" {
			return
		}
		e.scenario(part, roundState, msgs)
	}

	// ---- part A: every ticket list in every single-list delivery shape
	var lists [][]int
	for code := 0; code < 6*6*6*6*2; code++ {
		l := make([]int, 5)
		c := code
		for i := 0; i < 4; i++ {
			l[i] = c % 6
			c /= 6
		}
		l[4] = c % 2
		lists = append(lists, l)
	}
	sort.SliceStable(lists, func(i, j int) bool { return len(e.tickets(lists[i])) < len(e.tickets(lists[j])) })
	empty := []int{0, 0, 0, 0, 0}
	twoValid := []int{1, 1, 0, 0, 0}
	for _, l := range lists {
		for _, rs := range []string{"same-seed", "other-seed"} {
			do("A", rs, []c31msg{{Type: "BLOCK", List: l}})
			do("A", rs, []c31msg{{Type: "NBLOCK", List: l}})
			do("A", rs, []c31msg{{Type: "BLOCK", List: empty}, {Type: "NBLOCK", List: l}})
		}
		do("A", "same-seed", []c31msg{{Type: "BLOCK", List: empty}, {Type: "NOTAR", List: l}})
		do("A", "same-seed", []c31msg{{Type: "NOTAR", List: l}, {Type: "BLOCK", List: empty}})
		// the block arrives before the node has a round object for it (mr == nil path), then something valid
		do("A0", "absent", []c31msg{{Type: "BLOCK", List: l}})
		do("A0", "absent", []c31msg{{Type: "BLOCK", List: l}, {Type: "TICKET", Who: 0, Kind: tkValid}})
		do("A0", "absent", []c31msg{{Type: "BLOCK", List: l}, {Type: "TICKET", Who: 3, Kind: tkValid}})
		do("A0", "absent", []c31msg{{Type: "BLOCK", List: l}, {Type: "NOTAR", List: twoValid}})
	}
	// ---- part B: individual ticket messages
	var letters []c31msg
	for i := 0; i < 4; i++ {
		for _, k := range []int{tkValid, tkValidUpper, tkBadSig} {
			letters = append(letters, c31msg{Type: "TICKET", Who: i, Kind: k})
		}
	}
	letters = append(letters,
		c31msg{Type: "TICKET", Who: 1, Kind: tkOtherHash},
		c31msg{Type: "TICKET", Who: 1, Kind: tkValidMiracl},
		c31msg{Type: "TICKET", Who: 4, Kind: tkValid},
		c31msg{Type: "TICKET", Who: 5, Kind: tkOtherRound})
	seq := make([]c31msg, L)
	var recB func(pos int)
	recB = func(pos int) {
		if pos == L {
			do("B", "same-seed", append([]c31msg{}, seq...))
			for bp := 0; bp <= L; bp++ {
				var msgs []c31msg
				msgs = append(msgs, seq[:bp]...)
				msgs = append(msgs, c31msg{Type: "BLOCK", List: empty})
				msgs = append(msgs, seq[bp:]...)
				do("B", "same-seed", msgs)
			}
			return
		}
		for _, l := range letters {
			seq[pos] = l
			recB(pos + 1)
		}
	}
	recB(0)
	// ---- part C: mixed sequences
	rep := [][]int{
		{0, 0, 0, 0, 0},
		{1, 1, 0, 0, 0}, // 2 valid
		{0, 1, 1, 2, 0}, // 2 valid + 1 bad signature
		{0, 1, 1, 1, 0}, // 3 valid
		{0, 1, 4, 0, 0}, // 1 valid + duplicated valid (3 entries, 2 miners)
		{0, 0, 0, 4, 1}, // duplicated valid + outsider (3 entries, 1 miner)
		{3, 3, 3, 0, 0}, // 3 tickets valid for another hash
		{0, 1, 5, 0, 0}, // 1 valid + the same valid ticket in two spellings (3 entries, 2 miners)
	}
	var lettersC []c31msg
	for _, l := range rep {
		lettersC = append(lettersC, c31msg{Type: "BLOCK", List: l}, c31msg{Type: "NOTAR", List: l})
	}
	lettersC = append(lettersC, c31msg{Type: "NOTARX", List: twoValid}) // round-1000 notarization: 2 valid + X
	for i := 0; i < 4; i++ {
		lettersC = append(lettersC, c31msg{Type: "TICKET", Who: i, Kind: tkValid}, c31msg{Type: "TICKET", Who: i, Kind: tkBadSig})
	}
	lettersC = append(lettersC, c31msg{Type: "TICKET", Who: 1, Kind: tkValidUpper}, c31msg{Type: "TICKET", Who: 5, Kind: tkOtherRound})
	for _, rs := range []string{"same-seed", "absent"} {
		var seqC []c31msg
		var recC func()
		recC = func() {
			if len(seqC) > 0 {
				do("C", rs, append([]c31msg{}, seqC...))
			}
			if len(seqC) == 3 {
				return
			}
			for _, l := range lettersC {
				if rs == "absent" && len(seqC) == 0 && l.Type != "BLOCK" {
					continue // without a round object only a block can arrive first (the ticket / notarization HTTP handlers create the round)
				}
				if l.Type == "BLOCK" {
					has := false
					for _, p := range seqC {
						if p.Type == "BLOCK" {
							has = true
						}
					}
					if has {
						continue
					}
				}
				seqC = append(seqC, l)
				recC()
				seqC = seqC[:len(seqC)-1]
			}
		}
		recC()
	}
	writeShard(so)
}

func (e *c31env) scenario(part string, roundState string, msgs []c31msg) {
	so := e.so
	mc := e.m.MC
	so.States++
	e.m.reset()
	mc.VerifResetNotarizationState()
	// roundState "absent": the node has no round object for round 1 yet (processVerifyBlock's mr == nil path)
	if roundState != "absent" {
		mr := mc.CreateRound(round.NewRound(1))
		mr = mc.AddRound(mr).(*miner.Round)
		if roundState == "same-seed" {
			mc.SetRandomSeed(mr, e.seed)
		} else {
			mc.SetRandomSeed(mr, e.seed+1)
		}
	}
	e.w.Chain.VerifSetCurrentRound(2)
	defer func() {
		for _, rn := range []int64{1, c31OtherRound} {
			if r := mc.GetMinerRound(rn); r != nil {
				r.CancelVerification()
			}
		}
	}()
	ensureRound := func(rn int64) { // what the ticket / notarization HTTP handlers do before queueing the message
		if mc.GetMinerRound(rn) == nil {
			mc.AddRound(mc.CreateRound(round.NewRound(rn)))
		}
	}

	names := make([]string, len(msgs))
	for i, m := range msgs {
		names[i] = m.String()
	}
	var delivered []*block.VerificationTicket
	var received []*block.Block
	wasNotarized := false
	for step, msg := range msgs {
		switch msg.Type {
		case "BLOCK":
			rb := e.decodeBlock(msg.List)
			received = append(received, rb)
			delivered = append(delivered, e.tickets(msg.List)...)
			_ = mc.VerifProcessVerifyBlock(e.m.Ctx, rb)
		case "NBLOCK":
			rb := e.decodeBlock(msg.List)
			received = append(received, rb)
			delivered = append(delivered, e.tickets(msg.List)...)
			mc.VerifHandleNotarizedBlockMessage(e.m.Ctx, &miner.BlockMessage{Type: miner.MessageNotarizedBlock, Sender: e.m.minerNode(1), Block: rb})
		case "NOTAR", "NOTARX":
			not := datastore.GetEntityMetadata("block_notarization").Instance().(*miner.Notarization)
			not.BlockID, not.Round, not.VerificationTickets = e.H, 1, e.tickets(msg.List)
			if msg.Type == "NOTARX" { // round field names a round of the second magic block, X's ticket included
				not.Round = c31OtherRound
				not.VerificationTickets = append(not.VerificationTickets, e.ticket(5, tkOtherRound))
			}
			not.Block = e.decodeBlock(nil) // the sender's copy (SendNotarization sets it; it is the entity's read lock)
			delivered = append(delivered, not.VerificationTickets...)
			rn := datastore.GetEntityMetadata("block_notarization").Instance().(*miner.Notarization)
			if err := datastore.FromMsgpack(bytes.NewReader(datastore.ToMsgpack(not).Bytes()), rn); err != nil {
				ev.Fatal("notarization wire: %v", err)
			}
			bm := miner.NewBlockMessage(miner.MessageNotarization, e.m.minerNode(1), nil, nil)
			bm.Notarization = rn
			mc.VerifHandleNotarizationMessage(e.m.Ctx, bm)
			select {
			case q := <-mc.VerifNotarizationQueue(): // what NotarizationProcessWorker does (there: 30 s budget)
				pctx, cancel := context.WithCancel(e.m.Ctx)
				if lb, _ := mc.GetBlock(e.m.Ctx, e.H); lb == nil {
					// the node does not hold B: notarizationProcess fetches it from other nodes, all of
					// which are inactive here; the fetch can only fail, so its budget is cut to 25 ms
					cancel()
					pctx, cancel = context.WithTimeout(e.m.Ctx, 25*time.Millisecond)
					so.Counters["notarization_for_unknown_block_fetch_attempts"]++
				}
				err := mc.VerifNotarizationProcess(pctx, q)
				cancel()
				if err != nil {
					so.Outcomes["notarizationProcess-error:"+shortErr(err)]++
				}
			default:
				so.Outcomes["notarization-message-dropped-by-processNotarization"]++
			}
		case "TICKET":
			vt := e.ticket(msg.Who, msg.Kind)
			delivered = append(delivered, vt)
			bvt := &block.BlockVerificationTicket{VerificationTicket: *vt, Round: 1, BlockID: e.H}
			if msg.Who == 5 {
				bvt.Round = c31OtherRound
			}
			ensureRound(bvt.Round)
			rt := datastore.GetEntityMetadata("block_verification_ticket").Instance().(*block.BlockVerificationTicket)
			if err := datastore.FromJSON(bytes.NewReader(datastore.ToJSON(bvt).Bytes()), rt); err != nil {
				ev.Fatal("ticket wire: %v", err)
			}
			bm := miner.NewBlockMessage(miner.MessageVerificationTicket, e.m.minerNode(1), nil, nil)
			bm.BlockVerificationTicket = rt
			mc.VerifHandleVerificationTicketMessage(e.m.Ctx, bm)
		}
		so.Transitions++

		// ---- observe
		validMiners := map[int]bool{}
		for _, vt := range delivered {
			if i, ok := e.refValid(vt); ok {
				validMiners[i] = true
			}
		}
		notarized := false
		var where []string
		var held []*block.VerificationTicket
		if lb, err := mc.GetBlock(e.m.Ctx, e.H); err == nil && lb != nil {
			held = lb.GetVerificationTickets()
			if lb.IsBlockNotarized() {
				notarized = true
				where = append(where, "chain-block.IsBlockNotarized")
			}
		}
		for _, rb := range received {
			if rb.IsBlockNotarized() {
				notarized = true
				where = append(where, "received-block.IsBlockNotarized")
				if len(held) == 0 {
					held = rb.GetVerificationTickets()
				}
				break
			}
		}
		for _, rn := range []int64{1, c31OtherRound} {
			if r := mc.GetMinerRound(rn); r != nil {
				for _, nb := range r.GetNotarizedBlocks() {
					if nb.Hash == e.H {
						notarized = true
						where = append(where, fmt.Sprintf("round-%d.notarized-blocks", rn))
					}
				}
			}
		}
		so.Evals++
		if notarized && !wasNotarized && len(validMiners) < e.threshold {
			// what do the tickets held by the block consist of?
			unverified, dup, otherRound, respelled := 0, 0, 0, 0
			seen := map[string]bool{}
			firstSig := map[string]string{}
			for _, vt := range held {
				_, ok := e.refValid(vt)
				switch {
				case vt.VerifierID == e.extra.ID:
					otherRound++
				case !ok:
					unverified++
				case seen[vt.VerifierID]:
					dup++
					if firstSig[vt.VerifierID] != vt.Signature {
						respelled++
					}
				}
				if !seen[vt.VerifierID] {
					firstSig[vt.VerifierID] = vt.Signature
				}
				seen[vt.VerifierID] = true
			}
			class := "too-few-tickets"
			if otherRound > 0 {
				class = "ticket-of-another-rounds-miner-counted"
			} else if unverified > 0 {
				class = "unverifiable-tickets-counted"
			} else if respelled > 0 {
				class = "respelled-duplicate-ticket-counted"
			} else if dup > 0 {
				class = "duplicate-tickets-counted"
			}
			handler := map[string]string{"BLOCK": "processVerifyBlock", "NOTAR": "notarizationProcess", "NOTARX": "notarizationProcess", "NBLOCK": "handleNotarizedBlockMessage", "TICKET": "handleVerificationTicketMessage"}[msg.Type]
			key := fmt.Sprintf("C31:%s:notarized-below-threshold:%s", handler, class)
			if roundState == "absent" {
				key += ":after-block-received-before-round-start"
			}
			so.violateSized(key, fmt.Sprintf("after %s the node treats block %s as notarized (%s) although only %d distinct miners have delivered a valid signature on its hash (threshold %d); the block holds %d tickets, of which %d do not verify and %d repeat a verifier", names[step], e.H[:8], strings.Join(where, ", "), len(validMiners), e.threshold, len(held), unverified, dup),
				map[string]any{"part": part, "round_state": roundState, "messages": names, "failing_step": step, "threshold": e.threshold, "valid_distinct_miners": len(validMiners)},
				100*len(msgs)+len(delivered))
		}
		wasNotarized = notarized
		shape := make([]string, 0, step+1)
		for _, m := range msgs[:step+1] {
			shape = append(shape, m.Type)
		}
		so.Outcomes[fmt.Sprintf("%s/%s/%s/valid-miners=%d/held=%d/notarized=%v", part, roundState, strings.Join(shape, ">"), len(validMiners), len(held), notarized)]++
	}
	if so.States%503 == 1 {
		so.sample(map[string]any{"part": part, "messages": names})
	}
}

func shortErr(err error) string {
	s := err.Error()
	if i := strings.Index(s, ","); i > 0 {
		s = s[:i]
	}
	if len(s) > 50 {
		s = s[:50]
	}
	return s
}
