package main

func c31() {}
