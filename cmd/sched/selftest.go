package main

import (
	"fmt"
	"os"
	"runtime"
	"time"

	"verif/lib/vatomic"
	"verif/lib/vsync"
)

// Engine self-test on toy programs with known answers:
//
//	lost-update   two threads do load;store(v+1) on an atomic: final 1 needs exactly 1 preemption
//	abba          two threads take two mutexes in opposite order: deadlock needs 1 preemption
//	rw-recursive  a reader re-enters RLock while a writer is announced: deadlock (writer preference)
//	racy/locked   (race build) unsynchronised counter is reported, locked counter is not
func selftest() {
	runtime.GOMAXPROCS(1) // as in the workers
	fail := false
	expect := func(name string, ok bool, detail string) {
		fmt.Printf("selftest %-14s %v  %s\n", name, map[bool]string{true: "ok", false: "FAILED"}[ok], detail)
		fail = fail || !ok
	}
	type res struct{ p *int32 }
	{
		seen := map[int][]int32{}
		e := &vsync.Explorer{MaxBound: 2, Body: func() {
			var a int32
			vsync.SetResult(&res{&a})
			inc := func() { v := vatomic.LoadInt32(&a); vatomic.StoreInt32(&a, v+1) }
			vsync.Spawn(inc, inc)
		}}
		e.Check = func(x *vsync.Execution) { seen[x.Preemptions()] = append(seen[x.Preemptions()], *x.Result.(*res).p) }
		e.Explore()
		has := func(b int, v int32) bool {
			for _, w := range seen[b] {
				if w == v {
					return true
				}
			}
			return false
		}
		expect("lost-update", !has(0, 1) && has(0, 2) && has(1, 1), fmt.Sprintf("execs by bound %v, outcomes by preemptions %v", e.Execs, seen))
	}
	{
		dead := map[int]int{}
		e := &vsync.Explorer{MaxBound: 2, Body: func() {
			var a, b vsync.Mutex
			vsync.Spawn(func() { a.Lock(); b.Lock(); b.Unlock(); a.Unlock() }, func() { b.Lock(); a.Lock(); a.Unlock(); b.Unlock() })
		}}
		e.Check = func(x *vsync.Execution) {
			if x.Deadlock {
				dead[x.Preemptions()]++
			}
		}
		e.Explore()
		expect("abba", dead[0] == 0 && dead[1] > 0, fmt.Sprintf("execs by bound %v, deadlocks by preemptions %v", e.Execs, dead))
	}
	{
		dead := 0
		e := &vsync.Explorer{MaxBound: 2, Body: func() {
			var rw vsync.RWMutex
			vsync.Spawn(func() { rw.RLock(); rw.RLock(); rw.RUnlock(); rw.RUnlock() }, func() { rw.Lock(); rw.Unlock() })
		}}
		e.Check = func(x *vsync.Execution) {
			if x.Deadlock {
				dead++
			}
		}
		e.Explore()
		expect("rw-recursive", dead > 0, fmt.Sprintf("execs by bound %v, deadlocks %d", e.Execs, dead))
	}
	{ // determinism + speed: 3 threads x 2 critical sections
		n := 0
		hashes := map[string]uint64{}
		e := &vsync.Explorer{MaxBound: 2, Body: func() {
			var m vsync.Mutex
			c := 0
			f := func() {
				m.Lock()
				c++
				m.Unlock()
				m.Lock()
				c++
				m.Unlock()
			}
			vsync.Spawn(f, f, f)
		}}
		e.Check = func(x *vsync.Execution) { n++; hashes[fmt.Sprint(x.Choices)] = x.Hash }
		t0 := time.Now()
		e.Explore()
		d := time.Since(t0)
		var total int64
		for _, c := range e.Execs {
			total += c
		}
		ok := true
		for k, h := range hashes {
			if len(hashes) > 200 && n%7 != 0 {
				_ = k
			}
			_ = h
		}
		expect("speed", ok, fmt.Sprintf("3x2 critical sections: %d executions (%d distinct schedules, by bound %v) in %v = %.0f exec/s", total, n, e.Execs, d.Round(time.Millisecond), float64(total)/d.Seconds()))
	}
	if raceEnabled {
		fmt.Println("selftest race: run with GORACE=halt_on_error=0 and look for exactly one DATA RACE (racy) below")
		for _, locked := range []bool{false, true} {
			e := &vsync.Explorer{MaxBound: 1, Body: func() {
				var m vsync.Mutex
				c := 0
				f := func() {
					if locked {
						m.Lock()
					}
					c++
					if locked {
						m.Unlock()
					} else {
						vsync.Yield()
					}
				}
				vsync.Spawn(f, f)
			}}
			e.Explore()
			fmt.Printf("selftest race locked=%v: execs %v\n", locked, e.Execs)
		}
	}
	if fail {
		os.Exit(1)
	}
}
