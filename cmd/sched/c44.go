package main

// C44, part "race": data races on shared rounds and blocks. Each harness is a small concurrent
// program over the REAL round.Round / block.Block made of call sequences that exist in the miner
// and sharder workers (cited per harness); every interleaving with at most 2 (3 thorough)
// preemptions is executed in a -race build under the controlled scheduler, whose hand-offs are
// invisible to the race detector: a report therefore means that the two accesses are not ordered
// by the program's OWN synchronisation in that schedule. A report is keyed by the two repository
// functions that perform the racing accesses.
//
// Covered here: the harnesses of DESIGN §3/C44 that live in the packages rewritten by the sync seam
// (chaincore/round, chaincore/block). NOT covered by this part: miner.ValidateTransactions and
// chain {AddBlock || GetBlock} (their packages are not routed through the seam).

import (
	"fmt"

	"0chain.net/chaincore/block"
	"0chain.net/chaincore/round"

	"verif/lib/vsync"
)

type c44World struct {
	r    *round.Round
	b    *block.Block
	b2   *block.Block
	bs   []*block.Block              // blocks built by the setup thread
	snap [2][]*block.Block           // what the snapshot reader saw: right after the call, and again later
	vts  []*block.VerificationTicket // built by the setup thread
	outs []int                       // one slot per thread, written by that thread only
}

func mkBlock(hash string, rank int, tickets ...string) *block.Block {
	b := &block.Block{}
	b.Hash = hash
	b.Round = 7
	b.RoundRank = rank
	for _, t := range tickets {
		b.VerificationTickets = append(b.VerificationTickets, &block.VerificationTicket{VerifierID: t, Signature: "sig-" + t})
	}
	return b
}

type c44Harness struct {
	name    string
	verify  func(w *c44World) []viol // optional oracle on the thread-side observations (all threads ended)
	setup   func(w *c44World)
	threads []func(w *c44World, slot *int)
}

func c44Harnesses() []c44Harness {
	c37Init()
	return []c44Harness{
		{
			// sharder/protocol_round.go:28-31 (AddNotarizedBlock then GetNotarizedBlocks), chain/handler.go:1584 (range over
			// GetNotarizedBlocks in an HTTP handler), miner/protocol_round.go:917 (GetBestRankedNotarizedBlock), concurrent with
			// miner/protocol_round.go:1131 / protocol_receive.go:513 (AddNotarizedBlock from verification and from notarization messages)
			name:  "round: AddNotarizedBlock || GetNotarizedBlocks || GetBestRankedNotarizedBlock",
			setup: func(w *c44World) { w.r.AddNotarizedBlock(mkBlock("h1", 0, "v1")) },
			threads: []func(w *c44World, slot *int){
				func(w *c44World, slot *int) { w.r.AddNotarizedBlock(mkBlock("h2", 1, "v2")) },
				func(w *c44World, slot *int) { *slot = len(w.r.GetNotarizedBlocks()) }, // chain/chain_info.go:58, miner/worker.go:160
				func(w *c44World, slot *int) {
					if b := w.r.GetBestRankedNotarizedBlock(); b != nil {
						*slot = b.RoundRank + 1
					}
				},
			},
		},
		{
			// miner/protocol_round.go:830 (SetPhase(Verify) when verification starts), miner/protocol_bls.go:303,376 (AddVRFShare from
			// the VRF share handler), miner/round.go:225 (SetPhase(Notarize))
			name: "round: SetPhase || AddVRFShare || SetPhase",
			threads: []func(w *c44World, slot *int){
				func(w *c44World, slot *int) { w.r.SetPhase(round.Verify); *slot = int(w.r.GetPhase()) },
				func(w *c44World, slot *int) {
					s := &round.VRFShare{Round: 7, Share: "s0"}
					s.SetParty(c37Nodes[0])
					if w.r.AddVRFShare(s, 2) {
						*slot = 1
					}
				},
				func(w *c44World, slot *int) { w.r.SetPhase(round.Notarize); *slot = len(w.r.GetVRFShares()) },
			},
		},
		{
			// chain/protocol_block.go:283 and miner/protocol_round.go:795 (MergeVerificationTickets), miner/protocol_send.go:30
			// (GetVerificationTickets when sending a notarization), sharder/protocol_block.go:48 and chain/entity.go:1624 (Clone)
			name: "block: MergeVerificationTickets || GetVerificationTickets || Clone",
			setup: func(w *c44World) {
				w.b = mkBlock("h1", 0, "v1")
				w.vts = []*block.VerificationTicket{{VerifierID: "v2", Signature: "sig-v2"}}
			},
			threads: []func(w *c44World, slot *int){
				func(w *c44World, slot *int) { w.b.MergeVerificationTickets(w.vts) },
				func(w *c44World, slot *int) { *slot = len(w.b.GetVerificationTickets()) },
				func(w *c44World, slot *int) { *slot = len(w.b.Clone().VerificationTickets) },
			},
		},
		{
			// miner/chain.go:280, miner/protocol_block.go:1302 (SetStateStatus after computing state), miner/protocol_round.go:389,427
			// and miner/m_handler.go:441 (IsStateComputed)
			name:  "block: SetStateStatus || IsStateComputed || GetStateStatus",
			setup: func(w *c44World) { w.b = mkBlock("h1", 0) },
			threads: []func(w *c44World, slot *int){
				func(w *c44World, slot *int) { w.b.SetStateStatus(block.StateSuccessful) },
				func(w *c44World, slot *int) {
					if w.b.IsStateComputed() {
						*slot = 1
					}
				},
				func(w *c44World, slot *int) { *slot = int(w.b.GetStateStatus()) },
			},
		},
		{
			// chain/entity.go:599 and miner/protocol_receive.go:513: the same block arrives as two objects (own verification and a
			// notarization message): AddNotarizedBlock merges the tickets of both objects into each other
			name:  "round: AddNotarizedBlock(same hash, other object) || AddNotarizedBlock(same hash, third object) || GetVerificationTickets",
			setup: func(w *c44World) { w.b = mkBlock("h1", 0, "v1"); w.r.AddNotarizedBlock(w.b) },
			threads: []func(w *c44World, slot *int){
				func(w *c44World, slot *int) { w.r.AddNotarizedBlock(mkBlock("h1", 0, "v2")) },
				func(w *c44World, slot *int) { w.r.AddNotarizedBlock(mkBlock("h1", 0, "v3")) },
				func(w *c44World, slot *int) { *slot = len(w.b.GetVerificationTickets()) },
			},
		},
		{
			// miner/protocol_bls.go:303,376 (AddVRFShare from the share handler), miner/protocol_bls.go:269,272 and miner/worker.go:157
			// (GetVRFShares when collecting shares / reporting)
			name: "round: AddVRFShare || GetVRFShares || AddVRFShare(other miner)",
			threads: []func(w *c44World, slot *int){
				func(w *c44World, slot *int) {
					s := &round.VRFShare{Round: 7, Share: "s0"}
					s.SetParty(c37Nodes[0])
					if w.r.AddVRFShare(s, 2) {
						*slot = 1
					}
				},
				func(w *c44World, slot *int) { *slot = len(w.r.GetVRFShares()) },
				func(w *c44World, slot *int) {
					s := &round.VRFShare{Round: 7, Share: "s1"}
					s.SetParty(c37Nodes[1])
					if !w.r.VRFShareExist(s) && w.r.AddVRFShare(s, 2) {
						*slot = 1
					}
				},
			},
		},
		{
			// chain/protocol_block.go:267 (AddVerificationTicket), miner/protocol_send.go:30 (GetVerificationTickets),
			// sharder/protocol_block.go:48 and chain/entity.go:1624 (Clone)
			name: "block: AddVerificationTicket || GetVerificationTickets || Clone",
			setup: func(w *c44World) {
				w.b = mkBlock("h1", 0, "v1")
				w.vts = []*block.VerificationTicket{{VerifierID: "v2", Signature: "sig-v2"}}
			},
			threads: []func(w *c44World, slot *int){
				func(w *c44World, slot *int) {
					if w.b.AddVerificationTicket(w.vts[0]) {
						*slot = 1
					}
				},
				func(w *c44World, slot *int) { *slot = len(w.b.GetVerificationTickets()) },
				func(w *c44World, slot *int) { *slot = len(w.b.Clone().VerificationTickets) },
			},
		},
		{
			// chain/entity.go:1592 (AddUniqueBlockExtension when a block extends this one), chain/protocol_block.go:595
			// (GetUniqueBlockExtensions at finalization), sharder/protocol_block.go:48 (Clone)
			name:  "block: AddUniqueBlockExtension || GetUniqueBlockExtensions || Clone",
			setup: func(w *c44World) { w.b = mkBlock("h1", 0); w.b2 = mkBlock("h2", 0); w.b2.MinerID = "miner-2" },
			threads: []func(w *c44World, slot *int){
				func(w *c44World, slot *int) { w.b.AddUniqueBlockExtension(w.b2) },
				func(w *c44World, slot *int) { *slot = len(w.b.GetUniqueBlockExtensions()) },
				func(w *c44World, slot *int) { *slot = len(w.b.Clone().GetUniqueBlockExtensions()) },
			},
		},
		{
			// miner/protocol_round.go:865,871 (SetBlockState from the verification path), miner/protocol_round.go:974,993,1573
			// (GetBlockState from the round/ticket collection paths), sharder/protocol_block.go:48 (Clone)
			name:  "block: SetBlockState || GetBlockState || Clone",
			setup: func(w *c44World) { w.b = mkBlock("h1", 0) },
			threads: []func(w *c44World, slot *int){
				func(w *c44World, slot *int) { w.b.SetBlockState(block.StateVerificationAccepted) },
				func(w *c44World, slot *int) { *slot = int(w.b.GetBlockState()) },
				func(w *c44World, slot *int) { *slot = int(w.b.Clone().GetBlockState()) },
			},
		},
		{
			// miner/chain.go:280, miner/protocol_block.go:1302 (SetStateStatus), miner/m_handler.go:197, miner/protocol_round.go:429,508
			// (GetStateStatus), chain/entity.go:1624 (Clone handed to other goroutines)
			name:  "block: SetStateStatus || GetStateStatus || Clone",
			setup: func(w *c44World) { w.b = mkBlock("h1", 0) },
			threads: []func(w *c44World, slot *int){
				func(w *c44World, slot *int) { w.b.SetStateStatus(block.StateSuccessful) },
				func(w *c44World, slot *int) { *slot = int(w.b.GetStateStatus()) },
				func(w *c44World, slot *int) { *slot = int(w.b.Clone().GetStateStatus()) },
			},
		},
		{
			// round.AddNotarizedBlock -> SetBlockNotarized (miner/protocol_round.go:1131), miner/m_handler.go:188,336,441 and
			// miner/protocol_round.go:757,1074 (IsBlockNotarized), sharder/protocol_block.go:48 (Clone)
			name:  "block: SetBlockNotarized || IsBlockNotarized || Clone",
			setup: func(w *c44World) { w.b = mkBlock("h1", 0) },
			threads: []func(w *c44World, slot *int){
				func(w *c44World, slot *int) { w.b.SetBlockNotarized() },
				func(w *c44World, slot *int) {
					if w.b.IsBlockNotarized() {
						*slot = 1
					}
				},
				func(w *c44World, slot *int) {
					if w.b.Clone().IsBlockNotarized() {
						*slot = 1
					}
				},
			},
		},
		{
			// miner/protocol_round.go:588,666,955 (AddProposedBlock), miner/m_handler.go:321, miner/worker.go:158,
			// miner/protocol_round.go:363 (GetProposedBlocks), chain/handler.go:722, chain/json_handler.go:410 (GetBestRankedProposedBlock)
			name:  "round: AddProposedBlock || GetProposedBlocks || GetBestRankedProposedBlock",
			setup: func(w *c44World) { w.r.AddProposedBlock(mkBlock("h1", 1)); w.b2 = mkBlock("h2", 0) },
			threads: []func(w *c44World, slot *int){
				func(w *c44World, slot *int) { w.r.AddProposedBlock(w.b2) },
				func(w *c44World, slot *int) { *slot = len(w.r.GetProposedBlocks()) },
				func(w *c44World, slot *int) {
					if b := w.r.GetBestRankedProposedBlock(); b != nil {
						*slot = b.RoundRank + 1
					}
				},
			},
		},
		{
			// miner/chain.go:237, miner/protocol_bls.go:509, miner/protocol_receive.go:505 (SetRandomSeed), miner/round.go:133,
			// miner/protocol_bls.go:166 (GetRandomSeed), miner/round.go:244, miner/protocol_bls.go:169, miner/protocol_round.go:235 (HasRandomSeed)
			name: "round: SetRandomSeed || GetRandomSeed || HasRandomSeed+IsRanksComputed",
			threads: []func(w *c44World, slot *int){
				func(w *c44World, slot *int) { w.r.SetRandomSeed(4242, 3) },
				func(w *c44World, slot *int) { *slot = int(w.r.GetRandomSeed()) },
				func(w *c44World, slot *int) {
					if w.r.HasRandomSeed() {
						*slot = 1
					}
					if w.r.IsRanksComputed() {
						*slot += 2
					}
				},
			},
		},
		{
			// sharder/chain.go:609, chain/entity.go:1538 (SetRandomSeedForNotarizedBlock when a notarized block arrives) against
			// miner/protocol_bls.go:509 (SetRandomSeed from the VRF path) and chain/entity.go:1985 (rank lookups: IsRanksComputed guards GetMinerRank)
			name: "round: SetRandomSeedForNotarizedBlock || SetRandomSeed || IsRanksComputed+GetRandomSeed",
			threads: []func(w *c44World, slot *int){
				func(w *c44World, slot *int) { w.r.SetRandomSeedForNotarizedBlock(777, 3) },
				func(w *c44World, slot *int) { w.r.SetRandomSeed(4242, 3) },
				func(w *c44World, slot *int) {
					if w.r.IsRanksComputed() {
						*slot = int(w.r.GetRandomSeed())
					}
				},
			},
		},
		{
			// miner/chain.go:240, miner/protocol_block.go:669, sharder/chain.go:190 (Finalize), miner/m_handler.go:484, miner/worker.go:142,
			// miner/protocol_round.go:223 (IsFinalized), sharder/protocol_block.go:54, chain/worker.go:382 (GetBlockHash)
			name:  "round: Finalize || IsFinalized || GetBlockHash",
			setup: func(w *c44World) { w.b = mkBlock("h1", 0) },
			threads: []func(w *c44World, slot *int){
				func(w *c44World, slot *int) { w.r.Finalize(w.b) },
				func(w *c44World, slot *int) {
					if w.r.IsFinalized() {
						*slot = 1
					}
				},
				func(w *c44World, slot *int) { *slot = len(w.r.GetBlockHash()) },
			},
		},
		{
			// miner/protocol_round.go:1098 (SetPrevBlockVerificationTickets when generating), miner/protocol_round.go:775,791,795
			// (GetPrevBlockVerificationTickets), sharder/protocol_block.go:48 (Clone -> UnverifiedBlockBody.Clone)
			name: "block: SetPrevBlockVerificationTickets || GetPrevBlockVerificationTickets || Clone",
			setup: func(w *c44World) {
				w.b = mkBlock("h1", 0)
				w.vts = []*block.VerificationTicket{{VerifierID: "v2", Signature: "sig-v2"}}
			},
			threads: []func(w *c44World, slot *int){
				func(w *c44World, slot *int) { w.b.SetPrevBlockVerificationTickets(w.vts) },
				func(w *c44World, slot *int) { *slot = len(w.b.GetPrevBlockVerificationTickets()) },
				func(w *c44World, slot *int) { *slot = len(w.b.Clone().PrevBlockVerificationTickets) },
			},
		},
		{
			// chain/protocol_block.go:283 (MergeVerificationTickets), miner/protocol_receive.go:437 (UnknownTickets),
			// miner/protocol_round.go:366,650,779 (VerificationTicketsSize)
			name: "block: MergeVerificationTickets || UnknownTickets || VerificationTicketsSize",
			setup: func(w *c44World) {
				w.b = mkBlock("h1", 0, "v1")
				w.vts = []*block.VerificationTicket{{VerifierID: "v2", Signature: "sig-v2"}, {VerifierID: "v1", Signature: "sig-v1"}}
			},
			threads: []func(w *c44World, slot *int){
				func(w *c44World, slot *int) { w.b.MergeVerificationTickets(w.vts[:1]) },
				func(w *c44World, slot *int) { *slot = len(w.b.UnknownTickets(w.vts)) },
				func(w *c44World, slot *int) { *slot = w.b.VerificationTicketsSize() },
			},
		},
		{
			// miner/protocol_round.go:1660 (IncrementTimeoutCount from the round timeout handler), miner/protocol_bls.go:181,220,244
			// (GetTimeoutCount when checking incoming shares), miner/protocol_bls.go:286 (AddTimeoutVote from the share handler)
			name: "round: IncrementTimeoutCount || GetTimeoutCount || AddTimeoutVote",
			threads: []func(w *c44World, slot *int){
				func(w *c44World, slot *int) { w.r.IncrementTimeoutCount(1234, c37Miners) },
				func(w *c44World, slot *int) { *slot = w.r.GetTimeoutCount() },
				func(w *c44World, slot *int) { w.r.AddTimeoutVote(3, c37Nodes[1].GetKey()) },
			},
		},
		{
			// miner/protocol_round.go:878,1070,1080 (SetVerificationStatus from the verification path), chain/visualizer_handler.go:86
			// (GetVerificationStatus from an HTTP handler), sharder/protocol_block.go:48 (Clone)
			name:  "block: SetVerificationStatus || GetVerificationStatus || Clone",
			setup: func(w *c44World) { w.b = mkBlock("h1", 0) },
			threads: []func(w *c44World, slot *int){
				func(w *c44World, slot *int) { w.b.SetVerificationStatus(block.VerificationSuccessful) },
				func(w *c44World, slot *int) { *slot = w.b.GetVerificationStatus() },
				func(w *c44World, slot *int) { *slot = w.b.Clone().GetVerificationStatus() },
			},
		},
	}
}

// resultOfRoundGetNotarizedBlocks is what the callers of Round.GetNotarizedBlocks do with the slice AFTER
// the call has returned (sharder/protocol_round.go:31, chain/handler.go:1584, chain/protocol_round.go:82,195,444,
// miner/m_handler.go:493 range over it and read the blocks): it walks the slice twice, with a
// lock-taking round call (scheduling points) in between, and records both walks. A race report
// whose reading side is this function is keyed "caller-of-RoundGetNotarizedBlocks".
//
//go:noinline
func resultOfRoundGetNotarizedBlocks(w *c44World, nbs []*block.Block, slot *int) {
	first := make([]*block.Block, len(nbs))
	for i := range nbs {
		first[i] = nbs[i]
		*slot += len(nbs[i].Hash) + nbs[i].RoundRank
	}
	w.snap[0] = first
	_ = w.r.IsFinalized() // other threads may run here
	second := make([]*block.Block, len(nbs))
	for i := range nbs {
		second[i] = nbs[i]
	}
	w.snap[1] = second
}

// c44SnapshotFamily: a round holding 0, 1 or 2 notarized blocks; one thread takes the snapshot
// GetNotarizedBlocks() and keeps using it, one thread rewrites the round's list (a second block of
// the SAME rank and another hash = same-rank replacement after a timeout, a block of another rank,
// or UpdateNotarizedBlock for a stored hash: miner/protocol_round.go:1131, protocol_receive.go:513,
// chain/entity.go:599), a third only asks for the count. Oracles: the race detector in every
// schedule, and snapshot immutability (what the snapshot holds never changes under its holder).
func c44SnapshotFamily() []c44Harness {
	var out []c44Harness
	writers := []struct {
		name string
		op   func(w *c44World)
	}{
		{"AddNotarizedBlock(same rank, other hash)", func(w *c44World) { w.r.AddNotarizedBlock(w.bs[2]) }},
		{"AddNotarizedBlock(other rank)", func(w *c44World) { w.r.AddNotarizedBlock(w.bs[3]) }},
		{"UpdateNotarizedBlock(stored hash, new object)", func(w *c44World) { w.r.UpdateNotarizedBlock(w.bs[4]) }},
	}
	for n := 0; n <= 2; n++ {
		for _, wr := range writers {
			n, wr := n, wr
			out = append(out, c44Harness{
				name: fmt.Sprintf("round with %d notarized block(s): snapshot GetNotarizedBlocks and walk it || %s || len(GetNotarizedBlocks)", n, wr.name),
				setup: func(w *c44World) {
					// bs[0]: rank 0 hash h0, bs[1]: rank 1 hash h1 (initial content), bs[2]: rank 0 hash h0x (same rank as bs[0]),
					// bs[3]: rank 2 hash h3, bs[4]: new object with hash h0
					w.bs = []*block.Block{mkBlock("h0", 0, "v1"), mkBlock("h1", 1, "v1"), mkBlock("h0x", 0, "v2"), mkBlock("h3", 2, "v3"), mkBlock("h0", 0, "v4")}
					for i := 0; i < n; i++ {
						w.r.AddNotarizedBlock(w.bs[i])
					}
				},
				threads: []func(w *c44World, slot *int){
					func(w *c44World, slot *int) { resultOfRoundGetNotarizedBlocks(w, w.r.GetNotarizedBlocks(), slot) },
					func(w *c44World, slot *int) { wr.op(w) },
					func(w *c44World, slot *int) { *slot = len(w.r.GetNotarizedBlocks()) },
				},
				verify: func(w *c44World) []viol {
					for i := range w.snap[0] {
						if i < len(w.snap[1]) && w.snap[0][i] != w.snap[1][i] {
							return []viol{{"C44:GetNotarizedBlocks:snapshot-changes-under-its-holder", fmt.Sprintf("entry %d of a slice returned by GetNotarizedBlocks was %s and later %s: the slice shares the round's storage (%s)",
								i, w.snap[0][i].Hash, w.snap[1][i].Hash, wr.name)}}
						}
					}
					return nil
				},
			})
		}
	}
	return out
}

func c44Scenarios(thorough bool) scenarioSet {
	hs := append(c44Harnesses(), c44SnapshotFamily()...)
	bound := 2
	if thorough {
		bound = 3
	}
	return scenarioSet{N: len(hs), At: func(i int) scenario {
		h := hs[i]
		body := func() {
			r := round.Provider().(*round.Round)
			r.Number = 7
			w := &c44World{r: r, outs: make([]int, len(h.threads))}
			vsync.SetResult(w)
			if h.setup != nil {
				h.setup(w)
			}
			fs := make([]func(), len(h.threads))
			for t := range h.threads {
				t := t
				fs[t] = func() { h.threads[t](w, &w.outs[t]) }
			}
			vsync.Spawn(fs...)
		}
		check := func(x *vsync.Execution) (string, []viol) {
			if x.Deadlock {
				return "DEADLOCK", []viol{{"C44:deadlock:" + h.name, fmt.Sprintf("harness deadlocks: %v", x.Blocked)}}
			}
			if x.Panic != "" {
				return "PANIC", []viol{{"C44:panic:" + h.name, "harness panicked: " + firstLines(x.Panic, 4)}}
			}
			// every thread has ended: its writes reached the controller through the exit edge
			w := x.Result.(*c44World)
			var vs []viol
			if h.verify != nil {
				vs = h.verify(w)
			}
			return fmt.Sprintf("%d:%v", i, w.outs), vs
		}
		return scenario{Name: h.name, Bound: bound, Body: body, Check: check}
	}}
}

func init() {
	suites["C44"] = &suite{Prop: "C44", Scenarios: c44Scenarios, Race: true}
}
