// Command sched hosts the checks of engine E2 (DESIGN.md §1.4): exploration of thread
// interleavings of the real repository code under the controlled scheduler of verif/lib/vsync.
//
//	sched <C37|C44|C46> <quick|thorough>                     parent: shards scenarios over worker subprocesses
//	sched worker <Prop> <tier> <shard> <nshards> <outdir>    worker: explores its share of the scenarios
//	sched replay <Prop> <tier> <scenario index> <choices>    one execution of one schedule (trace on stdout)
//	sched selftest                                           engine self-test on toy programs
//
// A "scenario" is one small concurrent program over the real objects (a fresh world per execution);
// for each scenario EVERY schedule with at most `bound` preemptions is executed (iteratively for
// bound 0,1,..), and the scenario's oracle is evaluated on every execution.
package main

import (
	"bytes"
	"context"
	"encoding/json"
	"fmt"
	"hash/fnv"
	"os"
	"os/exec"
	"path/filepath"
	"runtime"
	"runtime/debug"
	"runtime/pprof"
	"sort"
	"strconv"
	"strings"
	"sync"
	"time"

	"github.com/0chain/common/core/logging"
	"go.uber.org/zap"

	"verif/lib/ev"
	"verif/lib/vsync"
)

// viol is one oracle failure of one execution.
type viol struct {
	Key  string `json:"key"`
	What string `json:"what"`
}

// scenario: Body builds a fresh world, publishes its observation object with vsync.SetResult and
// spawns the threads; Check (run by the controller after the execution) returns a canonical
// outcome string and the oracle failures.
type scenario struct {
	Name  string
	Bound int
	Body  func()
	Check func(x *vsync.Execution) (outcome string, vs []viol)
	// SameOutcome, when set, is the key of the violation reported if two schedules of this scenario
	// end with different outcomes (schedule-independence oracle).
	SameOutcome string
}

// suite is the per-property list of scenarios; it must be a deterministic function of the tier.
type suite struct {
	Prop      string
	Scenarios func(thorough bool) scenarioSet
	Race      bool // oracle = race detector (binary must be built with -race)
	Finish    func(run *ev.Run, thorough bool)
}

// scenarioSet is a lazily generated list (the thorough tiers have millions of scenarios).
type scenarioSet struct {
	N  int
	At func(i int) scenario
}

var suites = map[string]*suite{}

// found is a violation with the schedule that shows it.
type found struct {
	Key         string       `json:"key"`
	What        string       `json:"what"`
	Scenario    int          `json:"scenario"`
	Name        string       `json:"name"`
	Choices     []int        `json:"choices"`
	Preemptions int          `json:"preemptions"`
	Steps       int          `json:"steps"`
	Trace       []vsync.Step `json:"trace"`
	Count       int64        `json:"count"` // executions showing this key
}

type workerResult struct {
	Shard           int               `json:"shard"`
	Scenarios       int               `json:"scenarios"`
	Completed       int               `json:"completed"`
	Capped          bool              `json:"capped"`
	ExecsByBound    []int64           `json:"execs_by_bound"` // executions run in bound iteration b
	NewByBound      []int64           `json:"new_by_bound"`   // distinct schedules with exactly b preemptions
	BoundDoneMin    int               `json:"bound_done_min"`
	Steps           int64             `json:"steps"`
	MaxPoints       int               `json:"max_points"`
	Outcomes        map[string]int64  `json:"outcomes"`
	PerScenario1    int               `json:"scenarios_with_one_outcome"` // among those with more than one schedule
	Multi           int               `json:"scenarios_with_several_schedules"`
	BoundsCompleted map[string]int    `json:"bounds_completed"` // preemption bound -> scenarios explored completely up to it
	Found           map[string]*found `json:"found"`
	Samples         []any             `json:"samples"`
	OutcomeSamples  []string          `json:"outcome_samples"`
	WallS           float64           `json:"wall_s"`
}

// outcomeKey keeps the outcome tables small: long outcome strings are represented by their hash.
func outcomeKey(s string) string {
	if len(s) <= 40 {
		return s
	}
	h := fnv.New64a()
	h.Write([]byte(s))
	return fmt.Sprintf("#%016x", h.Sum64())
}

func quiet() {
	logging.Logger = zap.NewNop()
	logging.N2n = zap.NewNop()
	logging.MemUsage = zap.NewNop()
}

func main() {
	if len(os.Args) < 2 {
		ev.Fatal("usage: sched <Prop> <tier> | worker ... | replay ... | selftest")
	}
	vsync.Fatal = func(msg string) { ev.Fatal("vsync: %s", msg) }
	quiet()
	switch os.Args[1] {
	case "worker":
		worker(os.Args[2:])
	case "replay":
		replay(os.Args[2:])
	case "selftest":
		selftest()
	default:
		parent(os.Args[1])
	}
}

func getSuite(prop string) *suite {
	s := suites[prop]
	if s == nil {
		ev.Fatal("sched: unknown property %s", prop)
	}
	return s
}

// ---- worker -------------------------------------------------------------------------------------

type journal struct {
	f   *os.File
	buf []byte
}

func (j *journal) write(idx int, name string, prefix []int) {
	if j.f == nil {
		return
	}
	// one pwrite of a fixed-size record: "<scenario index>\t<name>\t<choices>" padded with spaces
	b := j.buf[:0]
	b = strconv.AppendInt(b, int64(idx), 10)
	b = append(b, '\t')
	b = append(b, name...)
	b = append(b, '\t')
	for _, c := range prefix {
		b = strconv.AppendInt(b, int64(c), 10)
		b = append(b, ' ')
	}
	for len(b) < 511 {
		b = append(b, ' ')
	}
	b = append(b, '\n')
	j.buf = b
	_, _ = j.f.WriteAt(b, 0)
}

func worker(args []string) {
	if len(args) < 5 {
		ev.Fatal("worker: bad arguments")
	}
	runtime.GOMAXPROCS(1) // hand-off is a Gosched spin: one P keeps it cheap and deterministic
	debug.SetGCPercent(200)
	st := getSuite(args[0])
	thorough := args[1] == "thorough"
	shard, _ := strconv.Atoi(args[2])
	n, _ := strconv.Atoi(args[3])
	outdir := args[4]
	budget := 50 * time.Second
	if thorough {
		budget = 13 * time.Minute
	}
	if v := os.Getenv("VERIF_SCHED_BUDGET_S"); v != "" {
		if s, err := strconv.Atoi(v); err == nil {
			budget = time.Duration(s) * time.Second
		}
	}
	if pf := os.Getenv("VERIF_SCHED_PROF"); pf != "" {
		f, _ := os.Create(pf)
		_ = pprof.StartCPUProfile(f)
		defer pprof.StopCPUProfile()
	}
	start := time.Now()
	deadline := start.Add(budget)
	jf, _ := os.Create(filepath.Join(outdir, fmt.Sprintf("cur.%d", shard)))
	j := &journal{f: jf}
	var rl *raceLog
	if st.Race {
		rl = newRaceLog(filepath.Join(outdir, fmt.Sprintf("race.%d.%d", shard, os.Getpid())), st.Prop)
	}
	scs := st.Scenarios(thorough)
	res := &workerResult{Shard: shard, Outcomes: map[string]int64{}, Found: map[string]*found{}, BoundDoneMin: 99, BoundsCompleted: map[string]int{}}
	checks := 0
	for idx := 0; idx < scs.N; idx++ {
		if idx%n != shard {
			continue
		}
		sc := scs.At(idx)
		res.Scenarios++
		local := map[string]bool{}
		type firstSeen struct {
			outcome string
			choices []int
		}
		var firsts []firstSeen // first schedule of every distinct outcome of this scenario
		var e *vsync.Explorer
		e = &vsync.Explorer{Body: sc.Body, MaxBound: sc.Bound,
			Before: func(prefix []int) {
				if rl != nil {
					rl.skip() // reports of an execution that was not evaluated (a re-run of an already checked schedule in a later bound iteration) must not be charged to the next one
				}
				j.write(idx, sc.Name, prefix)
			},
			Stop: func() bool {
				checks++
				return checks&0x3f == 0 && time.Now().After(deadline)
			},
			Check: func(x *vsync.Execution) {
				outcome, vs := evaluate(&sc, x, rl)
				ok := outcomeKey(outcome)
				if _, seen := res.Outcomes[ok]; !seen && len(res.OutcomeSamples) < 4 {
					res.OutcomeSamples = append(res.OutcomeSamples, outcome)
				}
				res.Outcomes[ok]++
				if !local[ok] && sc.SameOutcome != "" {
					firsts = append(firsts, firstSeen{outcome, x.Choices})
				}
				local[ok] = true
				res.Steps += int64(x.Steps)
				for _, v := range vs {
					f := res.Found[v.Key]
					if f != nil {
						f.Count++
						if !(x.Preemptions() < f.Preemptions || (x.Preemptions() == f.Preemptions && x.Steps < f.Steps)) {
							continue
						}
					}
					// determinism guard: the schedule must show the same failure twice more, with the same operation sequence
					var tr []vsync.Step
					for rep := 0; rep < 2; rep++ {
						y := e.Replay(x.Choices)
						_, ws := evaluate(&sc, y, nil)
						if !st.Race {
							ok := false
							for _, w := range ws {
								ok = ok || w.Key == v.Key
							}
							if !ok {
								ev.Fatal("determinism guard: scenario %d %s schedule %v showed %s, replay %d does not", idx, sc.Name, x.Choices, v.Key, rep)
							}
						}
						if y.Hash != x.Hash || y.Steps != x.Steps {
							ev.Fatal("determinism guard: scenario %d %s schedule %v replays with a different operation sequence", idx, sc.Name, x.Choices)
						}
						tr = y.Trace
					}
					if rl != nil {
						rl.skip() // reports repeated during the traced replays belong to no explored execution
					}
					cnt := int64(1)
					if f != nil {
						cnt = f.Count
					}
					res.Found[v.Key] = &found{Key: v.Key, What: v.What, Scenario: idx, Name: sc.Name, Choices: x.Choices,
						Preemptions: x.Preemptions(), Steps: x.Steps, Trace: tr, Count: cnt}
				}
				if len(res.Samples) < 3 && x.Preemptions() == sc.Bound {
					res.Samples = append(res.Samples, map[string]any{"scenario": sc.Name, "schedule": x.Choices, "outcome": outcome})
				}
			}}
		e.Explore()
		if sc.SameOutcome != "" && len(firsts) > 1 && res.Found[sc.SameOutcome] == nil {
			// determinism guard: both schedules must reproduce their outcome twice
			var tr []vsync.Step
			for _, f := range firsts[:2] {
				for rep := 0; rep < 2; rep++ {
					y := e.Replay(f.choices)
					if o, _ := sc.Check(y); o != f.outcome {
						ev.Fatal("determinism guard: scenario %d %s schedule %v gave %q, replay gives %q", idx, sc.Name, f.choices, f.outcome, o)
					}
					tr = y.Trace
				}
			}
			res.Found[sc.SameOutcome] = &found{Key: sc.SameOutcome, Scenario: idx, Name: sc.Name, Choices: firsts[1].choices, Trace: tr, Count: 1,
				What: fmt.Sprintf("the result depends on the goroutine schedule: schedule %v gives %q, schedule %v gives %q", firsts[0].choices, firsts[0].outcome, firsts[1].choices, firsts[1].outcome)}
		} else if sc.SameOutcome != "" && len(firsts) > 1 {
			res.Found[sc.SameOutcome].Count++
		}
		if os.Getenv("VERIF_SCHED_DEBUG") != "" && len(firsts) > 1 {
			for _, f := range firsts {
				fmt.Fprintf(os.Stderr, "DEBUG multi-outcome %s %v %s\n", sc.Name, f.choices, f.outcome)
			}
		}
		for b := range e.Execs {
			for len(res.ExecsByBound) <= b {
				res.ExecsByBound = append(res.ExecsByBound, 0)
				res.NewByBound = append(res.NewByBound, 0)
			}
			res.ExecsByBound[b] += e.Execs[b]
			res.NewByBound[b] += e.New[b]
		}
		if e.MaxPoints > res.MaxPoints {
			res.MaxPoints = e.MaxPoints
		}
		if e.BoundDone < res.BoundDoneMin {
			res.BoundDoneMin = e.BoundDone
		}
		if e.Capped {
			res.Capped = true
			break
		}
		res.Completed++
		res.BoundsCompleted[strconv.Itoa(sc.Bound)]++
		var execs int64
		for _, c := range e.New {
			execs += c
		}
		if execs > 1 {
			res.Multi++
			if len(local) == 1 {
				res.PerScenario1++
			}
		}
	}
	res.WallS = time.Since(start).Seconds()
	data, _ := json.Marshal(res)
	tmp := filepath.Join(outdir, fmt.Sprintf("res.%d.tmp", shard))
	if err := os.WriteFile(tmp, data, 0o644); err != nil {
		ev.Fatal("worker: %v", err)
	}
	_ = os.Rename(tmp, filepath.Join(outdir, fmt.Sprintf("res.%d.json", shard)))
}

// evaluate applies the generic oracles (deadlock/panic/horizon handled by the scenario's Check so
// that it can name them precisely) and, in a race build, the race-detector oracle.
func evaluate(sc *scenario, x *vsync.Execution, rl *raceLog) (string, []viol) {
	outcome, vs := sc.Check(x)
	if rl != nil {
		for _, r := range rl.fresh() {
			vs = append(vs, r)
			outcome += " RACE"
		}
	}
	return outcome, vs
}

// ---- replay of one schedule (fresh process) -----------------------------------------------------

func replay(args []string) {
	if len(args) < 4 {
		ev.Fatal("replay: bad arguments")
	}
	runtime.GOMAXPROCS(1)
	st := getSuite(args[0])
	idx, _ := strconv.Atoi(args[2])
	var choices []int
	if err := json.Unmarshal([]byte(args[3]), &choices); err != nil {
		ev.Fatal("replay: %v", err)
	}
	scs := st.Scenarios(args[1] == "thorough")
	if idx < 0 || idx >= scs.N {
		ev.Fatal("replay: scenario index out of range")
	}
	sc := scs.At(idx)
	e := &vsync.Explorer{Body: sc.Body}
	x := e.Replay(choices)
	outcome, vs := sc.Check(x)
	out, _ := json.Marshal(map[string]any{"scenario": sc.Name, "outcome": outcome, "violations": vs, "execution": x})
	fmt.Println(string(out))
}

// ---- parent -------------------------------------------------------------------------------------

func parent(prop string) {
	key := prop // suite key: "<Prop>" or "<Prop>:<part argument>" (META "args")
	if len(os.Args) > 3 && os.Args[3] != "" {
		key = prop + ":" + os.Args[3]
	}
	st := getSuite(key)
	run := ev.Start(prop)
	thorough := run.Thorough()
	self := os.Getenv("VERIF_BIN")
	if self == "" {
		self, _ = os.Executable()
	}
	if st.Race && !raceEnabled {
		ev.Fatal("%s needs the -race build of this binary", prop)
	}
	outdir, err := os.MkdirTemp(filepath.Join(ev.Root(), ".work"), "sched-"+prop+"-")
	if err != nil {
		ev.Fatal("%v", err)
	}
	scratch = outdir
	nsc := st.Scenarios(thorough).N
	n := runtime.NumCPU()
	if n > nsc {
		n = nsc
	}
	if n < 1 {
		n = 1
	}
	tier := "quick"
	if thorough {
		tier = "thorough"
	}
	var wg sync.WaitGroup
	errs := make([]string, n)
	for i := 0; i < n; i++ {
		wg.Add(1)
		go func(i int) {
			defer wg.Done()
			// watchdog: a worker that is still alive well after its own time budget hangs in a real
			// (unmodelled) blocking operation: that is an internal error of the harness, not a verdict
			limit := 3 * time.Minute
			if thorough {
				limit = 16 * time.Minute
			}
			ctx, cancel := context.WithTimeout(context.Background(), limit)
			defer cancel()
			cmd := exec.CommandContext(ctx, self, "worker", key, tier, strconv.Itoa(i), strconv.Itoa(n), outdir)
			cmd.Env = append(os.Environ(), "GOMAXPROCS=1")
			if st.Race {
				// discovery: the detector reports into a log and the exploration goes on; every distinct
				// report is then confirmed in fresh processes with halt_on_error=1 exitcode=66 (below)
				cmd.Env = append(cmd.Env, "GORACE=halt_on_error=0 exitcode=0 history_size=2 suppress_equal_stacks=0 suppress_equal_addresses=0 log_path="+filepath.Join(outdir, fmt.Sprintf("race.%d", i)))
			}
			var stderr bytes.Buffer
			cmd.Stderr = &stderr
			cmd.Stdout = &stderr
			if err := cmd.Run(); err != nil {
				cur, _ := os.ReadFile(filepath.Join(outdir, fmt.Sprintf("cur.%d", i)))
				errs[i] = fmt.Sprintf("worker %d: %v; schedule in flight: %s; output: %s", i, err, strings.TrimSpace(string(cur)), tail(stderr.String(), 1500))
			}
		}(i)
	}
	wg.Wait()
	for _, e := range errs {
		if e != "" {
			_ = os.RemoveAll(outdir)
			ev.Fatal("%s", e)
		}
	}
	total := &workerResult{Outcomes: map[string]int64{}, Found: map[string]*found{}, BoundDoneMin: 99, BoundsCompleted: map[string]int{}}
	for i := 0; i < n; i++ {
		data, err := os.ReadFile(filepath.Join(outdir, fmt.Sprintf("res.%d.json", i)))
		if err != nil {
			die("missing worker result: %v", err)
		}
		var r workerResult
		if err := json.Unmarshal(data, &r); err != nil {
			die("worker result: %v", err)
		}
		total.Scenarios += r.Scenarios
		total.Completed += r.Completed
		total.Capped = total.Capped || r.Capped
		total.Steps += r.Steps
		total.PerScenario1 += r.PerScenario1
		total.Multi += r.Multi
		for k, v := range r.BoundsCompleted {
			total.BoundsCompleted[k] += v
		}
		if r.MaxPoints > total.MaxPoints {
			total.MaxPoints = r.MaxPoints
		}
		if r.BoundDoneMin < total.BoundDoneMin {
			total.BoundDoneMin = r.BoundDoneMin
		}
		if r.WallS > total.WallS {
			total.WallS = r.WallS
		}
		for b := range r.ExecsByBound {
			for len(total.ExecsByBound) <= b {
				total.ExecsByBound = append(total.ExecsByBound, 0)
				total.NewByBound = append(total.NewByBound, 0)
			}
			total.ExecsByBound[b] += r.ExecsByBound[b]
			total.NewByBound[b] += r.NewByBound[b]
		}
		for k, c := range r.Outcomes {
			total.Outcomes[k] += c
		}
		for k, f := range r.Found {
			g := total.Found[k]
			if g == nil {
				total.Found[k] = f
				continue
			}
			cnt := g.Count + f.Count
			if f.Preemptions < g.Preemptions || (f.Preemptions == g.Preemptions && (f.Steps < g.Steps || (f.Steps == g.Steps && f.Scenario < g.Scenario))) {
				total.Found[k] = f
			}
			total.Found[k].Count = cnt
		}
		if len(total.Samples) < 6 {
			total.Samples = append(total.Samples, r.Samples...)
		}
		if len(total.OutcomeSamples) < 8 {
			total.OutcomeSamples = append(total.OutcomeSamples, r.OutcomeSamples...)
		}
	}
	var execs, distinct int64
	for b := range total.ExecsByBound {
		execs += total.ExecsByBound[b]
		distinct += total.NewByBound[b]
	}
	run.Add(int64(len(total.Outcomes)), total.Steps, execs)
	for k := range total.Outcomes {
		run.Outcome(k)
	}
	for _, s := range total.Samples {
		run.Sample(s)
	}
	run.Bounds["scenarios"] = total.Scenarios
	run.Bounds["scenarios_completed"] = total.Completed
	run.Bounds["scenarios_completed_by_preemption_bound"] = total.BoundsCompleted
	run.Bounds["executions_by_bound_iteration"] = total.ExecsByBound
	run.Bounds["distinct_schedules_by_preemptions"] = total.NewByBound
	run.Bounds["max_scheduling_points_per_execution"] = total.MaxPoints
	run.Extra["distinct_schedules"] = distinct
	run.Extra["outcome_samples"] = total.OutcomeSamples
	run.Extra["scenarios_with_several_schedules"] = total.Multi
	run.Extra["of_which_single_outcome"] = total.PerScenario1
	run.Extra["workers"] = n
	run.Extra["executions_per_second"] = int64(float64(execs) / (total.WallS + 1e-9))
	if total.Capped {
		run.Capped(fmt.Sprintf("worker time budget reached: %d of %d scenarios completed", total.Completed, total.Scenarios))
	}
	keys := make([]string, 0, len(total.Found))
	for k := range total.Found {
		keys = append(keys, k)
	}
	sort.Strings(keys)
	for _, k := range keys {
		f := total.Found[k]
		if st.Race && strings.Contains(k, ":race:") {
			confirmRace(self, key, prop, tier, f)
		}
		var sched []string
		for _, s := range f.Trace {
			sched = append(sched, s.String())
		}
		run.Violation(f.Key, fmt.Sprintf("%s [scenario %q, schedule %v, %d preemption(s), seen in %d execution(s)]", f.What, f.Name, f.Choices, f.Preemptions, f.Count),
			map[string]any{"binary": "sched", "scenario_index": f.Scenario, "scenario": f.Name, "tier": tier, "choices": f.Choices, "preemptions": f.Preemptions,
				"operations": sched, "rerun": fmt.Sprintf("%s replay %s %s %d '%s'", filepath.Base(self), key, tier, f.Scenario, jsonInts(f.Choices))})
	}
	fmt.Printf("%s sched: scenarios=%d executions=%d (by bound iteration %v) distinct schedules=%d (by preemptions %v) scenarios completed per preemption bound=%v distinct outcomes=%d multi-schedule scenarios=%d (single-outcome: %d) exec/s=%d workers=%d\n",
		prop, total.Scenarios, execs, total.ExecsByBound, distinct, total.NewByBound, total.BoundsCompleted, len(total.Outcomes), total.Multi, total.PerScenario1,
		int64(float64(execs)/(total.WallS+1e-9)), n)
	if st.Finish != nil {
		st.Finish(run, thorough)
	}
	_ = os.RemoveAll(outdir)
	run.Finish()
}

// scratch is the parent's scratch directory; die removes it before reporting an internal error.
var scratch string

func die(format string, a ...any) {
	if scratch != "" {
		_ = os.RemoveAll(scratch)
	}
	ev.Fatal(format, a...)
}

func jsonInts(a []int) string {
	if a == nil {
		return "[]"
	}
	b, _ := json.Marshal(a)
	return string(b)
}

func tail(s string, n int) string {
	if len(s) > n {
		return "..." + s[len(s)-n:]
	}
	return s
}

// confirmRace replays the schedule twice in fresh processes with the race detector as a halting
// oracle (exit code 66); both must die with the same pair of functions.
func confirmRace(self, key, prop, tier string, f *found) {
	runOnce := func(gorace string) (int, string) {
		cmd := exec.Command(self, "replay", key, tier, strconv.Itoa(f.Scenario), jsonInts(f.Choices))
		cmd.Env = append(os.Environ(), "GOMAXPROCS=1", "GORACE="+gorace)
		var stderr bytes.Buffer
		cmd.Stderr = &stderr
		err := cmd.Run()
		code := 0
		if ee, ok := err.(*exec.ExitError); ok {
			code = ee.ExitCode()
		} else if err != nil {
			die("confirm %s: %v", f.Key, err)
		}
		return code, stderr.String()
	}
	halted := ""
	for rep := 0; rep < 2; rep++ {
		code, out := runOnce("halt_on_error=1 exitcode=66 history_size=2")
		if code != 66 {
			die("determinism guard: %s: schedule %v of scenario %d %s did not halt with exit code 66 on replay %d (exit %d): %s", f.Key, f.Choices, f.Scenario, f.Name, rep, code, tail(out, 800))
		}
		rs := parseRaces(out, prop)
		if len(rs) != 1 || (rep == 1 && rs[0].Key != halted) {
			die("determinism guard: %s: the two halting replays of schedule %v (scenario %d) disagree: %s", f.Key, f.Choices, f.Scenario, tail(out, 1500))
		}
		halted = rs[0].Key
	}
	if halted != f.Key {
		// the schedule shows an earlier race as well (which halts first): let it run on and require this one among its reports
		code, out := runOnce("halt_on_error=0 exitcode=66 history_size=2")
		ok := false
		for _, r := range parseRaces(out, prop) {
			ok = ok || r.Key == f.Key
		}
		if code != 66 || !ok {
			die("determinism guard: %s not reproduced by schedule %v of scenario %d (exit %d): %s", f.Key, f.Choices, f.Scenario, code, tail(out, 1500))
		}
	}
}
