package main

// C46, part "conc": the real orderbuffer.OrderBuffer used by 3 threads x 2 operations; every
// interleaving with at most 2 preemptions (3 in the thorough tier) is executed under the controlled
// scheduler; the recorded call/return history of each execution must be linearizable with respect
// to a sequential reference written from the statement (checked with porcupine), and the final
// content must respect capacity and order.
//
// Reference (from the statement): a list ordered by round. Add(r,d) is ignored when the entry at
// the insert position (the last entry with round <= r) is exactly (r,d); otherwise (r,d) is inserted
// after the entries with round <= r, and when the capacity is exceeded ONE entry of the highest
// round present is dropped (the statement does not say which of several equal-round entries, so the
// reference is nondeterministic there). First/Pop hand out an entry of the lowest round present.

import (
	"fmt"
	"sort"
	"strings"
	"time"

	"0chain.net/core/util/orderbuffer"
	"github.com/anishathalye/porcupine"

	"verif/lib/vsync"
)

type obItem struct {
	R int64
	D string
}

const (
	obAdd = iota
	obFirst
	obPop
	obSnap
)

type obOp struct {
	Kind int
	It   obItem
}

func (o obOp) String() string {
	switch o.Kind {
	case obAdd:
		return fmt.Sprintf("Add(%d,%s)", o.It.R, o.It.D)
	case obFirst:
		return "First"
	case obPop:
		return "Pop"
	}
	return "Snapshot"
}

type obOut struct {
	OK   bool
	It   obItem
	Snap string
}

type obRec struct {
	Call, Ret int64
	Out       obOut
	Done      bool
}

type obWorld struct {
	buf   *orderbuffer.OrderBuffer
	recs  [][]obRec
	final []obItem
}

func encode(st []obItem) string {
	var b strings.Builder
	for i, it := range st {
		if i > 0 {
			b.WriteByte(',')
		}
		fmt.Fprintf(&b, "%d:%s", it.R, it.D)
	}
	return b.String()
}

func decode(s string) []obItem {
	if s == "" {
		return nil
	}
	var out []obItem
	for _, p := range strings.Split(s, ",") {
		var it obItem
		i := strings.IndexByte(p, ':')
		fmt.Sscan(p[:i], &it.R)
		it.D = p[i+1:]
		out = append(out, it)
	}
	return out
}

func canonical(st []obItem) string {
	c := append([]obItem(nil), st...)
	sort.Slice(c, func(i, j int) bool {
		if c[i].R != c[j].R {
			return c[i].R < c[j].R
		}
		return c[i].D < c[j].D
	})
	return encode(c)
}

// refStep is the sequential reference: all states the buffer may be in after op returned out.
func refStep(capacity int, state string, op obOp, out obOut) []interface{} {
	st := decode(state)
	switch op.Kind {
	case obAdd:
		pos := 0
		for pos < len(st) && st[pos].R <= op.It.R {
			pos++
		}
		if pos > 0 && st[pos-1] == op.It {
			return []interface{}{state} // exact repeat of the block held at that position: ignored
		}
		n := append(append(append([]obItem(nil), st[:pos]...), op.It), st[pos:]...)
		if len(n) <= capacity {
			return []interface{}{encode(n)}
		}
		hi := n[len(n)-1].R
		var res []interface{}
		seen := map[string]bool{}
		for i := range n {
			if n[i].R == hi {
				m := append(append([]obItem(nil), n[:i]...), n[i+1:]...)
				if e := encode(m); !seen[e] {
					seen[e] = true
					res = append(res, e)
				}
			}
		}
		return res
	case obFirst, obPop:
		if len(st) == 0 {
			if out.OK {
				return nil
			}
			return []interface{}{state}
		}
		if !out.OK || out.It.R != st[0].R {
			return nil // must hand out a block of the lowest round
		}
		for i := range st {
			if st[i] == out.It {
				if op.Kind == obFirst {
					return []interface{}{state}
				}
				return []interface{}{encode(append(append([]obItem(nil), st[:i]...), st[i+1:]...))}
			}
		}
		return nil // handed out a block it does not hold
	case obSnap:
		if canonical(st) == out.Snap {
			return []interface{}{state}
		}
		return nil
	}
	return nil
}

var linCache = map[string]bool{}

func obModel(capacity int) porcupine.Model {
	nm := porcupine.NondeterministicModel{
		Init: func() []interface{} { return []interface{}{""} },
		Step: func(state, input, output interface{}) []interface{} {
			return refStep(capacity, state.(string), input.(obOp), output.(obOut))
		},
		Equal: func(a, b interface{}) bool { return a.(string) == b.(string) },
	}
	return nm.ToModel()
}

func c46Scenarios(thorough bool) scenarioSet {
	small := []obOp{{obAdd, obItem{1, "a"}}, {obAdd, obItem{1, "a'"}}, {obAdd, obItem{2, "b"}}, {obFirst, obItem{}}, {obPop, obItem{}}}
	large := []obOp{{obAdd, obItem{1, "a"}}, {obAdd, obItem{1, "a'"}}, {obAdd, obItem{2, "b"}}, {obAdd, obItem{3, "c"}}, {obFirst, obItem{}}, {obPop, obItem{}}}
	if !thorough {
		return c46Group(small, []int{2}, 2)
	}
	// thorough: wider alphabet and capacities 1-3 at 2 preemptions, plus the quick alphabet at 3 preemptions
	return concat([]scenarioSet{c46Group(large, []int{1, 2, 3}, 2), c46Group(small, []int{2}, 3)})
}

// c46Group: every multiset of three 2-operation programs over alpha, for each capacity.
func c46Group(alpha []obOp, caps []int, bound int) scenarioSet {
	var progs [][]obOp
	for _, a := range alpha {
		for _, b := range alpha {
			progs = append(progs, []obOp{a, b})
		}
	}
	type tup struct{ c, i, j, k int }
	var tups []tup
	models := map[int]porcupine.Model{}
	for _, capacity := range caps {
		models[capacity] = obModel(capacity)
		for i := 0; i < len(progs); i++ {
			for j := i; j < len(progs); j++ {
				for k := j; k < len(progs); k++ {
					onlyReads := true
					for _, p := range [][]obOp{progs[i], progs[j], progs[k]} {
						for _, o := range p {
							onlyReads = onlyReads && o.Kind != obAdd
						}
					}
					if onlyReads {
						continue // nothing is ever in the buffer: one outcome by construction
					}
					tups = append(tups, tup{capacity, i, j, k})
				}
			}
		}
	}
	return scenarioSet{N: len(tups), At: func(n int) scenario {
		t := tups[n]
		return c46Scenario(t.c, [][]obOp{progs[t.i], progs[t.j], progs[t.k]}, bound, models[t.c])
	}}
}

func c46Scenario(capacity int, progs [][]obOp, bound int, model porcupine.Model) scenario {
	name := fmt.Sprintf("cap=%d %v", capacity, progs)
	body := func() {
		w := &obWorld{buf: orderbuffer.New(capacity), recs: make([][]obRec, len(progs))}
		vsync.SetResult(w)
		fs := make([]func(), len(progs))
		for t := range progs {
			t := t
			w.recs[t] = make([]obRec, len(progs[t]))
			fs[t] = func() {
				for i, op := range progs[t] {
					rec := &w.recs[t][i]
					rec.Call = vsync.Tick()
					switch op.Kind {
					case obAdd:
						rec.Out.OK = w.buf.Add(op.It.R, op.It.D)
					case obFirst:
						it, ok := w.buf.First()
						rec.Out.OK = ok
						if ok {
							rec.Out.It = obItem{it.Round, dataStr(it.Data)}
						}
					case obPop:
						it, ok := w.buf.Pop()
						rec.Out.OK = ok
						if ok {
							rec.Out.It = obItem{it.Round, dataStr(it.Data)}
						}
					}
					rec.Ret = vsync.Tick()
					rec.Done = true
				}
			}
		}
		vsync.Spawn(fs...)
	}
	check := func(x *vsync.Execution) (string, []viol) {
		w := x.Result.(*obWorld)
		var vs []viol
		var final []obItem
		for _, it := range w.buf.Buffer {
			final = append(final, obItem{it.Round, dataStr(it.Data)})
		}
		var hist []porcupine.Operation
		var sig strings.Builder
		var last int64
		type evt struct {
			t    int64
			text string
		}
		var evts []evt
		for t := range w.recs {
			for i, r := range w.recs[t] {
				if !r.Done {
					continue
				}
				op := progs[t][i]
				out := r.Out
				if op.Kind == obAdd {
					out = obOut{} // the statement says nothing about Add's result
				}
				hist = append(hist, porcupine.Operation{ClientId: t, Input: op, Call: r.Call, Output: out, Return: r.Ret})
				evts = append(evts, evt{r.Call, fmt.Sprintf("c%d.%d", t, i)}, evt{r.Ret, fmt.Sprintf("r%d.%d=%v", t, i, out)})
				if r.Ret > last {
					last = r.Ret
				}
				fmt.Fprintf(&sig, "%v->%v;", op, out)
			}
		}
		outcome := sig.String() + "final=" + encode(final)
		if x.Deadlock {
			vs = append(vs, viol{"C46:conc:deadlock", fmt.Sprintf("an OrderBuffer operation never returns: %v", x.Blocked)})
			return outcome + " DEADLOCK", vs
		}
		if x.Panic != "" {
			vs = append(vs, viol{"C46:conc:panic", "an OrderBuffer operation panicked: " + firstLines(x.Panic, 4)})
			return outcome + " PANIC", vs
		}
		if x.Overrun {
			vs = append(vs, viol{"C46:conc:no-progress", "execution exceeded the operation horizon"})
			return outcome, vs
		}
		if len(final) > capacity {
			vs = append(vs, viol{"C46:conc:over-capacity", fmt.Sprintf("final content %v exceeds capacity %d", final, capacity)})
		}
		if !sort.SliceIsSorted(final, func(i, j int) bool { return final[i].R < final[j].R }) {
			vs = append(vs, viol{"C46:conc:unsorted", fmt.Sprintf("final content %v is not ordered by round", final)})
		}
		hist = append(hist, porcupine.Operation{ClientId: len(progs), Input: obOp{Kind: obSnap}, Call: last + 1, Output: obOut{Snap: canonical(final)}, Return: last + 2})
		sort.Slice(evts, func(i, j int) bool { return evts[i].t < evts[j].t })
		var hk strings.Builder
		fmt.Fprintf(&hk, "%d|", capacity)
		for _, e := range evts {
			hk.WriteString(e.text)
			hk.WriteByte(' ')
		}
		hk.WriteString(canonical(final))
		key := hk.String()
		ok, cached := linCache[key]
		if !cached {
			res := porcupine.CheckOperationsTimeout(model, hist, 30*time.Second)
			ok = res != porcupine.Illegal
			if len(linCache) > 200000 {
				linCache = map[string]bool{}
			}
			linCache[key] = ok
		}
		if !ok {
			vs = append(vs, viol{"C46:conc:not-linearizable", fmt.Sprintf("history has no sequential explanation: %s", key)})
		}
		return outcome, vs
	}
	return scenario{Name: name, Bound: bound, Body: body, Check: check}
}

// dataStr renders a buffer entry's data; anything that is not one of the harness's strings (e.g. a
// zero Item left behind by a broken insert) is shown as it is and can never match the reference.
func dataStr(d interface{}) string {
	if s, ok := d.(string); ok {
		return s
	}
	return fmt.Sprintf("<%v>", d)
}

func firstLines(s string, n int) string {
	l := strings.Split(s, "\n")
	if len(l) > n {
		l = l[:n]
	}
	return strings.Join(l, " | ")
}

// c46RaceScenarios: part "race" — the same kind of harness in a -race build with the race detector
// as the oracle (an access to the buffer that takes no lock has no scheduling point and is atomic
// for the linearizability part; the detector sees it in every schedule that leaves it unordered).
func c46RaceScenarios(thorough bool) scenarioSet {
	alpha := []obOp{{obAdd, obItem{1, "a"}}, {obAdd, obItem{2, "b"}}, {obFirst, obItem{}}, {obPop, obItem{}}}
	bound := 2
	var progs [][]obOp
	for _, a := range alpha {
		for _, b := range alpha {
			progs = append(progs, []obOp{a, b})
		}
	}
	if !thorough { // quick: one operation per thread for two of the three threads keeps the race build fast
		progs = progs[:0]
		for _, a := range alpha {
			progs = append(progs, []obOp{a})
		}
		for _, a := range alpha {
			for _, b := range alpha {
				progs = append(progs, []obOp{a, b})
			}
		}
	}
	type tup struct{ i, j, k int }
	var tups []tup
	for i := 0; i < len(progs); i++ {
		for j := i; j < len(progs); j++ {
			for k := j; k < len(progs); k++ {
				n := len(progs[i]) + len(progs[j]) + len(progs[k])
				if !thorough && n > 4 {
					continue
				}
				tups = append(tups, tup{i, j, k})
			}
		}
	}
	model := obModel(2)
	return scenarioSet{N: len(tups), At: func(n int) scenario {
		t := tups[n]
		sc := c46Scenario(2, [][]obOp{progs[t.i], progs[t.j], progs[t.k]}, bound, model)
		inner := sc.Check
		sc.Check = func(x *vsync.Execution) (string, []viol) {
			if x.Deadlock || x.Panic != "" || x.Overrun {
				// thread-side results of an aborted execution are not ordered with the controller: do not read them
				return "ABORTED", []viol{{"C46:race-part:aborted", fmt.Sprintf("execution did not complete: deadlock=%v %v %s", x.Deadlock, x.Blocked, firstLines(x.Panic, 3))}}
			}
			return inner(x)
		}
		return sc
	}}
}

func init() {
	suites["C46"] = &suite{Prop: "C46", Scenarios: c46Scenarios}
	suites["C46:race"] = &suite{Prop: "C46", Scenarios: c46RaceScenarios, Race: true}
}
