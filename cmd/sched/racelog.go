package main

import (
	"fmt"
	"os"
	"sort"
	"strings"
)

// raceLog follows the race detector's log file (GORACE log_path) of this process: after each
// execution fresh() returns the reports that were appended since the last call.
type raceLog struct {
	path string
	off  int64
	prop string
}

func newRaceLog(path, prop string) *raceLog { return &raceLog{path: path, prop: prop} }

func (r *raceLog) read() string {
	st, err := os.Stat(r.path)
	if err != nil || st.Size() <= r.off {
		return ""
	}
	f, err := os.Open(r.path)
	if err != nil {
		return ""
	}
	defer f.Close()
	buf := make([]byte, st.Size()-r.off)
	n, _ := f.ReadAt(buf, r.off)
	r.off += int64(n)
	return string(buf[:n])
}

func (r *raceLog) fresh() []viol {
	s := r.read()
	if s == "" {
		return nil
	}
	return parseRaces(s, r.prop)
}

func (r *raceLog) skip() { _ = r.read() }

type frame struct{ fn, at string }

func shortFn(fn string) string {
	fn = strings.TrimSuffix(fn, "()")
	// harness functions named resultOf<Type><Method> stand for "a caller using what <Method> returned"
	if strings.HasPrefix(fn, "main.resultOf") {
		return "caller-of-" + strings.TrimPrefix(fn, "main.resultOf")
	}
	if i := strings.LastIndex(fn, "/"); i >= 0 {
		fn = fn[i+1:]
	}
	// a closure is reported under its enclosing function
	for {
		i := strings.LastIndex(fn, ".")
		if i < 0 {
			break
		}
		suffix := fn[i+1:]
		if strings.HasPrefix(suffix, "func") || strings.HasPrefix(suffix, "gowrap") || (len(suffix) > 0 && suffix[0] >= '0' && suffix[0] <= '9') {
			fn = fn[:i]
			continue
		}
		break
	}
	return fn
}

// pick returns the innermost repository frame of an access stack.
func pick(fr []frame) frame {
	for _, f := range fr {
		if strings.HasPrefix(f.fn, "0chain.net/") {
			return f
		}
	}
	for _, f := range fr {
		if !strings.HasPrefix(f.fn, "verif/lib/") && !strings.HasPrefix(f.fn, "runtime.") && !strings.HasPrefix(f.fn, "sync") {
			return f
		}
	}
	if len(fr) > 0 {
		return fr[0]
	}
	return frame{"?", "?"}
}

// parseRaces turns "WARNING: DATA RACE" reports into violations keyed by the two racing functions.
func parseRaces(text, prop string) []viol {
	var out []viol
	seen := map[string]bool{}
	for _, blk := range strings.Split(text, "==================") {
		if !strings.Contains(blk, "WARNING: DATA RACE") {
			continue
		}
		lines := strings.Split(blk, "\n")
		var heads []string
		var stacks [][]frame
		for i := 0; i < len(lines); i++ {
			l := lines[i]
			if (strings.HasPrefix(l, "Read at") || strings.HasPrefix(l, "Write at") || strings.HasPrefix(l, "Previous read at") ||
				strings.HasPrefix(l, "Previous write at") || strings.HasPrefix(l, "Atomic") || strings.HasPrefix(l, "Previous atomic")) && len(stacks) < 2 {
				head := l
				if j := strings.Index(l, " at "); j >= 0 {
					head = l[:j]
				}
				heads = append(heads, head)
				var fr []frame
				for i+2 < len(lines) && strings.HasPrefix(lines[i+1], "  ") && strings.TrimSpace(lines[i+1]) != "" {
					fn := strings.TrimSpace(lines[i+1])
					at := strings.TrimSpace(lines[i+2])
					if j := strings.Index(at, " +0x"); j >= 0 {
						at = at[:j]
					}
					if j := strings.LastIndex(at, "/"); j >= 0 {
						at = at[j+1:]
					}
					fr = append(fr, frame{fn, at})
					i += 2
				}
				stacks = append(stacks, fr)
			}
		}
		if len(stacks) < 2 {
			continue
		}
		a, b := pick(stacks[0]), pick(stacks[1])
		names := []string{shortFn(a.fn), shortFn(b.fn)}
		sort.Strings(names)
		key := fmt.Sprintf("%s:race:%s~%s", prop, names[0], names[1])
		if seen[key] {
			continue
		}
		seen[key] = true
		out = append(out, viol{Key: key, What: fmt.Sprintf("data race: %s by %s (%s) / %s by %s (%s)",
			strings.ToLower(heads[0]), shortFn(a.fn), a.at, strings.ToLower(heads[1]), shortFn(b.fn), b.at)})
	}
	return out
}
