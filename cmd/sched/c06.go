package main

// C06, part "sched": the concurrent readers inside a transition. chaincore/chain/state.GetItemsByIDs
// starts one goroutine per id, joins them with a WaitGroup and assembles the result from buffered
// channels; it is what allocation creation/update (storagesc getBlobbersByIDs), the fee payment of
// the miner contract (payFees: rewarded sharders) and the node-list readers use. Here it runs on a
// real StateContext over an in-memory trie, for every vector of 2 and 3 ids over the classes
// {absent, blobber, validator, miner, sharder} stored under the shared "provider:<id>" key space,
// under the controlled scheduler (state_context.go goes through the sync seam: `go` and WaitGroup
// are scheduling points; the channels are buffered to len(ids), never block and are read only after
// the join, so they need no modelling). Every schedule with at most 2 (3 thorough) preemptions is
// executed; the returned vector and the returned error text (it becomes the transaction output)
// must be identical in every schedule of a scenario.
//
// The reader bodies (cache and trie access in github.com/0chain/common) take real locks and contain
// no scheduling point: each reader runs atomically; what is explored is the order in which the
// readers start, finish and deliver.

import (
	"encoding/json"
	"fmt"
	"strings"

	"0chain.net/chaincore/block"
	cstate "0chain.net/chaincore/chain/state"
	"0chain.net/chaincore/transaction"
	"0chain.net/smartcontract/minersc"
	"0chain.net/smartcontract/provider"
	"0chain.net/smartcontract/stakepool/spenum"
	"0chain.net/smartcontract/storagesc"
	"github.com/0chain/common/core/statecache"
	"github.com/0chain/common/core/util"

	"verif/lib/ev"
	"verif/lib/vsync"
)

func c06Context() *cstate.StateContext {
	mpt := util.NewMerklePatriciaTrie(util.NewMemoryNodeDB(), 1, nil, statecache.NewEmpty())
	b := &block.Block{}
	b.Round = 10
	txn := &transaction.Transaction{}
	txn.Hash = "00000000000000000000000000000000000000000000000000000000000000aa"
	return cstate.NewStateContext(b, mpt, txn,
		func(int64) *block.MagicBlock { return nil },
		func() *block.Block { return b },
		func() *block.MagicBlock { return nil },
		nil,
		func() *block.Block { return b },
		nil)
}

var c06Classes = []byte("ABVMS") // absent, blobber, validator, miner, sharder

func c06Store(ctx *cstate.StateContext, id string, class byte) {
	var obj util.MPTSerializable
	switch class {
	case 'A':
		return
	case 'B':
		sn := &storagesc.StorageNode{}
		if err := json.Unmarshal([]byte(fmt.Sprintf(`{"id":%q,"provider_type":%d,"url":"http://%s.example","capacity":1000000}`, id, spenum.Blobber, id)), sn); err != nil {
			ev.Fatal("c06: blobber: %v", err)
		}
		obj = sn
	case 'V':
		obj = &storagesc.ValidationNode{Provider: provider.Provider{ID: id, ProviderType: spenum.Validator}, BaseURL: "http://" + id + ".example"}
	case 'M', 'S':
		mn := minersc.NewMinerNode()
		mn.ID = id
		mn.ProviderType = spenum.Miner
		if class == 'S' {
			mn.ProviderType = spenum.Sharder
		}
		obj = mn
	}
	if _, err := ctx.InsertTrieNode(provider.GetKey(id), obj); err != nil {
		ev.Fatal("c06: insert: %v", err)
	}
}

type c06World struct {
	out  string
	done bool
}

var c06Getters = []struct {
	name string
	get  func(ids []string, ctx *cstate.StateContext) ([]string, error)
}{
	{"storagesc.getBlobbersByIDs", func(ids []string, ctx *cstate.StateContext) ([]string, error) {
		items, err := storagesc.VerifSchedGetBlobbersByIDs(ids, ctx)
		var out []string
		for _, it := range items {
			out = append(out, it.Id())
		}
		return out, err
	}},
	{"minersc.GetItemsByIDs(getSharderNode)", func(ids []string, ctx *cstate.StateContext) ([]string, error) {
		items, err := minersc.VerifSchedGetSharderNodes(ids, ctx)
		var out []string
		for _, it := range items {
			out = append(out, it.ID)
		}
		return out, err
	}},
	{"minersc.GetItemsByIDs(getMinerNode)", func(ids []string, ctx *cstate.StateContext) ([]string, error) {
		items, err := minersc.VerifSchedGetMinerNodes(ids, ctx)
		var out []string
		for _, it := range items {
			out = append(out, it.ID)
		}
		return out, err
	}},
}

func c06Scenarios(thorough bool) scenarioSet {
	bound := 2
	if thorough {
		bound = 3
	}
	var vecs []string
	var rec func(prefix string, n int)
	rec = func(prefix string, n int) {
		if len(prefix) == n {
			vecs = append(vecs, prefix)
			return
		}
		for _, c := range c06Classes {
			rec(prefix+string(c), n)
		}
	}
	rec("", 2)
	rec("", 3)
	n := len(c06Getters) * len(vecs)
	return scenarioSet{N: n, At: func(i int) scenario {
		g := c06Getters[i/len(vecs)]
		vec := vecs[i%len(vecs)]
		ids := make([]string, len(vec))
		for k := range vec {
			ids[k] = fmt.Sprintf("%063x%d", 0xabc, k)
		}
		body := func() {
			w := &c06World{}
			vsync.SetResult(w)
			ctx := c06Context()
			for k := range vec {
				c06Store(ctx, ids[k], vec[k])
			}
			got, err := g.get(ids, ctx)
			if err != nil {
				w.out = "error: " + err.Error()
			} else {
				w.out = "items: " + strings.Join(got, ",")
			}
			w.done = true
		}
		check := func(x *vsync.Execution) (string, []viol) {
			w := x.Result.(*c06World)
			if x.Deadlock {
				return "DEADLOCK", []viol{{"C06:GetItemsByIDs:deadlock", fmt.Sprintf("the fan-out read never returns: %v", x.Blocked)}}
			}
			if x.Panic != "" {
				// a panic is an outcome like any other for this property (it must then occur in every
				// schedule); panics themselves are reported by the properties that own them (C07)
				return g.name + " " + vec + " -> " + firstLines(x.Panic, 1), nil
			}
			if !w.done {
				return "INCOMPLETE", []viol{{"C06:GetItemsByIDs:no-progress", "execution ended before the read returned"}}
			}
			return g.name + " " + vec + " -> " + w.out, nil
		}
		return scenario{Name: g.name + " classes=" + vec, Bound: bound, Body: body, Check: check,
			SameOutcome: "C06:" + g.name + ":result-depends-on-schedule"}
	}}
}

func init() {
	suites["C06"] = &suite{Prop: "C06", Scenarios: c06Scenarios}
}
