package main

// C37: round state transitions are monotone and never deadlock — the real round.Round driven
// (a) by every operation sequence up to depth 4 (5 thorough) in one managed thread and (b) by 2-3
// concurrent threads x 1-2 operations in every interleaving with at most 2 (3) preemptions. Because
// blocking is modelled by the scheduler, an operation that never returns is a deterministic
// DEADLOCK verdict, not a timeout.
//
// Oracle (from the statement), evaluated on the observations taken before and after every
// operation (raw state through the VerifPeek field accessor, no lock, no scheduling point):
//   phase        never lower than at the previous observation, and after SetPhase(p) /
//                AddNotarizedBlock returned not lower than p / Share, unless an explicit reset
//                (ResetPhase) or an ACCEPTED Restart overlaps the interval;
//   timeout      count never lower than at the previous observation;
//   shares       never more than threshold shares held; a miner's share is accepted at most once
//                per round life (between accepted restarts);
//   returns      every operation returns (deadlock verdict), including a rejected Restart: after a
//                sequential history a final IsFinalized() probe must return as well;
//   finalized    once observed finalized, never observed un-finalized (the alphabet contains the
//                conditional reset only).

import (
	"fmt"
	"sort"
	"strings"

	"0chain.net/chaincore/block"
	"0chain.net/chaincore/node"
	"0chain.net/chaincore/round"

	"verif/lib/vsync"
)

const (
	rSetPhase = iota
	rResetPhase
	rAddShare
	rAddNotarized
	rRestart
	rSetFinalizing
	rFinalize
	rSetFinalized
	rResetIfNotFinalized
	rIncTimeout
	rSetTimeout
	rAddVote
	rProbe
	rGetBest
	rGetHeaviest
	rGetNotarized
)

type rOp struct {
	Kind int
	Arg  int
}

var rFuncNames = map[int]string{rSetPhase: "SetPhase", rResetPhase: "ResetPhase", rAddShare: "AddVRFShare", rAddNotarized: "AddNotarizedBlock",
	rRestart: "Restart", rSetFinalizing: "SetFinalizing", rFinalize: "Finalize", rSetFinalized: "SetFinalized",
	rResetIfNotFinalized: "ResetFinalizingStateIfNotFinalized", rIncTimeout: "IncrementTimeoutCount", rSetTimeout: "SetTimeoutCount",
	rAddVote: "AddTimeoutVote", rProbe: "IsFinalized",
	rGetBest: "GetBestRankedNotarizedBlock", rGetHeaviest: "GetHeaviestNotarizedBlock", rGetNotarized: "GetNotarizedBlocks"}

func (o rOp) String() string {
	switch o.Kind {
	case rSetPhase, rResetPhase:
		return fmt.Sprintf("%s(%s)", rFuncNames[o.Kind], round.GetPhaseName(round.Phase(o.Arg)))
	case rAddShare:
		return fmt.Sprintf("AddVRFShare(m%d)", o.Arg)
	case rAddNotarized, rFinalize:
		return fmt.Sprintf("%s(b%d)", rFuncNames[o.Kind], o.Arg)
	case rSetTimeout:
		return fmt.Sprintf("SetTimeoutCount(%d)", o.Arg)
	case rAddVote:
		return fmt.Sprintf("AddTimeoutVote(%d,m1)", o.Arg)
	}
	return rFuncNames[o.Kind] + "()"
}

const c37Threshold = 2

var (
	c37Miners *node.Pool
	c37Nodes  []*node.Node
)

func c37Init() {
	if c37Miners != nil {
		return
	}
	c37Miners = node.NewPool(node.NodeTypeMiner)
	for i := 0; i < 3; i++ {
		n := &node.Node{}
		n.Type = node.NodeTypeMiner
		_ = n.SetID(fmt.Sprintf("%064x", 0xa0+i))
		n.SetIndex = i
		c37Nodes = append(c37Nodes, n)
		c37Miners.Nodes = append(c37Miners.Nodes, n)
		c37Miners.NodesMap[n.GetKey()] = n
	}
}

type rObs struct {
	T, Last int64 // first and last time this state was sampled
	Phase   round.Phase
	Fin     round.FinalizingState
	Timeout int
	Shares  int
}

type rRec struct {
	Call, Ret int64
	OK        bool // result of AddVRFShare / SetFinalizing / SetTimeoutCount; Restart: accepted
	Done      bool
}

type rWorld struct {
	r    *round.Round
	recs [][]rRec
	obs  []rObs // one stream: only one thread runs at a time
}

// observe samples the raw state; it runs before every visible operation of the execution (probe)
// and before/after every round operation, so every value the phase ever takes is seen.
func (w *rWorld) observe() {
	ph, fin, to, sh := w.r.VerifPeek()
	if n := len(w.obs); n > 0 {
		if l := &w.obs[n-1]; l.Phase == ph && l.Fin == fin && l.Timeout == to && l.Shares == sh {
			l.Last = vsync.Tick()
			return
		}
	}
	t := vsync.Tick()
	w.obs = append(w.obs, rObs{T: t, Last: t, Phase: ph, Fin: fin, Timeout: to, Shares: sh})
}

func c37Body(progs [][]rOp) func() {
	return func() {
		r := round.Provider().(*round.Round)
		r.Number = 7 // round 0 counts as finalized by definition
		w := &rWorld{r: r, recs: make([][]rRec, len(progs))}
		vsync.SetResult(w)
		w.observe()
		vsync.SetProbe(w.observe)
		blocks := []*block.Block{nil, {}, {}}
		for i := 1; i <= 2; i++ {
			blocks[i].Hash = fmt.Sprintf("h%d", i)
			blocks[i].RoundRank = i - 1
			blocks[i].Round = 7
		}
		shares := make([]*round.VRFShare, 3)
		for i := range shares {
			shares[i] = &round.VRFShare{Round: 7, Share: fmt.Sprintf("s%d", i)}
			shares[i].SetParty(c37Nodes[i])
		}
		fs := make([]func(), len(progs))
		for t := range progs {
			t := t
			w.recs[t] = make([]rRec, len(progs[t]))
			fs[t] = func() {
				for i, op := range progs[t] {
					rec := &w.recs[t][i]
					w.observe()
					rec.Call = vsync.Tick()
					switch op.Kind {
					case rSetPhase:
						r.SetPhase(round.Phase(op.Arg))
					case rResetPhase:
						r.ResetPhase(round.Phase(op.Arg))
					case rAddShare:
						rec.OK = r.AddVRFShare(shares[op.Arg], c37Threshold)
					case rAddNotarized:
						r.AddNotarizedBlock(blocks[op.Arg])
					case rRestart:
						rec.OK = r.Restart() == nil
					case rSetFinalizing:
						rec.OK = r.SetFinalizing()
					case rFinalize:
						r.Finalize(blocks[op.Arg])
					case rSetFinalized:
						r.SetFinalized()
					case rResetIfNotFinalized:
						r.ResetFinalizingStateIfNotFinalized()
					case rIncTimeout:
						r.IncrementTimeoutCount(1234, c37Miners)
					case rSetTimeout:
						rec.OK = r.SetTimeoutCount(op.Arg)
					case rAddVote:
						r.AddTimeoutVote(op.Arg, c37Nodes[1].GetKey())
					case rProbe:
						rec.OK = r.IsFinalized()
					case rGetBest:
						rec.OK = r.GetBestRankedNotarizedBlock() != nil
					case rGetHeaviest:
						rec.OK = r.GetHeaviestNotarizedBlock() != nil
					case rGetNotarized:
						rec.OK = len(r.GetNotarizedBlocks()) > 0
					}
					rec.Ret = vsync.Tick()
					rec.Done = true
					w.observe()
				}
			}
		}
		vsync.Spawn(fs...)
	}
}

func c37Check(progs [][]rOp) func(x *vsync.Execution) (string, []viol) {
	return func(x *vsync.Execution) (string, []viol) {
		w := x.Result.(*rWorld)
		var vs []viol
		add := func(key, what string) {
			for _, v := range vs {
				if v.Key == key {
					return
				}
			}
			vs = append(vs, viol{key, what})
		}
		obs := w.obs
		const inf = int64(1) << 60
		type ival struct {
			op       rOp
			call, rt int64
			ok, done bool
		}
		var ops []ival
		for t := range w.recs {
			for i, rc := range w.recs[t] {
				if rc.Call == 0 {
					continue
				}
				iv := ival{op: progs[t][i], call: rc.Call, rt: rc.Ret, ok: rc.OK, done: rc.Done}
				if !rc.Done {
					iv.rt = inf
				}
				ops = append(ops, iv)
			}
		}
		// does an explicit phase reset (ResetPhase, accepted or still running Restart) overlap (from, to] ?
		resetIn := func(from, to int64) bool {
			for _, o := range ops {
				if (o.op.Kind == rResetPhase || (o.op.Kind == rRestart && (o.ok || !o.done))) && o.call < to && o.rt > from {
					return true
				}
			}
			return false
		}
		// attribution: the first kind (in the given priority order) that has an operation overlapping (from, to]
		inflight := func(from, to int64, kinds ...int) string {
			for _, k := range kinds {
				for _, o := range ops {
					if o.op.Kind == k && o.call < to && o.rt > from {
						return rFuncNames[k]
					}
				}
			}
			return "unknown"
		}
		for i := 1; i < len(obs); i++ {
			p, c := obs[i-1], obs[i]
			if c.Phase < p.Phase && !resetIn(p.Last, c.T) {
				fn := inflight(p.Last, c.T, rSetPhase, rAddNotarized, rAddShare)
				if fn != "unknown" {
					add("C37:setPhase:lost-update-phase-moves-back", fmt.Sprintf("phase went %s -> %s while %s was running and no reset/accepted restart overlapped (setPhase is load-then-store: a stale value overwrote a newer one)",
						round.GetPhaseName(p.Phase), round.GetPhaseName(c.Phase), fn))
				} else {
					add("C37:"+inflight(p.Last, c.T, rRestart, rFinalize, rSetFinalized, rSetFinalizing, rResetIfNotFinalized, rIncTimeout, rSetTimeout, rAddVote)+":phase-moves-back",
						fmt.Sprintf("phase went %s -> %s without an explicit reset or accepted restart", round.GetPhaseName(p.Phase), round.GetPhaseName(c.Phase)))
				}
			}
			if c.Timeout < p.Timeout {
				add("C37:"+inflight(p.Last, c.T, rSetTimeout, rIncTimeout, rAddVote, rRestart)+":timeout-count-decreases", fmt.Sprintf("timeout count went %d -> %d", p.Timeout, c.Timeout))
			}
			if p.Fin == round.RoundStateFinalized && c.Fin != round.RoundStateFinalized {
				add("C37:"+inflight(p.Last, c.T, rResetIfNotFinalized, rSetFinalizing, rRestart, rFinalize, rSetFinalized)+":finalized-round-becomes-unfinalized",
					fmt.Sprintf("finalizing state went Finalized -> %d", c.Fin))
			}
		}
		for _, o := range obs {
			if o.Shares > c37Threshold {
				add("C37:AddVRFShare:more-than-threshold-shares", fmt.Sprintf("%d shares held, threshold %d", o.Shares, c37Threshold))
			}
		}
		// a miner's share accepted twice within one round life
		for m := 0; m < 3; m++ {
			var acc []ival
			for _, o := range ops {
				if o.op.Kind == rAddShare && o.op.Arg == m && o.done && o.ok {
					acc = append(acc, o)
				}
			}
			sort.Slice(acc, func(i, j int) bool { return acc[i].rt < acc[j].rt })
			for i := 1; i < len(acc); i++ {
				restarted := false
				for _, o := range ops {
					if o.op.Kind == rRestart && (o.ok || !o.done) && o.call < acc[i].rt && o.rt > acc[i-1].call {
						restarted = true
					}
				}
				if !restarted {
					add("C37:AddVRFShare:second-share-of-a-miner-accepted", fmt.Sprintf("two shares of miner m%d accepted without a restart in between", m))
				}
			}
		}
		var sig strings.Builder
		for t := range w.recs {
			for i, rc := range w.recs[t] {
				if rc.Done {
					fmt.Fprintf(&sig, "%v=%v;", progs[t][i], rc.OK)
				}
			}
		}
		if len(obs) > 0 {
			l := obs[len(obs)-1]
			fmt.Fprintf(&sig, "ph=%d fin=%d to=%d sh=%d", l.Phase, l.Fin, l.Timeout, l.Shares)
		}
		outcome := sig.String()
		if x.Deadlock {
			var stuck []string
			for t := range w.recs {
				for i, rc := range w.recs[t] {
					if rc.Call != 0 && !rc.Done {
						stuck = append(stuck, progs[t][i].String())
					}
				}
			}
			sort.Strings(stuck)
			// who holds what the blocked threads wait for: the operation of the holder thread that was
			// running at the logical time of the acquisition
			leaker, leakerRejected := "", false
			for _, b := range x.Blocked {
				if b.HolderThread < 1 || b.HolderThread > len(w.recs) {
					continue
				}
				for i, rc := range w.recs[b.HolderThread-1] {
					if rc.Done && rc.Call <= b.HolderTick && b.HolderTick < rc.Ret {
						op := progs[b.HolderThread-1][i]
						leaker = rFuncNames[op.Kind]
						leakerRejected = op.Kind == rRestart && !rc.OK
					}
				}
			}
			switch {
			case leaker == "Restart" && leakerRejected:
				add("C37:Restart:rejected-restart-leaks-lock", fmt.Sprintf("Restart() returned its error (phase >= Share) with the round mutex still held: %v never return(s) (%v)", stuck, x.Blocked))
			case leaker != "":
				add("C37:"+leaker+":returns-with-lock-held", fmt.Sprintf("%s returned with a lock still held: %v never return(s) (%v)", leaker, stuck, x.Blocked))
			default:
				add("C37:deadlock:no-returned-holder", fmt.Sprintf("operations never return: %v (%v)", stuck, x.Blocked))
			}
			outcome += " DEADLOCK"
		}
		if x.Panic != "" {
			add("C37:panic", "a round operation panicked: "+firstLines(x.Panic, 4))
			outcome += " PANIC"
		}
		if x.Overrun {
			add("C37:no-progress", "execution exceeded the operation horizon")
		}
		return outcome, vs
	}
}

func c37Scenarios(thorough bool) scenarioSet {
	c37Init()
	seqAlpha := []rOp{
		{rSetPhase, int(round.Verify)}, {rSetPhase, int(round.Notarize)}, {rSetPhase, int(round.Share)}, {rResetPhase, int(round.ShareVRF)},
		{rAddShare, 0}, {rAddShare, 1}, {rAddShare, 2}, {rAddNotarized, 1}, {rRestart, 0},
		{rSetFinalizing, 0}, {rFinalize, 1}, {rSetFinalized, 0}, {rResetIfNotFinalized, 0},
		{rIncTimeout, 0}, {rSetTimeout, 1}, {rSetTimeout, 2}, {rGetBest, 0}, {rGetHeaviest, 0}}
	concAlpha := []rOp{
		{rSetPhase, int(round.Verify)}, {rSetPhase, int(round.Notarize)}, {rResetPhase, int(round.ShareVRF)},
		{rAddShare, 0}, {rAddShare, 1}, {rAddNotarized, 1}, {rRestart, 0},
		{rSetFinalizing, 0}, {rSetFinalized, 0}, {rResetIfNotFinalized, 0}, {rIncTimeout, 0}, {rSetTimeout, 2},
		// read accessors that take the round mutex: every operation must return also when readers and writers interleave
		{rGetBest, 0}, {rGetHeaviest, 0}, {rGetNotarized, 0}}
	depth, bound := 4, 2
	if thorough {
		depth, bound = 5, 3
		seqAlpha = append(seqAlpha, rOp{rSetPhase, int(round.Complete)}, rOp{rAddVote, 3})
		concAlpha = seqAlpha
	}
	mk := func(kind string, progs [][]rOp, b int) scenario {
		return scenario{Name: fmt.Sprintf("%s %v", kind, progs), Bound: b, Body: c37Body(progs), Check: c37Check(progs)}
	}
	// (a) every sequence of length 1..depth, followed by the IsFinalized() probe
	var groups []scenarioSet
	for l := 1; l <= depth; l++ {
		l, n := l, 1
		for i := 0; i < l; i++ {
			n *= len(seqAlpha)
		}
		groups = append(groups, scenarioSet{N: n, At: func(i int) scenario {
			seq := make([]rOp, l+1)
			for p := l - 1; p >= 0; p-- {
				seq[p] = seqAlpha[i%len(seqAlpha)]
				i /= len(seqAlpha)
			}
			seq[l] = rOp{rProbe, 0}
			return mk("seq", [][]rOp{seq}, 0)
		}})
	}
	// (b) 2 threads x (1..2 ops), 3 threads x 1 op; threads are interchangeable, so multisets of programs
	var progs [][]rOp
	for _, a := range concAlpha {
		progs = append(progs, []rOp{a})
	}
	for _, a := range concAlpha {
		for _, b := range concAlpha {
			progs = append(progs, []rOp{a, b})
		}
	}
	var pairs [][2]int
	for i := 0; i < len(progs); i++ {
		for j := i; j < len(progs); j++ {
			pairs = append(pairs, [2]int{i, j})
		}
	}
	groups = append(groups, scenarioSet{N: len(pairs), At: func(i int) scenario {
		return mk("conc2", [][]rOp{progs[pairs[i][0]], progs[pairs[i][1]]}, bound)
	}})
	multisets3 := func(n int) [][3]int {
		var out [][3]int
		for i := 0; i < n; i++ {
			for j := i; j < n; j++ {
				for k := j; k < n; k++ {
					out = append(out, [3]int{i, j, k})
				}
			}
		}
		return out
	}
	t1 := multisets3(len(concAlpha))
	groups = append(groups, scenarioSet{N: len(t1), At: func(i int) scenario {
		return mk("conc3", [][]rOp{progs[t1[i][0]], progs[t1[i][1]], progs[t1[i][2]]}, bound)
	}})
	if thorough { // 3 threads x 2 ops over the operations that touch the phase, the lock and the shares
		small := []rOp{{rSetPhase, int(round.Verify)}, {rSetPhase, int(round.Notarize)}, {rAddShare, 0}, {rAddNotarized, 1}, {rRestart, 0}, {rSetFinalized, 0}, {rResetIfNotFinalized, 0}, {rSetTimeout, 2}}
		var p2 [][]rOp
		for _, a := range small {
			for _, b := range small {
				p2 = append(p2, []rOp{a, b})
			}
		}
		t2 := multisets3(len(p2))
		groups = append(groups, scenarioSet{N: len(t2), At: func(i int) scenario {
			return mk("conc3x2", [][]rOp{p2[t2[i][0]], p2[t2[i][1]], p2[t2[i][2]]}, 2)
		}})
	}
	return concat(groups)
}

// concat joins scenario sets, interleaving nothing: index ranges are consecutive.
func concat(groups []scenarioSet) scenarioSet {
	total := 0
	for _, g := range groups {
		total += g.N
	}
	return scenarioSet{N: total, At: func(i int) scenario {
		for _, g := range groups {
			if i < g.N {
				return g.At(i)
			}
			i -= g.N
		}
		panic("scenario index out of range")
	}}
}

func init() {
	suites["C37"] = &suite{Prop: "C37", Scenarios: c37Scenarios}
}
