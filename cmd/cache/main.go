// C07: the state cache never disagrees with the trie.
// part "api": exhaustive exploration of block TREES (forks, queries at old blocks, failed
// transactions, deletes, in-place mutation of returned values) against the real
// statecache.{StateCache,BlockCache,TransactionCache,QueryBlockCache}; the reference ("trie")
// is a per-block key->value map. A cache miss is always legal (the caller falls back to the
// trie); a hit must equal the reference, and a key absent in the reference must miss.
package main

import (
	"fmt"
	"os"

	"github.com/0chain/common/core/logging"
	"github.com/0chain/common/core/statecache"
	"go.uber.org/zap"
	"verif/lib/ev"
)

type box struct{ N int }

func (b *box) Clone() statecache.Value { return &box{N: b.N} }
func (b *box) CopyFrom(v interface{}) bool {
	if o, ok := v.(*box); ok {
		b.N = o.N
		return true
	}
	return false
}

// one macro action
type op struct {
	Kind   string // "block" | "query"
	Parent int    // block index (0 = genesis) for block: parent; for query: the block queried
	Write  string // none | set | del | failset | faildel | set2 (two txns in the block)
	Key    int
}

func (o op) String() string {
	if o.Kind == "query" {
		return fmt.Sprintf("query(b%d,k%d)", o.Parent, o.Key)
	}
	return fmt.Sprintf("block(parent=b%d,%s k%d)", o.Parent, o.Write, o.Key)
}

type refBlock struct {
	parent int
	vals   map[int]int // key -> value; absent = not present
}

type result struct {
	key, what string
}

// replay executes ops on a fresh real cache; returns the first disagreement.
func replay(ops []op, nkeys int) (res *result, linear bool) {
	sc := statecache.NewStateCache()
	ref := []refBlock{{parent: -1, vals: map[int]int{}}}
	hash := func(i int) string { return fmt.Sprintf("blk%d", i) }
	// genesis: keys have value 0 committed at genesis (as InitConfig does for settings nodes)
	{
		bc := statecache.NewBlockCache(sc, statecache.Block{Round: 0, Hash: hash(0)})
		tc := statecache.NewTransactionCache(bc)
		for k := 0; k < nkeys; k++ {
			tc.Set(kname(k), &box{N: 0})
			ref[0].vals[k] = 0
		}
		tc.Commit()
		bc.Commit()
	}
	next := 1
	linear = true
	tip := 0
	check := func(where string, got statecache.Value, ok bool, truth map[int]int, k int) *result {
		want, present := truth[k]
		if !ok {
			return nil // miss: caller reads the trie
		}
		if !present {
			return &result{"deleted-key-served", fmt.Sprintf("%s: key k%d is absent in the trie but the cache served %d", where, k, got.(*box).N)}
		}
		if g := got.(*box).N; g != want {
			return &result{"stale-read", fmt.Sprintf("%s: key k%d cache=%d trie=%d", where, k, g, want)}
		}
		got.(*box).N = -777 // mutate the returned object in place: must not affect later reads
		return nil
	}
	for _, o := range ops {
		switch o.Kind {
		case "query":
			if o.Parent != tip {
				linear = false
			}
			q := statecache.NewTransactionCache(statecache.NewQueryBlockCache(sc, hash(o.Parent)))
			v, ok := q.Get(kname(o.Key))
			if r := check(o.String(), v, ok, ref[o.Parent].vals, o.Key); r != nil {
				return r, linear
			}
		case "block":
			if o.Parent != tip {
				linear = false
			}
			idx := len(ref)
			truth := map[int]int{}
			for k, v := range ref[o.Parent].vals {
				truth[k] = v
			}
			bc := statecache.NewBlockCache(sc, statecache.Block{Round: int64(idx), Hash: hash(idx), PrevHash: hash(o.Parent)})
			txn := func(write string, commit bool) *result {
				tc := statecache.NewTransactionCache(bc)
				blind := len(write) > 0 && write[0] == 'b' // blind write: no read of the key first
				if blind {
					write = write[1:]
				} else {
					v, ok := tc.Get(kname(o.Key))
					if r := check(o.String()+" read-before", v, ok, truth, o.Key); r != nil {
						return r
					}
				}
				var v statecache.Value
				var ok bool
				local := map[int]int{}
				for k, v := range truth {
					local[k] = v
				}
				switch write {
				case "set":
					nv := &box{N: next}
					tc.Set(kname(o.Key), nv)
					nv.N = -555 // caller keeps mutating its object after the insert
					local[o.Key] = next
					next++
				case "del":
					tc.Remove(kname(o.Key))
					delete(local, o.Key)
				}
				v, ok = tc.Get(kname(o.Key))
				if r := check(o.String()+" read-own-write", v, ok, local, o.Key); r != nil {
					return r
				}
				v, ok = tc.Get(kname(o.Key)) // after the in-place mutation of the previous result
				if r := check(o.String()+" re-read", v, ok, local, o.Key); r != nil {
					return r
				}
				if commit {
					tc.Commit()
					for k := range truth {
						delete(truth, k)
					}
					for k, v := range local {
						truth[k] = v
					}
				}
				return nil
			}
			var r *result
			switch o.Write {
			case "none":
				r = txn("none", true)
			case "set", "bset", "del", "bdel":
				r = txn(o.Write, true)
			case "failset":
				r = txn("set", false) // failed transaction: its cache is dropped
			case "faildel":
				r = txn("del", false)
			}
			if r != nil {
				return r, linear
			}
			// a second, read-only transaction in the same block sees the block's committed writes
			if o.Write != "bset" && o.Write != "bdel" { // (a blind-writing block stays blind)
				if r := txn("none", true); r != nil {
					return r, linear
				}
			}
			bc.Commit()
			ref = append(ref, refBlock{parent: o.Parent, vals: truth})
			tip = idx
		}
	}
	return nil, linear
}

func kname(k int) string { return fmt.Sprintf("key%d", k) }

func main() {
	if len(os.Args) < 2 || os.Args[1] != "C07" {
		ev.Fatal("usage: cache C07 [quick|thorough]")
	}
	logging.Logger = zap.NewNop()
	run := ev.Start("C07")
	// quick: depth 4 on one key; thorough: depth 5 on one key, then depth 4 on two keys
	// (depth 5 on two keys is 95 M histories, 80 minutes: run once, no additional violation class)
	maxDepth := run.Pick(4, 5)
	nkeys := 1
	writes := []string{"none", "set", "bset", "del", "bdel", "failset", "faildel"}
	run.Rule = "all sequences up to the depth bound of macro actions {block on ANY existing block with one transaction (none/set/delete/failed set/failed delete) and a second read-only transaction; query read at ANY existing block}; each sequence is replayed on a fresh real StateCache; every read (before the write, own write, re-read after mutating the returned object, query) is compared with the per-block reference map; distinct = distinct block-tree shapes with write patterns"
	run.Bounds["depth"] = maxDepth
	run.Bounds["keys"] = nkeys
	run.Bounds["writes"] = writes
	shapes := map[string]struct{}{}
	depth := 0
	failed := map[string]bool{} // failing histories (their extensions add nothing)
	var rec func(prefix []op, nblocks int)
	rec = func(prefix []op, nblocks int) {
		if failed[fmt.Sprint(prefix)] {
			return
		}
		if len(prefix) == depth {
			res, linear := replay(prefix, nkeys)
			run.Add(0, 1, 1)
			if res != nil {
				regime := "tree"
				if linear {
					regime = "linear"
				}
				var names []string
				for _, o := range prefix {
					names = append(names, o.String())
				}
				run.Violation("C07:statecache-api:"+res.key+":"+regime, res.what+" | history: "+fmt.Sprint(names), map[string]any{"ops": names})
				run.Outcome("violation:" + res.key + ":" + regime)
				failed[fmt.Sprint(prefix)] = true
				return
			}
			k := fmt.Sprint(prefix)
			shapes[k] = struct{}{}
			if len(shapes)%5000 == 1 {
				run.Sample(fmt.Sprint(prefix))
			}
			return
		}
		for p := 0; p < nblocks; p++ {
			for k := 0; k < nkeys; k++ {
				for _, w := range writes {
					rec(append(append([]op{}, prefix...), op{Kind: "block", Parent: p, Write: w, Key: k}), nblocks+1)
				}
				if len(prefix) > 0 {
					rec(append(append([]op{}, prefix...), op{Kind: "query", Parent: p, Key: k}), nblocks)
				}
			}
		}
	}
	// iterative deepening: the first history reported for a violation class is a shortest one
	for depth = 1; depth <= maxDepth; depth++ {
		rec(nil, 1)
	}
	if run.Thorough() {
		nkeys = 2
		for depth = 1; depth <= 4; depth++ {
			rec(nil, 1)
		}
		run.Bounds["keys_second_pass"] = "2 keys to depth 4"
	}
	run.States = int64(len(shapes))
	for k := range shapes {
		run.Outcome(k)
		if len(run.Distinct) > 200000 {
			break
		}
	}
	run.Assumptions = []string{"values are integers in a Clone/CopyFrom box; the per-type deep-copy obligations of the repository's cacheable entities are checked by part 'chain'", "blocks are executed one at a time (no two open block caches)"}
	run.Finish()
}
