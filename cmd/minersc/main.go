// Miner-contract / staking checks on the real chain (engine E1, lib/chainsim):
// C11 stake round trip, C22 fee/reward split, C23 kill/shutdown, C09 part "minersc", C38.
package main

import (
	"fmt"
	"os"

	"verif/lib/ev"
)

var checks = map[string]func(run *ev.Run){}

func main() {
	if len(os.Args) < 2 {
		fmt.Println("usage: minersc <PropId> [quick|thorough]")
		os.Exit(2)
	}
	if os.Args[1] == "probe" {
		probe(os.Args[2:])
		return
	}
	key := os.Args[1]
	if last := os.Args[len(os.Args)-1]; last == "dup" || last == "split" {
		key += ":" + last
	}
	f, ok := checks[key]
	if !ok {
		ev.Fatal("unknown property %s", os.Args[1])
	}
	run := ev.Start(os.Args[1])
	f(run)
	if os.Getenv("VERIF_SHARD") == "" {
		run.Finish()
	}
}
