package main

import (
	"fmt"
	"os"
	"strconv"
	"time"

	"github.com/0chain/common/core/currency"
	"verif/lib/chainsim"
	"verif/lib/ev"
	"verif/lib/world"
)

func init() {
	checks["C11"] = c11
	checks["C22"] = c22
	checks["C23"] = c23
	checks["C09"] = c09
}

// scOverrides: tiny stake bounds and block reward so that boundaries and rounding are reachable
// with small numbers; the harness's owner key is the contract owner.
func scOverrides() map[string]any {
	return map[string]any{
		"smart_contracts.minersc.owner_id":                 world.FileKey("owner", "b0owner_keys.txt").ID,
		"smart_contracts.minersc.min_stake":                1e-9,   // 10 units
		"smart_contracts.minersc.max_stake":                1e-8,   // 100 units
		"smart_contracts.minersc.min_stake_per_delegate":   1e-9,   // provider eligible for rewards from 10 units of stake
		"smart_contracts.minersc.block_reward":             2.3e-9, // 23 units
		"smart_contracts.minersc.share_ratio":              0.3,
		"smart_contracts.minersc.num_sharders_rewarded":    2,
		"smart_contracts.storagesc.max_stake":              0.1,  // 10^9 units (min_stake stays 0.01 = 10^8 units)
		"smart_contracts.storagesc.min_stake_per_delegate": 0.01, // blobbers earn rewards from 10^8 units of stake
		"smart_contracts.storagesc.min_write_price":        0.0,  // a zero-price blobber makes no offers: it can lose all stake while it stores data
	}
}

func mkWorld() *world.World {
	return world.New(world.Options{NumClients: 4, SC: scOverrides()})
}

// registration of two genesis miners and both sharders; c3 is everybody's delegate wallet.
func rootRegister(w *world.World) []chainsim.Action {
	return []chainsim.Action{
		addNode(w, "m0", false, "c3", 0.5, 2),
		addNode(w, "m1", false, "c3", 0, 2),
		addNode(w, "s0", true, "c3", 0.25, 2),
		addNode(w, "s1", true, "c3", 0.5, 2),
	}
}

// everybody staked and eligible: m0 {c0:50,c1:30}, m1 {c0:10}, s0 {c0:20,c1:20}, s1 {c1:10}
func rootStaked(w *world.World) []chainsim.Action {
	return append(rootRegister(w),
		lock(w, "c0", "m0", 50), lock(w, "c1", "m0", 30), lock(w, "c0", "m1", 10),
		lock(w, "c0", "s0", 20), lock(w, "c1", "s0", 20), lock(w, "c1", "s1", 10))
}

func settings(w *world.World, kv ...string) chainsim.Action {
	f := map[string]string{}
	tag := ""
	for i := 0; i+1 < len(kv); i += 2 {
		f[kv[i]] = kv[i+1]
		tag += kv[i] + "=" + kv[i+1] + ","
	}
	return call(w, "owner", "minersc", "update_settings", map[string]any{"fields": f}, 0, 0, ":"+tag)
}

// phase is one exploration of a check (a check may run several, with different roots / depths).
type phase struct {
	name    string
	actions []chainsim.Action
	roots   [][]chainsim.Action
	depth   int
	budget  time.Duration
}

// explorePhases runs the phases one after the other; workers are told which phase they serve
// through VERIF_PHASE (the explorer re-executes this binary with the same arguments).
func explorePhases(run *ev.Run, w *world.World, phases []phase, mons ...chainsim.Monitor) {
	run.Assumptions = append(run.Assumptions, "account leaves = every leaf written through StateContext.SetClientState since genesis (keytap seam)",
		"cold state cache per transition", "grocksdb replaced by the in-memory stand-in",
		"one action = one block; a fee payment's block also holds the fee-carrying transfers executed before it",
		"virtual chain time lies in the past of the wall clock (StakePoolUnlock compares the stake time with time.Now())")
	if os.Getenv("VERIF_SHARD") != "" {
		i, _ := strconv.Atoi(os.Getenv("VERIF_PHASE"))
		p := phases[i]
		(&chainsim.Explorer{Run: run, W: w, Actions: p.actions, Roots: p.roots, Depth: p.depth, Monitors: mons, Budget: p.budget}).Explore()
		return
	}
	var states int64
	outcomes := map[string]int64{}
	var rejected int64
	bounds := map[string]any{}
	alph := map[string][]string{}
	for i, p := range phases {
		if only := os.Getenv("VERIF_ONLY_PHASE"); only != "" && only != p.name {
			continue // debugging aid: run a single phase
		}
		os.Setenv("VERIF_PHASE", strconv.Itoa(i))
		(&chainsim.Explorer{Run: run, W: w, Actions: p.actions, Roots: p.roots, Depth: p.depth, Monitors: mons, Budget: p.budget}).Explore()
		states += run.States
		if m, ok := run.Extra["transition_outcomes"].(map[string]int64); ok {
			for k, c := range m {
				outcomes[k] += c
			}
		}
		if r, ok := run.Extra["rejected_transactions"].(int64); ok {
			rejected += r
		}
		bounds[p.name] = map[string]any{"depth": p.depth, "depth_fully_completed": run.Bounds["depth_fully_completed"], "alphabet_size": len(p.actions), "roots": len(p.roots)}
		alph[p.name], _ = run.Extra["alphabet"].([]string)
	}
	run.States = states
	run.Extra["transition_outcomes"] = outcomes
	run.Extra["rejected_transactions"] = rejected
	run.Extra["alphabet"] = alph
	for _, k := range []string{"depth", "depth_fully_completed", "alphabet_size", "roots"} {
		delete(run.Bounds, k)
	}
	run.Bounds["phases"] = bounds
}

func secs(run *ev.Run, q, t int) time.Duration { return time.Duration(run.Pick(q, t)) * time.Second }

// --- C11 -----------------------------------------------------------------------------------------

func stakeAlphabet(w *world.World) []chainsim.Action {
	return []chainsim.Action{
		lock(w, "c0", "m0", 9), lock(w, "c0", "m0", 10), lock(w, "c0", "m0", 50), lock(w, "c0", "m0", 51), lock(w, "c0", "m0", 101),
		lock(w, "c1", "m0", 100), lock(w, "c2", "m0", 10), lock(w, "c3", "m0", 10),
		lock(w, "c0", "s0", 10),
		unlock(w, "c0", "m0"), unlock(w, "c1", "m0"), unlock(w, "c2", "m0"), unlock(w, "c3", "m0"), unlock(w, "c0", "s0"),
		collect(w, "c0", "m0"), collect(w, "c3", "m0"), collect(w, "c2", "m0"),
		payFees(w, 0, "m0", 0, "c2", 7),
	}
}

func c11(run *ev.Run) {
	w := mkWorld()
	acts := stakeAlphabet(w)
	// wrong provider type for the id, unregistered genesis miner
	wrongType := call(w, "c0", "minersc", "addToDelegatePool", map[string]any{"provider_type": provShard, "provider_id": w.Actors["m0"].ID}, 10, 0, "->m0-as-sharder:10")
	extra := []chainsim.Action{wrongType, lock(w, "c0", "m2", 10), collect(w, "c0", "s0"), lock(w, "c1", "s0", 100), unlock(w, "c1", "s0")}
	mid := append(rootRegister(w), lock(w, "c0", "m0", 50), lock(w, "c1", "m0", 100), lock(w, "c0", "s0", 10), payFees(w, 0, "m0", 0, "c2", 7))
	run.Rule = "BFS over all sequences up to the depth bound of stake lock / unlock / collect_reward / fee payment transactions of 4 clients on a registered miner and sharder (amounts around min_stake 10 and max_stake 100, delegate limit 2, owner / stranger / delegate wallet / repeated unlock), one real Chain.UpdateState per transition; oracle: reference ledger per (provider, delegate) and per account, written from the statement"
	core := []chainsim.Action{lock(w, "c0", "m0", 10), lock(w, "c0", "m0", 50), lock(w, "c0", "m0", 51), lock(w, "c1", "m0", 100), lock(w, "c2", "m0", 10), lock(w, "c0", "s0", 10),
		unlock(w, "c0", "m0"), unlock(w, "c1", "m0"), unlock(w, "c2", "m0"), collect(w, "c0", "m0"), payFees(w, 0, "m0", 0, "c2", 7)}
	storageActors(w)
	sroot := []chainsim.Action{addBlobber(w, "b0", "c3", 2), addValidator(w, "v0", "c3"), sLock(w, "c0", "b0", 5e8)}
	sacts := []chainsim.Action{sLock(w, "c0", "b0", 99999999), sLock(w, "c0", "b0", 1e8), sLock(w, "c0", "b0", 5e8), sLock(w, "c0", "b0", 6e8),
		sLock(w, "c1", "b0", 1e9), sLock(w, "c2", "b0", 1e8), sLock(w, "c0", "v0", 1e8), sLock(w, "c0", "b1", 1e8),
		sUnlock(w, "c0", "b0"), sUnlock(w, "c1", "b0"), sUnlock(w, "c2", "b0"), sUnlock(w, "c0", "v0"), sCollect(w, "c0", "b0"), sCollect(w, "c3", "b0")}
	// wall-clock probe: the same lock / unlock pair, but with chain time ~95 years ahead of the wall
	// clock. StakePoolUnlock compares stake time + min lock period with time.Now(), so here the
	// owner's unlock is refused; the monitor only records it (the statement has no lock period).
	jump := payFees(w, 0, "m0", 0, "c2")
	jump.Name, jump.Dt = "jump-95-years:"+jump.Name, 3000000000
	future := append(rootRegister(w), jump, lock(w, "c0", "m0", 50))
	explorePhases(run, w, []phase{
		{"chain-time-ahead-of-wall-clock", []chainsim.Action{unlock(w, "c0", "m0"), unlock(w, "c1", "m0"), lock(w, "c0", "m0", 10), collect(w, "c0", "m0"), payFees(w, 0, "m0", 0, "c2", 7)},
			[][]chainsim.Action{future}, 2, secs(run, 10, 20)},
		{"storage", sacts, [][]chainsim.Action{sroot}, run.Pick(3, 4), secs(run, 30, 120)},
		{"fresh-core", core, [][]chainsim.Action{rootRegister(w)}, run.Pick(4, 5), secs(run, 40, 250)},
		{"fresh-full", acts, [][]chainsim.Action{rootRegister(w)}, run.Pick(2, 4), secs(run, 20, 150)},
		{"staked-with-rewards", append(acts, extra...), [][]chainsim.Action{mid}, run.Pick(3, 4), secs(run, 40, 250)},
	}, stakeMonitor)
}

// --- C22 -----------------------------------------------------------------------------------------

func feeAlphabet(w *world.World) []chainsim.Action {
	big := currency.Coin(1e10 + 1)
	return []chainsim.Action{
		payFees(w, 0, "m0", 0, "c2"), payFees(w, 0, "m0", 0, "c2", 1), payFees(w, 0, "m0", 0, "c2", 2), payFees(w, 0, "m0", 0, "c2", 3),
		payFees(w, 0, "m0", 0, "c2", 7), payFees(w, 0, "m0", 0, "c2", 7, 3), payFees(w, 0, "m0", 0, "c2", big),
		payFees(w, 1, "m1", 0, "c2", 7), payFees(w, 2, "m2", 0, "c2", 7),
		payFees(w, 1, "m0", 0, "c2", 7), payFees(w, 0, "c2", 0, "c2", 7), payFees(w, 0, "m0", 1, "c2", 7), payFees(w, 0, "m0", -1, "c2", 7),
		kill(w, "owner", "m0"), kill(w, "owner", "s0"), unlock(w, "c0", "m1"), unlock(w, "c1", "s1"), lock(w, "c2", "s1", 10),
		settings(w, "share_ratio", "0"), settings(w, "share_ratio", "1"), settings(w, "share_ratio", "0.5"), settings(w, "reward_rate", "0"),
		settings(w, "num_sharders_rewarded", "1"), settings(w, "num_miner_delegates_rewarded", "1"),
	}
}

func c22(run *ev.Run) {
	w := mkWorld()
	acts := feeAlphabet(w)
	alt := append(rootStaked(w), settings(w, "share_ratio", "0.5", "num_sharders_rewarded", "1", "num_miner_delegates_rewarded", "1", "num_sharder_delegates_rewarded", "1"))
	run.Rule = "BFS over all sequences up to the depth bound of fee payments (generator m0/m1/unregistered m2; caller generator / other miner / client; input round -1/0/+1; block fee totals 0,1,2,3,7,10,10^10+1 carried by transfers in the same block), kills, unlocks that make a provider under-staked and settings updates (share ratio 0/.3/.5/1, reward rate 0/1, rewarded sharders 1/2, rewarded delegates 1/all), from two staked roots; oracle on every fee payment: accepted only from the block's generator for the block's round, credited miner side + sharder side == fees + block reward when generator and all live sharders are eligible, never more otherwise"
	explorePhases(run, w, []phase{
		{"staked", acts, [][]chainsim.Action{rootStaked(w), alt}, run.Pick(3, 4), secs(run, 50, 780)},
	}, feeMonitor)
}

// --- C23 -----------------------------------------------------------------------------------------

func killAlphabet(w *world.World) []chainsim.Action {
	cross := func(fn, target string) chainsim.Action {
		return call(w, "owner", "minersc", fn, map[string]any{"provider_id": w.Actors[target].ID}, 0, 0, "->"+target)
	}
	return []chainsim.Action{
		kill(w, "owner", "m0"), kill(w, "c3", "m0"), kill(w, "m0", "m0"), kill(w, "c2", "m0"),
		kill(w, "owner", "s0"), kill(w, "c3", "s0"), kill(w, "s0", "s0"),
		cross("kill_miner", "s0"), cross("kill_sharder", "m0"), kill(w, "owner", "m2"), kill(w, "owner", "m1"),
		payFees(w, 0, "m0", 0, "c2", 7), payFees(w, 1, "m1", 0, "c2", 7),
		unlock(w, "c0", "m0"), collect(w, "c0", "m0"), lock(w, "c2", "s0", 10),
	}
}

func c23(run *ev.Run) {
	w := mkWorld()
	withRewards := append(rootStaked(w), payFees(w, 0, "m0", 0, "c2", 7))
	run.Rule = "BFS over all sequences up to the depth bound of kill_miner / kill_sharder by contract owner, delegate wallet, the provider itself and a stranger (also with the id of the other provider type, of an unregistered node, and repeated), interleaved with fee payments, unlock, collect and lock; oracle: an accepted kill comes from the owner, marks exactly that provider and its stake pool dead, leaves every other record untouched, delegate balances are not reduced (no slash configured in the miner contract) and never again by a repeated kill; a refused kill changes nothing; a dead provider's unpaid rewards never grow"
	ka := killAlphabet(w)
	core := []chainsim.Action{ka[0], ka[1], ka[3], ka[4], ka[7], ka[8], ka[10], ka[11], ka[12], ka[13], ka[14]}
	storageActors(w)
	sroot := []chainsim.Action{addBlobber(w, "b0", "c3", 2), addBlobber(w, "b1", "c3", 2), addValidator(w, "v0", "c3"),
		sLock(w, "c0", "b0", 4e8), sLock(w, "c1", "b0", 6e8+1), sLock(w, "c0", "v0", 2e8)}
	var sa []chainsim.Action
	for _, who := range []string{"owner", "c3", "b0", "c2"} {
		sa = append(sa, sCall(w, who, "shutdown_blobber", "b0"))
	}
	for _, who := range []string{"owner", "c3", "c2"} {
		sa = append(sa, sCall(w, who, "kill_blobber", "b0"), sCall(w, who, "shutdown_validator", "v0"))
	}
	sa = append(sa, sCall(w, "owner", "kill_validator", "v0"), sCall(w, "c2", "kill_validator", "v0"), sCall(w, "owner", "kill_blobber", "b1"),
		sCall(w, "c3", "shutdown_blobber", "b1"), sCall(w, "owner", "kill_validator", "b0"), sUnlock(w, "c0", "b0"), sLock(w, "c2", "v0", 1e8))
	// a blobber that stores data (its records survive a kill) with and without stake left:
	// b1 serves allocation A of c1 and holds a written MiB; the owner zeroes its offers and the
	// only delegate unstakes (dataNoStake), or the delegate stays (dataStaked).
	dataStaked := []chainsim.Action{addBlobberPriced(w, "b1", "c3", 1e7), addBlobberPriced(w, "b2", "c3", 1e7), addBlobberPriced(w, "b3", "c3", 1e7),
		sLock(w, "c0", "b1", 2e8), sLock(w, "c0", "b2", 2e8), sLock(w, "c0", "b3", 2e8),
		newAllocation(w, "A", "c1", []string{"b1", "b2", "b3"}, 64<<20, 1e9), commitWrite(w, "A", "c1", "b1", 1<<20), readPoolLock(w, "c1", 1e9),
		readRedeem(w, "A", "b1", "c1", 1)}
	dataNoStake := append(append([]chainsim.Action{}, dataStaked...), resetOffers(w, "b1"), sUnlock(w, "c0", "b1"))
	da := []chainsim.Action{
		sCall(w, "owner", "kill_blobber", "b1"), sCall(w, "c2", "kill_blobber", "b1"), sCall(w, "owner", "shutdown_blobber", "b1"), sCall(w, "c3", "shutdown_blobber", "b1"),
		sLock(w, "c2", "b1", 2e8), sUnlock(w, "c2", "b1"), readRedeem(w, "A", "b1", "c1", 3), readRedeem(w, "A", "b1", "c1", 5),
		sCall(w, "owner", "kill_blobber", "b2"), sCollect(w, "c2", "b1"),
	}
	explorePhases(run, w, []phase{
		{"storage-data", da, [][]chainsim.Action{dataNoStake, dataStaked}, run.Pick(3, 4), secs(run, 30, 150)},
		{"kill-full", ka, [][]chainsim.Action{rootStaked(w), withRewards}, run.Pick(3, 4), secs(run, 40, 250)},
		{"kill-core", core, [][]chainsim.Action{withRewards}, run.Pick(4, 5), secs(run, 30, 250)},
		{"storage", sa, [][]chainsim.Action{sroot}, run.Pick(3, 4), secs(run, 30, 120)},
	}, killMonitor, storageKillMonitor)
}

// --- C09 (part minersc) --------------------------------------------------------------------------

// valueAlphabet: every value-moving miner-contract operation (also used by the ledger parts C01-C05).
func valueAlphabet(w *world.World) []chainsim.Action {
	acts := []chainsim.Action{
		lock(w, "c0", "m0", 10), lock(w, "c2", "m0", 100), lock(w, "c2", "s1", 50), lock(w, "c0", "m0", 101),
		unlock(w, "c0", "m0"), unlock(w, "c1", "s0"), unlock(w, "c2", "m0"),
		collect(w, "c0", "m0"), collect(w, "c3", "m0"), collect(w, "c1", "s0"), collect(w, "c3", "s1"),
		payFees(w, 0, "m0", 0, "c2"), payFees(w, 0, "m0", 0, "c2", 7, 3), payFees(w, 1, "m1", 0, "c2", 1), payFees(w, 2, "m2", 0, "c2", 2),
		payFees(w, 1, "m0", 0, "c2", 7),
		kill(w, "owner", "m0"), kill(w, "owner", "s0"),
		settings(w, "share_ratio", "1"), settings(w, "reward_rate", "0"), settings(w, "block_reward", "0.000001"),
		call(w, "c0", "minersc", "nosuchfunction", nil, 5, 3, ""),
	}
	acts = append(acts, chainsim.Action{Name: "send(c0->minersc,7,fee=3)", Build: func(x *chainsim.Ctx) *world.TxnSpec {
		f := w.Actors["c0"]
		return &world.TxnSpec{From: f, To: minerSC, Value: 7, Fee: 3, Nonce: x.Nonce(f) + 1}
	}})
	return acts
}

func c09(run *ev.Run) {
	w := mkWorld()
	acts := valueAlphabet(w)
	run.Rule = "BFS over all sequences up to the depth bound of every value-moving miner-contract operation (lock, unlock, collect_reward, fee payment with and without fees / wrong caller, kill, settings updates incl. block reward, failing call with value, plain transfer to the contract wallet) from a staked root; oracle after every transition: increase of (all delegate balances + all unpaid rewards of all miners and sharders) <= increase of the contract wallet + (block fees + block reward of an accepted fee payment)"
	explorePhases(run, w, []phase{
		{"minersc", acts, [][]chainsim.Action{rootStaked(w), append(rootStaked(w), payFees(w, 0, "m0", 0, "c2", 7))}, run.Pick(3, 4), secs(run, 50, 780)},
	}, liabilityMonitor)
	_ = fmt.Sprint
}
