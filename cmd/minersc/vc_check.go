package main

import (
	"encoding/json"
	"fmt"
	"sort"

	"0chain.net/chaincore/transaction"
	"verif/lib/chainsim"
	"verif/lib/ev"
	"verif/lib/world"
)

func init() { checks["C38"] = c38 }

// kindOf remembers what each built DKG transaction was meant to be (valid / which defect); the
// reference model needs the intended validity of shares and signatures, which only the builder knows.
var kindOf = map[string]string{}

const vcPhaseLen = 2

var phaseName = []string{"start", "contribute", "share", "publish", "wait"}

type memberSet struct{ M, S map[string]bool }

// prevSet: the miner / sharder set of the previous view change: the magic block the contract
// produced and applied, else the genesis magic block.
func prevSet(w *world.World, v *vcView) memberSet {
	ps := memberSet{map[string]bool{}, map[string]bool{}}
	// NOTE: the engine never finalizes blocks, so the chain's "latest finalized magic block" stays the
	// genesis one and every magic block the contract produces carries number genesis+1; magic blocks
	// are therefore told apart by their starting round, never by their number.
	if v.GN != nil && v.GN.PrevMagicBlock != nil {
		pm := v.GN.PrevMagicBlock
		if pm.Miners != nil && len(pm.Miners.Nodes) > 0 {
			for _, n := range pm.Miners.Nodes {
				ps.M[n.GetKey()] = true
			}
			for _, n := range pm.Sharders.Nodes {
				ps.S[n.GetKey()] = true
			}
			return ps
		}
		if v.MB != nil && pm.StartingRound == v.MB.StartingRound {
			for _, n := range v.MB.Miners.Nodes {
				ps.M[n.GetKey()] = true
			}
			for _, n := range v.MB.Sharders.Nodes {
				ps.S[n.GetKey()] = true
			}
			return ps
		}
	}
	for _, a := range w.Miners {
		ps.M[a.ID] = true
	}
	for _, a := range w.Sharders {
		ps.S[a.ID] = true
	}
	return ps
}

func anyIn(ids []string, set map[string]bool) bool {
	for _, id := range ids {
		if set[id] {
			return true
		}
	}
	return false
}

func keysOf[T any](m map[string]T) []string {
	var out []string
	for k := range m {
		out = append(out, k)
	}
	sort.Strings(out)
	return out
}

// moveCondition: the reference condition for leaving the phase of view v (thresholds of the
// contract's settings: min_n, min_s, K of the running DKG; one member of the previous set must stay).
func moveCondition(w *world.World, v *vcView) (bool, string) {
	ps := prevSet(w, v)
	minN, minS := v.GN.MinN, v.GN.MinS
	mpkIDs, sosIDs := keysOf(v.Mpks), keysOf(v.Sos)
	switch v.Phase {
	case 0:
		switch {
		case len(v.Miners) < minN || len(v.Miners) < v.K:
			return false, "too few registered miners"
		case len(v.Sharders) < minS:
			return false, "too few registered sharders"
		case !anyIn(v.Miners, ps.M):
			return false, "no registered miner of the previous set"
		case !anyIn(v.Sharders, ps.S):
			return false, "no registered sharder of the previous set"
		}
		return true, ""
	case 1, 2:
		switch {
		case len(v.Keep) < minS:
			return false, "too few sharders kept"
		case !anyIn(v.Keep, ps.S):
			return false, "no kept sharder of the previous set"
		case len(mpkIDs) == 0 || len(mpkIDs) < v.K:
			return false, "fewer than K public keys"
		case !anyIn(mpkIDs, ps.M):
			return false, "no contributor of the previous set"
		}
		if v.Phase == 1 {
			n := 0
			for _, id := range mpkIDs {
				if v.DKG[id] {
					n++
				}
			}
			if n < minN {
				return false, "fewer than min_n contributors"
			}
		}
		return true, ""
	case 3:
		switch {
		case len(sosIDs) < v.K:
			return false, "fewer than K share sets"
		case !anyIn(sosIDs, ps.M):
			return false, "no share set from the previous set"
		}
		n := 0
		var both []string
		for _, id := range sosIDs {
			if _, ok := v.Mpks[id]; ok && v.DKG[id] {
				n++
				both = append(both, id)
			}
		}
		if n < minN || n < v.K {
			return false, "fewer than min_n miners completed the DKG"
		}
		if !anyIn(both, ps.M) {
			return false, "no completed miner of the previous set"
		}
		if len(v.Keep) > 0 { // the kept sharders become the new sharder set: all registered, at least min_s
			reg := map[string]bool{}
			for _, id := range v.Sharders {
				reg[id] = true
			}
			for _, id := range v.Keep {
				if !reg[id] {
					return false, "a kept sharder is not registered any more"
				}
			}
			if len(v.Keep) < minS {
				return false, "fewer kept sharders than min_s"
			}
		}
		return true, ""
	}
	return true, ""
}

// vcMonitor: reference phase machine + acceptance rules of the DKG transactions.
func vcMonitor(s *chainsim.Step, v func(key, what string)) {
	w := s.W
	v0 := decodeVC(s.Pre.Leaves)
	v1 := decodeVC(s.PreLeaves)
	v2 := decodeVC(s.Post.Leaves)
	r := s.Post.N.Block.Round
	if v0.GN == nil {
		return
	}
	// --- the DKG transactions of the round, one by one, against the reference sets
	ref := struct{ mpk, sos, waited, keep map[string]bool }{map[string]bool{}, map[string]bool{}, map[string]bool{}, map[string]bool{}}
	for id := range v0.Mpks {
		ref.mpk[id] = true
	}
	for id := range v0.Sos {
		ref.sos[id] = true
	}
	for id := range v0.Waited {
		ref.waited[id] = true
	}
	for _, id := range v0.Keep {
		ref.keep[id] = true
	}
	for _, t := range s.BeforeTxns {
		ok := t.Status == transaction.TxnSuccess
		kind := kindOf[t.TransactionData]
		who := name(w, t.ClientID)
		var in struct {
			Mpk []string                   `json:"Mpk"`
			SoS map[string]json.RawMessage `json:"share_or_sign"`
		}
		var d struct {
			Input json.RawMessage `json:"input"`
		}
		_ = json.Unmarshal([]byte(t.TransactionData), &d)
		_ = json.Unmarshal(d.Input, &in)
		outcome := "refused"
		if ok {
			outcome = "accepted"
		}
		s.Tag(fmt.Sprintf("%s-in-%s-%s", kind, phaseName[v0.Phase], outcome))
		if !ok {
			continue
		}
		switch t.FunctionName {
		case "contributeMpk":
			switch {
			case v0.Phase != 1:
				v("C38:contributeMpk:accepted-out-of-phase", fmt.Sprintf("public key of %s accepted in phase %s (round %d)", who, phaseName[v0.Phase], r))
			case !v0.DKG[t.ClientID]:
				v("C38:contributeMpk:accepted-from-non-participant", fmt.Sprintf("public key of %s accepted, not a DKG participant", who))
			case ref.mpk[t.ClientID]:
				v("C38:contributeMpk:accepted-twice", fmt.Sprintf("second public key of %s accepted", who))
			case len(in.Mpk) != v0.T:
				v("C38:contributeMpk:accepted-with-wrong-size", fmt.Sprintf("public key of %s with %d coefficients accepted, T = %d", who, len(in.Mpk), v0.T))
			}
			ref.mpk[t.ClientID] = true
		case "sharder_keep":
			if v0.Phase != 1 {
				v("C38:sharder_keep:accepted-out-of-phase", fmt.Sprintf("sharder keep of %s accepted in phase %s", who, phaseName[v0.Phase]))
			}
			ref.keep[t.ClientID] = true
		case "shareSignsOrShares":
			switch {
			case v0.Phase != 3:
				v("C38:shareSignsOrShares:accepted-out-of-phase", fmt.Sprintf("shares of %s accepted in phase %s", who, phaseName[v0.Phase]))
			case ref.sos[t.ClientID]:
				v("C38:shareSignsOrShares:accepted-twice", fmt.Sprintf("second share set of %s accepted", who))
			case len(in.SoS) < v0.K-1:
				v("C38:shareSignsOrShares:accepted-with-too-few-entries", fmt.Sprintf("share set of %s with %d entries accepted, K-1 = %d", who, len(in.SoS), v0.K-1))
			case kind == "sos-bad-share" || kind == "sos-bad-sign":
				v("C38:shareSignsOrShares:accepted-invalid-content:"+kind, fmt.Sprintf("share set of %s with an invalid entry accepted", who))
			case !v0.DKG[t.ClientID]:
				s.Tag("sos-from-non-participant-accepted")
			}
			ref.sos[t.ClientID] = true
		case "wait":
			switch {
			case v0.Phase != 4:
				v("C38:wait:accepted-out-of-phase", fmt.Sprintf("wait of %s accepted in phase %s", who, phaseName[v0.Phase]))
			case ref.waited[t.ClientID]:
				v("C38:wait:accepted-twice", fmt.Sprintf("second wait of %s accepted", who))
			}
			ref.waited[t.ClientID] = true
		}
	}
	same := func(a map[string]bool, b []string) bool {
		if len(a) != len(b) {
			return false
		}
		for _, id := range b {
			if !a[id] {
				return false
			}
		}
		return true
	}
	if !same(ref.mpk, keysOf(v1.Mpks)) || !same(ref.sos, keysOf(v1.Sos)) || !same(ref.waited, keysOf(v1.Waited)) || !same(ref.keep, v1.Keep) {
		v("C38:dkg-records-differ-from-accepted-transactions", fmt.Sprintf("after the round's DKG transactions the contract holds mpks=%d sos=%d waited=%d keep=%d, accepted transactions give %d/%d/%d/%d",
			len(v1.Mpks), len(v1.Sos), len(v1.Waited), len(v1.Keep), len(ref.mpk), len(ref.sos), len(ref.waited), len(ref.keep)))
	}
	if v0.Has != v1.Has || v0.Phase != v1.Phase || v0.Start != v1.Start {
		v("C38:phase-moved-by-a-dkg-transaction", fmt.Sprintf("phase %s/%d -> %s/%d without a fee payment", phaseName[v0.Phase], v0.Start, phaseName[v1.Phase], v1.Start))
	}
	// --- the phase machine is stepped by an accepted fee payment only
	paid := s.Err == nil && s.Txn.Status == transaction.TxnSuccess && s.Txn.FunctionName == "payFees" && s.Txn.ToClientID == minerSC
	if !paid {
		if v1.Has != v2.Has || v1.Phase != v2.Phase || v1.Start != v2.Start {
			v("C38:phase-moved-without-fee-payment", fmt.Sprintf("phase %s/%d -> %s/%d", phaseName[v1.Phase], v1.Start, phaseName[v2.Phase], v2.Start))
		}
		return
	}
	if !v1.Has {
		if !v2.Has || v2.Phase != 0 || v2.Start != r {
			v("C38:phase-machine-not-initialised-at-start", fmt.Sprintf("first fee payment in round %d left phase %s start %d", r, phaseName[v2.Phase], v2.Start))
		}
		return
	}
	due := r-v1.Start >= vcPhaseLen
	from := phaseName[v1.Phase]
	// a DKG phase is never entered without DKG participants
	if v2.Phase != v1.Phase && v2.Phase >= 1 && v2.Phase <= 4 && (len(v2.DKG) == 0 || v2.K == 0) {
		v("C38:setPhaseNode:phase-entered-with-empty-dkg-miner-set:"+phaseName[v2.Phase], fmt.Sprintf("round %d: %s -> %s (start %d, restarts %d) with %d DKG miners, T/K/N %d/%d/%d",
			r, from, phaseName[v2.Phase], v2.Start, v2.Restarts, len(v2.DKG), v2.T, v2.K, v2.N))
	}
	if !due {
		s.Tag("phase-" + from + "-not-due")
		if v2.Phase != v1.Phase || v2.Start != v1.Start {
			v("C38:phase-left-before-its-rounds-elapsed:"+from, fmt.Sprintf("phase %s started in round %d, left in round %d (configured length %d): now %s/%d", from, v1.Start, r, vcPhaseLen, phaseName[v2.Phase], v2.Start))
		}
		return
	}
	cond, why := moveCondition(w, v1)
	next := (v1.Phase + 1) % 5
	if cond {
		s.Tag("phase-" + from + "-advanced")
		if v2.Phase != next || v2.Start != r {
			key := "C38:setPhaseNode:no-advance-although-condition-holds:" + from
			if v1.GN.PrevMagicBlock != nil {
				key += ":after-a-view-change"
			}
			v(key, fmt.Sprintf("round %d: phase %s ran %d rounds and its condition holds (registered %d miners %d sharders, mpks %d, sos %d, keep %d, K %d) but the contract went to %s/%d restarts %d",
				r, from, r-v1.Start, len(v1.Miners), len(v1.Sharders), len(v1.Mpks), len(v1.Sos), len(v1.Keep), v1.K, phaseName[v2.Phase], v2.Start, v2.Restarts))
			return
		}
	} else {
		s.Tag("phase-" + from + "-restarted")
		if v2.Phase == next && next != 0 {
			v("C38:setPhaseNode:advanced-although-condition-fails:"+from, fmt.Sprintf("round %d: phase %s advanced to %s although %s", r, from, phaseName[v2.Phase], why))
			return
		}
		if v2.Phase != 0 || v2.Start != r {
			v("C38:setPhaseNode:no-restart-although-condition-fails:"+from, fmt.Sprintf("round %d: %s; expected restart at start/%d, contract is at %s/%d", r, why, r, phaseName[v2.Phase], v2.Start))
		}
		if len(v2.Mpks) != 0 || len(v2.Sos) != 0 || len(v2.DKG) != 0 || len(v2.Keep) != 0 || len(v2.Waited) != 0 {
			v("C38:restart-kept-dkg-contributions", fmt.Sprintf("after the restart the contract still holds %d mpks, %d share sets, %d DKG miners, %d kept sharders, %d waits", len(v2.Mpks), len(v2.Sos), len(v2.DKG), len(v2.Keep), len(v2.Waited)))
		}
		if v2.Phase == 0 && v2.Restarts != v1.Restarts+1 {
			v("C38:restart-not-counted", fmt.Sprintf("restarts %d -> %d after a failed %s phase", v1.Restarts, v2.Restarts, from))
		}
		return
	}
	// produced magic block
	if v1.Phase == 3 {
		ps := prevSet(w, v1)
		if v2.MB == nil || (v1.MB != nil && v2.MB.StartingRound == v1.MB.StartingRound) {
			v("C38:createMagicBlockForWait:no-magic-block-produced", "publish -> wait without a new magic block")
			return
		}
		var ms, ss []string
		for _, n := range v2.MB.Miners.Nodes {
			ms = append(ms, n.GetKey())
		}
		for _, n := range v2.MB.Sharders.Nodes {
			ss = append(ss, n.GetKey())
		}
		s.Tag(fmt.Sprintf("magic-block-%dm-%ds", len(ms), len(ss)))
		if !anyIn(ms, ps.M) {
			v("C38:createMagicBlockForWait:no-miner-of-previous-set", fmt.Sprintf("magic block %d has miners %v", v2.MB.MagicBlockNumber, ms))
		}
		if !anyIn(ss, ps.S) {
			v("C38:createMagicBlockForWait:no-sharder-of-previous-set", fmt.Sprintf("magic block %d has sharders %v", v2.MB.MagicBlockNumber, ss))
		}
		for _, id := range ms {
			if _, ok := v1.Mpks[id]; !ok || !v1.Sos[id] {
				v("C38:createMagicBlockForWait:miner-without-completed-dkg", fmt.Sprintf("magic block miner %s has mpk %v shares %v", name(w, id), ok, v1.Sos[id]))
			}
		}
		if v2.MB.StartingRound != r+vcPhaseLen {
			v("C38:createMagicBlockForWait:wrong-starting-round", fmt.Sprintf("magic block starts at %d, wait phase ends at %d", v2.MB.StartingRound, r+vcPhaseLen))
		}
	}
}

func c38(run *ev.Run) {
	w := world.New(world.Options{NumClients: 4, SC: vcSCOverrides(), Viper: map[string]any{"server_chain.view_change": true}})
	m := makeDKGs(w, 3, 4, "g1")
	root := []chainsim.Action{addNode(w, "m0", false, "c3", 0.5, 2), addNode(w, "m1", false, "c3", 0, 2), addNode(w, "m2", false, "c3", 0, 2), addNode(w, "m3", false, "c3", 0, 2),
		addNode(w, "s0", true, "c3", 0.25, 2), addNode(w, "s1", true, "c3", 0.5, 2)}
	alphabet := func(maxDev int) []chainsim.Action {
		dev := func(name string, noPay bool, ds ...dkgTxn) chainsim.Action {
			return vcRound(w, m, name, maxDev, false, noPay, fixedTxs(ds...))
		}
		return []chainsim.Action{
			vcRound(w, m, "H", maxDev, true, false, honestTxs(w)),
			dev("idle", false),
			dev("no-payfees", true),
			dev("mpk(m0,m1,m2)", false, many("mpk", "m0", "m1", "m2")...),
			dev("mpk(m0,m1)", false, many("mpk", "m0", "m1")...),
			dev("mpk-short(m3)", false, dkgTxn{"mpk-short", "m3"}),
			dev("mpk-again(m0)", false, dkgTxn{"mpk", "m0"}),
			dev("mpk-by-client(c0)", false, dkgTxn{"mpk-foreign", "c0"}),
			dev("keep(s0)", false, dkgTxn{"keep", "s0"}),
			dev("sos(m0,m1,m2)", false, many("sos", "m0", "m1", "m2")...),
			dev("sos(m0,m1)", false, many("sos", "m0", "m1")...),
			dev("sos-reveal(m3)", false, dkgTxn{"sos-reveal", "m3"}),
			dev("sos-bad-share(m3)", false, dkgTxn{"sos-bad-share", "m3"}),
			dev("sos-bad-sign(m3)", false, dkgTxn{"sos-bad-sign", "m3"}),
			dev("sos-few(m3)", false, dkgTxn{"sos-few", "m3"}),
			dev("sos-again(m0)", false, dkgTxn{"sos", "m0"}),
			dev("wait(m0,m1,m2)", false, many("wait", "m0", "m1", "m2")...),
			dev("wait(m0,m1)", false, many("wait", "m0", "m1")...),
			dev("wait-again(m0)", false, dkgTxn{"wait", "m0"}),
			dev("wait-by-client(c0)", false, dkgTxn{"wait", "c0"}),
		}
	}
	d1, d2 := run.Pick(1, 2), run.Pick(2, 3)
	// phase-function failures: the move condition of a phase holds at its deadline but the work of the
	// move fails (too few miners left). Needs K < min_n (k_percent .5 => K = 2, min_n = 3) or fewer
	// registered miners than min_n; base scripts with two of the four miners offline.
	rootK2 := append(append([]chainsim.Action{}, root...), settings(w, "k_percent", "0.5", "t_percent", "0.5"))
	rootTwo := []chainsim.Action{root[0], root[1], root[4], root[5]}
	failAlphabet := func(maxDev int) []chainsim.Action {
		dev := func(name string, noPay bool, ds ...dkgTxn) chainsim.Action {
			return vcRound(w, m, name, maxDev, false, noPay, fixedTxs(ds...))
		}
		return []chainsim.Action{
			vcRound(w, m, "H", maxDev, true, false, honestTxs(w)),
			vcRound(w, m, "Hc2", maxDev, true, false, honestSubset(w, 2, 2)),
			vcRound(w, m, "Hp2", maxDev, true, false, honestSubset(w, 4, 2)),
			dev("idle", false),
			dev("no-payfees", true),
			dev("raise-min_s(owner)", false, dkgTxn{"raise-min-s", "owner"}),
			dev("mpk(m0,m1,m2)", false, many("mpk", "m0", "m1", "m2")...),
			dev("sos(m0,m1,m2)", false, many("sos", "m0", "m1", "m2")...),
			dev("wait(m0)", false, dkgTxn{"wait", "m0"}),
		}
	}
	run.Rule = "deviation-bounded BFS: every round is one block holding the DKG transactions of the round and then the generator's fee payment (which steps the phase machine); from the registered 4-miner/2-sharder chain with view change enabled and phase length 2, all round sequences up to the depth bound that follow the honest state-dependent script except for at most max_deviations rounds, each deviation being any letter of the alphabet (nobody contributes, no fee payment, 2 or 3 of 4 miners contribute / publish / wait, short, repeated, foreign, invalid-share, invalid-signature, too-few and out-of-phase transactions). Base scripts besides the all-honest one: two of four miners offline from the start (Hc2) or after contributing (Hp2), from roots with K=2 < min_n=3 (k_percent .5 set by the owner) and with only two registered miners, so that a phase whose move condition holds fails in its phase function; the owner raising min_s in the middle of a DKG is a deviation letter. Real DKG material (bls.MakeDKG, seeded). Oracle: reference phase machine (phase, start round) with the move conditions from the contract settings, per-transaction acceptance rules, membership of the produced magic block; after any failed phase the node is Start with restarts+1, start round = current round and all DKG lists cleared, and no DKG phase is ever entered with an empty DKG miner set"
	run.Bounds["max_deviations"] = map[string]int{"full-cycle": d1, "prefix": d2, "failure-scripts": 0, "failure-deviations": d1}
	run.Bounds["phase_length_rounds"] = vcPhaseLen
	run.Assumptions = append(run.Assumptions, "DKG transactions inside a round are judged by their status and by the contract's records after the round's transactions (no per-transaction leaf diff)",
		"the intended validity of shares/signatures is known from the builder (the monitor does not re-verify BLS shares)",
		"states reached with different deviation counts are merged by the explorer's deduplication (first arrival decides the remaining deviation budget)",
		"latest finalized magic block stays the genesis one (no finalization in the engine); the contract's own prev_magic_block decides after a view change")
	explorePhases(run, w, []phase{
		{"failure-scripts", failAlphabet(0)[:3], [][]chainsim.Action{rootK2, rootTwo, root}, run.Pick(13, 24), secs(run, 20, 100)},
		{"full-cycle", alphabet(d1), [][]chainsim.Action{root}, run.Pick(14, 24), secs(run, 25, 250)},
		{"failure-deviations", failAlphabet(d1), [][]chainsim.Action{rootK2, rootTwo}, run.Pick(13, 16), secs(run, 40, 250)},
		{"prefix", alphabet(d2), [][]chainsim.Action{root}, run.Pick(9, 13), secs(run, 30, 250)},
	}, vcMonitor)
}
