package main

import (
	"encoding/json"
	"fmt"
	"math/big"
	"sort"
	"strings"

	"0chain.net/chaincore/transaction"
	"verif/lib/chainsim"
	"verif/lib/world"
)

// info is the decoded view of one transition that all monitors of this binary share.
type info struct {
	pre, post *ledger
	fn        string // contract function ("" for a plain send)
	ok        bool   // applied with status success
	failed    bool   // applied as a chargeable failure, or rejected
	sender    string
	value     uint64
	fee       uint64
	provID    string // provider_id of the request (stake / kill requests)
	provType  int
	round     int64 // "round" of a payFees input
	cls       string
	sc        string // called contract ("" for a plain send)
}

// canonical names of the stake operations of the storage contract
var storageFn = map[string]string{"stake_pool_lock": "addToDelegatePool", "stake_pool_unlock": "deleteFromDelegatePool", "collect_reward": "collect_reward"}

var infoCache struct {
	s *chainsim.Step
	i *info
}

func analyze(s *chainsim.Step, v func(key, what string)) *info {
	if infoCache.s == s {
		return infoCache.i
	}
	in := &info{pre: decodeLedger(s.PreLeaves, v), post: decodeLedger(s.Post.Leaves, v), sender: s.Txn.ClientID,
		value: uint64(s.Txn.Value), fee: uint64(s.Txn.Fee), cls: actionClass(s.Action.Name)}
	in.ok = s.Err == nil && s.Txn.Status == transaction.TxnSuccess
	in.failed = !in.ok
	if s.Txn.TransactionType == transaction.TxnTypeSmartContract && (s.Txn.ToClientID == minerSC || s.Txn.ToClientID == storageSC) {
		in.sc = s.Txn.ToClientID
		var d struct {
			Name  string          `json:"name"`
			Input json.RawMessage `json:"input"`
		}
		if json.Unmarshal([]byte(s.Txn.TransactionData), &d) == nil {
			in.fn = d.Name
			var req struct {
				ProviderType int    `json:"provider_type"`
				ProviderID   string `json:"provider_id"`
				Round        int64  `json:"round"`
			}
			_ = json.Unmarshal(d.Input, &req)
			in.provID, in.provType, in.round = req.ProviderID, req.ProviderType, req.Round
			if in.sc == storageSC {
				if c, ok := storageFn[in.fn]; ok {
					in.fn = c
				} else {
					in.fn = "storagesc." + in.fn
				}
			}
		}
	}
	infoCache.s, infoCache.i = s, in
	return in
}

func name(w *world.World, id string) string {
	if a, ok := w.ByID[id]; ok {
		return a.Name
	}
	if id == minerSC {
		return "minersc"
	}
	if len(id) > 8 {
		return id[:8]
	}
	return id
}

// blockFees = sum of the fees of the transactions of the block before the action's own
// transaction plus its own fee (what payFees is asked to distribute).
func blockFees(s *chainsim.Step) *big.Int {
	f := u(uint64(s.Txn.Fee))
	for _, t := range s.BeforeTxns {
		f.Add(f, u(uint64(t.Fee)))
	}
	return f
}

// blockReward is the block reward of the pre-state's settings; exact for reward_rate in {0,1},
// otherwise rounded up (the monitors only use it as an upper bound then).
func blockReward(lg *ledger) (r *big.Int, exact bool) {
	if lg.GN == nil {
		return new(big.Int), true
	}
	switch lg.GN.RewardRate {
	case 0:
		return new(big.Int), true
	case 1:
		return u(uint64(lg.GN.BlockReward)), true
	}
	f := new(big.Float).Mul(new(big.Float).SetUint64(uint64(lg.GN.BlockReward)), big.NewFloat(lg.GN.RewardRate))
	i, _ := f.Int(nil)
	return i.Add(i, big.NewInt(1)), false
}

// ---------------------------------------------------------------------------------------------
// C11: reference ledger of staking. Written from the statement: a lock moves exactly the value
// staker -> contract wallet -> that staker's pool, within min/max stake and the delegate limit;
// an unlock by the pool's owner pays exactly balance + accrued rewards and removes the pool;
// nothing else touches a pool (rewards only grow in a fee payment).
func stakeMonitor(s *chainsim.Step, v func(key, what string)) {
	in := analyze(s, v)
	w := s.W
	pre, post := in.pre, in.post
	if in.fn == "deleteFromDelegatePool" && !in.ok && strings.Contains(s.Txn.TransactionOutput, "token can only be unstaked till") {
		s.Tag("unlock-refused-by-wall-clock-comparison")
	}
	if s.Err != nil {
		if len(s.Diff) > 0 {
			v("C11:rejected-txn-changed-state:"+in.cls, fmt.Sprintf("%d leaves changed by a rejected transaction", len(s.Diff)))
		}
		return
	}
	ids := map[string]bool{}
	for id := range pre.Provs {
		ids[id] = true
	}
	for id := range post.Provs {
		ids[id] = true
	}
	// expected change of the sender's balance and of the contract wallet (besides the fee)
	var senderGain, walletGain = new(big.Int), new(big.Int)
	stakeFn := in.fn == "addToDelegatePool" || in.fn == "deleteFromDelegatePool" || in.fn == "collect_reward"
	for id := range ids {
		p0, p1 := pre.Provs[id], post.Provs[id]
		if p0 == nil || p1 == nil {
			if in.fn != "add_miner" && in.fn != "add_sharder" && in.fn != "storagesc.add_blobber" && in.fn != "storagesc.add_validator" {
				v("C11:provider-appeared-or-vanished:"+in.cls, fmt.Sprintf("provider %s present before=%v after=%v", name(w, id), p0 != nil, p1 != nil))
			}
			continue
		}
		target := in.ok && stakeFn && in.provID == id && in.provType == p0.Type && in.sc == p0.SC
		minStake, maxStake := uint64(0), ^uint64(0)
		if p0.SC == minerSC && pre.GN != nil {
			minStake, maxStake = uint64(pre.GN.MinStake), uint64(pre.GN.MaxStake)
		} else if p0.SC == storageSC && pre.SConf != nil {
			minStake, maxStake = uint64(pre.SConf.MinStake), uint64(pre.SConf.MaxStake)
		}
		ds := map[string]bool{}
		for d := range p0.Pools {
			ds[d] = true
		}
		for d := range p1.Pools {
			ds[d] = true
		}
		isWallet := in.sender == p0.Wallet
		for d := range ds {
			a, has0 := p0.Pools[d]
			b, has1 := p1.Pools[d]
			who := fmt.Sprintf("pool of %s at %s", name(w, d), name(w, id))
			switch {
			case target && d == in.sender && in.fn == "addToDelegatePool":
				s.Tag("lock-ok")
				if !has1 || b.Balance != a.Balance+in.value || a.Balance+in.value < a.Balance {
					v("C11:lock:pool-not-credited-with-exactly-the-value", fmt.Sprintf("%s: balance %d -> %d (present %v) for a lock of %d", who, a.Balance, b.Balance, has1, in.value))
				}
				if b.Reward != a.Reward {
					v("C11:lock:reward-changed", fmt.Sprintf("%s: reward %d -> %d by a lock", who, a.Reward, b.Reward))
				}
				if has1 && b.Delegate != in.sender {
					v("C11:lock:pool-owner-not-the-staker", fmt.Sprintf("%s is owned by %s", who, name(w, b.Delegate)))
				}
				if in.value == 0 || in.value < minStake {
					v("C11:lock:below-min-stake-accepted", fmt.Sprintf("%s: lock of %d accepted, min_stake %d", who, in.value, minStake))
				}
				if b.Balance > maxStake {
					v("C11:lock:above-max-stake-accepted", fmt.Sprintf("%s: balance %d after lock, max_stake %d", who, b.Balance, maxStake))
				}
				if !has0 && len(p0.Pools) >= p0.MaxDeleg {
					v("C11:lock:delegate-limit-exceeded", fmt.Sprintf("%s: new delegate accepted with %d pools, limit %d", who, len(p0.Pools), p0.MaxDeleg))
				}
				if !has0 {
					s.Tag("lock-new-pool")
				} else {
					s.Tag("lock-topup")
				}
				senderGain.Sub(senderGain, u(in.value))
				walletGain.Add(walletGain, u(in.value))
			case target && d == in.sender && in.fn == "deleteFromDelegatePool":
				s.Tag("unlock-ok")
				if !has0 || a.Delegate != in.sender {
					v("C11:unlock:not-by-pool-owner", fmt.Sprintf("%s unlocked by %s (pool existed %v)", who, name(w, in.sender), has0))
				}
				if has1 {
					v("C11:unlock:pool-not-removed", fmt.Sprintf("%s still present after unlock: balance %d reward %d", who, b.Balance, b.Reward))
				}
				if a.Reward > 0 {
					s.Tag("unlock-with-reward")
				}
				pay := new(big.Int).Add(u(a.Balance), u(a.Reward))
				senderGain.Add(senderGain, pay)
				walletGain.Sub(walletGain, pay)
			case target && d == in.sender && in.fn == "collect_reward":
				if has0 != has1 || b.Balance != a.Balance || b.Reward != 0 {
					v("C11:collect:pool-changed-beyond-reward", fmt.Sprintf("%s: %d+%d -> %d+%d (present %v -> %v)", who, a.Balance, a.Reward, b.Balance, b.Reward, has0, has1))
				}
				if a.Reward > 0 {
					s.Tag("collect-delegate-reward")
				}
				senderGain.Add(senderGain, u(a.Reward))
				walletGain.Sub(walletGain, u(a.Reward))
			case in.ok && in.fn == "payFees":
				if has0 != has1 || b.Balance != a.Balance || b.Reward < a.Reward {
					v("C11:fee-payment-changed-a-stake", fmt.Sprintf("%s: %d+%d -> %d+%d (present %v -> %v)", who, a.Balance, a.Reward, b.Balance, b.Reward, has0, has1))
				}
			default:
				if has0 != has1 || a != b {
					key := "C11:pool-changed-by-unrelated-transaction:" + in.cls
					if in.fn == "deleteFromDelegatePool" || in.fn == "collect_reward" {
						key = "C11:pool-changed-by-someone-else:" + in.fn
					}
					v(key, fmt.Sprintf("%s: %d+%d -> %d+%d (present %v -> %v) in a transaction of %s (ok=%v)", who, a.Balance, a.Reward, b.Balance, b.Reward, has0, has1, name(w, in.sender), in.ok))
				}
			}
		}
		// the provider's own unpaid reward (service charge): paid to its delegate wallet on collect / unlock
		switch {
		case target && isWallet && (in.fn == "deleteFromDelegatePool" || in.fn == "collect_reward"):
			_, hasPool := p0.Pools[in.sender]
			if in.fn == "deleteFromDelegatePool" && !hasPool {
				v("C11:unlock:without-pool-accepted", fmt.Sprintf("unlock at %s by %s accepted without a pool", name(w, id), name(w, in.sender)))
			}
			if p1.Reward != 0 {
				v("C11:collect:service-charge-not-cleared", fmt.Sprintf("%s: provider reward %d -> %d", name(w, id), p0.Reward, p1.Reward))
			}
			if p0.Reward > 0 {
				s.Tag("collect-service-charge")
			}
			senderGain.Add(senderGain, u(p0.Reward))
			walletGain.Sub(walletGain, u(p0.Reward))
		case in.ok && in.fn == "payFees":
			if p1.Reward < p0.Reward {
				v("C11:fee-payment-reduced-a-reward", fmt.Sprintf("%s: provider reward %d -> %d", name(w, id), p0.Reward, p1.Reward))
			}
		default:
			if p1.Reward != p0.Reward {
				v("C11:provider-reward-changed-by-unrelated-transaction:"+in.cls, fmt.Sprintf("%s: provider reward %d -> %d in a transaction of %s", name(w, id), p0.Reward, p1.Reward, name(w, in.sender)))
			}
			if target && (in.fn == "deleteFromDelegatePool") {
				if _, hasPool := p0.Pools[in.sender]; !hasPool {
					v("C11:unlock:without-pool-accepted", fmt.Sprintf("unlock at %s by %s accepted without a pool", name(w, id), name(w, in.sender)))
				}
			}
		}
	}
	if in.ok && stakeFn {
		if p := pre.Provs[in.provID]; p == nil || p.Type != in.provType || p.SC != in.sc {
			v("C11:stake-call-on-unknown-provider-accepted:"+in.fn, fmt.Sprintf("%s accepted for provider %s type %d which the contract does not hold", in.fn, name(w, in.provID), in.provType))
		}
	}
	// token movement: sender and contract wallet move by exactly the expected amounts, nobody else moves
	accts := map[string]bool{}
	for id := range pre.Acct {
		accts[id] = true
	}
	for id := range post.Acct {
		accts[id] = true
	}
	for id := range accts {
		want := u(pre.Acct[id].Bal)
		switch id {
		case in.sender:
			want.Add(want, senderGain).Sub(want, u(in.fee))
			if s.Txn.TransactionType == transaction.TxnTypeSend {
				want.Sub(want, u(in.value))
			}
		case in.sc:
			want.Add(want, walletGain)
		}
		if id == minerSC && id != in.sender {
			want.Add(want, u(in.fee))
		}
		if s.Txn.TransactionType == transaction.TxnTypeSend && id == s.Txn.ToClientID && id != in.sender {
			want.Add(want, u(in.value))
		}
		if want.Cmp(u(post.Acct[id].Bal)) != 0 {
			key := "C11:tokens-moved-differently:" + in.cls
			if stakeFn {
				key = "C11:" + map[string]string{"addToDelegatePool": "lock", "deleteFromDelegatePool": "unlock", "collect_reward": "collect"}[in.fn] + ":wrong-amount-moved"
			}
			v(key, fmt.Sprintf("account %s: %d -> %d, reference ledger says %s (ok=%v)", name(w, id), pre.Acct[id].Bal, post.Acct[id].Bal, want, in.ok))
		}
	}
}

// ---------------------------------------------------------------------------------------------
// C09 (part minersc): L = all delegate balances + all unpaid rewards; W = contract wallet.
// deltaL <= deltaW + accrued, accrued = block fees + block reward of a successful fee payment.
func liabilityMonitor(s *chainsim.Step, v func(key, what string)) {
	in := analyze(s, v)
	if s.Err != nil {
		return
	}
	dL := new(big.Int).Sub(in.post.owedTotal(), in.pre.owedTotal())
	dW := new(big.Int).Sub(u(in.post.Acct[minerSC].Bal), u(in.pre.Acct[minerSC].Bal))
	accrued := new(big.Int)
	if in.ok && in.fn == "payFees" {
		r, _ := blockReward(in.pre)
		accrued.Add(blockFees(s), r)
	}
	bound := new(big.Int).Add(dW, accrued)
	switch {
	case dL.Sign() > 0:
		s.Tag("liabilities-grew")
	case dL.Sign() < 0:
		s.Tag("liabilities-shrank")
	}
	if dL.Cmp(bound) > 0 {
		fn := in.fn
		if fn == "" {
			fn = "send"
		}
		v("C09:minersc:liabilities-grew-without-backing:"+fn, fmt.Sprintf("owed %s -> %s (delta %s) but wallet delta %s + accrued %s", in.pre.owedTotal(), in.post.owedTotal(), dL, dW, accrued))
	}
}

// ---------------------------------------------------------------------------------------------
// C22: fee and reward payment.
func feeMonitor(s *chainsim.Step, v func(key, what string)) {
	in := analyze(s, v)
	if in.fn != "payFees" {
		return
	}
	w := s.W
	blk := s.Post.N.Block
	dM := new(big.Int).Sub(in.post.rewardsOf(provMiner), in.pre.rewardsOf(provMiner))
	dS := new(big.Int).Sub(in.post.rewardsOf(provShard), in.pre.rewardsOf(provShard))
	total := new(big.Int).Add(dM, dS)
	if !in.ok {
		if total.Sign() != 0 {
			v("C22:refused-payment-credited-rewards", fmt.Sprintf("payFees not applied but rewards moved by %s", total))
		}
		if in.sender == blk.MinerID && in.round == blk.Round && s.Err == nil {
			s.Tag("payfees-by-generator-refused")
		}
		return
	}
	if in.sender != blk.MinerID {
		v("C22:payment-accepted-from-non-generator", fmt.Sprintf("payFees of %s accepted in a block generated by %s", name(w, in.sender), name(w, blk.MinerID)))
	}
	if in.round != blk.Round {
		v("C22:payment-accepted-for-wrong-round", fmt.Sprintf("payFees for round %d accepted in block of round %d", in.round, blk.Round))
	}
	for _, t := range s.BeforeTxns {
		if t.FunctionName == "payFees" && t.ToClientID == minerSC && t.Status == transaction.TxnSuccess {
			v("C22:second-payment-accepted-in-one-round", fmt.Sprintf("a second payFees was accepted in round %d", blk.Round))
		}
	}
	for id, p1 := range in.post.Provs {
		if p0 := in.pre.Provs[id]; p0 != nil && p1.rewards().Cmp(p0.rewards()) < 0 {
			v("C22:payment-reduced-a-reward", fmt.Sprintf("%s: unpaid rewards %s -> %s", name(w, id), p0.rewards(), p1.rewards()))
		}
	}
	reward, exact := blockReward(in.pre)
	due := new(big.Int).Add(blockFees(s), reward)
	if total.Cmp(due) > 0 {
		v("C22:more-credited-than-fees-plus-reward", fmt.Sprintf("miner side %s + sharder side %s > fees %s + block reward %s", dM, dS, blockFees(s), reward))
	}
	// equality is required when the generator and every sharder that can be rewarded is eligible
	gen := in.pre.Provs[blk.MinerID]
	eligible := gen != nil && gen.Type == provMiner && !gen.Killed && gen.eligible()
	var live []string
	mb := w.Chain.GetMagicBlock(blk.Round)
	for _, id := range in.pre.Sharders {
		if p := in.pre.Provs[id]; p != nil && !p.Killed && mb.Sharders.HasNode(id) {
			live = append(live, id)
			if !p.eligible() {
				eligible = false
			}
		}
	}
	sort.Strings(live)
	if len(live) == 0 || in.pre.GN.NumShardersRewarded < 1 {
		eligible = false
	}
	if eligible && exact {
		s.Tag("payfees-all-eligible")
		if total.Cmp(due) != 0 {
			v("C22:credited-sum-differs-from-fees-plus-reward", fmt.Sprintf("miner side %s + sharder side %s != fees %s + block reward %s (share ratio %v, %d live sharders, %d rewarded)",
				dM, dS, blockFees(s), reward, in.pre.GN.ShareRatio, len(live), in.pre.GN.NumShardersRewarded))
		}
		// the sharder side goes to at most num_sharders_rewarded sharders
		n := 0
		for _, id := range live {
			if in.post.Provs[id].rewards().Cmp(in.pre.Provs[id].rewards()) > 0 {
				n++
			}
		}
		if n > in.pre.GN.NumShardersRewarded {
			v("C22:more-sharders-rewarded-than-configured", fmt.Sprintf("%d sharders credited, num_sharders_rewarded %d", n, in.pre.GN.NumShardersRewarded))
		}
		if dS.Sign() > 0 {
			s.Tag(fmt.Sprintf("payfees-sharders-credited-%d", n))
		}
		if dM.Sign() > 0 && dS.Sign() > 0 {
			s.Tag("payfees-both-sides-credited")
		}
	} else {
		s.Tag("payfees-someone-ineligible")
	}
}

// ---------------------------------------------------------------------------------------------
// C23 (miner contract): kill.
func killMonitor(s *chainsim.Step, v func(key, what string)) {
	in := analyze(s, v)
	w := s.W
	pre, post := in.pre, in.post
	isKill := in.fn == "kill_miner" || in.fn == "kill_sharder"
	// a dead provider receives no further rewards (any transition)
	for id, p0 := range pre.Provs {
		p1 := post.Provs[id]
		if p1 == nil || p0.SC != minerSC {
			continue
		}
		if (p0.Killed || p0.SPKilled) && p1.rewards().Cmp(p0.rewards()) > 0 {
			v("C23:killed-provider-rewarded:"+in.cls, fmt.Sprintf("%s is killed (node %v, stake pool %v) but its unpaid rewards grew %s -> %s", name(w, id), p0.Killed, p0.SPKilled, p0.rewards(), p1.rewards()))
		}
		if (p0.Killed && !p1.Killed) || (p0.SPKilled && !p1.SPKilled) {
			v("C23:killed-provider-revived:"+in.cls, fmt.Sprintf("%s: killed flags %v/%v -> %v/%v", name(w, id), p0.Killed, p0.SPKilled, p1.Killed, p1.SPKilled))
		}
		if !isKill && (p0.Killed != p1.Killed || p0.SPKilled != p1.SPKilled) {
			v("C23:killed-flag-changed-by-unrelated-transaction:"+in.cls, fmt.Sprintf("%s: killed flags %v/%v -> %v/%v", name(w, id), p0.Killed, p0.SPKilled, p1.Killed, p1.SPKilled))
		}
		if p0.Killed && in.ok && in.fn == "payFees" {
			s.Tag("payfees-after-kill")
		}
	}
	if !isKill || s.Err != nil {
		return
	}
	wantType := provMiner
	if in.fn == "kill_sharder" {
		wantType = provShard
	}
	authorised := pre.GN != nil && in.sender == pre.GN.OwnerId
	changed := func() []string {
		var out []string
		for _, d := range s.Diff {
			if d.Path == in.sender && world.Tap.IsAccount(d.Path) {
				continue
			}
			if d.Path == minerSC && world.Tap.IsAccount(d.Path) && in.fee > 0 {
				continue
			}
			k := world.Tap.KeyOf(d.Path)
			if world.Tap.IsAccount(d.Path) {
				k = "account " + name(w, d.Path)
			}
			out = append(out, k)
		}
		return out
	}()
	if !in.ok {
		if len(changed) > 0 {
			v("C23:refused-kill-changed-state:"+in.fn, fmt.Sprintf("records changed by a refused kill of %s: %v", name(w, in.sender), changed))
		}
		if authorised {
			s.Tag("kill-by-owner-refused")
		} else {
			s.Tag("kill-unauthorised-refused")
		}
		return
	}
	if !authorised {
		v("C23:kill-accepted-from-unauthorised-caller:"+in.fn, fmt.Sprintf("%s of %s accepted from %s, owner is %s", in.fn, name(w, in.provID), name(w, in.sender), name(w, pre.GN.OwnerId)))
	}
	p0, p1 := pre.Provs[in.provID], post.Provs[in.provID]
	if p0 == nil || p1 == nil || p0.Type != wantType {
		v("C23:kill-accepted-for-unknown-provider:"+in.fn, fmt.Sprintf("%s accepted for %s which is not a provider of that type", in.fn, name(w, in.provID)))
		return
	}
	s.Tag("kill-ok")
	if !p1.Killed || !p1.SPKilled {
		v("C23:killed-provider-not-marked-dead:"+in.fn, fmt.Sprintf("%s after kill: node killed %v, stake pool dead %v", name(w, in.provID), p1.Killed, p1.SPKilled))
	}
	// the miner contract configures no slash for kill (fraction 0): balances must be unchanged,
	// in particular never reduced a second time by a repeated kill
	for d, a := range p0.Pools {
		if b, ok := p1.Pools[d]; !ok || a != b {
			v("C23:kill-changed-a-delegate-pool:"+in.fn, fmt.Sprintf("pool of %s at %s: %d+%d -> %d+%d (present %v)", name(w, d), name(w, in.provID), a.Balance, a.Reward, b.Balance, b.Reward, ok))
		}
	}
	if len(p1.Pools) != len(p0.Pools) || p1.Reward != p0.Reward {
		v("C23:kill-changed-the-stake-pool:"+in.fn, fmt.Sprintf("%s: %d pools reward %d -> %d pools reward %d", name(w, in.provID), len(p0.Pools), p0.Reward, len(p1.Pools), p1.Reward))
	}
	for _, k := range changed {
		if k != "provider:"+in.provID {
			v("C23:kill-touched-another-record:"+in.fn, fmt.Sprintf("kill of %s changed %s", name(w, in.provID), k))
		}
	}
}

// ---------------------------------------------------------------------------------------------
// C23 (storage contract): kill_blobber / kill_validator / shutdown_blobber / shutdown_validator.
func storageKillMonitor(s *chainsim.Step, v func(key, what string)) {
	in := analyze(s, v)
	w := s.W
	pre, post := in.pre, in.post
	// a dead storage provider receives no further rewards (any transition)
	for id, p0 := range pre.Provs {
		p1 := post.Provs[id]
		if p0.SC != storageSC || p1 == nil || s.Err != nil {
			continue
		}
		if (p0.Killed || p0.ShutDown || p0.SPKilled) && p1.rewards().Cmp(p0.rewards()) > 0 {
			v("C23:storage:dead-provider-rewarded:"+in.cls, fmt.Sprintf("%s is dead (killed %v, shut down %v, stake pool dead %v) but its unpaid rewards grew %s -> %s", name(w, p0.ID), p0.Killed, p0.ShutDown, p0.SPKilled, p0.rewards(), p1.rewards()))
		}
		if !(p0.Killed || p0.ShutDown) && p1.rewards().Cmp(p0.rewards()) > 0 {
			s.Tag("storage-live-provider-rewarded")
		}
		if (p0.Killed || p0.ShutDown) && in.fn == "storagesc.read_redeem" && in.ok {
			s.Tag("storage-read-redeem-for-dead-provider")
		}
	}
	var typ int
	var kill bool
	switch in.fn {
	case "storagesc.kill_blobber":
		typ, kill = provBlobber, true
	case "storagesc.kill_validator":
		typ, kill = provValidator, true
	case "storagesc.shutdown_blobber":
		typ = provBlobber
	case "storagesc.shutdown_validator":
		typ = provValidator
	default:
		// no other transaction may flip a dead flag or slash
		for id, p0 := range pre.Provs {
			if p1 := post.Provs[id]; p0.SC == storageSC && p1 != nil && (p0.Killed != p1.Killed || p0.ShutDown != p1.ShutDown || p0.SPKilled != p1.SPKilled) {
				v("C23:storage:dead-flag-changed-by-unrelated-transaction:"+in.cls, fmt.Sprintf("%s: killed/shutdown/pool-dead %v/%v/%v -> %v/%v/%v", name(w, id), p0.Killed, p0.ShutDown, p0.SPKilled, p1.Killed, p1.ShutDown, p1.SPKilled))
			}
		}
		return
	}
	if s.Err != nil || pre.SConf == nil {
		return
	}
	op := in.fn[len("storagesc."):]
	site := "provider.Kill"
	if !kill {
		site = "provider.ShutDown"
	}
	p0, p1 := pre.Provs[in.provID], post.Provs[in.provID]
	if p0 != nil && p0.SC != storageSC {
		p0 = nil
	}
	authorised := in.sender == pre.SConf.OwnerId
	if !kill && p0 != nil && in.sender == p0.Wallet {
		authorised = true
	}
	// records of storage providers / stake pools that changed, by provider id
	touched := map[string]bool{}
	for id := range pre.Provs {
		touched[id] = true
	}
	for id := range post.Provs {
		touched[id] = true
	}
	var foreign []string
	for id := range touched {
		a, b := pre.Provs[id], post.Provs[id]
		if (a != nil && a.SC != storageSC) || (b != nil && b.SC != storageSC) {
			if a == nil || b == nil || string(a.Raw) != string(b.Raw) {
				foreign = append(foreign, "miner-contract provider "+name(w, id))
			}
			continue
		}
		if id == in.provID {
			continue
		}
		same := a != nil && b != nil && a.HasNode == b.HasNode && a.HasPool == b.HasPool && a.Killed == b.Killed && a.ShutDown == b.ShutDown &&
			a.SPKilled == b.SPKilled && a.Reward == b.Reward && fmt.Sprint(a.Pools) == fmt.Sprint(b.Pools)
		if !same {
			what, q := "altered", a
			if a == nil {
				what, q = "created", b
			} else if b == nil {
				what = "deleted"
			}
			foreign = append(foreign, fmt.Sprintf("%s stake pool / provider record of type %d for id %s (provider node %v, stake pool %v)", what, q.Type, name(w, q.ID), q.HasNode, q.HasPool))
		}
	}
	sort.Strings(foreign)
	changedBeyondSender := len(s.Diff) > 1 || (len(s.Diff) == 1 && s.Diff[0].Path != in.sender)
	if !in.ok {
		if changedBeyondSender {
			v("C23:storage:refused-call-changed-state:"+op, fmt.Sprintf("%d leaves changed by a refused %s", len(s.Diff), op))
		}
		s.Tag("storage-" + op + "-refused")
		return
	}
	if !authorised {
		// an unauthorised caller changes nothing (a success status without any effect is tolerated:
		// a repeated shutdown answers "already killed or shutdown" to anybody)
		if changedBeyondSender {
			v("C23:"+site+":unauthorised-caller-changed-state", fmt.Sprintf("%s of %s by %s (owner %s): %d leaves changed, %v", op, name(w, in.provID), name(w, in.sender), name(w, pre.SConf.OwnerId), len(s.Diff), foreign))
		}
		s.Tag("storage-" + op + "-unauthorised-no-effect")
		return
	}
	if len(foreign) > 0 {
		v("C23:"+site+":touched-another-providers-record", fmt.Sprintf("%s of %s by %s: %v", op, name(w, in.provID), name(w, in.sender), foreign))
	}
	if p0 == nil || !p0.HasNode {
		v("C23:storage:accepted-for-unknown-provider:"+op, fmt.Sprintf("%s accepted for %s which is not a registered storage provider", op, name(w, in.provID)))
		return
	}
	if p0.Type != typ {
		// kill_validator / shutdown_validator do not check the provider type: the owner can kill a
		// blobber through them (its node is rewritten as a validator node). The statement only asks
		// that the addressed provider is disabled, so this is tagged, not reported.
		s.Tag("storage-" + op + "-applied-to-other-provider-type")
	}
	already := p0.Killed || p0.ShutDown
	if already {
		s.Tag("storage-" + op + "-repeated")
		// exactly once: a repeated call must not slash again or revive
		if p1 != nil && fmt.Sprint(p0.Pools) != fmt.Sprint(p1.Pools) {
			v("C23:"+site+":slashed-again-by-repeated-call", fmt.Sprintf("%s: pools %v -> %v", name(w, in.provID), p0.Pools, p1.Pools))
		}
		return
	}
	s.Tag("storage-" + op + "-ok")
	if p1 == nil || (!p1.HasNode && !p1.HasPool) {
		s.Tag("storage-" + op + "-removed-provider")
		return // provider without stake and data is removed altogether
	}
	if len(p0.Pools) == 0 {
		s.Tag("storage-" + op + "-with-zero-stake-records-kept")
	}
	if (kill && !p1.Killed) || (!kill && !p1.ShutDown) {
		v("C23:"+site+":provider-not-marked", fmt.Sprintf("%s after %s: killed %v shut down %v", name(w, in.provID), op, p1.Killed, p1.ShutDown))
	}
	if len(foreign) > 0 {
		return // the same slip explains a stake pool that was not updated; one defect, one key
	}
	if !p1.HasPool || !p1.SPKilled {
		v("C23:"+site+":stake-pool-not-marked-dead", fmt.Sprintf("%s after %s: stake pool present %v dead %v", name(w, in.provID), op, p1.HasPool, p1.SPKilled))
	}
	// slashed by the configured fraction exactly once (shutdown: the code's documented half fraction is accepted too)
	fr := []float64{pre.SConf.StakePool.KillSlash}
	if !kill {
		fr = append(fr, pre.SConf.StakePool.KillSlash/2)
	}
	for d, a := range p0.Pools {
		b, ok := p1.Pools[d]
		good := false
		for _, f := range fr {
			want := new(big.Float).Mul(new(big.Float).SetUint64(a.Balance), big.NewFloat(1-f))
			wi, _ := want.Int(nil)
			diff := new(big.Int).Sub(wi, u(b.Balance))
			if ok && diff.CmpAbs(big.NewInt(1)) <= 0 {
				good = true
			}
		}
		if !good {
			v("C23:"+site+":delegate-not-slashed-by-configured-fraction", fmt.Sprintf("pool of %s at %s: %d -> %d (present %v), kill_slash %v", name(w, d), name(w, in.provID), a.Balance, b.Balance, ok, pre.SConf.StakePool.KillSlash))
		}
	}
}
