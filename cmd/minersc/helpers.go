package main

import (
	"fmt"

	"0chain.net/chaincore/transaction"
	"github.com/0chain/common/core/currency"
	"verif/lib/chainsim"
	"verif/lib/world"
)

const (
	minerSC   = "6dba10422e368813802877a85039d3985d96760ed844092319743fb3a76712d9"
	provMiner = 1 // spenum.Miner
	provShard = 2 // spenum.Sharder
)

// call builds a smart-contract call action (copied from cmd/chain/alphabet.go).
func call(w *world.World, from, sc, fn string, input any, value, fee currency.Coin, tag string) chainsim.Action {
	return chainsim.Action{
		Name: fmt.Sprintf("%s.%s(%s)%s", sc, fn, from, tag),
		Build: func(x *chainsim.Ctx) *world.TxnSpec {
			f := w.Actors[from]
			return &world.TxnSpec{From: f, To: world.SCAddresses[sc], Type: transaction.TxnTypeSmartContract, Value: value, Fee: fee,
				Nonce: x.Nonce(f) + 1, Data: world.SC(fn, input)}
		},
	}
}

// actionClass strips the arguments from an action name.
func actionClass(n string) string {
	for i, c := range n {
		if c == '(' {
			return n[:i]
		}
	}
	return n
}

// addNode builds the add_miner / add_sharder registration of a genesis node, sent by the node itself.
func addNode(w *world.World, node string, sharder bool, delegate string, charge float64, maxDelegates int) chainsim.Action {
	a := w.Actors[node]
	fn, pt := "add_miner", provMiner
	if sharder {
		fn, pt = "add_sharder", provShard
	}
	idx := int(node[1] - '0')
	port := 7071 + idx
	if sharder {
		port = 7171 + idx
	}
	in := map[string]any{
		"simple_miner": map[string]any{
			"id": a.ID, "provider_type": pt, "n2n_host": fmt.Sprintf("198.18.0.%d", port%256), "host": fmt.Sprintf("198.18.0.%d", port%256),
			"port": port, "public_key": a.PublicKey, "short_name": node, "build_tag": "verif",
		},
		"stake_pool": map[string]any{
			"settings": map[string]any{"delegate_wallet": w.Actors[delegate].ID, "service_charge": charge, "num_delegates": maxDelegates},
		},
	}
	return call(w, node, "minersc", fn, in, 0, 0, "")
}

// spReq is the stake pool request of lock / unlock / collect_reward.
func spReq(w *world.World, provider string) map[string]any {
	pt := provMiner
	if provider[0] == 's' {
		pt = provShard
	}
	id := provider
	if a, ok := w.Actors[provider]; ok {
		id = a.ID
	}
	return map[string]any{"provider_type": pt, "provider_id": id}
}

func lock(w *world.World, who, provider string, v currency.Coin) chainsim.Action {
	return call(w, who, "minersc", "addToDelegatePool", spReq(w, provider), v, 0, fmt.Sprintf("->%s:%d", provider, v))
}
func unlock(w *world.World, who, provider string) chainsim.Action {
	return call(w, who, "minersc", "deleteFromDelegatePool", spReq(w, provider), 0, 0, "->"+provider)
}
func collect(w *world.World, who, provider string) chainsim.Action {
	return call(w, who, "minersc", "collect_reward", spReq(w, provider), 0, 0, "->"+provider)
}

// payFees builds the generator's fee-and-reward payment for the new block. gen = generator index
// of the block, signer = who sends the transaction, roundOff is added to the block's round in the
// input, fees are the fees of plain transfers of feePayer executed earlier in the same block.
func payFees(w *world.World, gen int, signer string, roundOff int64, feePayer string, fees ...currency.Coin) chainsim.Action {
	name := fmt.Sprintf("minersc.payFees(gen=m%d,by=%s,round%+d,fees=%v)", gen, signer, roundOff, fees)
	a := chainsim.Action{Name: name, Miner: gen,
		Build: func(x *chainsim.Ctx) *world.TxnSpec {
			f := w.Actors[signer]
			n := x.Nonce(f) + 1
			if signer == feePayer {
				n += int64(len(fees))
			}
			return &world.TxnSpec{From: f, To: minerSC, Type: transaction.TxnTypeSmartContract, Nonce: n,
				Data: world.SC("payFees", map[string]any{"round": x.Rnd + roundOff})}
		}}
	if len(fees) > 0 {
		a.Before = func(x *chainsim.Ctx) []*world.TxnSpec {
			p := w.Actors[feePayer]
			var out []*world.TxnSpec
			for i, fee := range fees {
				out = append(out, &world.TxnSpec{From: p, To: w.Actors["c0"].ID, Type: transaction.TxnTypeSend, Value: 0, Fee: fee, Nonce: x.Nonce(p) + 1 + int64(i)})
			}
			return out
		}
	}
	return a
}

func kill(w *world.World, who, provider string) chainsim.Action {
	fn := "kill_miner"
	if provider[0] == 's' {
		fn = "kill_sharder"
	}
	id := provider
	if a, ok := w.Actors[provider]; ok {
		id = a.ID
	}
	return call(w, who, "minersc", fn, map[string]any{"provider_id": id}, 0, 0, "->"+provider)
}
