package main

import (
	"verif/lib/chainsim"
	"verif/lib/ev"
	"verif/lib/mon"
	"verif/lib/world"
)

// Parts "minersc" of the chain-level ledger properties: the shared monitors (lib/mon) over every
// value-moving miner-contract operation (stake lock / unlock / collect, fee and reward payment,
// kill, settings, failing calls) from staked roots.
func init() {
	checks["C01"] = func(run *ev.Run) { ledgerPart(run, "supply (C01)", 3, mon.SupplyMonitor) }
	checks["C02"] = func(run *ev.Run) { ledgerPart(run, "failed call (C02)", 2, mon.FailMonitor) }
	checks["C03"] = func(run *ev.Run) { ledgerPart(run, "nonce (C03)", 2, mon.NonceMonitor) }
	checks["C05"] = func(run *ev.Run) { ledgerPart(run, "balance (C05)", 3, mon.BalanceMonitor, mon.SupplyMonitor) }
	checks["C04"] = func(run *ev.Run) {
		ledgerPartW(run, "debit authorisation (C04)", 2, func(w *world.World) []chainsim.Monitor { return []chainsim.Monitor{mon.DebitMonitor(w)} })
	}
}

func ledgerPart(run *ev.Run, what string, dq int, mons ...chainsim.Monitor) {
	ledgerPartW(run, what, dq, func(*world.World) []chainsim.Monitor { return mons })
}

func ledgerPartW(run *ev.Run, what string, dq int, mons func(*world.World) []chainsim.Monitor) {
	w := mkWorld()
	acts := valueAlphabet(w)
	run.Rule = what + " oracle of the chain-level group (lib/mon) on every transition of the miner-contract value alphabet (lock, unlock, collect_reward, fee payment with and without fees / wrong caller, kill, settings updates, failing call with value, plain transfer to the contract wallet) from staked roots"
	explorePhases(run, w, []phase{
		{"minersc", acts, [][]chainsim.Action{rootStaked(w), append(rootStaked(w), payFees(w, 0, "m0", 0, "c2", 7))}, run.Pick(dq, 4), secs(run, 50, 300)},
	}, mons(w)...)
}
