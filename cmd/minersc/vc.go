package main

import (
	"crypto/sha256"
	"encoding/binary"
	"encoding/json"
	"fmt"
	"sort"
	"strings"

	"0chain.net/chaincore/block"
	"0chain.net/chaincore/threshold/bls"
	"0chain.net/chaincore/transaction"
	"0chain.net/smartcontract/minersc"
	hbls "github.com/herumi/bls-go-binary/bls"
	"verif/lib/chainsim"
	"verif/lib/world"
)

// ---------------------------------------------------------------------------------------------
// deterministic DKG material of the four genesis miners (real bls.MakeDKG, seeded generator)

type detRand struct {
	seed [32]byte
	ctr  uint64
	buf  []byte
}

func (r *detRand) Read(p []byte) (int, error) {
	for i := range p {
		if len(r.buf) == 0 {
			var c [8]byte
			binary.BigEndian.PutUint64(c[:], r.ctr)
			r.ctr++
			h := sha256.Sum256(append(r.seed[:], c[:]...))
			r.buf = h[:]
		}
		p[i] = r.buf[0]
		r.buf = r.buf[1:]
	}
	return len(p), nil
}

type dkgMaterial struct {
	T, K, N int
	dkgs    map[string]*bls.DKG // by miner name
	gen     string
	sets    map[int]*dkgMaterial // material for other thresholds T, made on demand
}

// forT returns the material whose polynomials have degree t-1 (the contract's T of the running DKG).
func (m *dkgMaterial) forT(w *world.World, t int) *dkgMaterial {
	if t <= 0 || t == m.T {
		return m
	}
	if m.sets == nil {
		m.sets = map[int]*dkgMaterial{}
	}
	if s, ok := m.sets[t]; ok {
		return s
	}
	s := makeDKGs(w, t, m.N, fmt.Sprintf("%s-t%d", m.gen, t))
	m.sets[t] = s
	return s
}

func makeDKGs(w *world.World, t, n int, gen string) *dkgMaterial {
	m := &dkgMaterial{T: t, N: n, dkgs: map[string]*bls.DKG{}, gen: gen}
	for _, a := range w.Miners {
		hbls.SetRandFunc(&detRand{seed: sha256.Sum256([]byte("verif-dkg:" + gen + ":" + a.Name))})
		m.dkgs[a.Name] = bls.MakeDKG(t, n, a.ID)
	}
	hbls.SetRandFunc(nil)
	return m
}

// mpkInput is the contributeMpk request of a miner; drop > 0 removes that many coefficients.
func (m *dkgMaterial) mpkInput(w *world.World, miner string, drop int) map[string]any {
	var ks []string
	for _, pk := range m.dkgs[miner].GetMPKs() {
		ks = append(ks, pk.GetHexString())
	}
	ks = ks[:len(ks)-drop]
	return map[string]any{"ID": w.Actors[miner].ID, "Mpk": ks}
}

// sosInput is the shareSignsOrShares request of miner i: for every other miner j of `others`
// either j's signature over a message (j confirmed i's share) or, for names in reveal, the share
// itself. bad = "share": a revealed share of the wrong polynomial; "sign": a signature by the wrong key.
func (m *dkgMaterial) sosInput(w *world.World, i string, others []string, reveal map[string]bool, bad string) map[string]any {
	out := map[string]any{}
	for _, j := range others {
		if j == i {
			continue
		}
		aj := w.Actors[j]
		e := map[string]any{"id": aj.ID}
		if reveal[j] {
			src := m.dkgs[i]
			if bad == "share" {
				src = m.dkgs[j] // a share of somebody else's polynomial does not verify against i's MPK
			}
			sh, err := src.ComputeDKGKeyShare(bls.ComputeIDdkg(aj.ID))
			if err != nil {
				panic(err)
			}
			e["share"] = sh.GetHexString()
		} else {
			msg := fmt.Sprintf("%064x", sha256.Sum256([]byte("verif-share-ack:"+i+":"+j)))
			signer := aj
			if bad == "sign" {
				signer = w.Actors["c0"]
			}
			sig, err := signer.Scheme.Sign(msg)
			if err != nil {
				panic(err)
			}
			e["message"], e["sign"] = msg, sig
		}
		out[aj.ID] = e
	}
	return map[string]any{"id": w.Actors[i].ID, "share_or_sign": out}
}

// ---------------------------------------------------------------------------------------------
// view of the DKG state of the miner contract, decoded from the leaves

type vcView struct {
	Has      bool // phase node present
	Phase    int
	Start    int64
	Restarts int64
	Mpks     map[string]int // miner id -> number of coefficients
	Sos      map[string]bool
	Waited   map[string]bool
	Keep     []string
	DKG      map[string]bool // dkg miners
	T, K, N  int
	MB       *block.MagicBlock
	GN       *minersc.GlobalNode
	Miners   []string
	Sharders []string
}

func decodeVC(ls []world.Leaf) *vcView {
	v := &vcView{Mpks: map[string]int{}, Sos: map[string]bool{}, Waited: map[string]bool{}, DKG: map[string]bool{}}
	for _, l := range ls {
		if world.Tap.IsAccount(l.Path) {
			continue
		}
		switch world.Tap.KeyOf(l.Path) {
		case minersc.PhaseKey:
			pn := &minersc.PhaseNode{}
			if _, err := pn.UnmarshalMsg(l.Value); err == nil {
				v.Has, v.Phase, v.Start, v.Restarts = true, int(pn.Phase), pn.StartRound, pn.Restarts
			}
		case minersc.MinersMPKKey:
			m := block.NewMpks()
			if _, err := m.UnmarshalMsg(l.Value); err == nil {
				for id, mpk := range m.Mpks {
					v.Mpks[id] = len(mpk.Mpk)
				}
			}
		case minersc.GroupShareOrSignsKey:
			g := block.NewGroupSharesOrSigns()
			if _, err := g.UnmarshalMsg(l.Value); err == nil {
				for id := range g.Shares {
					v.Sos[id] = true
				}
			}
		case minersc.DKGMinersKey:
			d := minersc.NewDKGMinerNodes()
			if _, err := d.UnmarshalMsg(l.Value); err == nil {
				v.T, v.K, v.N = d.T, d.K, d.N
				for id := range d.SimpleNodes {
					v.DKG[id] = true
				}
				for id, ok := range d.Waited {
					if ok {
						v.Waited[id] = true
					}
				}
			}
		case minersc.ShardersKeepKey:
			var ids minersc.NodeIDs
			if _, err := ids.UnmarshalMsg(l.Value); err == nil {
				v.Keep = ids
			}
		case minersc.MagicBlockKey:
			mb := block.NewMagicBlock()
			if _, err := mb.UnmarshalMsg(l.Value); err == nil {
				v.MB = mb
			}
		case minersc.GlobalNodeKey:
			gn := &minersc.GlobalNode{}
			if _, err := gn.UnmarshalMsg(l.Value); err == nil {
				v.GN = gn
			}
		case minersc.AllMinersKey:
			var ids minersc.NodeIDs
			if _, err := ids.UnmarshalMsg(l.Value); err == nil {
				v.Miners = ids
			}
		case minersc.AllShardersKey:
			var ids minersc.NodeIDs
			if _, err := ids.UnmarshalMsg(l.Value); err == nil {
				v.Sharders = ids
			}
		}
	}
	return v
}

func (v *vcView) String() string {
	ids := func(m map[string]bool) int { return len(m) }
	mb := "-"
	if v.MB != nil {
		mb = fmt.Sprintf("mb#%d@%d(%dm,%ds)", v.MB.MagicBlockNumber, v.MB.StartingRound, v.MB.Miners.Size(), v.MB.Sharders.Size())
	}
	vc := int64(-1)
	if v.GN != nil {
		vc = v.GN.ViewChange
	}
	return fmt.Sprintf("phase=%d start=%d restarts=%d mpks=%d sos=%d waited=%d keep=%d dkg=%d T/K/N=%d/%d/%d %s viewchange=%d", v.Phase, v.Start, v.Restarts, len(v.Mpks), ids(v.Sos), ids(v.Waited), len(v.Keep), ids(v.DKG), v.T, v.K, v.N, mb, vc)
}

// ---------------------------------------------------------------------------------------------
// round actions: a block = DKG transactions of some nodes, then the generator's fee payment

// dkgTxn describes one DKG transaction of a round.
type dkgTxn struct {
	kind string // mpk, mpk-short, keep, sos, sos-reveal, sos-bad-share, sos-bad-sign, sos-few, wait
	who  string
}

func vcSCOverrides() map[string]any {
	o := scOverrides()
	for _, p := range []string{"start_rounds", "contribute_rounds", "share_rounds", "publish_rounds", "wait_rounds"} {
		o["smart_contracts.minersc."+p] = 2
	}
	return o
}

func keepInput(w *world.World, s string) map[string]any {
	a := w.Actors[s]
	return map[string]any{"simple_miner": map[string]any{"id": a.ID, "provider_type": provShard, "n2n_host": "198.18.0.9", "host": "198.18.0.9",
		"port": 7171, "public_key": a.PublicKey, "short_name": s, "build_tag": "verif"}}
}

func (m *dkgMaterial) spec(w *world.World, x *chainsim.Ctx, d dkgTxn, nonces map[string]int64) *world.TxnSpec {
	a := w.Actors[d.who]
	if _, ok := nonces[a.ID]; !ok {
		nonces[a.ID] = x.Nonce(a)
	}
	nonces[a.ID]++
	all := []string{"m0", "m1", "m2", "m3"}
	m = m.forT(w, decodeVC(x.N.Leaves).T)
	var fn string
	var in any
	switch d.kind {
	case "raise-min-s": // the owner raises min_s above the number of sharders in the middle of a DKG
		fn, in = "update_settings", map[string]any{"fields": map[string]string{"max_s": "3", "min_s": "3"}}
	case "mpk":
		fn, in = "contributeMpk", m.mpkInput(w, d.who, 0)
	case "mpk-short":
		fn, in = "contributeMpk", m.mpkInput(w, d.who, 1)
	case "mpk-foreign": // a non-member sends a well-formed MPK of m3
		fn, in = "contributeMpk", m.mpkInput(w, "m3", 0)
	case "keep":
		fn, in = "sharder_keep", keepInput(w, d.who)
	case "sos":
		fn, in = "shareSignsOrShares", m.sosInput(w, d.who, all, nil, "")
	case "sos-reveal":
		fn, in = "shareSignsOrShares", m.sosInput(w, d.who, all, map[string]bool{"m1": true, "m2": true}, "")
	case "sos-bad-share":
		fn, in = "shareSignsOrShares", m.sosInput(w, d.who, all, map[string]bool{"m1": true}, "share")
	case "sos-bad-sign":
		fn, in = "shareSignsOrShares", m.sosInput(w, d.who, all, nil, "sign")
	case "sos-few":
		fn, in = "shareSignsOrShares", m.sosInput(w, d.who, []string{"m0", d.who}, nil, "")
	case "wait":
		fn, in = "wait", nil
	default:
		panic("unknown dkg txn kind " + d.kind)
	}
	data := world.SC(fn, in)
	kindOf[data] = d.kind
	return &world.TxnSpec{From: a, To: minerSC, Type: transaction.TxnTypeSmartContract, Nonce: nonces[a.ID], Data: data}
}

// vcRound: the transactions txs(view) of the round, then payFees by generator m0 (unless noPay:
// then a plain transfer closes the round and the phase machine is not stepped).
func vcRound(w *world.World, m *dkgMaterial, name string, maxDev int, honest bool, noPay bool, txs func(v *vcView) []dkgTxn) chainsim.Action {
	applicable := func(x *chainsim.Ctx) bool {
		if honest {
			// one base script per path: H (all nodes honest), Hc2 (m2, m3 offline), Hp2 (m2, m3 go offline after contributing)
			for _, p := range x.N.Path {
				if strings.HasPrefix(p, "H") && p != name {
					return false
				}
			}
			return true
		}
		dev := 0
		for _, p := range x.N.Path {
			if !strings.HasPrefix(p, "H") && !strings.HasPrefix(p, "root") {
				dev++
			}
		}
		return dev < maxDev
	}
	a := chainsim.Action{Name: name, Miner: 0}
	nonces := map[string]int64{}
	a.Before = func(x *chainsim.Ctx) []*world.TxnSpec {
		if !applicable(x) {
			return nil
		}
		for k := range nonces {
			delete(nonces, k)
		}
		var out []*world.TxnSpec
		for _, d := range txs(decodeVC(x.N.Leaves)) {
			out = append(out, m.spec(w, x, d, nonces))
		}
		return out
	}
	a.Build = func(x *chainsim.Ctx) *world.TxnSpec {
		if !applicable(x) {
			return nil
		}
		// NOTE: the explorer calls Build before Before; recompute the generator's nonce here
		n := x.Nonce(w.Miners[0])
		for _, d := range txs(decodeVC(x.N.Leaves)) {
			if d.who == "m0" {
				n++
			}
		}
		if noPay {
			f := w.Actors["c2"]
			return &world.TxnSpec{From: f, To: w.Actors["c1"].ID, Type: transaction.TxnTypeSend, Value: 1, Nonce: x.Nonce(f) + 1}
		}
		return &world.TxnSpec{From: w.Miners[0], To: minerSC, Type: transaction.TxnTypeSmartContract, Nonce: n + 1,
			Data: world.SC("payFees", map[string]any{"round": x.Rnd})}
	}
	return a
}

// honestTxs: what honest nodes send in a round, given the contract state.
func honestTxs(w *world.World) func(v *vcView) []dkgTxn { return honestSubset(w, 4, 4) }

// honestSubset: only the first nc miners contribute a public key, only the first np of them
// publish shares and confirm (the others are offline from then on); sharders are always honest.
func honestSubset(w *world.World, nc, np int) func(v *vcView) []dkgTxn {
	return func(v *vcView) []dkgTxn {
		var out []dkgTxn
		switch v.Phase {
		case 1: // contribute
			for _, a := range w.Miners[:nc] {
				if _, ok := v.Mpks[a.ID]; !ok && v.DKG[a.ID] {
					out = append(out, dkgTxn{"mpk", a.Name})
				}
			}
			have := map[string]bool{}
			for _, id := range v.Keep {
				have[id] = true
			}
			for _, a := range w.Sharders {
				if !have[a.ID] {
					out = append(out, dkgTxn{"keep", a.Name})
				}
			}
		case 3: // publish
			for _, a := range w.Miners[:np] {
				if !v.Sos[a.ID] && v.DKG[a.ID] {
					out = append(out, dkgTxn{"sos", a.Name})
				}
			}
		case 4: // wait
			for _, a := range w.Miners[:np] {
				if !v.Waited[a.ID] && v.DKG[a.ID] {
					out = append(out, dkgTxn{"wait", a.Name})
				}
			}
		}
		return out
	}
}

func fixedTxs(ds ...dkgTxn) func(v *vcView) []dkgTxn { return func(*vcView) []dkgTxn { return ds } }

func many(kind string, who ...string) []dkgTxn {
	var out []dkgTxn
	for _, w := range who {
		out = append(out, dkgTxn{kind, w})
	}
	return out
}

var _ = json.Marshal
var _ = sort.Strings
