package main

import (
	"fmt"
	"math/big"
	"sort"
	"strings"

	"0chain.net/smartcontract/minersc"
	"0chain.net/smartcontract/stakepool"
	"0chain.net/smartcontract/stakepool/spenum"
	"0chain.net/smartcontract/storagesc"
	"verif/lib/chainsim"
	"verif/lib/world"
)

// pool is one delegate pool as recorded in a provider node.
type pool struct {
	Balance, Reward uint64
	Delegate        string
	Status          int
}

// prov is what the miner contract records about one miner or sharder.
type prov struct {
	ID       string
	Type     int  // provMiner / provShard
	Killed   bool // SimpleNode.HasBeenKilled
	SPKilled bool // StakePool.HasBeenKilled
	ShutDown bool
	Reward   uint64 // unpaid service charge of the provider
	Wallet   string // delegate wallet
	MaxDeleg int
	MinStake uint64
	Staked   uint64 // SimpleNode.TotalStaked (denormalised)
	Pools    map[string]pool
	Raw      []byte
	SC       string // contract that holds the record
	HasNode  bool   // the provider node exists
	HasPool  bool   // the stake pool record exists (always with the node in the miner contract)
	Offers   uint64 // storage contract: total offers
}

func (p *prov) stake() *big.Int {
	s := new(big.Int)
	for _, d := range p.Pools {
		s.Add(s, new(big.Int).SetUint64(d.Balance))
	}
	return s
}

// owed = delegate balances + unpaid rewards of this provider.
func (p *prov) owed() *big.Int {
	s := p.stake()
	for _, d := range p.Pools {
		s.Add(s, new(big.Int).SetUint64(d.Reward))
	}
	return s.Add(s, new(big.Int).SetUint64(p.Reward))
}

// rewards = unpaid rewards of this provider (service charge + delegates).
func (p *prov) rewards() *big.Int {
	s := new(big.Int).SetUint64(p.Reward)
	for _, d := range p.Pools {
		s.Add(s, new(big.Int).SetUint64(d.Reward))
	}
	return s
}

func (p *prov) eligible() bool {
	return !p.SPKilled && p.stake().Cmp(new(big.Int).SetUint64(p.MinStake)) >= 0
}

// ledger is the miner contract's view decoded from a leaf set.
type ledger struct {
	Provs    map[string]*prov
	SConf    *storagesc.Config
	GN       *minersc.GlobalNode
	Miners   []string // all_miners id list
	Sharders []string
	Acct     map[string]acct
}

type acct struct {
	Bal   uint64
	Nonce int64
	Has   bool
}

func decodeLedger(ls []world.Leaf, v func(key, what string)) *ledger {
	lg := &ledger{Provs: map[string]*prov{}, Acct: map[string]acct{}}
	// storage-contract stake pools first: their key tells id and type of a storage provider
	type cand struct {
		p    *prov
		used bool
	}
	cands := map[string][]*cand{}
	for _, l := range ls {
		k := world.Tap.KeyOf(l.Path)
		for _, pt := range []struct {
			pfx string
			typ int
		}{{"blobber:stakepool:", provBlobber}, {"validator:stakepool:", provValidator}} {
			if !strings.HasPrefix(k, pt.pfx) {
				continue
			}
			id := k[len(pt.pfx):]
			sp, offers, err := storagesc.VerifMinerscDecodeStakePool(l.Value)
			if err != nil {
				if v != nil {
					v("harness:stake-pool-undecodable", k)
				}
				continue
			}
			p := &prov{ID: id, Type: pt.typ, SC: storageSC, HasPool: true, Offers: uint64(offers), Pools: map[string]pool{}, Raw: l.Value}
			fillPool(p, sp)
			cands[id] = append(cands[id], &cand{p: p})
		}
	}
	storageNode := func(typ int, val []byte) (ok, killed, shut bool) {
		if typ == provBlobber {
			sn := &storagesc.StorageNode{}
			if _, err := sn.UnmarshalMsg(val); err == nil {
				h := storagesc.VerifMinerscBlobberProvider(sn)
				return h.ProviderType == spenum.Blobber, h.HasBeenKilled, h.HasBeenShutDown
			}
			return
		}
		vn := &storagesc.ValidationNode{}
		if _, err := vn.UnmarshalMsg(val); err == nil {
			return vn.ProviderType == spenum.Validator, vn.HasBeenKilled, vn.HasBeenShutDown
		}
		return
	}
	for _, l := range ls {
		if world.Tap.IsAccount(l.Path) {
			if st, ok := chainsim.DecodeAccount(l.Value); ok {
				lg.Acct[l.Path] = acct{uint64(st.Balance), st.Nonce, true}
			}
			continue
		}
		k := world.Tap.KeyOf(l.Path)
		switch {
		case k == storagesc.VerifMinerscConfigKey():
			c := &storagesc.Config{}
			if _, err := c.UnmarshalMsg(l.Value); err == nil {
				lg.SConf = c
			}
		case strings.HasPrefix(k, "provider:"):
			id := k[len("provider:"):]
			done := false
			for _, c := range cands[id] {
				if ok, killed, shut := storageNode(c.p.Type, l.Value); ok && !done {
					c.p.HasNode, c.p.Killed, c.p.ShutDown, c.used, done = true, killed, shut, true, true
					c.p.Raw = append(append([]byte{}, c.p.Raw...), l.Value...)
					lg.Provs[id] = c.p
				}
			}
			if done {
				continue
			}
			mn := minersc.NewMinerNode()
			if _, err := mn.UnmarshalMsg(l.Value); err == nil && (mn.ProviderType == spenum.Miner || mn.ProviderType == spenum.Sharder) {
				p := &prov{ID: mn.ID, Type: int(mn.ProviderType), Killed: mn.SimpleNode.HasBeenKilled, ShutDown: mn.HasBeenShutDown, Staked: uint64(mn.TotalStaked),
					Pools: map[string]pool{}, Raw: l.Value, SC: minerSC, HasNode: true, HasPool: true}
				fillPool(p, mn.StakePool)
				if "provider:"+mn.ID != k && v != nil {
					v("harness:provider-key-mismatch", fmt.Sprintf("node under %s carries id %s", k, mn.ID))
				}
				lg.Provs[mn.ID] = p
				continue
			}
			// a storage provider node without a stake pool record
			for _, typ := range []int{provBlobber, provValidator} {
				if ok, killed, shut := storageNode(typ, l.Value); ok && !done {
					lg.Provs[id] = &prov{ID: id, Type: typ, SC: storageSC, HasNode: true, Killed: killed, ShutDown: shut, Pools: map[string]pool{}, Raw: l.Value}
					done = true
				}
			}
		case k == minersc.GlobalNodeKey:
			gn := &minersc.GlobalNode{}
			if _, err := gn.UnmarshalMsg(l.Value); err == nil {
				lg.GN = gn
			}
		case k == minersc.AllMinersKey || k == minersc.AllShardersKey:
			var ids minersc.NodeIDs
			if _, err := ids.UnmarshalMsg(l.Value); err == nil {
				if k == minersc.AllMinersKey {
					lg.Miners = ids
				} else {
					lg.Sharders = ids
				}
			}
		}
	}
	for id, cs := range cands {
		for _, c := range cs {
			if !c.used {
				lg.Provs[fmt.Sprintf("orphan-stakepool:%d:%s", c.p.Type, id)] = c.p
			}
		}
	}
	return lg
}

func fillPool(p *prov, sp *stakepool.StakePool) {
	p.SPKilled, p.Reward, p.Wallet, p.MaxDeleg, p.MinStake = sp.HasBeenKilled, uint64(sp.Reward), sp.Settings.DelegateWallet, sp.Settings.MaxNumDelegates, uint64(sp.Settings.MinStake)
	for id, d := range sp.Pools {
		p.Pools[id] = pool{uint64(d.Balance), uint64(d.Reward), d.DelegateID, int(d.Status)}
	}
}

func (lg *ledger) ids() []string {
	var out []string
	for id := range lg.Provs {
		out = append(out, id)
	}
	sort.Strings(out)
	return out
}

// owedTotal = L(minersc): all delegate balances + all unpaid rewards.
func (lg *ledger) owedTotal() *big.Int {
	s := new(big.Int)
	for _, p := range lg.Provs {
		if p.SC == minerSC {
			s.Add(s, p.owed())
		}
	}
	return s
}

func (lg *ledger) rewardsOf(typ int) *big.Int {
	s := new(big.Int)
	for _, p := range lg.Provs {
		if p.Type == typ {
			s.Add(s, p.rewards())
		}
	}
	return s
}

func u(x uint64) *big.Int { return new(big.Int).SetUint64(x) }

func (lg *ledger) String(w *world.World) string {
	var b strings.Builder
	for _, id := range lg.ids() {
		p := lg.Provs[id]
		name := id[:6]
		if a, ok := w.ByID[id]; ok {
			name = a.Name
		}
		fmt.Fprintf(&b, "%s{t%d killed=%v/%v rew=%d staked=%d", name, p.Type, p.Killed, p.SPKilled, p.Reward, p.Staked)
		var ds []string
		for d := range p.Pools {
			ds = append(ds, d)
		}
		sort.Strings(ds)
		for _, d := range ds {
			dn := d[:6]
			if a, ok := w.ByID[d]; ok {
				dn = a.Name
			}
			fmt.Fprintf(&b, " %s:%d+%d", dn, p.Pools[d].Balance, p.Pools[d].Reward)
		}
		b.WriteString("} ")
	}
	return b.String()
}
