package main

import (
	"encoding/json"
	"fmt"
	"os"
	"os/exec"
	"sort"
	"strings"

	"0chain.net/chaincore/transaction"
	"0chain.net/miner"
	"verif/lib/chainsim"
	"verif/lib/ev"
	"verif/lib/world"
)

func init() { checks["C22:dup"] = c22dup }

type dupOut struct {
	Cases, Accepted, Rejected int
	Outcomes                  map[string]int
	Samples                   []string
	Violations                []struct{ Key, What, Case string }
	SecondPaymentCredits      bool
}

// c22dup: every transaction list up to the length bound over {transfer with fee, fee payment by
// the generator, fee payment by a client, storage built-in, faucet call} is executed into a real
// block and handed to the real miner.ValidateTransactions; a block that carries the fee payment
// (function payFees) more than once must be rejected.
func c22dup(run *ev.Run) {
	maxLen := run.Pick(4, 5)
	run.Rule = "all transaction lists up to the length bound over a 5-letter alphabet {transfer with fee, payFees by the generator, payFees by a client, commit_settings_changes by the generator, faucet pour}, each list executed into a real block (Chain.UpdateState) on a staked chain and validated by the real miner.ValidateTransactions; oracle: a block with two or more payFees transactions is rejected"
	run.Bounds["max_block_length"] = maxLen
	run.Bounds["alphabet_size"] = 5
	if os.Getenv("VERIF_DUP_WORKER") == "" {
		bin := os.Getenv("VERIF_BIN")
		if bin == "" {
			bin, _ = os.Executable()
		}
		os.MkdirAll(ev.Root()+"/.work", 0o755)
		f, err := os.CreateTemp(ev.Root()+"/.work", "dup*.json")
		if err != nil {
			ev.Fatal("tmp: %v", err)
		}
		f.Close()
		defer os.Remove(f.Name())
		cmd := exec.Command(bin, os.Args[1:]...)
		cmd.Env = append(os.Environ(), "VERIF_DUP_WORKER="+f.Name(), "VERIF_SHARD=dup")
		out, err := cmd.CombinedOutput()
		data, rerr := os.ReadFile(f.Name())
		var d dupOut
		if err != nil || rerr != nil || json.Unmarshal(data, &d) != nil {
			tail := string(out)
			if len(tail) > 2000 {
				tail = tail[len(tail)-2000:]
			}
			ev.Fatal("dup worker failed: %v\n%s", err, tail)
		}
		run.Add(int64(d.Cases), int64(d.Cases), int64(d.Cases))
		for k := range d.Outcomes {
			run.Outcome(k)
		}
		for _, s := range d.Samples {
			run.Sample(s)
		}
		run.Extra["outcomes"] = d.Outcomes
		run.Extra["accepted_blocks"] = d.Accepted
		run.Extra["rejected_blocks"] = d.Rejected
		run.Extra["contract_credits_a_second_payFees_in_the_same_block"] = d.SecondPaymentCredits
		for _, v := range d.Violations {
			run.Violation(v.Key, v.What, map[string]any{"block": v.Case})
		}
		if len(d.Violations) == 0 && (d.Accepted == 0 || d.Rejected == 0) {
			ev.Fatal("vacuous: accepted %d rejected %d", d.Accepted, d.Rejected)
		}
		run.Assumptions = append(run.Assumptions, "the block is validated by the generator's own miner.Chain (current round 0, so no round-mismatch cancellation)", "transactions are executed one after the other by Chain.UpdateState before validation, as a generator does")
		return
	}
	// worker
	w := mkWorld()
	miner.SetupMinerChain(w.Chain)
	mc := miner.GetMinerChain()
	root := runScriptQuiet(w, rootStaked(w))
	letters := []string{"a", "P", "C", "S", "F"}
	d := dupOut{Outcomes: map[string]int{}}
	var rec func(seq []string)
	runCase := func(seq []string) {
		gen := w.Miners[0]
		rnd := root.Block.Round + 1
		now := root.Block.CreationDate + 1
		w.Chain.SetupStateCache()
		nd := w.Open(root, rnd, now, gen, 1000+rnd, strings.Join(seq, ""))
		nonce := map[string]int64{}
		next := func(a *world.Actor) int64 {
			if _, ok := nonce[a.ID]; !ok {
				_, n := world.Balance(root.State, a.ID)
				nonce[a.ID] = n
			}
			nonce[a.ID]++
			return nonce[a.ID]
		}
		pays, builtin := 0, map[string]int{}
		var rewardsBefore, rewardsAfterFirst, rewardsAfterSecond string
		for _, l := range seq {
			var sp world.TxnSpec
			switch l {
			case "a":
				f := w.Actors["c0"]
				sp = world.TxnSpec{From: f, To: w.Actors["c1"].ID, Type: transaction.TxnTypeSend, Value: 1, Fee: 7, Nonce: next(f)}
			case "P":
				sp = world.TxnSpec{From: gen, To: minerSC, Type: transaction.TxnTypeSmartContract, Nonce: next(gen), Data: world.SC("payFees", map[string]any{"round": rnd})}
			case "C":
				f := w.Actors["c2"]
				sp = world.TxnSpec{From: f, To: minerSC, Type: transaction.TxnTypeSmartContract, Nonce: next(f), Data: world.SC("payFees", map[string]any{"round": rnd})}
			case "S":
				sp = world.TxnSpec{From: gen, To: storageSC, Type: transaction.TxnTypeSmartContract, Nonce: next(gen), Data: world.SC("commit_settings_changes", map[string]any{"round": rnd})}
			case "F":
				f := w.Actors["c1"]
				sp = world.TxnSpec{From: f, To: world.SCAddresses["faucetsc"], Type: transaction.TxnTypeSmartContract, Nonce: next(f), Data: world.SC("pour", nil)}
			}
			sp.Time = now
			t := w.Txn(sp)
			if l == "P" && pays == 0 {
				rewardsBefore = decodeLedger(world.Leaves(nd.State), nil).rewardsOf(provMiner).String()
			}
			if _, err := w.Exec(nd, t); err != nil {
				ev.Fatal("case %v: transaction %s rejected by UpdateState: %v", seq, l, err)
			}
			nd.Block.Txns = nd.Txns
			nd.Block.AddTransaction(t) // as the generator does: sets the output hash
			if t.FunctionName == "payFees" || t.FunctionName == "commit_settings_changes" {
				builtin[t.FunctionName]++
			}
			if l == "P" {
				pays++
				r := decodeLedger(world.Leaves(nd.State), nil).rewardsOf(provMiner).String()
				if pays == 1 {
					rewardsAfterFirst = r
				} else if pays == 2 {
					rewardsAfterSecond = r
				}
			}
		}
		w.CloseBlock(nd)
		err := mc.ValidateTransactions(w.Ctx, nd.Block)
		if os.Getenv("VERIF_DUP_DEBUG") != "" && d.Cases < 3 {
			for _, t := range nd.Block.Txns {
				fmt.Fprintf(os.Stderr, "DEBUG txn %s out=%q oh=%q verr=%v\n", t.FunctionName, t.TransactionOutput, t.OutputHash, t.ValidateWrtTimeForBlock(w.Ctx, nd.Block.CreationDate, true))
			}
			fmt.Fprintf(os.Stderr, "DEBUG case %v -> %v (current round %d)\n", seq, err, mc.GetCurrentRound())
		}
		d.Cases++
		dupBuiltin := false
		for _, c := range builtin {
			if c > 1 {
				dupBuiltin = true
			}
		}
		oc := fmt.Sprintf("payFees=%d dup-builtin=%v accepted=%v", builtin["payFees"], dupBuiltin, err == nil)
		d.Outcomes[oc]++
		if err == nil {
			d.Accepted++
		} else {
			d.Rejected++
		}
		if len(d.Samples) < 6 && len(seq) >= 3 {
			d.Samples = append(d.Samples, strings.Join(seq, "")+" -> "+fmt.Sprint(err))
		}
		if builtin["payFees"] >= 2 && err == nil {
			d.Violations = append(d.Violations, struct{ Key, What, Case string }{"C22:ValidateTransactions:block-with-two-fee-payments-accepted",
				fmt.Sprintf("block %v carries %d payFees transactions and passed ValidateTransactions", seq, builtin["payFees"]), strings.Join(seq, "")})
		}
		if pays >= 2 && rewardsAfterSecond != rewardsAfterFirst && rewardsAfterFirst != rewardsBefore {
			d.SecondPaymentCredits = true
		}
	}
	rec = func(seq []string) {
		if len(seq) > 0 {
			runCase(seq)
		}
		if len(seq) == maxLen {
			return
		}
		for _, l := range letters {
			rec(append(append([]string{}, seq...), l))
		}
	}
	rec(nil)
	keys := make([]string, 0, len(d.Outcomes))
	for k := range d.Outcomes {
		keys = append(keys, k)
	}
	sort.Strings(keys)
	data, _ := json.Marshal(d)
	if err := os.WriteFile(os.Getenv("VERIF_DUP_WORKER"), data, 0o644); err != nil {
		ev.Fatal("write: %v", err)
	}
	os.Exit(0)
}

// runScriptQuiet executes a root script on genesis and returns the last block (all must succeed).
func runScriptQuiet(w *world.World, acts []chainsim.Action) *world.Node {
	n := w.GenesisNode()
	for _, a := range acts {
		now := n.Block.CreationDate + 1
		x := &chainsim.Ctx{W: w, N: &chainsim.SNode{N: n}, Now: now, Rnd: n.Block.Round + 1}
		spec := a.Build(x)
		spec.Time = now
		w.Chain.SetupStateCache()
		nd := w.Open(n, x.Rnd, now, w.Miners[a.Miner%len(w.Miners)], 1000+x.Rnd, a.Name)
		t := w.Txn(*spec)
		if _, err := w.Exec(nd, t); err != nil || t.Status != transaction.TxnSuccess {
			ev.Fatal("root step %s failed: %v %s", a.Name, err, t.TransactionOutput)
		}
		w.CloseBlock(nd)
		n = nd
	}
	return n
}
