package main

import (
	"fmt"

	"github.com/0chain/common/core/currency"
	"verif/lib/chainsim"
	"verif/lib/world"
)

const storageSC = "6dba10422e368813802877a85039d3985d96760ed844092319743fb3a76712d7"

const (
	provBlobber   = 3 // spenum.Blobber
	provValidator = 4 // spenum.Validator
)

// storageActors adds the key pairs of the storage providers of the kill/shutdown scenario.
func storageActors(w *world.World) {
	for _, n := range []string{"b0", "b1", "v0"} {
		if _, ok := w.Actors[n]; !ok {
			a := world.DetKey(n)
			w.Actors[n] = a
			w.ByID[a.ID] = a
		}
	}
}

// addBlobber registers a blobber through the storage contract (sent by the blobber itself).
func addBlobber(w *world.World, b, delegate string, maxDelegates int) chainsim.Action {
	in := map[string]any{
		"url":                 fmt.Sprintf("http://%s.verif:5051", b),
		"terms":               map[string]any{"read_price": 0, "write_price": 10000000},
		"capacity":            21474836480,
		"stake_pool_settings": map[string]any{"delegate_wallet": w.Actors[delegate].ID, "num_delegates": maxDelegates, "service_charge": 0.1},
	}
	return call(w, b, "storagesc", "add_blobber", in, 0, 0, "")
}

func addValidator(w *world.World, v, delegate string) chainsim.Action {
	in := map[string]any{
		"url":                 fmt.Sprintf("http://%s.verif:5061", v),
		"stake_pool_settings": map[string]any{"delegate_wallet": w.Actors[delegate].ID, "num_delegates": 2, "service_charge": 0.1},
	}
	return call(w, v, "storagesc", "add_validator", in, 0, 0, "")
}

func sspReq(w *world.World, provider string) map[string]any {
	pt := provBlobber
	if provider[0] == 'v' {
		pt = provValidator
	}
	return map[string]any{"provider_type": pt, "provider_id": w.Actors[provider].ID}
}

func sLock(w *world.World, who, provider string, v uint64) chainsim.Action {
	return call(w, who, "storagesc", "stake_pool_lock", sspReq(w, provider), currency.Coin(v), 0, fmt.Sprintf("->%s:%d", provider, v))
}

func sUnlock(w *world.World, who, provider string) chainsim.Action {
	return call(w, who, "storagesc", "stake_pool_unlock", sspReq(w, provider), 0, 0, "->"+provider)
}

func sCollect(w *world.World, who, provider string) chainsim.Action {
	return call(w, who, "storagesc", "collect_reward", sspReq(w, provider), 0, 0, "->"+provider)
}

func sCall(w *world.World, who, fn, provider string) chainsim.Action {
	return call(w, who, "storagesc", fn, map[string]any{"provider_id": w.Actors[provider].ID}, 0, 0, "->"+provider)
}
