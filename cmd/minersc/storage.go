package main

import (
	"fmt"

	"0chain.net/chaincore/transaction"
	"0chain.net/core/encryption"
	"0chain.net/smartcontract/storagesc"
	"github.com/0chain/common/core/currency"
	"verif/lib/chainsim"
	"verif/lib/world"
)

const storageSC = "6dba10422e368813802877a85039d3985d96760ed844092319743fb3a76712d7"

const (
	provBlobber   = 3 // spenum.Blobber
	provValidator = 4 // spenum.Validator
)

// storageActors adds the key pairs of the storage providers of the kill/shutdown scenario.
func storageActors(w *world.World) {
	for _, n := range []string{"b0", "b1", "b2", "b3", "v0"} {
		if _, ok := w.Actors[n]; !ok {
			a := world.DetKey(n)
			w.Actors[n] = a
			w.ByID[a.ID] = a
		}
	}
}

// addBlobber registers a blobber through the storage contract (sent by the blobber itself).
func addBlobber(w *world.World, b, delegate string, maxDelegates int) chainsim.Action {
	in := map[string]any{
		"url":                 fmt.Sprintf("http://%s.verif:5051", b),
		"terms":               map[string]any{"read_price": 0, "write_price": 10000000},
		"capacity":            21474836480,
		"stake_pool_settings": map[string]any{"delegate_wallet": w.Actors[delegate].ID, "num_delegates": maxDelegates, "service_charge": 0.1},
	}
	return call(w, b, "storagesc", "add_blobber", in, 0, 0, "")
}

func addValidator(w *world.World, v, delegate string) chainsim.Action {
	in := map[string]any{
		"url":                 fmt.Sprintf("http://%s.verif:5061", v),
		"stake_pool_settings": map[string]any{"delegate_wallet": w.Actors[delegate].ID, "num_delegates": 2, "service_charge": 0.1},
	}
	return call(w, v, "storagesc", "add_validator", in, 0, 0, "")
}

func sspReq(w *world.World, provider string) map[string]any {
	pt := provBlobber
	if provider[0] == 'v' {
		pt = provValidator
	}
	return map[string]any{"provider_type": pt, "provider_id": w.Actors[provider].ID}
}

func sLock(w *world.World, who, provider string, v uint64) chainsim.Action {
	return call(w, who, "storagesc", "stake_pool_lock", sspReq(w, provider), currency.Coin(v), 0, fmt.Sprintf("->%s:%d", provider, v))
}

func sUnlock(w *world.World, who, provider string) chainsim.Action {
	return call(w, who, "storagesc", "stake_pool_unlock", sspReq(w, provider), 0, 0, "->"+provider)
}

func sCollect(w *world.World, who, provider string) chainsim.Action {
	return call(w, who, "storagesc", "collect_reward", sspReq(w, provider), 0, 0, "->"+provider)
}

func sCall(w *world.World, who, fn, provider string) chainsim.Action {
	return call(w, who, "storagesc", fn, map[string]any{"provider_id": w.Actors[provider].ID}, 0, 0, "->"+provider)
}

// ---------------------------------------------------------------------------------------------
// a blobber that holds written data (saved_data > 0): allocation + write marker

// addBlobberPriced registers a blobber with the given write price (0 = its allocations create no
// offers, so its delegates may unstake completely while it still stores data).
func addBlobberPriced(w *world.World, b, delegate string, writePrice uint64) chainsim.Action {
	in := map[string]any{
		"url":                 fmt.Sprintf("http://%s.verif:5051", b),
		"terms":               map[string]any{"read_price": 1000000000, "write_price": writePrice},
		"capacity":            21474836480,
		"stake_pool_settings": map[string]any{"delegate_wallet": w.Actors[delegate].ID, "num_delegates": 2, "service_charge": 0.1},
	}
	return call(w, b, "storagesc", "add_blobber", in, 0, 0, fmt.Sprintf(":price=%d", writePrice))
}

var allocIDs = map[string]string{} // tag -> allocation id (= hash of the creating transaction)

// newAllocation creates a 2+1 allocation of `owner` on three blobbers in a root script.
func newAllocation(w *world.World, tag, owner string, blobbers []string, size int64, lock currency.Coin) chainsim.Action {
	o := w.Actors[owner]
	var ids []string
	for _, b := range blobbers {
		ids = append(ids, w.Actors[b].ID)
	}
	in := map[string]any{
		"data_shards": 2, "parity_shards": 1, "size": size, "owner_id": o.ID, "owner_public_key": o.PublicKey,
		"blobbers": ids, "blobber_auth_tickets": make([]string, len(ids)),
		"read_price_range":  map[string]any{"min": 0, "max": 70000000000},
		"write_price_range": map[string]any{"min": 0, "max": 70000000000},
	}
	return chainsim.Action{Name: fmt.Sprintf("storagesc.new_allocation_request(%s,%s,%v)", tag, owner, blobbers), Build: func(x *chainsim.Ctx) *world.TxnSpec {
		spec := world.TxnSpec{From: o, To: storageSC, Type: transaction.TxnTypeSmartContract, Value: lock, Nonce: x.Nonce(o) + 1,
			Data: world.SC("new_allocation_request", in), Time: x.Now}
		allocIDs[tag] = w.Txn(spec).Hash
		return &spec
	}}
}

// commitWrite: the blobber redeems a write marker of `size` bytes signed by the allocation owner.
func commitWrite(w *world.World, tag, owner, blobber string, size int64) chainsim.Action {
	return chainsim.Action{Name: fmt.Sprintf("storagesc.commit_connection(%s,%s,%+d)", tag, blobber, size), Build: func(x *chainsim.Ctx) *world.TxnSpec {
		b, o := w.Actors[blobber], w.Actors[owner]
		id := allocIDs[tag]
		root := encryption.Hash(fmt.Sprintf("root:%s:%s:%d:%d", tag, blobber, size, x.Now))
		hd := storagesc.VerifWriteMarkerV1HashData(root, "", "", id, b.ID, o.ID, size, x.Now)
		sig, err := o.Scheme.Sign(encryption.Hash(hd))
		if err != nil {
			panic(err)
		}
		in := map[string]any{"allocation_root": root, "prev_allocation_root": "",
			"write_marker": map[string]any{"allocation_root": root, "prev_allocation_root": "", "file_meta_root": "", "allocation_id": id,
				"size": size, "blobber_id": b.ID, "timestamp": x.Now, "client_id": o.ID, "signature": sig}}
		return &world.TxnSpec{From: b, To: storageSC, Type: transaction.TxnTypeSmartContract, Nonce: x.Nonce(b) + 1, Data: world.SC("commit_connection", in), Time: x.Now}
	}}
}

// resetOffers: the contract owner sets a blobber's total offers to zero (reset_blobber_stats);
// afterwards its delegates may unstake completely although it still serves an allocation.
func resetOffers(w *world.World, blobber string) chainsim.Action {
	return chainsim.Action{Name: "storagesc.reset_blobber_stats(owner)->" + blobber, Build: func(x *chainsim.Ctx) *world.TxnSpec {
		ls := x.N.Leaves
		if ls == nil {
			ls = world.Leaves(x.N.N.State)
		}
		p := decodeLedger(ls, nil).Provs[w.Actors[blobber].ID]
		if p == nil {
			return nil
		}
		o := w.Actors["owner"]
		in := map[string]any{"blobber_id": p.ID, "prev_total_offers": p.Offers, "new_total_offers": 0}
		return &world.TxnSpec{From: o, To: storageSC, Type: transaction.TxnTypeSmartContract, Nonce: x.Nonce(o) + 1, Data: world.SC("reset_blobber_stats", in)}
	}}
}

func readPoolLock(w *world.World, who string, v uint64) chainsim.Action {
	return call(w, who, "storagesc", "read_pool_lock", map[string]any{}, currency.Coin(v), 0, fmt.Sprintf(":%d", v))
}

// readRedeem: the blobber redeems a read marker of the client with an absolute counter; the read
// price is paid from the client's read pool into the blobber's stake pool rewards.
func readRedeem(w *world.World, tag, blobber, client string, counter int64) chainsim.Action {
	return chainsim.Action{Name: fmt.Sprintf("storagesc.read_redeem(%s,%s,%s,ctr=%d)", tag, blobber, client, counter), Build: func(x *chainsim.Ctx) *world.TxnSpec {
		b, c := w.Actors[blobber], w.Actors[client]
		rm := &storagesc.ReadMarker{ClientID: c.ID, ClientPublicKey: c.PublicKey, BlobberID: b.ID, AllocationID: allocIDs[tag], OwnerID: c.ID,
			Timestamp: x.Now, ReadCounter: counter}
		sig, err := c.Scheme.Sign(encryption.Hash(rm.GetHashData()))
		if err != nil {
			panic(err)
		}
		rm.Signature = sig
		return &world.TxnSpec{From: b, To: storageSC, Type: transaction.TxnTypeSmartContract, Nonce: x.Nonce(b) + 1,
			Data: world.SC("read_redeem", &storagesc.ReadConnection{ReadMarker: rm}), Time: x.Now}
	}}
}
