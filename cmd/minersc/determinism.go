package main

import (
	"github.com/0chain/common/core/statecache"
	"time"

	"verif/lib/chainsim"
	"verif/lib/envs"
	"verif/lib/ev"
)

// C06 part "minersc" and C07 part "minersc-cache": the staking alphabet (lock / unlock / collect /
// fee payment on registered, staked miners and sharders) under every environment answer.
func init() {
	checks["C06"] = func(run *ev.Run) { stakeDifferential(run, "C06", envs.Determinism) }
	checks["C07"] = func(run *ev.Run) { stakeDifferential(run, "C07:chain", envs.Cache) }
}

func stakeDifferential(run *ev.Run, prefix string, e func(l, s *statecache.StateCache) []*chainsim.Env) {
	w := mkWorld()
	acts := []chainsim.Action{
		lock(w, "c0", "m0", 10), lock(w, "c2", "m0", 10), lock(w, "c0", "s0", 10),
		unlock(w, "c0", "m0"), unlock(w, "c1", "m0"), unlock(w, "c0", "s0"), unlock(w, "c2", "m0"),
		collect(w, "c0", "m0"), collect(w, "c3", "m0"),
		payFees(w, 0, "m0", 0, "c2", 7),
		settings(w, "max_delegates", "3"),
		// cross-contract read of the shared provider key space: the storage contract asked for a
		// "blobber" whose id is a registered miner (the MinerNode may sit in the cache under that key)
		sLock(w, "c0", "m0", 100000000),
		sCall(w, "owner", "kill_blobber", "m0"),
		call(w, "m0", "storagesc", "blobber_health_check", nil, 0, 0, "-by-miner"),
	}
	ex := &chainsim.Explorer{Run: run, W: w, Actions: acts, Roots: [][]chainsim.Action{rootStaked(w)}, Depth: run.Pick(2, 3),
		Budget: time.Duration(run.Pick(50, 600)) * time.Second}
	d := &chainsim.Differential{E: ex, Prop: run.Prop, Envs: e, WarmLineage: true, KeyPrefix: prefix}
	run.Rule = "every action sequence up to the depth bound over stake lock / unlock / collect / fee payment / settings update from a state with registered, staked miners and sharders; each transition executed on the same pre-state in the reference environment and under every other environment answer (map orders, wall-clock answers, warm caches); outcomes must be identical"
	run.Extra["seam_sites"] = envs.SeamSites()
	run.Assumptions = envs.DeterminismAssumptions
	d.Run()
}
