package main

import (
	"fmt"

	"verif/lib/chainsim"
	"verif/lib/world"
)

// runScript executes actions one block each on top of genesis (diagnostics only).
func runScript(w *world.World, acts []chainsim.Action) *world.Node {
	return runScriptFrom(w, w.GenesisNode(), acts)
}

func runScriptFrom(w *world.World, n *world.Node, acts []chainsim.Action) *world.Node {
	for _, a := range acts {
		now := n.Block.CreationDate + 1
		if a.Dt != 0 {
			now = n.Block.CreationDate + 0
			now += 0
		}
		x := &chainsim.Ctx{W: w, N: &chainsim.SNode{N: n}, Now: now, Rnd: n.Block.Round + 1}
		spec := a.Build(x)
		if spec.Time == 0 {
			spec.Time = now
		}
		w.Chain.SetupStateCache()
		nd := w.Open(n, x.Rnd, now, w.Miners[a.Miner%len(w.Miners)], 1000+x.Rnd, a.Name)
		if a.Before != nil {
			for _, bs := range a.Before(x) {
				bs.Time = now
				if _, err := w.Exec(nd, w.Txn(*bs)); err != nil {
					fmt.Println("before txn rejected:", err)
				}
				nd.Block.Txns = nd.Txns
			}
		}
		t := w.Txn(*spec)
		_, err := w.Exec(nd, t)
		w.CloseBlock(nd)
		out := t.TransactionOutput
		if len(out) > 300 {
			out = out[:300]
		}
		fmt.Printf("%-60s err=%v status=%d out=%s\n", a.Name, err, t.Status, out)
		n = nd
	}
	return n
}

func probe(args []string) {
	w := world.New(world.Options{NumClients: 4, SC: vcSCOverrides(), Viper: map[string]any{"server_chain.view_change": true}})
	m := makeDKGs(w, 3, 4, "g1")
	acts := []chainsim.Action{addNode(w, "m0", false, "c3", 0.5, 2), addNode(w, "m1", false, "c3", 0, 2), addNode(w, "m2", false, "c3", 0, 2), addNode(w, "m3", false, "c3", 0, 2),
		addNode(w, "s0", true, "c3", 0.25, 2), addNode(w, "s1", true, "c3", 0.5, 2)}
	n := runScriptFrom(w, w.GenesisNode(), acts)
	h := vcRound(w, m, "H", 0, true, false, honestTxs(w))
	for i := 0; i < 24; i++ {
		ls := world.Leaves(n.State)
		x := &chainsim.Ctx{W: w, N: &chainsim.SNode{N: n, Leaves: ls}, Now: n.Block.CreationDate + 1, Rnd: n.Block.Round + 1}
		main := h.Build(x)
		before := h.Before(x)
		w.Chain.SetupStateCache()
		nd := w.Open(n, x.Rnd, x.Now, w.Miners[0], 1000+x.Rnd, "H")
		for _, bs := range before {
			bs.Time = x.Now
			t := w.Txn(*bs)
			_, err := w.Exec(nd, t)
			nd.Block.Txns = nd.Txns
			out := t.TransactionOutput
			if len(out) > 100 {
				out = out[:100]
			}
			fmt.Printf("    %s by %s: err=%v status=%d %s\n", t.FunctionName, w.ByID[t.ClientID].Name, err, t.Status, out)
		}
		main.Time = x.Now
		t := w.Txn(*main)
		_, err := w.Exec(nd, t)
		w.CloseBlock(nd)
		fmt.Printf("round %d payFees err=%v status=%d out=%.150s | %s\n", x.Rnd, err, t.Status, t.TransactionOutput, decodeVC(world.Leaves(nd.State)))
		n = nd
	}
}
