package main

import (
	"fmt"

	"verif/lib/chainsim"
	"verif/lib/world"
)

// runScript executes actions one block each on top of genesis (diagnostics only).
func runScript(w *world.World, acts []chainsim.Action) *world.Node {
	return runScriptFrom(w, w.GenesisNode(), acts)
}

func runScriptFrom(w *world.World, n *world.Node, acts []chainsim.Action) *world.Node {
	for _, a := range acts {
		now := n.Block.CreationDate + 1
		if a.Dt != 0 {
			now = n.Block.CreationDate + 0
			now += 0
		}
		x := &chainsim.Ctx{W: w, N: &chainsim.SNode{N: n}, Now: now, Rnd: n.Block.Round + 1}
		spec := a.Build(x)
		if spec.Time == 0 {
			spec.Time = now
		}
		w.Chain.SetupStateCache()
		nd := w.Open(n, x.Rnd, now, w.Miners[a.Miner%len(w.Miners)], 1000+x.Rnd, a.Name)
		if a.Before != nil {
			for _, bs := range a.Before(x) {
				bs.Time = now
				if _, err := w.Exec(nd, w.Txn(*bs)); err != nil {
					fmt.Println("before txn rejected:", err)
				}
				nd.Block.Txns = nd.Txns
			}
		}
		t := w.Txn(*spec)
		_, err := w.Exec(nd, t)
		w.CloseBlock(nd)
		out := t.TransactionOutput
		if len(out) > 300 {
			out = out[:300]
		}
		fmt.Printf("%-60s err=%v status=%d out=%s\n", a.Name, err, t.Status, out)
		n = nd
	}
	return n
}

func probe(args []string) {
	w := mkWorld()
	storageActors(w)
	acts := []chainsim.Action{
		addBlobberPriced(w, "b1", "c3", 1e7), addBlobberPriced(w, "b2", "c3", 1e7), addBlobberPriced(w, "b3", "c3", 1e7),
		sLock(w, "c0", "b1", 2e8), sLock(w, "c0", "b2", 2e8), sLock(w, "c0", "b3", 2e8),
		newAllocation(w, "A", "c1", []string{"b1", "b2", "b3"}, 64<<20, 1e9),
		commitWrite(w, "A", "c1", "b1", 1<<20),
		readPoolLock(w, "c1", 1e9),
		readRedeem(w, "A", "b1", "c1", 1),
		sUnlock(w, "c0", "b1"),
		resetOffers(w, "b1"),
		sUnlock(w, "c0", "b1"),
		sCall(w, "owner", "kill_blobber", "b1"),
		sLock(w, "c2", "b1", 2e8),
		readRedeem(w, "A", "b1", "c1", 3),
		sCall(w, "owner", "kill_blobber", "b1"),
	}
	n := w.GenesisNode()
	for i := range acts {
		n = runScriptFrom(w, n, acts[i:i+1])
		lg := decodeLedger(world.Leaves(n.State), nil)
		if p := lg.Provs[w.Actors["b1"].ID]; p != nil {
			fmt.Printf("      b1 node=%v pool=%v killed=%v shut=%v spdead=%v pools=%d offers=%d rewards=%s\n", p.HasNode, p.HasPool, p.Killed, p.ShutDown, p.SPKilled, len(p.Pools), p.Offers, p.rewards())
		} else {
			fmt.Println("      b1 gone")
		}
	}
}
