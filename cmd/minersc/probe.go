package main

import (
	"fmt"

	"verif/lib/chainsim"
	"verif/lib/world"
)

// runScript executes actions one block each on top of genesis (diagnostics only).
func runScript(w *world.World, acts []chainsim.Action) *world.Node {
	return runScriptFrom(w, w.GenesisNode(), acts)
}

func runScriptFrom(w *world.World, n *world.Node, acts []chainsim.Action) *world.Node {
	for _, a := range acts {
		now := n.Block.CreationDate + 1
		if a.Dt != 0 {
			now = n.Block.CreationDate + 0
			now += 0
		}
		x := &chainsim.Ctx{W: w, N: &chainsim.SNode{N: n}, Now: now, Rnd: n.Block.Round + 1}
		spec := a.Build(x)
		if spec.Time == 0 {
			spec.Time = now
		}
		w.Chain.SetupStateCache()
		nd := w.Open(n, x.Rnd, now, w.Miners[a.Miner%len(w.Miners)], 1000+x.Rnd, a.Name)
		if a.Before != nil {
			for _, bs := range a.Before(x) {
				bs.Time = now
				if _, err := w.Exec(nd, w.Txn(*bs)); err != nil {
					fmt.Println("before txn rejected:", err)
				}
				nd.Block.Txns = nd.Txns
			}
		}
		t := w.Txn(*spec)
		_, err := w.Exec(nd, t)
		w.CloseBlock(nd)
		out := t.TransactionOutput
		if len(out) > 300 {
			out = out[:300]
		}
		fmt.Printf("%-60s err=%v status=%d out=%s\n", a.Name, err, t.Status, out)
		n = nd
	}
	return n
}

func probe(args []string) {
	w := mkWorld()
	storageActors(w)
	acts := []chainsim.Action{
		addBlobber(w, "b0", "c3", 2),
		addValidator(w, "v0", "c3"),
		sLock(w, "c0", "b0", 4e8),
		sCall(w, "owner", "kill_validator", "b0"),
		sLock(w, "c1", "b0", 4e8),
		sUnlock(w, "c0", "b0"),
		sCall(w, "owner", "kill_blobber", "b0"),
		sCall(w, "owner", "kill_blobber", "v0"),
	}
	n := w.GenesisNode()
	prev := map[string]string{}
	for i := range acts {
		n = runScriptFrom(w, n, acts[i:i+1])
		cur := map[string]string{}
		for _, l := range world.Leaves(n.State) {
			if world.Tap.IsAccount(l.Path) {
				continue
			}
			k := world.Tap.KeyOf(l.Path)
			cur[k] = string(l.Value)
			if prev[k] != cur[k] && (len(k) < 64 || k[:8] != storageSC[:8] || true) {
				if len(k) > 90 {
					continue
				}
				fmt.Printf("      changed: %s (%d bytes)\n", k, len(l.Value))
			}
		}
		for k := range prev {
			if _, ok := cur[k]; !ok {
				fmt.Printf("      deleted: %s\n", k)
			}
		}
		prev = cur
		lg := decodeLedger(world.Leaves(n.State), nil)
		for k, p := range lg.Provs {
			fmt.Printf("      prov %s type=%d node=%v pool=%v killed=%v shut=%v spdead=%v pools=%v\n", k[:8], p.Type, p.HasNode, p.HasPool, p.Killed, p.ShutDown, p.SPKilled, p.Pools)
		}
	}
}
