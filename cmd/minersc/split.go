package main

import (
	"fmt"
	"math"
	"math/big"

	"0chain.net/core/config"
	"0chain.net/smartcontract/minersc"
	"github.com/0chain/common/core/currency"
	"github.com/0chain/common/core/logging"
	"go.uber.org/zap"
	"verif/lib/ev"
)

func init() { checks["C22:split"] = c22split }

// c22split: the pure split helper of the fee payment over the complete product of a fee range
// with boundary values and a share-ratio alphabet; miner part + sharder part == amount, exactly.
func c22split(run *ev.Run) {
	logging.Logger = zap.NewNop()
	hi := run.Pick(20000, 2000000)
	ratios := []float64{0, 1e-9, 0.1, 0.16, 0.25, 0.3, 1.0 / 3, 0.5, 2.0 / 3, 0.7, 0.9, 0.99, 1 - 1e-9, 1}
	var amounts []uint64
	for a := uint64(0); a <= uint64(hi); a++ {
		amounts = append(amounts, a)
	}
	for _, b := range []uint64{1e10, 1e10 + 1, 1 << 31, 1<<32 + 1, 1<<53 - 1, 1 << 53, 1<<53 + 1, uint64(config.MaxTokenSupply), uint64(config.MaxTokenSupply) + 1, 1<<62 + 1, math.MaxInt64, math.MaxInt64 + 1, math.MaxUint64} {
		for d := uint64(0); d < 3; d++ {
			amounts = append(amounts, b-d)
		}
	}
	run.Rule = "complete product of amounts 0..N plus boundary values (2^31, 2^32, 2^53, token supply, 2^62, 2^63, 2^64-1, each with -0/-1/-2) and 14 share ratios through the real GlobalNode.splitByShareRatio; oracle in big integers: no error => miner + sharders == amount and miner <= amount"
	run.Bounds["amounts"] = len(amounts)
	run.Bounds["ratios"] = len(ratios)
	errs := 0
	for _, r := range ratios {
		gn := &minersc.GlobalNode{ShareRatio: r}
		for _, a := range amounts {
			m, s, err := gn.VerifMinerscSplitByShareRatio(currency.Coin(a))
			run.Add(0, 0, 1)
			if err != nil {
				errs++
				run.Outcome("error")
				continue
			}
			sum := new(big.Int).Add(new(big.Int).SetUint64(uint64(m)), new(big.Int).SetUint64(uint64(s)))
			switch {
			case m == 0:
				run.Outcome("all-to-sharders")
			case s == 0:
				run.Outcome("all-to-miner")
			default:
				run.Outcome("both")
			}
			if sum.Cmp(new(big.Int).SetUint64(a)) != 0 || uint64(m) > a {
				run.Violation("C22:splitByShareRatio:parts-do-not-add-up", fmt.Sprintf("amount %d ratio %v: miner %d + sharders %d = %s", a, r, uint64(m), uint64(s), sum), map[string]any{"amount": a, "ratio": r})
			}
		}
	}
	run.States = int64(len(amounts) * len(ratios))
	run.Extra["errors_returned"] = errs
	run.Sample(map[string]any{"amount": 7, "ratio": 0.3})
}
