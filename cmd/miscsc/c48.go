package main

import (
	"crypto/sha256"
	"encoding/hex"
	"encoding/json"
	"fmt"
	"sort"
	"strings"

	"0chain.net/chaincore/transaction"
	cconfig "0chain.net/core/config"
	"0chain.net/smartcontract/faucetsc"
	"0chain.net/smartcontract/minersc"
	"0chain.net/smartcontract/storagesc"
	"0chain.net/smartcontract/vestingsc"
	"0chain.net/smartcontract/zcnsc"
	"verif/lib/chainsim"
	"verif/lib/ev"
	"verif/lib/vmap"
	"verif/lib/world"
)

func init() { checks["C48"] = c48 }

// entry of a settings map with the class the statement cares about.
type sEntry struct {
	Class, Key, Value string
}

const (
	clValid    = "valid"
	clValid2   = "valid2"
	clValid3   = "valid-respelled-key" // the same setting as valid2 under another spelling of its key (storagesc trims blanks)
	clImmut    = "immutable"
	clUnknown  = "unknown"
	clUnparse  = "unparsable"
	clInvalid  = "fails-validation"
	clInvalid2 = "jointly-inconsistent"
)

// govFunc is one governance function with its entry alphabet.
type govFunc struct {
	SC, Fn  string
	Entries []sEntry
}

var govFuncs = map[string][]govFunc{
	"minersc": {
		{"minersc", "update_globals", []sEntry{
			{clValid, "server_chain.block.max_block_cost", "10001"},
			{clValid2, "server_chain.block.min_block_size", "2"},
			{clImmut, "server_chain.transaction.timeout", "30"},
			{clUnknown, "nosuch.key", "1"},
			{clUnparse, "server_chain.block.replicators", "abc"},
		}},
		{"minersc", "update_settings", []sEntry{
			{clValid, "max_delegates", "100"},
			{clValid2, "reward_rate", "0.5"},
			{clUnknown, "nosuch", "1"},
			{clUnparse, "max_s", "abc"},
			{clInvalid, "min_n", "0"},
			{clInvalid2, "max_n", "1"}, // docker.local min_n is 3: max_n < min_n
			{clInvalid2, "min_s", "3"}, // docker.local max_s is 2 (and max_n 7): max_s < min_s <= max_n
		}},
	},
	"storagesc": {
		{"storagesc", "update_settings", []sEntry{
			{clValid, "validator_reward", "0.03"},
			{clValid2, "max_delegates", "150"},
			{clUnknown, "nosuch", "1"},
			{clUnparse, "blobber_slash", "abc"},
			{clInvalid, "cancellation_charge", "2"},
			{clInvalid2, "max_write_price", "0.000001"}, // below min_write_price
			{clValid3, " max_delegates", "151"},
		}},
	},
	"faucetsc": {
		{"faucetsc", "update-settings", []sEntry{
			{clValid, "pour_amount", "2"},
			{clValid2, "individual_reset", "4h"},
			{clUnknown, "nosuch", "1"},
			{clUnparse, "periodic_limit", "abc"},
			{clInvalid, "max_pour_amount", "0.5"}, // below pour_amount
			{clInvalid2, "global_rest", "1h"},     // below individual_reset
		}},
	},
	"vestingsc": {
		{"vestingsc", "vestingsc-update-settings", []sEntry{
			{clValid, "max_destinations", "5"},
			{clValid2, "min_lock", "0.02"},
			{clUnknown, "nosuch", "1"},
			{clUnparse, "min_duration", "abc"},
			{clInvalid, "max_description_length", "0"},
			{clInvalid2, "max_duration", "1m"}, // below min_duration 2m
		}},
	},
	"zcnsc": {
		{"zcnsc", "update-global-config", []sEntry{
			{clValid, "min_stake", "1"}, // docker.local min_stake 0 does not pass the contract's Validate, so a valid update must raise it
			{clValid2, "min_mint", "2"},
			{clUnknown, "nosuch", "1"},
			{clUnparse, "min_burn", "abc"},
			{clInvalid, "max_delegates", "0"},
			{clInvalid2, "health_check_period", "0s"},
		}},
	},
}

type govCase struct {
	F       govFunc
	Caller  string
	Entries []sEntry
}

var govCases = map[string]*govCase{} // action name -> case

func classList(es []sEntry) string {
	var cs []string
	for _, e := range es {
		cs = append(cs, e.Class)
	}
	sort.Strings(cs)
	return strings.Join(cs, "+")
}

func govAction(w *world.World, f govFunc, caller string, es []sEntry) chainsim.Action {
	fields := map[string]string{}
	for _, e := range es {
		fields[e.Key] = e.Value
	}
	a := call(w, caller, f.SC, f.Fn, map[string]any{"fields": fields}, 0, 0, "{"+classList(es)+"}")
	govCases[a.Name] = &govCase{f, caller, es}
	return a
}

// subsets of size 1..max of the entries.
func subsets(es []sEntry, max int) [][]sEntry {
	var out [][]sEntry
	n := len(es)
	for m := 1; m < 1<<uint(n); m++ {
		var s []sEntry
		for i := 0; i < n; i++ {
			if m>>uint(i)&1 == 1 {
				s = append(s, es[i])
			}
		}
		if len(s) <= max {
			out = append(out, s)
		}
	}
	sort.SliceStable(out, func(i, j int) bool { return len(out[i]) < len(out[j]) })
	return out
}

// settings nodes of every contract: plaintext key -> (contract, validator of the stored bytes).
type setNode struct {
	SC, Name, Key string
	Validate      func(b []byte) error
}

func settingsNodes() []setNode {
	zg := &zcnsc.GlobalNode{ID: zcnsc.ADDRESS}
	return []setNode{
		{"minersc", "settings", minersc.GlobalNodeKey, func(b []byte) error {
			gn := &minersc.GlobalNode{}
			if _, err := gn.UnmarshalMsg(b); err != nil {
				return err
			}
			if err := gn.VerifMiscValidate(); err != nil {
				return err
			}
			return refMinerSettings(gn)
		}},
		{"minersc", "globals", minersc.GLOBALS_KEY, nil}, // judged field by field in the monitor (changed fields must be known and parse)
		{"storagesc", "config", storagesc.VerifMiscConfigKey(), func(b []byte) error {
			c := &storagesc.Config{}
			if _, err := c.UnmarshalMsg(b); err != nil {
				return err
			}
			return c.VerifMiscValidate()
		}},
		{"storagesc", "staged-changes", storagesc.VerifMiscSettingChangesKey(), nil},
		{"faucetsc", "config", faucetsc.VerifMiscGlobalKey(), func(b []byte) error {
			gn := &faucetsc.GlobalNode{}
			if _, err := gn.UnmarshalMsg(b); err != nil {
				return err
			}
			return gn.VerifMiscValidate()
		}},
		{"vestingsc", "config", vestingsc.VerifMiscConfigKey(), vestingsc.VerifMiscValidateConfig},
		{"zcnsc", "config", zg.GetKey(), func(b []byte) error {
			gn := &zcnsc.GlobalNode{}
			if _, err := gn.UnmarshalMsg(b); err != nil {
				return err
			}
			return gn.Validate()
		}},
	}
}

// refMinerSettings is the reference reading of the documented bounds of the miner contract's settings (sc.yaml:
// min_n >= 1, min_n <= max_n, min_s >= 1, min_s <= max_s, max_delegates > 0), written here independently so that a
// slip inside the contract's own validate() (which the oracle above also calls) cannot hide itself.
func refMinerSettings(gn *minersc.GlobalNode) error {
	switch {
	case gn.MinN < 1:
		return fmt.Errorf("reference: min_n %d < 1", gn.MinN)
	case gn.MaxN < gn.MinN:
		return fmt.Errorf("reference: max_n %d < min_n %d", gn.MaxN, gn.MinN)
	case gn.MinS < 1:
		return fmt.Errorf("reference: min_s %d < 1", gn.MinS)
	case gn.MaxS < gn.MinS:
		return fmt.Errorf("reference: max_s %d < min_s %d", gn.MaxS, gn.MinS)
	case gn.MaxDelegates <= 0:
		return fmt.Errorf("reference: max_delegates %d <= 0", gn.MaxDelegates)
	}
	return nil
}

// ownerOf reads the configured owner of a contract from a state.
func ownerOf(ls []world.Leaf, sc string) string {
	switch sc {
	case "minersc":
		gn := &minersc.GlobalNode{}
		if _, err := gn.UnmarshalMsg(leafByKey(ls, minersc.GlobalNodeKey)); err != nil {
			ev.Fatal("minersc global node: %v", err)
		}
		return gn.OwnerId
	case "storagesc":
		c := &storagesc.Config{}
		if _, err := c.UnmarshalMsg(leafByKey(ls, storagesc.VerifMiscConfigKey())); err != nil {
			ev.Fatal("storagesc config: %v", err)
		}
		return c.OwnerId
	case "faucetsc":
		return faucetGlobal(ls).OwnerId
	case "vestingsc":
		o, err := vestingsc.VerifMiscConfigOwner(leafByKey(ls, vestingsc.VerifMiscConfigKey()))
		if err != nil {
			ev.Fatal("vestingsc config: %v", err)
		}
		return o
	case "zcnsc":
		return zcnGlobal(ls).OwnerId
	}
	return ""
}

var govFns = map[string]map[string]bool{
	"minersc":   {"update_globals": true, "update_settings": true},
	"storagesc": {"update_settings": true, "commit_settings_changes": true},
	"faucetsc":  {"update-settings": true},
	"vestingsc": {"vestingsc-update-settings": true},
	"zcnsc":     {"update-global-config": true},
}

// govMonitor (C48).
func govMonitor(s *chainsim.Step, v func(key, what string)) {
	nodes := settingsNodes()
	fn := s.Txn.FunctionName
	target := ""
	for n, a := range world.SCAddresses {
		if a == s.Txn.ToClientID {
			target = n
		}
	}
	site := target + "." + fn
	gc := govCases[s.Action.Name]
	accepted := s.Err == nil && s.Txn.Status == transaction.TxnSuccess
	anyChanged := false
	for _, n := range nodes {
		pre, post := leafByKey(s.Pre.Leaves, n.Key), leafByKey(s.Post.Leaves, n.Key)
		if string(pre) == string(post) {
			continue
		}
		anyChanged = true
		if !accepted {
			// D: a rejected change leaves every settings node as it was
			v(fmt.Sprintf("C48:%s:rejected-change-modified-%s-%s", site, n.SC, n.Name), fmt.Sprintf("settings node %s/%s changed although the transaction was not accepted (err=%v status=%d)", n.SC, n.Name, s.Err, s.Txn.Status))
			continue
		}
		// A: only the contract's own settings functions, called by the configured owner
		if n.SC != target || !govFns[n.SC][fn] {
			v(fmt.Sprintf("C48:%s:modified-%s-%s-outside-its-settings-functions", site, n.SC, n.Name), "settings node changed by a transaction that is not a settings update of that contract")
			continue
		}
		owner := ownerOf(s.Pre.Leaves, n.SC)
		commit := n.SC == "storagesc" && fn == "commit_settings_changes" && n.Name == "config"
		if s.Txn.ClientID != owner && !commit {
			v(fmt.Sprintf("C48:%s:%s-%s-changed-by-non-owner", site, n.SC, n.Name), fmt.Sprintf("caller %.8s is not the configured owner %.8s", s.Txn.ClientID, owner))
		}
		if commit {
			// the committed content must have been staged (by an owner transaction, checked above when it was staged)
			if len(leafByKey(s.Pre.Leaves, storagesc.VerifMiscSettingChangesKey())) == 0 {
				v("C48:storagesc.commit_settings_changes:config-changed-without-staged-changes", "storage config changed by a commit with nothing staged")
			}
			s.Tag("storagesc-commit-applied-staged-changes")
		}
		// C: the new value passes the contract's own validation (judged when the update turns a valid node into an invalid one)
		if n.Validate != nil && (len(pre) == 0 || n.Validate(pre) == nil) {
			if err := n.Validate(post); err != nil {
				var bad []string
				if gc != nil {
					for _, e := range gc.Entries {
						if e.Class == clInvalid || e.Class == clInvalid2 {
							bad = append(bad, e.Class)
						}
					}
				}
				sort.Strings(bad)
				v(fmt.Sprintf("C48:%s:stored-%s-%s-fails-validation:{%s}", site, n.SC, n.Name, strings.Join(bad, "+")), fmt.Sprintf("the settings node written by an accepted update does not pass the contract's own validate: %v", err))
			}
		} else if n.Validate != nil {
			s.Tag("update-of-already-invalid-" + n.SC + "-" + n.Name)
		}
		// minersc globals: exactly the named keys change, version +1
		if n.Name == "globals" && gc != nil {
			a, b := &minersc.GlobalSettings{}, &minersc.GlobalSettings{}
			_, _ = a.UnmarshalMsg(pre)
			_, _ = b.UnmarshalMsg(post)
			want := map[string]string{}
			for k, x := range a.Fields {
				want[k] = x
			}
			for _, e := range gc.Entries {
				want[e.Key] = e.Value
			}
			if len(pre) > 0 && fmt.Sprint(want) != fmt.Sprint(b.Fields) {
				v("C48:minersc.update_globals:stored-globals-differ-from-requested-change", "stored global fields are not (previous fields + requested entries)")
			}
			for k, val := range b.Fields {
				if old, had := a.Fields[k]; had && old == val {
					continue
				}
				info, ok := cconfig.GlobalSettingInfo[k]
				switch {
				case !ok:
					v("C48:minersc.update_globals:stored-unknown-global", fmt.Sprintf("unknown global setting %q stored", k))
				case !info.Mutable:
					v("C48:minersc.update_globals:stored-immutable-global", fmt.Sprintf("immutable global setting %q changed to %q", k, val))
				default:
					if _, err := cconfig.StringToInterface(val, info.SettingType); err != nil {
						v("C48:minersc.update_globals:stored-unparsable-global", fmt.Sprintf("stored global %s=%q does not parse: %v", k, val, err))
					}
				}
			}
		}
	}
	if gc == nil {
		return
	}
	// B: an accepted update carries only known, mutable, parsable, valid entries
	if accepted && anyChanged {
		for _, e := range gc.Entries {
			switch e.Class {
			case clImmut, clUnknown, clUnparse:
				v(fmt.Sprintf("C48:%s:accepted-%s-entry", site, e.Class), fmt.Sprintf("update containing %s entry %s=%q was accepted and changed settings", e.Class, e.Key, e.Value))
			}
		}
	}
	res := "rejected"
	if accepted {
		res = "accepted-nochange"
		if anyChanged {
			res = "accepted-changed"
		}
	}
	who := "other"
	if s.Txn.ClientID == ownerOf(s.Pre.Leaves, gc.F.SC) {
		who = "owner"
	}
	kind := "all-entries-valid"
	for _, e := range gc.Entries {
		if e.Class != clValid && e.Class != clValid2 && e.Class != clValid3 {
			kind = "with-bad-entry"
		}
	}
	s.Tag(fmt.Sprintf("gov:%s:%s:%s:%s", site, who, kind, res))
}

func leavesHash(ls []world.Leaf) string {
	h := sha256.New()
	for _, l := range ls {
		h.Write([]byte(l.Path))
		h.Write([]byte{0})
		if world.Tap.IsAccount(l.Path) {
			if st, ok := chainsim.DecodeAccount(l.Value); ok {
				fmt.Fprintf(h, "%d:%d", st.Balance, st.Nonce)
				continue
			}
		}
		h.Write(l.Value)
	}
	return hex.EncodeToString(h.Sum(nil)[:8])
}

// orderCheck executes every owner update with >= 2 bad entries once per map iteration order the
// maporder seam can produce (all n! permutations for n <= 3 keys) on fresh blocks over genesis and
// compares status, output and resulting state: the outcome of a governance transaction (and hence
// the settings in force) must not depend on the order in which a node happens to visit the map.
// The seam rewrites every `for k, v := range <settings map>` of the current (or mutated) source;
// where the code sorts its keys nothing is rewritten and all orders coincide trivially.
func orderCheck(run *ev.Run, w *world.World, acts []chainsim.Action) {
	g := w.GenesisNode()
	root := &chainsim.SNode{N: g, Leaves: world.Leaves(g.State), Path: []string{"genesis"}}
	cases, execs := 0, 0
	calls0 := vmap.Calls
	defer func() { vmap.Choice = 0 }()
	for i := range acts {
		a := &acts[i]
		gc := govCases[a.Name]
		if gc == nil {
			continue
		}
		bad := 0
		for _, e := range gc.Entries {
			if e.Class != clValid && e.Class != clValid2 && e.Class != clValid3 {
				bad++
			}
		}
		respelled := strings.Contains(classList(gc.Entries), clValid2) && strings.Contains(classList(gc.Entries), clValid3)
		if (bad < 2 && !respelled) || gc.Caller != "owner" {
			continue
		}
		cases++
		first := ""
		for choice := 0; choice < vmap.NumOrders(len(gc.Entries)); choice++ {
			x := &chainsim.Ctx{W: w, N: root, Now: g.Block.CreationDate + 1, Rnd: 1}
			spec := a.Build(x)
			spec.Time = x.Now
			w.Chain.SetupStateCache()
			nd := w.Open(g, 1, x.Now, w.Miners[0], 1001, fmt.Sprintf("order/%s/%d", a.Name, choice))
			t := w.Txn(*spec)
			vmap.Choice = choice
			_, err := w.Exec(nd, t)
			vmap.Choice = 0
			w.CloseBlock(nd)
			execs++
			got := fmt.Sprintf("err=%v status=%d output=%s state=%s", err, t.Status, t.TransactionOutput, leavesHash(world.Leaves(nd.State)))
			if choice == 0 {
				first = got
			} else if got != first {
				kind := "rejection-output"
				if strings.SplitN(got, "state=", 2)[1] != strings.SplitN(first, "state=", 2)[1] {
					kind = "resulting-state"
				}
				run.Violation(fmt.Sprintf("C48:%s.%s:%s-depends-on-map-iteration-order", gc.F.SC, gc.F.Fn, kind),
					fmt.Sprintf("update {%s} executed on the same state under key order 0 and %d: [%s] vs [%s]", classList(gc.Entries), choice, first, got),
					map[string]any{"path": []string{"genesis", a.Name}, "map_order_choice": choice})
				break
			}
		}
	}
	run.Extra["map_order_cases"] = cases
	run.Extra["map_order_executions"] = execs
	run.Extra["map_order_seam_calls"] = vmap.Calls - calls0
	run.Add(0, int64(execs), int64(execs))
}

func c48(run *ev.Run) {
	which := "faucetsc"
	if a := argsAfterTier(); len(a) > 0 {
		which = a[0]
	}
	if which == "globals" {
		c48globals(run)
		return
	}
	fs, ok := govFuncs[which]
	if !ok {
		ev.Fatal("unknown contract %s", which)
	}
	w := world.New(world.Options{})
	var acts []chainsim.Action
	for _, f := range fs {
		for _, es := range subsets(f.Entries, 3) {
			acts = append(acts, govAction(w, f, "owner", es))
		}
		// a non-owner (and, for storagesc/minersc, a provider-less stranger is the same thing): a few maps suffice, the owner check comes first
		for _, es := range [][]sEntry{{f.Entries[0]}, {f.Entries[0], f.Entries[1]}, {f.Entries[0], f.Entries[2]}} {
			acts = append(acts, govAction(w, f, "c0", es))
		}
		acts = append(acts, govAction(w, f, "m0", []sEntry{f.Entries[0]})) // a miner (provider) is not the owner either
	}
	var roots [][]chainsim.Action
	if which == "storagesc" {
		acts = append(acts,
			call(w, "owner", "storagesc", "commit_settings_changes", nil, 0, 0, ""),
			call(w, "c0", "storagesc", "commit_settings_changes", nil, 0, 0, ""))
		// second start state: after the 'demeter' hard fork update_settings also writes the config node directly
		roots = [][]chainsim.Action{{}, {call(w, "owner", "minersc", "add_hardfork", map[string]any{"fields": map[string]string{"demeter": "1"}}, 0, 0, "{demeter@1}")}}
	}
	if os_Getenv("VERIF_SHARD") == "" {
		orderCheck(run, w, acts)
	}
	run.Rule = "per contract: BFS over all sequences up to the depth bound of settings updates by {owner, client, miner} carrying EVERY map of <= 3 entries from {valid, second valid, immutable/unknown, unparsable, failing validation, jointly inconsistent} (+ commit_settings_changes by owner/stranger and a post-'demeter' start state for storagesc); oracle on the settings nodes of ALL contracts: change => accepted settings function of that contract, caller == owner recorded in the pre-state (storage commit: applies staged owner changes), no immutable/unknown/unparsable entry, stored node passes the contract's own validate; not accepted => every settings node byte-identical; plus: every owner update with >= 2 bad entries is executed under every map iteration order offered by the maporder seam (all n! orders for n <= 3) on the same state and must give identical status, output and state"
	_ = json.Marshal
	explore(run, w, acts, roots, run.Pick(2, 4), true, 50, 780, govMonitor)
}
