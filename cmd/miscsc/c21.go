package main

import (
	"encoding/hex"
	"encoding/json"
	"fmt"
	"sort"
	"strings"

	"0chain.net/chaincore/state"
	"0chain.net/chaincore/transaction"
	"0chain.net/core/common"
	"0chain.net/core/encryption"
	"0chain.net/smartcontract/multisigsc"
	"github.com/0chain/common/core/currency"
	"github.com/herumi/bls-go-binary/bls"
	"verif/lib/chainsim"
	"verif/lib/ev"
	"verif/lib/world"
)

func init() { checks["C21"] = c21 }

func detSecret(name string) bls.SecretKey {
	seed := encryption.RawHash("verif-miscsc-key:" + name)
	seed[31] &= 0x0f
	var sk bls.SecretKey
	if err := sk.SetLittleEndian(seed); err != nil {
		panic(err)
	}
	return sk
}

func actorFromSecret(name string, sk *bls.SecretKey) *world.Actor {
	pub := sk.GetPublicKey().SerializeToHexStr()
	s := encryption.NewBLS0ChainScheme()
	if err := s.ReadKeys(strings.NewReader(pub + "\n" + hex.EncodeToString(sk.GetLittleEndian()) + "\n")); err != nil {
		panic(err)
	}
	pb, _ := hex.DecodeString(pub)
	return &world.Actor{Name: name, ID: encryption.Hash(pb), PublicKey: pub, Scheme: s}
}

// msWallet is a multisig wallet of the scenario: the owner's key pair and its n signers.
type msWallet struct {
	Name    string
	Owner   *world.Actor
	T       int
	Signers []*world.Actor
	IDs     []string // threshold ids (hex)
	Shares  bool     // signer keys are Shamir shares of the owner's key (false: unrelated keys)
}

// newWallet builds deterministic signer keys: Shamir shares of the owner's secret key over a fixed
// polynomial (what BLS0GenerateThresholdKeyShares does with a random polynomial), or unrelated keys.
func newWallet(name string, ownerSecret bls.SecretKey, owner *world.Actor, t, n int, shares bool) *msWallet {
	mw := &msWallet{Name: name, Owner: owner, T: t, Shares: shares}
	msk := []bls.SecretKey{ownerSecret}
	for j := 1; j < t; j++ {
		msk = append(msk, detSecret(fmt.Sprintf("%s:coef%d", name, j)))
	}
	for i := 1; i <= n; i++ {
		var id bls.ID
		if err := id.SetDecString(fmt.Sprint(i)); err != nil {
			panic(err)
		}
		var sk bls.SecretKey
		if shares {
			if err := sk.Set(msk, &id); err != nil {
				panic(err)
			}
		} else {
			sk = detSecret(fmt.Sprintf("%s:unrelated%d", name, i))
		}
		mw.Signers = append(mw.Signers, actorFromSecret(fmt.Sprintf("%s.s%d", name, i), &sk))
		mw.IDs = append(mw.IDs, id.GetHexString())
	}
	return mw
}

func (mw *msWallet) registerInput() any {
	w := multisigsc.Wallet{ClientID: mw.Owner.ID, SignatureScheme: "bls0chain", PublicKey: mw.Owner.PublicKey, NumRequired: mw.T}
	for i, s := range mw.Signers {
		w.SignerThresholdIDs = append(w.SignerThresholdIDs, mw.IDs[i])
		w.SignerPublicKeys = append(w.SignerPublicKeys, s.PublicKey)
	}
	return w
}

func signTransfer(tr state.Transfer, by *world.Actor) string {
	st := state.SignedTransfer{Transfer: tr, SchemeName: "bls0chain", PublicKey: by.PublicKey}
	if err := st.Sign(by.Scheme); err != nil {
		panic(err)
	}
	return st.Sig
}

// voteAction: sender casts a vote on proposal pid for transfer tr with a signature made by sigBy.
func voteAction(w *world.World, mw *msWallet, pid string, to string, amount currency.Coin, sender, sigBy *world.Actor, tag string) chainsim.Action {
	tr := state.Transfer{ClientID: mw.Owner.ID, ToClientID: w.Actors[to].ID, Amount: amount}
	sig := signTransfer(tr, sigBy)
	if strings.Contains(tag, "garbage-sig") {
		sig = sig[:len(sig)-2] + "00"
	}
	if strings.Contains(tag, "upper-case-sig") {
		sig = strings.ToUpper(sig) // another spelling of the same signature (Verify accepts it)
	}
	v := multisigsc.Vote{ProposalID: pid, Transfer: tr, Signature: sig}
	name := fmt.Sprintf("vote(%s,%s,%s->%s:%d)%s", sender.Name, pid, mw.Name, to, amount, tag)
	always := strings.Contains(tag, "also-when-unregistered")
	return chainsim.Action{Name: name, Build: func(x *chainsim.Ctx) *world.TxnSpec {
		if !always && leafByKey(x.N.Leaves, multisigsc.Address+mw.Owner.ID) == nil {
			return nil // wallet not registered in this state
		}
		return &world.TxnSpec{From: sender, To: multisigsc.Address, Type: transaction.TxnTypeSmartContract, Nonce: x.Nonce(sender) + 1,
			Data: world.SC(multisigsc.VoteFuncName, v)}
	}}
}

type propInst struct {
	T        state.Transfer
	Created  common.Timestamp
	Voters   map[string]bool
	Executed bool
}

func (p *propInst) clone() *propInst {
	q := *p
	q.Voters = map[string]bool{}
	for k := range p.Voters {
		q.Voters[k] = true
	}
	return &q
}

type msHist map[string]*propInst // wallet id + "/" + proposal id

func (h msHist) clone() msHist {
	o := msHist{}
	for k, p := range h {
		o[k] = p.clone()
	}
	return o
}

// multisigMonitor (C21): reference model of vote counting kept along the explored path, built only
// from the votes themselves (the monitor verifies every vote signature itself).
func multisigMonitor(wallets []*msWallet) chainsim.Monitor {
	byOwner := map[string]*msWallet{}
	for _, mw := range wallets {
		byOwner[mw.Owner.ID] = mw
	}
	hist := map[*chainsim.SNode]msHist{}
	pg := &purger{}
	return func(s *chainsim.Step, v func(key, what string)) {
		purgeOld(pg, hist, s.Pre)
		h := hist[s.Pre]
		if h == nil {
			h = msHist{}
		}
		defer func() {
			if s.Err == nil {
				hist[s.Post] = h
			}
		}()
		// signed transfers that take effect in this transition
		_, sts := effectiveTransfers(s)
		if s.Err != nil {
			sts = nil
		}
		isVote := s.Txn.ToClientID == multisigsc.Address && s.Txn.FunctionName == multisigsc.VoteFuncName
		if !isVote {
			if len(sts) > 0 {
				v("C21:signed-transfer-outside-a-vote", fmt.Sprintf("%d signed transfers queued by %s", len(sts), s.Txn.FunctionName))
			}
			return
		}
		var vote multisigsc.Vote
		if err := json.Unmarshal(scInput(s.Txn), &vote); err != nil {
			return
		}
		now := s.Txn.CreationDate
		mw := byOwner[vote.Transfer.ClientID]
		registered := mw != nil && leafByKey(s.Pre.Leaves, multisigsc.Address+vote.Transfer.ClientID) != nil
		key := vote.Transfer.ClientID + "/" + vote.ProposalID
		inst := h[key]
		expiredInst := false
		if inst != nil && now >= inst.Created+multisigsc.ExpirationTime {
			inst = nil // expired: a later vote starts a new proposal
			expiredInst = true
			s.Tag("vote-after-expiry")
		}
		// is this a countable vote?
		var signer *world.Actor
		if registered {
			for _, a := range mw.Signers {
				if a.ID == s.Txn.ClientID {
					signer = a
				}
			}
		}
		why := ""
		switch {
		case !registered:
			why = "wallet-not-registered"
		case signer == nil:
			why = "sender-not-a-signer"
		case vote.Transfer.Amount == 0:
			why = "zero-amount"
		default:
			st := state.SignedTransfer{Transfer: vote.Transfer, SchemeName: "bls0chain", PublicKey: signer.PublicKey, Sig: vote.Signature}
			if st.VerifySignature(false) != nil {
				why = "bad-signature"
			} else if inst != nil && inst.T != vote.Transfer {
				why = "incompatible-with-proposal"
			}
		}
		expectExec := false
		mustAccept, kth := false, 0
		hBefore := h
		if why == "" && s.Err == nil {
			h = h.clone()
			if inst == nil {
				inst = &propInst{T: vote.Transfer, Created: now, Voters: map[string]bool{}}
			} else {
				inst = inst.clone()
			}
			h[key] = inst
			switch {
			case inst.Executed:
				why = "already-executed"
			case inst.Voters[signer.ID]:
				why = "repeated-vote"
			default:
				// a fully valid vote: registered signer's first vote, compatible, validly signed (verified above),
				// proposal neither expired nor executed. It is CAST whether or not the contract accepts it.
				inst.Voters[signer.ID] = true
				kth = len(inst.Voters)
				// the contract must accept it, unless the signer keys are not shares of the wallet key (such a wallet
				// can never produce a valid wallet signature) or the vote revives an expired proposal id (reading:
				// the contract may refuse that until the expired proposal has been garbage-collected)
				mustAccept = mw.Shares && !expiredInst
				if kth >= mw.T {
					expectExec = true
					inst.Executed = true
					why = "threshold-reached"
				} else {
					why = "counted"
				}
			}
		}
		class := why + ":" + outcomeOf(s)
		s.Tag("vote:" + class)
		if s.Err == nil && s.Txn.Status != transaction.TxnSuccess {
			if mustAccept {
				v(fmt.Sprintf("C21:vote:valid-vote-rejected:vote-%d-of-%d", kth, mw.T), fmt.Sprintf("vote %d of the %d required on proposal %q of wallet %.8s is by a registered signer, its first, compatible, validly signed and before expiry, but the contract refuses it: %.160s", kth, mw.T, vote.ProposalID, vote.Transfer.ClientID, s.Txn.TransactionOutput))
				// the vote stays cast in the reference (h keeps it)
			} else {
				h = hBefore // a failed call is reverted: the vote is not recorded
			}
		}
		if s.Err != nil {
			if len(s.Diff) > 0 {
				v("C21:rejected-vote-changed-state", fmt.Sprintf("%d leaves changed by a rejected transaction", len(s.Diff)))
			}
			return
		}
		wname := "?"
		if mw != nil {
			wname = fmt.Sprintf("%d-of-%d", mw.T, len(mw.Signers))
			if !mw.Shares {
				wname += ":signers-not-shares-of-wallet-key"
			}
		}
		switch {
		case len(sts) > 1:
			v("C21:vote:more-than-one-transfer-executed:"+why, fmt.Sprintf("%d signed transfers queued by one vote", len(sts)))
		case len(sts) == 1 && !expectExec:
			v("C21:vote:transfer-executed-without-enough-distinct-valid-votes:"+why, fmt.Sprintf("a transfer of %d from the wallet was executed by a vote classified %q (wallet %s)", uint64(sts[0].Amount), why, wname))
		case len(sts) == 0 && expectExec && !mw.Shares:
			// signer keys that are not shares of the wallet key can never produce a valid wallet signature
			s.Tag("threshold-reached-but-not-executed:signers-not-shares-of-wallet-key")
		case len(sts) == 0 && expectExec:
			v("C21:vote:transfer-not-executed-at-threshold", fmt.Sprintf("%d distinct valid votes have been cast (%d required) and the transfer was not executed (status %d, output %.100s)", kth, mw.T, s.Txn.Status, s.Txn.TransactionOutput))
		}
		if expectExec && len(sts) == 0 && inst != nil && h[key] == inst {
			inst.Executed = false // nothing was executed: the next valid vote must execute it
		}
		for _, st := range sts {
			if st.Transfer != vote.Transfer || (inst != nil && st.Transfer != inst.T) {
				v("C21:vote:executed-transfer-differs-from-proposal", fmt.Sprintf("executed %+v, voted %+v", st.Transfer, vote.Transfer))
			}
			if err := st.VerifySignature(true); err != nil {
				v("C21:vote:executed-transfer-without-valid-wallet-signature:"+wname, fmt.Sprintf("the signed transfer of %d from wallet %.8s executed by this vote does not verify under the wallet key: %v", uint64(st.Amount), st.ClientID, err))
			} else {
				s.Tag("executed-with-valid-threshold-signature:" + wname)
			}
			// the wallet is debited exactly once by exactly the amount
			pre, post := accounts(s.Pre.Leaves), accounts(s.Post.Leaves)
			if lost := int64(pre[st.ClientID].Bal) - int64(post[st.ClientID].Bal); lost != int64(st.Amount) && st.ClientID != s.Txn.ClientID {
				v("C21:vote:wallet-debit-differs-from-proposal-amount", fmt.Sprintf("wallet lost %d, proposal amount %d", lost, uint64(st.Amount)))
			}
		}
	}
}

func multisigScenario(run *ev.Run) (*scenario, []*msWallet) {
	// keys first (the signers are funded at genesis)
	c0s, c1s, c2s := worldSecret("c0"), worldSecret("c1"), worldSecret("c2")
	wA := newWallet("A", c0s, world.DetKey("c0"), 2, 3, true)
	wB := newWallet("B", c1s, world.DetKey("c1"), 3, 3, true)
	wC := newWallet("C", c2s, world.DetKey("c2"), 2, 2, false)
	wallets := []*msWallet{wA, wB, wC}
	fund := map[string]currency.Coin{}
	for _, mw := range wallets {
		for _, a := range mw.Signers {
			fund[a.ID] = 1e6
		}
	}
	sc := &scenario{}
	sc.w = world.New(world.Options{ExtraFund: fund})
	w := sc.w
	for _, mw := range wallets {
		if mw.Owner.ID != w.Actors[mw.Owner.Name].ID {
			ev.Fatal("wallet owner key mismatch")
		}
		mw.Owner = w.Actors[mw.Owner.Name]
		for _, a := range mw.Signers {
			w.Actors[a.Name] = a
			w.ByID[a.ID] = a
		}
	}
	reg := func(mw *msWallet) chainsim.Action {
		return call(w, mw.Owner.Name, "multisigsc", multisigsc.RegisterFuncName, mw.registerInput(), 0, 0, fmt.Sprintf("[%s:%d-of-%d]", mw.Name, mw.T, len(mw.Signers)))
	}
	sc.roots = [][]chainsim.Action{{reg(wA)}, {reg(wB)}, {reg(wC)}}
	s := func(mw *msWallet, i int) *world.Actor { return mw.Signers[i-1] }
	bal := currency.Coin(1e13)
	sc.acts = []chainsim.Action{
		// wallet A (2 of 3)
		voteAction(w, wA, "P1", "c1", 5, s(wA, 1), s(wA, 1), ""),
		voteAction(w, wA, "P1", "c1", 5, s(wA, 2), s(wA, 2), ""),
		voteAction(w, wA, "P1", "c1", 5, s(wA, 3), s(wA, 3), ""),
		voteAction(w, wA, "P1", "c1", 6, s(wA, 2), s(wA, 2), "[incompatible-amount]"),
		voteAction(w, wA, "P1", "c2", 5, s(wA, 3), s(wA, 3), "[incompatible-recipient]"),
		voteAction(w, wA, "P1", "c1", 5, w.Actors["c1"], w.Actors["c1"], "[non-signer]"),
		voteAction(w, wA, "P1", "c1", 5, s(wA, 1), s(wA, 2), "[signature-of-other-signer]"),
		voteAction(w, wA, "P1", "c1", 5, s(wA, 2), s(wA, 2), "[garbage-sig]"),
		voteAction(w, wA, "P1", "c1", 5, s(wA, 1), s(wA, 1), "[upper-case-sig]"),
		voteAction(w, wA, "P1", "c1", 5, w.Actors["c0"], w.Actors["c0"], "[wallet-owner-itself]"),
		voteAction(w, wA, "P2", "c2", bal+1, s(wA, 1), s(wA, 1), "[above-balance]"),
		voteAction(w, wA, "P2", "c2", bal+1, s(wA, 2), s(wA, 2), "[above-balance]"),
		withDt(voteAction(w, wA, "P1", "c1", 5, s(wA, 3), s(wA, 3), ""), multisigsc.ExpirationTime),
		withDt(voteAction(w, wA, "P1", "c1", 5, s(wA, 2), s(wA, 2), ""), multisigsc.ExpirationTime-1),
		reg(wA),
		// wallet B (3 of 3)
		voteAction(w, wB, "P1", "c0", 7, s(wB, 1), s(wB, 1), "[also-when-unregistered]"),
		voteAction(w, wB, "P1", "c0", 7, s(wB, 2), s(wB, 2), ""),
		voteAction(w, wB, "P1", "c0", 7, s(wB, 3), s(wB, 3), ""),
		voteAction(w, wB, "P1", "c0", 7, s(wA, 1), s(wA, 1), "[signer-of-other-wallet]"),
		// wallet C (2 of 2, signer keys unrelated to the wallet key)
		voteAction(w, wC, "P1", "c0", 9, s(wC, 1), s(wC, 1), ""),
		voteAction(w, wC, "P1", "c0", 9, s(wC, 2), s(wC, 2), ""),
	}
	if !run.Thorough() {
		// quick tier: leave out three variants that the thorough tier keeps
		var keep []chainsim.Action
		for _, a := range sc.acts {
			if strings.Contains(a.Name, "[incompatible-recipient]") || strings.Contains(a.Name, "[wallet-owner-itself]") || strings.HasPrefix(a.Name, "multisigsc.register") {
				continue
			}
			keep = append(keep, a)
		}
		sc.acts = keep
	}
	sc.dq, sc.dt = 4, 4
	sc.rule = "BFS from three registered wallets (2-of-3 and 3-of-3 with signer keys that are Shamir shares of the wallet key; 2-of-2 with unrelated signer keys) over votes {valid by each signer, repeated, incompatible amount / recipient, by a non-signer, by the wallet owner, by a signer of another wallet, carrying another signer's signature, garbage signature, above the wallet balance, one second before and exactly at expiry (7 days)} and re-registration; reference model of distinct valid compatible unexpired votes kept along the path (the monitor verifies every vote signature itself); oracle per transition: a signed transfer is queued iff this is the t-th distinct valid vote of an unexecuted unexpired proposal, exactly one, equal to the proposal, debiting the wallet by exactly the amount, and its signature verifies under the wallet's public key"
	return sc, wallets
}

// worldSecret recomputes the secret key world.DetKey derives for a client name.
func worldSecret(name string) bls.SecretKey {
	seed := encryption.RawHash("verif-key:" + name)
	seed[31] &= 0x0f
	var sk bls.SecretKey
	if err := sk.SetLittleEndian(seed); err != nil {
		panic(err)
	}
	return sk
}

func c21(run *ev.Run) {
	sc, wallets := multisigScenario(run)
	run.Rule = sc.rule
	var names []string
	for _, mw := range wallets {
		names = append(names, fmt.Sprintf("%s:%d-of-%d", mw.Name, mw.T, len(mw.Signers)))
	}
	sort.Strings(names)
	run.Bounds["wallets"] = names
	explore(run, sc.w, sc.acts, sc.roots, run.Pick(sc.dq, sc.dt), false, 50, 780, multisigMonitor(wallets))
}
