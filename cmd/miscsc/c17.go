package main

import (
	"fmt"
	"time"

	"0chain.net/chaincore/transaction"
	"0chain.net/core/common"
	"0chain.net/smartcontract/faucetsc"
	"github.com/0chain/common/core/currency"
	"verif/lib/chainsim"
	"verif/lib/ev"
	"verif/lib/world"
)

func init() { checks["C17"] = c17 }

type pourRec struct {
	Client string
	At     time.Time
	Amount uint64
}

func faucetGlobal(ls []world.Leaf) *faucetsc.GlobalNode {
	gn := &faucetsc.GlobalNode{}
	b := leafByKey(ls, faucetsc.VerifMiscGlobalKey())
	if b == nil {
		ev.Fatal("faucet global node absent")
	}
	if _, err := gn.UnmarshalMsg(b); err != nil {
		ev.Fatal("faucet global node: %v", err)
	}
	return gn
}

func faucetUser(ls []world.Leaf, id string) *faucetsc.UserNode {
	un := &faucetsc.UserNode{ID: id}
	b := leafByKey(ls, un.GetKey(faucetsc.ADDRESS))
	if b == nil {
		return nil
	}
	if _, err := un.UnmarshalMsg(b); err != nil {
		ev.Fatal("faucet user node: %v", err)
	}
	return un
}

// faucetMonitor (C17). The monitor keeps its own record of every pour along the explored path
// (client, time, tokens actually moved out of the faucet wallet) and never trusts the contract's
// Used counters. Reading of "reset window": the window the contract itself reports (start_time of
// the user node / of the global node, lasting one reset period); the monitor requires that a
// window is never restarted before a full reset period has passed, and that the tokens actually
// poured since the window's start never exceed the configured limit.
func faucetMonitor() chainsim.Monitor {
	hist := map[*chainsim.SNode][]pourRec{}
	pg := &purger{}
	return func(s *chainsim.Step, v func(key, what string)) {
		purgeOld(pg, hist, s.Pre)
		h := hist[s.Pre]
		defer func() {
			if s.Err == nil {
				hist[s.Post] = h
			}
		}()
		if s.Txn.ToClientID != faucetsc.ADDRESS {
			return
		}
		if s.Err != nil {
			if len(s.Diff) > 0 {
				v("C17:rejected-txn-changed-state", fmt.Sprintf("%d leaves changed by a rejected transaction", len(s.Diff)))
			}
			return
		}
		gn0, gn1 := faucetGlobal(s.Pre.Leaves), faucetGlobal(s.Post.Leaves)
		if err := gn0.VerifMiscValidate(); err != nil {
			ev.Fatal("scenario uses an invalid faucet configuration: %v", err)
		}
		now := common.ToTime(s.Txn.CreationDate)
		preA, postA := accounts(s.Pre.Leaves), accounts(s.Post.Leaves)
		out := int64(preA[faucetsc.ADDRESS].Bal) - int64(postA[faucetsc.ADDRESS].Bal) // tokens that left the faucet wallet
		fn := s.Txn.FunctionName
		// the global window may restart only after a full global reset period
		if !gn1.StartTime.Equal(gn0.StartTime) && now.Sub(gn0.StartTime) < gn0.GlobalReset {
			v("C17:global-window-restarted-early:"+fn, fmt.Sprintf("global window start moved %v -> %v at %v, reset period %v", gn0.StartTime.Unix(), gn1.StartTime.Unix(), now.Unix(), gn0.GlobalReset))
		}
		if out <= 0 {
			return
		}
		// tokens left the faucet
		if fn != "pour" || s.Txn.Status != transaction.TxnSuccess {
			v("C17:faucet-paid-outside-successful-pour:"+fn, fmt.Sprintf("faucet wallet lost %d in %s (status %d)", out, fn, s.Txn.Status))
			return
		}
		client := s.Txn.ClientID
		got := int64(postA[client].Bal) - int64(preA[client].Bal) + int64(s.Txn.Fee)
		if got != out {
			v("C17:poured-tokens-not-received-by-caller", fmt.Sprintf("faucet lost %d, caller gained %d (+fee)", out, got))
		}
		if uint64(out) > preA[faucetsc.ADDRESS].Bal {
			v("C17:pour-exceeds-faucet-balance", fmt.Sprintf("poured %d with faucet balance %d", out, preA[faucetsc.ADDRESS].Bal))
		}
		h = append(append([]pourRec{}, h...), pourRec{client, now, uint64(out)})
		valueClass := "value=0"
		switch {
		case s.Txn.Value == 0:
		case s.Txn.Value < gn0.PourAmount:
			valueClass = "value<pour_amount"
		case s.Txn.Value == gn0.PourAmount:
			valueClass = "value=pour_amount"
		case s.Txn.Value < gn0.MaxPourAmount:
			valueClass = "pour_amount<value<max_pour_amount"
		default:
			valueClass = "value>=max_pour_amount"
		}
		s.Tag("pour-ok:" + valueClass)
		// per-client window
		un0, un1 := faucetUser(s.Pre.Leaves, client), faucetUser(s.Post.Leaves, client)
		if un1 == nil {
			v("C17:no-user-window-recorded", "successful pour left no user node")
			return
		}
		if un0 != nil && !un1.StartTime.Equal(un0.StartTime) && now.Sub(un0.StartTime) < gn0.IndividualReset {
			v("C17:client-window-restarted-early", fmt.Sprintf("client window start moved %v -> %v at %v, reset period %v", un0.StartTime.Unix(), un1.StartTime.Unix(), now.Unix(), gn0.IndividualReset))
		}
		var cSum, gSum uint64
		for _, r := range h {
			if r.Client == client && !r.At.Before(un1.StartTime) {
				cSum += r.Amount
			}
			if !r.At.Before(gn1.StartTime) {
				gSum += r.Amount
			}
		}
		if cSum != uint64(un1.Used) || gSum != uint64(gn1.Used) {
			s.Tag("used-counter-differs-from-poured-sum")
		}
		if cSum > uint64(gn0.PeriodicLimit) {
			v("C17:client-window-total-exceeds-periodic-limit:"+valueClass,
				fmt.Sprintf("client %s received %d tokens in the window starting %v (now %v, reset %v), periodic limit %d; this pour moved %d (txn value %d, pour_amount %d, max_pour_amount %d)",
					client[:8], cSum, un1.StartTime.Unix(), now.Unix(), gn0.IndividualReset, uint64(gn0.PeriodicLimit), out, uint64(s.Txn.Value), uint64(gn0.PourAmount), uint64(gn0.MaxPourAmount)))
		}
		if gSum > uint64(gn0.GlobalLimit) {
			v("C17:global-window-total-exceeds-global-limit:"+valueClass,
				fmt.Sprintf("%d tokens poured to all clients in the window starting %v (now %v, reset %v), global limit %d; this pour moved %d (txn value %d, pour_amount %d)",
					gSum, gn1.StartTime.Unix(), now.Unix(), gn0.GlobalReset, uint64(gn0.GlobalLimit), out, uint64(s.Txn.Value), uint64(gn0.PourAmount)))
		}
	}
}

type scenario struct {
	w          *world.World
	acts       []chainsim.Action
	roots      [][]chainsim.Action
	dq, dt     int
	ignoreTime bool
	rule       string
}

func units(u uint64) float64 { return float64(u) / 1e10 }

func faucetScenario(run *ev.Run, drain bool) *scenario {
	sc := &scenario{}
	if !drain {
		// tiny limits: pour_amount 2, max_pour_amount 5, periodic limit 7, global limit 11 (raw units)
		sc.w = world.New(world.Options{SC: map[string]any{
			"smart_contracts.faucetsc.pour_amount": units(2), "smart_contracts.faucetsc.max_pour_amount": units(5),
			"smart_contracts.faucetsc.periodic_limit": units(7), "smart_contracts.faucetsc.global_limit": units(11),
			"smart_contracts.faucetsc.individual_reset": "3s", "smart_contracts.faucetsc.global_reset": "6s"}})
		w := sc.w
		for _, c := range []string{"c0", "c1"} {
			for _, val := range []currency.Coin{0, 1, 2, 3, 4, 5, 6} {
				if c == "c1" && (val == 1 || val == 3 || val == 6) {
					continue
				}
				if !run.Thorough() && (c == "c1" && (val == 2 || val == 5) || val == 6) {
					continue // quick tier: fewer colliding values for the second client
				}
				sc.acts = append(sc.acts, call(w, c, "faucetsc", "pour", nil, val, 0, fmt.Sprintf("[v=%d]", val)))
			}
		}
		sc.acts = append(sc.acts,
			withDt(call(w, "c0", "faucetsc", "pour", nil, 4, 0, "[v=4]"), 2),
			withDt(call(w, "c0", "faucetsc", "pour", nil, 4, 0, "[v=4]"), 3),
			withDt(call(w, "c1", "faucetsc", "pour", nil, 0, 0, "[v=0]"), 3),
			withDt(call(w, "c0", "faucetsc", "pour", nil, 4, 0, "[v=4]"), 6),
			call(w, "c0", "faucetsc", "pour", nil, 4, 3, "[v=4,fee=3]"),
			call(w, "c2", "faucetsc", "refill", nil, 3, 0, "[v=3]"),
		)
		if run.Thorough() {
			sc.acts = append(sc.acts, withDt(call(w, "c2", "faucetsc", "refill", nil, 3, 0, "[v=3]"), 5))
		}
		sc.dq, sc.dt = 4, 4
		sc.rule = "BFS over all sequences of faucet pours/refills (2 clients, requested values 0..max_pour_amount+1, time steps 1/2/3/5/6 s across the 3 s individual and 6 s global reset, tiny limits 2/5/7/11) up to the depth bound; oracle per successful pour: tokens actually poured since the start of the reported client window <= periodic limit, since the start of the reported global window <= global limit, windows never restarted before a full reset period, pour <= faucet balance, only successful pours take tokens out of the faucet"
		return sc
	}
	// drain configuration: the faucet wallet (2e16 at genesis) can be emptied by one large pour
	sc.w = world.New(world.Options{SC: map[string]any{
		"smart_contracts.faucetsc.pour_amount": units(1e15), "smart_contracts.faucetsc.max_pour_amount": units(3e16),
		"smart_contracts.faucetsc.periodic_limit": units(1e17), "smart_contracts.faucetsc.global_limit": units(1e18),
		"smart_contracts.faucetsc.individual_reset": "3s", "smart_contracts.faucetsc.global_reset": "6s"}})
	w := sc.w
	for _, c := range []string{"c0", "c1"} {
		for _, val := range []currency.Coin{0, 19e15, 2e16, 2e16 + 1, 5e15} {
			sc.acts = append(sc.acts, call(w, c, "faucetsc", "pour", nil, val, 0, fmt.Sprintf("[v=%d]", uint64(val))))
		}
	}
	sc.acts = append(sc.acts, call(w, "c0", "faucetsc", "refill", nil, 1e12, 0, "[v=1e12]"),
		call(w, "c0", "faucetsc", "refill", nil, 1e15, 0, "[v=1e15]"))
	sc.dq, sc.dt = 3, 5
	sc.rule = "BFS over pours that straddle the faucet wallet balance (requested 0 / 1.9e16 / 2e16 / 2e16+1 / 5e15 against a wallet of 2e16, refills of 1e12 and 1e15); same oracle, aimed at 'a pour never exceeds the faucet's balance'"
	return sc
}

func c17(run *ev.Run) {
	drain := len(argsAfterTier()) > 0 && argsAfterTier()[0] == "drain"
	sc := faucetScenario(run, drain)
	run.Rule = sc.rule
	explore(run, sc.w, sc.acts, sc.roots, run.Pick(sc.dq, sc.dt), sc.ignoreTime, 50, 780, faucetMonitor())
}
