// Checks on the smaller contracts (faucet, bridge, vesting, multisig, governance settings) driven
// through the real chain (engine E1, lib/chainsim).
package main

import (
	"fmt"
	"os"

	"verif/lib/ev"
)

var checks = map[string]func(run *ev.Run){}

func main() {
	if len(os.Args) < 2 {
		fmt.Println("usage: miscsc <PropId> [quick|thorough]")
		os.Exit(2)
	}
	f, ok := checks[os.Args[1]]
	if !ok {
		ev.Fatal("unknown property %s", os.Args[1])
	}
	run := ev.Start(os.Args[1])
	f(run)
	if os.Getenv("VERIF_SHARD") == "" {
		run.Finish()
	}
}
