package main

import (
	"fmt"
	"math"
	"reflect"
	"sort"
	"strconv"
	"strings"
	"time"

	"0chain.net/chaincore/chain"
	"0chain.net/chaincore/transaction"
	cconfig "0chain.net/core/config"
	"0chain.net/core/viper"
	"0chain.net/smartcontract/minersc"
	"github.com/0chain/common/core/currency"
	"verif/lib/chainsim"
	"verif/lib/ev"
	"verif/lib/world"
)

// Part "globals" of C48: every global setting name x a value alphabet of type boundaries is sent as an
// owner update_globals transaction on the real chain; what an accepted update stores is then loaded
// into the real chain.ConfigImpl.Update (the consumer Chain.updateConfig calls) on two simulated nodes
// whose LOCAL configuration (viper) differs for every key. Nothing here looks at GlobalSettingInfo to
// decide what a value should be: the expected representation comes from the Go type of the ConfigData
// field the consumer writes (found by probing the consumer), and the node-independence oracle needs no
// type at all.

// boundary values per consumer type (all of them are tried for EVERY key)
var globalValues = []string{
	// integers around the int32 / int64 limits
	"0", "1", "7", "-1", "2147483647", "2147483648", "-2147483648", "-2147483649", "4294967296",
	"9223372036854775807", "9223372036854775808", "-9223372036854775808", "-9223372036854775809",
	"007", "+7", "7.0", "1e3", "0x10", " 7", "",
	// durations
	"7s", "1.5h", "7", "-7s", "9223372036854775807ns", "9223372036854775808ns", "2562047h47m16.854775807s", "2562047h47m16.854775808s", "7S", "1d",
	// floats
	"0.5", "-0.5", "1e308", "1e309", "NaN", "Inf", "-Inf", "0.00000000001", "1e-400", ".5",
	// booleans spelled oddly
	"true", "false", "TRUE", "True", "tRuE", "t", "F", "1", "yes", "on",
	// strings
	"static", "dynamic", "bls0chain", "ed25519", "all_miners", "generator", "a,b",
}

func dedupStrings(in []string) []string {
	seen := map[string]bool{}
	var out []string
	for _, s := range in {
		if !seen[s] {
			seen[s] = true
			out = append(out, s)
		}
	}
	return out
}

// cfgView renders every exported field of a ConfigData as field name -> printed value.
func cfgView(cd *chain.ConfigData) map[string]string {
	out := map[string]string{}
	v := reflect.ValueOf(cd).Elem()
	t := v.Type()
	for i := 0; i < t.NumField(); i++ {
		if t.Field(i).PkgPath != "" {
			continue // unexported (version)
		}
		out[t.Field(i).Name] = fmt.Sprintf("%#v", v.Field(i).Interface())
	}
	return out
}

// inForce loads stored global fields into a FRESH consumer (real chain.ConfigImpl.Update).
func inForce(fields map[string]string) (map[string]string, *chain.ConfigData, error) {
	cd := &chain.ConfigData{}
	cp := map[string]string{}
	for k, v := range fields {
		cp[k] = v
	}
	err := func() (err error) {
		defer func() {
			if r := recover(); r != nil {
				err = fmt.Errorf("PANIC: %v", r)
			}
		}()
		return chain.NewConfigImpl(cd).Update(cp, 1)
	}()
	return cfgView(cd), cd, err
}

// localProfile sets every global setting name in the node-local configuration to profile value n
// (100 / 200; booleans true / false) and returns a restore function.
func localProfile(kinds map[string]reflect.Kind, n int) func() {
	old := map[string]interface{}{}
	for _, k := range cconfig.GlobalSettingName {
		if k == "" {
			continue
		}
		old[k] = viper.Get(k)
		switch kinds[k] {
		case reflect.Bool:
			viper.Set(k, n == 100)
		default:
			viper.Set(k, strconv.Itoa(n))
		}
	}
	return func() {
		for k, v := range old {
			viper.Set(k, v)
		}
	}
}

// probeConsumer finds, for every setting name, which ConfigData field(s) the consumer derives from it
// (by feeding the consumer field maps that differ in that key only) and the Go kind of that field.
func probeConsumer() (fieldsOf map[string][]string, kindOf map[string]reflect.Kind, typeOf map[string]string) {
	fieldsOf, kindOf, typeOf = map[string][]string{}, map[string]reflect.Kind{}, map[string]string{}
	restore := localProfile(nil, 100)
	defer restore()
	cdT := reflect.TypeOf(chain.ConfigData{})
	probes := [][2]string{{"3", "5"}, {"3s", "5s"}, {"true", "false"}, {"0.25", "0.75"}, {"static", "dynamic"}, {"all_miners", "generator"}, {"x", "y"}, {"a,b", "c"}}
	for _, k := range cconfig.GlobalSettingName {
		if k == "" {
			continue
		}
		found := map[string]bool{}
		for _, p := range probes {
			a, _, _ := inForce(map[string]string{k: p[0]})
			b, _, _ := inForce(map[string]string{k: p[1]})
			for f := range a {
				if a[f] != b[f] {
					found[f] = true
				}
			}
		}
		for f := range found {
			fieldsOf[k] = append(fieldsOf[k], f)
		}
		sort.Strings(fieldsOf[k])
		if len(fieldsOf[k]) > 0 {
			sf, _ := cdT.FieldByName(fieldsOf[k][0])
			kindOf[k] = sf.Type.Kind()
			typeOf[k] = sf.Type.String()
		}
	}
	return
}

// representable: does the stored string have a value of the consumer field's Go type, and which?
func representable(v string, typ string, kind reflect.Kind) (string, bool) {
	switch {
	case typ == "time.Duration":
		d, err := time.ParseDuration(v)
		return fmt.Sprintf("%#v", d), err == nil
	case typ == "currency.Coin":
		f, err := strconv.ParseFloat(v, 64)
		if err != nil {
			return "", false
		}
		c, err := currency.ParseZCN(f)
		return fmt.Sprintf("%#v", c), err == nil
	case kind == reflect.Int32:
		x, err := strconv.ParseInt(v, 10, 32)
		return fmt.Sprintf("%#v", int32(x)), err == nil
	case kind == reflect.Int64:
		x, err := strconv.ParseInt(v, 10, 64)
		return fmt.Sprintf("%#v", x), err == nil
	case kind == reflect.Int:
		x, err := strconv.ParseInt(v, 10, 64)
		return fmt.Sprintf("%#v", int(x)), err == nil
	case kind == reflect.Float64:
		x, err := strconv.ParseFloat(v, 64)
		_ = math.NaN
		return fmt.Sprintf("%#v", x), err == nil
	case kind == reflect.Bool:
		x, err := strconv.ParseBool(v)
		return fmt.Sprintf("%#v", x), err == nil
	case kind == reflect.String:
		return fmt.Sprintf("%#v", v), true
	}
	return "", false // mapped fields (wait mode, tickets-to, exempt list): only the node-independence oracle applies
}

type globCase struct {
	Key, Value string
	Accepted   bool
	Pre, Post  map[string]string
}

func c48globals(run *ev.Run) {
	w := world.New(world.Options{})
	g := w.GenesisNode()
	rootLeaves := world.Leaves(g.State)
	root := &chainsim.SNode{N: g, Leaves: rootLeaves, Path: []string{"genesis"}}
	fieldsOf, kindOf, typeOf := probeConsumer()
	values := dedupStrings(globalValues)
	var keys []string
	for _, k := range cconfig.GlobalSettingName {
		if k != "" {
			keys = append(keys, k)
		}
	}
	sort.Strings(keys)
	keys = append(keys, "nosuch.key")
	if !run.Thorough() {
		// quick tier: every key the consumer reads + every mutable-looking key; values all
		_ = keys
	}
	nodes := settingsNodes()
	globalsOf := func(ls []world.Leaf) map[string]string {
		gs := &minersc.GlobalSettings{}
		if b := leafByKey(ls, minersc.GLOBALS_KEY); b != nil {
			if _, err := gs.UnmarshalMsg(b); err != nil {
				ev.Fatal("globals node: %v", err)
			}
		}
		return gs.Fields
	}
	pre := globalsOf(rootLeaves)
	var accepted []globCase
	outcomes := map[string]int{}
	for _, k := range keys {
		for _, v := range values {
			a := call(w, "owner", "minersc", "update_globals", map[string]any{"fields": map[string]string{k: v}}, 0, 0, "")
			x := &chainsim.Ctx{W: w, N: root, Now: g.Block.CreationDate + 1, Rnd: 1}
			spec := a.Build(x)
			spec.Time = x.Now
			w.Chain.SetupStateCache()
			nd := w.Open(g, 1, x.Now, w.Miners[0], 1001, "globals/"+k+"/"+v)
			t := w.Txn(*spec)
			_, err := w.Exec(nd, t)
			w.CloseBlock(nd)
			run.Add(0, 1, 1)
			post := world.Leaves(nd.State)
			ok := err == nil && t.Status == transaction.TxnSuccess
			replay := map[string]any{"path": []string{"genesis", fmt.Sprintf("minersc.update_globals(owner){%s=%q}", k, v)}}
			if !ok {
				outcomes["rejected"]++
				for _, n := range nodes {
					if string(leafByKey(rootLeaves, n.Key)) != string(leafByKey(post, n.Key)) {
						run.Violation("C48:minersc.update_globals:rejected-change-modified-"+n.SC+"-"+n.Name, fmt.Sprintf("update_globals{%s=%q} was rejected (err=%v, %s) but settings node %s/%s changed", k, v, err, t.TransactionOutput, n.SC, n.Name), replay)
					}
				}
				continue
			}
			outcomes["accepted"]++
			run.Outcome("accepted:" + k + ":" + typeOf[k])
			accepted = append(accepted, globCase{k, v, true, pre, globalsOf(post)})
			if len(run.Samples) < 4 {
				run.Sample(replay["path"])
			}
		}
	}
	// end-to-end: what is in force on two nodes with different local configuration
	type two struct{ a, b map[string]string }
	load := func(fields map[string]string) (two, error, error) {
		r1 := localProfile(kindOf, 100)
		va, _, ea := inForce(fields)
		r1()
		r2 := localProfile(kindOf, 200)
		vb, _, eb := inForce(fields)
		r2()
		return two{va, vb}, ea, eb
	}
	base, e0a, e0b := load(pre)
	genesisLocal := []string{}
	for f := range base.a {
		if base.a[f] != base.b[f] {
			genesisLocal = append(genesisLocal, f)
		}
	}
	sort.Strings(genesisLocal)
	fieldKeys := map[string][]string{}
	for k, fs := range fieldsOf {
		for _, f := range fs {
			fieldKeys[f] = append(fieldKeys[f], k)
		}
	}
	consumerFailures := map[string][]string{}
	defer func() { run.Extra["accepted_values_the_consumer_fails_on"] = consumerFailures }()
	for _, gc := range accepted {
		replay := map[string]any{"path": []string{"genesis", fmt.Sprintf("minersc.update_globals(owner){%s=%q}", gc.Key, gc.Value)}, "then": "load the stored globals node into chain.ConfigImpl.Update on two nodes whose local (viper) values are 100 resp. 200 (booleans true resp. false) for every setting"}
		if gc.Post[gc.Key] != gc.Value {
			run.Violation("C48:minersc.update_globals:stored-value-differs-from-requested:"+gc.Key, fmt.Sprintf("requested %q, stored %q", gc.Value, gc.Post[gc.Key]), replay)
		}
		after, ea, eb := load(gc.Post)
		run.Add(0, 0, 2)
		if (ea != nil || eb != nil) && e0a == nil && e0b == nil {
			consumerFailures[gc.Key] = append(consumerFailures[gc.Key], fmt.Sprintf("%q: %v", gc.Value, ea))
			kind := "fail"
			if ea != nil && strings.HasPrefix(ea.Error(), "PANIC") {
				kind = "panic"
			}
			run.Violation("C48:minersc.update_globals:accepted-value-makes-chain-config-update-"+kind+":"+gc.Key,
				fmt.Sprintf("update_globals{%s=%q} is accepted and stored, but chain.ConfigImpl.Update on the stored settings returns an error (node A: %v, node B: %v): the settings read after it never come into force", gc.Key, gc.Value, ea, eb), replay)
			continue
		}
		// (1) no field may become node-dependent
		var local []string
		for f := range after.a {
			own := false // the field the consumer derives from the updated setting must be node-independent whatever it was before
			for _, of := range fieldsOf[gc.Key] {
				own = own || of == f
			}
			if after.a[f] != after.b[f] && (base.a[f] == base.b[f] || own) {
				local = append(local, fmt.Sprintf("%s: node A %s, node B %s", f, after.a[f], after.b[f]))
			}
		}
		sort.Strings(local)
		if len(local) > 0 {
			run.Violation("C48:minersc.update_globals:value-in-force-is-node-local-fallback:"+gc.Key,
				fmt.Sprintf("update_globals{%s=%q} is accepted and stored, but the consumer (field type %s) does not take the stored value: the value in force is each node's own local configuration [%s]", gc.Key, gc.Value, typeOf[gc.Key], strings.Join(local, "; ")), replay)
			continue
		}
		// (2) the value in force is the stored one, in the consumer's own type
		for _, f := range fieldsOf[gc.Key] {
			if len(fieldKeys[f]) != 1 || len(fieldsOf[gc.Key]) != 1 {
				continue
			}
			want, ok := representable(gc.Value, typeOf[gc.Key], kindOf[gc.Key])
			switch {
			case f == "BlockProposalWaitMode" || f == "VerificationTicketsTo" || f == "TxnExempt":
				// fields the consumer derives from a string by a mapping: only the node-independence oracle applies
			case f == "MaxTxnFee" && want == "0x0", f == "SmartContractTimeout" && want == "0":
				// documented defaults replace a zero value
			case !ok:
				run.Violation("C48:minersc.update_globals:stored-value-not-representable-by-consumer:"+gc.Key,
					fmt.Sprintf("update_globals{%s=%q} is accepted, but %q has no value of the consumer's type %s (field %s; in force: %s)", gc.Key, gc.Value, gc.Value, typeOf[gc.Key], f, after.a[f]), replay)
			case after.a[f] != want || after.b[f] != want:
				run.Violation("C48:minersc.update_globals:value-in-force-differs-from-stored:"+gc.Key,
					fmt.Sprintf("update_globals{%s=%q}: field %s in force is %s (node A) / %s (node B), stored value as %s is %s", gc.Key, gc.Value, f, after.a[f], after.b[f], typeOf[gc.Key], want), replay)
			default:
				run.Outcome("in-force-equals-stored:" + gc.Key)
			}
		}
	}
	consumer := map[string]string{}
	for k, fs := range fieldsOf {
		consumer[k] = strings.Join(fs, ",") + " " + typeOf[k]
	}
	run.Extra["consumer_fields_by_setting"] = consumer
	run.Extra["transition_outcomes"] = outcomes
	run.Extra["fields_node_local_already_at_genesis"] = genesisLocal
	run.Bounds["settings"] = len(keys)
	run.Bounds["values_per_setting"] = len(values)
	run.Bounds["values"] = values
	run.States = int64(len(accepted))
	run.Rule = "every global setting name (+ an unknown one) x every value of a boundary alphabet (int32/int64 limits and their neighbours, odd integer spellings, durations incl. the int64 nanosecond limit, floats incl. NaN/Inf/overflow/underflow, booleans in 10 spellings, strings) as an owner update_globals transaction on the genesis state of the real chain; rejected => every settings node byte-identical; accepted => stored == requested, and the stored node loaded into the real chain.ConfigImpl.Update on two nodes whose local configuration differs for every setting must (1) not fail, (2) leave no field node-dependent that was not so before, (3) put the stored value, converted to the Go type of the ConfigData field the consumer writes (found by probing the consumer), in force on both nodes"
	run.Assumptions = []string{"the two nodes are simulated in one process by setting every global setting name in viper to 100 resp. 200 (booleans true resp. false) around the call of chain.ConfigImpl.Update and restoring it afterwards",
		"the consumer's field and type per setting are found by probing chain.ConfigImpl.Update (fields whose value follows the setting), not read from core/config.GlobalSettingInfo", "one update per block over genesis; cold state cache"}
}
