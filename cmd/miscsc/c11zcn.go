package main

import (
	"encoding/json"
	"fmt"

	"0chain.net/chaincore/transaction"
	"0chain.net/smartcontract/minersc"
	"0chain.net/smartcontract/stakepool"
	"0chain.net/smartcontract/stakepool/spenum"
	"0chain.net/smartcontract/zcnsc"
	"github.com/0chain/common/core/currency"
	"verif/lib/chainsim"
	"verif/lib/ev"
	"verif/lib/world"
)

func init() { checks["C11"] = c11zcn }

// authorizerDelegate reads the delegate pool of client id in the stake pool of authorizer a the way the
// bridge contract itself reads it (its own StakePool type and generated decoder).
func authorizerDelegate(ls []world.Leaf, a, id string) (uint64, bool) {
	b := leafByKey(ls, stakepool.StakePoolKey(spenum.Authorizer, a))
	if b == nil {
		return 0, false
	}
	sp := zcnsc.NewStakePool()
	if _, err := sp.UnmarshalMsg(b); err != nil {
		ev.Fatal("authorizer stake pool: %v", err)
	}
	d, ok := sp.Pools[id]
	if !ok {
		return 0, false
	}
	return uint64(d.Balance), true
}

// stakeMonitor (C11, authorizer stake pools of the bridge contract). The monitor keeps its own ledger of
// who locked how much on which authorizer along the path.
func stakeMonitor() chainsim.Monitor {
	ledger := map[*chainsim.SNode]map[string]uint64{} // "authorizer/client" -> locked tokens
	pg := &purger{}
	return func(s *chainsim.Step, v func(key, what string)) {
		purgeOld(pg, ledger, s.Pre)
		h := ledger[s.Pre]
		defer func() {
			if s.Err == nil {
				ledger[s.Post] = h
			}
		}()
		fn := s.Txn.FunctionName
		if s.Txn.ToClientID != zcnsc.ADDRESS || (fn != zcnsc.AddToDelegatePoolFunc && fn != zcnsc.DeleteFromDelegatePoolFunc) {
			return
		}
		if s.Err != nil {
			if len(s.Diff) > 0 {
				v("C11:zcnsc:rejected-txn-changed-state", fmt.Sprintf("%d leaves changed by a rejected transaction", len(s.Diff)))
			}
			return
		}
		var req struct {
			ProviderID string `json:"provider_id"`
		}
		_ = json.Unmarshal(scInput(s.Txn), &req)
		c := s.Txn.ClientID
		key := req.ProviderID + "/" + c
		preA, postA := accounts(s.Pre.Leaves), accounts(s.Post.Leaves)
		dClient := int64(postA[c].Bal) - int64(preA[c].Bal) + int64(s.Txn.Fee)
		dWallet := int64(postA[zcnsc.ADDRESS].Bal) - int64(preA[zcnsc.ADDRESS].Bal)
		ok := s.Txn.Status == transaction.TxnSuccess
		set := func(k string, x uint64) {
			n := map[string]uint64{}
			for kk, vv := range h {
				n[kk] = vv
			}
			if x == 0 {
				delete(n, k)
			} else {
				n[k] = x
			}
			h = n
		}
		switch fn {
		case zcnsc.AddToDelegatePoolFunc:
			if !ok {
				if dClient != 0 || dWallet != 0 {
					v("C11:zcnsc:add-to-delegate-pool:failed-lock-moved-tokens", fmt.Sprintf("client %+d, wallet %+d", dClient, dWallet))
				}
				s.Tag("stake-lock:charged-failure")
				return
			}
			val := uint64(s.Txn.Value)
			if dClient != -int64(val) || dWallet != int64(val) {
				v("C11:zcnsc:add-to-delegate-pool:lock-did-not-move-exactly-the-value", fmt.Sprintf("value %d, staker %+d, contract wallet %+d", val, dClient, dWallet))
			}
			want := h[key] + val
			got, found := authorizerDelegate(s.Post.Leaves, req.ProviderID, c)
			if !found || got != want {
				v("C11:zcnsc:add-to-delegate-pool:locked-stake-not-in-stakers-delegate-pool", fmt.Sprintf("lock of %d by %.8s on authorizer %.8s succeeded (staker -%d, contract wallet +%d), but the authorizer's stake pool read back with the contract's own StakePool type holds %d for the staker (found=%v), expected %d", val, c, req.ProviderID, val, val, got, found, want))
			}
			set(key, want)
			s.Tag("stake-lock:ok")
		case zcnsc.DeleteFromDelegatePoolFunc:
			mine := h[key]
			switch {
			case mine == 0:
				if ok && dClient > 0 {
					v("C11:zcnsc:delete-from-delegate-pool:unlocked-without-own-stake", fmt.Sprintf("client %.8s without a stake on %.8s was paid %d", c, req.ProviderID, dClient))
				}
				s.Tag("stake-unlock-without-stake:" + outcomeOf(s))
			case !ok:
				v("C11:zcnsc:delete-from-delegate-pool:staker-cannot-unlock-own-stake", fmt.Sprintf("client %.8s locked %d on authorizer %.8s earlier on this path; its unlock fails: %.160s", c, mine, req.ProviderID, s.Txn.TransactionOutput))
			default:
				if dClient < int64(mine) || -dWallet != dClient {
					v("C11:zcnsc:delete-from-delegate-pool:unlock-did-not-pay-back-the-stake", fmt.Sprintf("stake %d, staker %+d, contract wallet %+d", mine, dClient, dWallet))
				}
				if _, found := authorizerDelegate(s.Post.Leaves, req.ProviderID, c); found {
					v("C11:zcnsc:delete-from-delegate-pool:pool-not-removed", "delegate pool still present after a successful unlock")
				}
				set(key, 0)
				s.Tag("stake-unlock:ok")
			}
		}
		_ = minersc.ADDRESS
	}
}

func c11zcn(run *ev.Run) {
	auth := []*world.Actor{world.DetKey("a0"), world.DetKey("a1")}
	fund := map[string]currency.Coin{}
	for _, a := range auth {
		fund[a.ID] = 1e6
	}
	w := world.New(world.Options{ExtraFund: fund, SC: map[string]any{"stakepool.min_lock_period": "1s", "smart_contracts.zcnsc.min_mint": units(500)}})
	for _, a := range auth {
		w.Actors[a.Name] = a
		w.ByID[a.ID] = a
	}
	var root []chainsim.Action
	for _, n := range []string{"a0", "a1"} {
		a := w.Actors[n]
		root = append(root, call(w, "owner", "zcnsc", zcnsc.AddAuthorizerFunc, map[string]any{"public_key": a.PublicKey, "url": "https://" + n,
			"stake_pool_settings": map[string]any{"delegate_wallet": w.Actors["c2"].ID, "num_delegates": 5, "service_charge": 0.1}}, 0, 0, "["+n+"]"))
	}
	req := func(n string) map[string]any {
		return map[string]any{"provider_type": spenum.Authorizer, "provider_id": w.Actors[n].ID}
	}
	mint := mintAction(w, mintCase{1000, 1, "c0", "c0", []sigEntry{{"a0", "valid"}, {"a1", "valid"}}})
	acts := []chainsim.Action{
		call(w, "c1", "zcnsc", zcnsc.AddToDelegatePoolFunc, req("a0"), 1e10, 0, "[a0,1e10]"),
		call(w, "c2", "zcnsc", zcnsc.AddToDelegatePoolFunc, req("a0"), 2e10, 0, "[a0,2e10]"),
		call(w, "c1", "zcnsc", zcnsc.AddToDelegatePoolFunc, req("a1"), 1e10+1, 0, "[a1,1e10+1]"),
		call(w, "c1", "zcnsc", zcnsc.AddToDelegatePoolFunc, req("a0"), 0, 0, "[a0,0]"),
		call(w, "c1", "zcnsc", zcnsc.DeleteFromDelegatePoolFunc, req("a0"), 0, 0, "[a0]"),
		call(w, "c2", "zcnsc", zcnsc.DeleteFromDelegatePoolFunc, req("a0"), 0, 0, "[a0]"),
		call(w, "c0", "zcnsc", zcnsc.DeleteFromDelegatePoolFunc, req("a0"), 0, 0, "[a0,no-stake]"),
		call(w, "c1", "zcnsc", zcnsc.CollectRewardsFunc, req("a0"), 0, 0, "[a0]"),
		mint,
	}
	run.Rule = "two authorizers registered by the owner; BFS over all sequences of stake lock (two stakers on one authorizer, one on the other, zero value, repeated), unlock by each staker and by a client without stake, reward collection and a valid mint (which credits a fee to a signer's stake pool); the monitor keeps its own ledger of locks along the path; oracle: a successful lock moves exactly the value staker -> bridge wallet and the authorizer's stake pool, read back with the bridge contract's own StakePool type, holds the staker's delegate pool with the accumulated balance; a staker's unlock succeeds, pays back at least the locked balance out of the bridge wallet and removes the pool; a client without stake is paid nothing"
	explore(run, w, acts, [][]chainsim.Action{root}, run.Pick(4, 5), true, 50, 780, stakeMonitor())
}
