package main

import (
	"fmt"
	"math/big"
	"strings"

	"0chain.net/chaincore/transaction"
	"0chain.net/smartcontract/faucetsc"
	"0chain.net/smartcontract/stakepool"
	"0chain.net/smartcontract/stakepool/spenum"
	"0chain.net/smartcontract/vestingsc"
	"0chain.net/smartcontract/zcnsc"
	"verif/lib/chainsim"
	"verif/lib/ev"
	"verif/lib/world"
)

// liabilities returns, per contract, the tokens the contract records as owed in the given state:
// vestingsc = sum of vesting pool balances; zcnsc = authorizer stake pools (delegate balances +
// delegate rewards + unpaid provider reward); faucetsc records no pools (0).
func liabilities(ls []world.Leaf) map[string]*big.Int {
	out := map[string]*big.Int{vestingsc.ADDRESS: new(big.Int), zcnsc.ADDRESS: new(big.Int), faucetsc.ADDRESS: new(big.Int)}
	vp := vestingsc.VerifMiscPoolKeyPrefix()
	sp := stakepool.StakePoolKey(spenum.Authorizer, "")
	add := func(c string, x uint64) { out[c].Add(out[c], new(big.Int).SetUint64(x)) }
	for _, l := range ls {
		k := world.Tap.KeyOf(l.Path)
		switch {
		case strings.HasPrefix(k, vp):
			p, err := vestingsc.VerifMiscDecodePool(l.Value)
			if err != nil {
				ev.Fatal("vesting pool %s: %v", k, err)
			}
			add(vestingsc.ADDRESS, uint64(p.Balance))
		case strings.HasPrefix(k, sp):
			p := zcnsc.NewStakePool()
			if _, err := p.UnmarshalMsg(l.Value); err != nil {
				ev.Fatal("authorizer stake pool %s: %v", k, err)
			}
			add(zcnsc.ADDRESS, uint64(p.Reward))
			for _, d := range p.Pools {
				add(zcnsc.ADDRESS, uint64(d.Balance))
				add(zcnsc.ADDRESS, uint64(d.Reward))
			}
		}
	}
	return out
}

var scName = map[string]string{vestingsc.ADDRESS: "vestingsc", zcnsc.ADDRESS: "zcnsc", faucetsc.ADDRESS: "faucetsc"}

// liabilityMonitor (C09, part misc): delta L(c) <= tokens the transaction moved into c's wallet
// + bridge reward newly accrued (successful mint: at most the configured authorizer fee).
func liabilityMonitor(s *chainsim.Step, v func(key, what string)) {
	pre, post := liabilities(s.Pre.Leaves), liabilities(s.Post.Leaves)
	if s.Err != nil {
		for c := range pre {
			if pre[c].Cmp(post[c]) != 0 {
				v("C09:"+scName[c]+":rejected-txn-changed-liabilities", fmt.Sprintf("L %s -> %s", pre[c], post[c]))
			}
		}
		return
	}
	ts, sts := effectiveTransfers(s)
	for c := range pre {
		in := new(big.Int)
		for _, t := range ts {
			if t.ToClientID == c {
				in.Add(in, new(big.Int).SetUint64(uint64(t.Amount)))
			}
		}
		for _, t := range sts {
			if t.ToClientID == c {
				in.Add(in, new(big.Int).SetUint64(uint64(t.Amount)))
			}
		}
		accrued := new(big.Int)
		if c == zcnsc.ADDRESS && s.Txn.ToClientID == c && s.Txn.FunctionName == zcnsc.MintFunc && s.Txn.Status == transaction.TxnSuccess {
			accrued.SetUint64(uint64(zcnGlobal(s.Pre.Leaves).MaxFee))
		}
		d := new(big.Int).Sub(post[c], pre[c])
		if d.Sign() != 0 {
			s.Tag("liabilities-moved:" + scName[c])
		}
		if d.Cmp(new(big.Int).Add(in, accrued)) > 0 {
			v(fmt.Sprintf("C09:%s:liabilities-grew-unbacked:%s", scName[c], s.Txn.FunctionName),
				fmt.Sprintf("liabilities of %s grew by %s (from %s to %s) while the transaction moved %s into its wallet and accrued at most %s", scName[c], d, pre[c], post[c], in, accrued))
		}
	}
}
