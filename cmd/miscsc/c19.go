package main

import (
	"encoding/json"
	"fmt"
	"sort"
	"strings"

	"0chain.net/chaincore/transaction"
	"0chain.net/smartcontract/minersc"
	"0chain.net/smartcontract/zcnsc"
	"github.com/0chain/common/core/currency"
	"verif/lib/chainsim"
	"verif/lib/ev"
	"verif/lib/world"
)

func init() { checks["C19"] = c19 }

const (
	ethA = "0xAAAAaaaaAAAAaaaaAAAAaaaaAAAAaaaaAAAAaaaa"
	ethB = "0xBBBBbbbbBBBBbbbbBBBBbbbbBBBBbbbbBBBBbbbb"
)

// burnNonces decodes every bridge user node of a state: ethereum address -> burn nonce.
func burnNonces(ls []world.Leaf) map[string]int64 {
	prefix := fmt.Sprintf("%s:%s:", zcnsc.ADDRESS, zcnsc.UserNodeType)
	m := map[string]int64{}
	for _, l := range ls {
		k := world.Tap.KeyOf(l.Path)
		if !strings.HasPrefix(k, prefix) {
			continue
		}
		un := &zcnsc.UserNode{}
		if _, err := un.UnmarshalMsg(l.Value); err != nil {
			ev.Fatal("bridge user node %s does not decode: %v", k, err)
		}
		m[strings.TrimPrefix(k, prefix)] = un.BurnNonce
	}
	return m
}

func zcnGlobal(ls []world.Leaf) *zcnsc.GlobalNode {
	gn := &zcnsc.GlobalNode{ID: zcnsc.ADDRESS}
	b := leafByKey(ls, gn.GetKey())
	if b == nil {
		ev.Fatal("zcnsc global node absent from the state")
	}
	if _, err := gn.UnmarshalMsg(b); err != nil {
		ev.Fatal("zcnsc global node: %v", err)
	}
	return gn
}

// burnMonitor (C19): success => exactly value moves burner -> bridge wallet and the burn nonce of
// the target address rises by exactly one (nothing else of the bridge ledger moves); a burn below
// the minimum or without a target address changes nothing (beyond fee and transaction nonce).
func burnMonitor(s *chainsim.Step, v func(key, what string)) {
	if s.Txn.ToClientID != zcnsc.ADDRESS || s.Txn.FunctionName != zcnsc.BurnFunc {
		return
	}
	if s.Err != nil {
		if len(s.Diff) > 0 {
			v("C19:rejected-burn-changed-state", fmt.Sprintf("%d leaves changed by a rejected transaction", len(s.Diff)))
		}
		return
	}
	var pl struct {
		Addr string `json:"ethereum_address"`
	}
	_ = json.Unmarshal(scInput(s.Txn), &pl)
	gn := zcnGlobal(s.Pre.Leaves)
	value, fee := uint64(s.Txn.Value), uint64(s.Txn.Fee)
	preN, postN := burnNonces(s.Pre.Leaves), burnNonces(s.Post.Leaves)
	preA, postA := accounts(s.Pre.Leaves), accounts(s.Post.Leaves)
	ok := s.Txn.Status == transaction.TxnSuccess
	inputClass := "valid-input"
	switch {
	case s.Txn.Value < gn.MinBurnAmount:
		inputClass = "below-min"
	case pl.Addr == "":
		inputClass = "no-address"
	}
	// nonce ledger
	addrs := map[string]bool{}
	for a := range preN {
		addrs[a] = true
	}
	for a := range postN {
		addrs[a] = true
	}
	var al []string
	for a := range addrs {
		al = append(al, a)
	}
	sort.Strings(al)
	for _, a := range al {
		d := postN[a] - preN[a]
		want := int64(0)
		if ok && inputClass == "valid-input" && a == pl.Addr {
			want = 1
		}
		if d != want {
			who := "other-address"
			if a == pl.Addr {
				who = "target-address"
			}
			v(fmt.Sprintf("C19:burn-nonce-delta:%s:%s:%s", outcomeOf(s), inputClass, who),
				fmt.Sprintf("burn nonce of %q moved %d -> %d, expected a change of %d (burn of %d to %q, min %d)", a, preN[a], postN[a], want, value, pl.Addr, gn.MinBurnAmount))
		}
	}
	if ok && inputClass != "valid-input" {
		// the statement allows such a burn to be accepted as a no-op only if nothing changes; the
		// ledger checks above and below cover it
		s.Tag("burn-accepted-with-" + inputClass)
	}
	// token movement
	moved := uint64(0)
	if ok && inputClass == "valid-input" {
		moved = value
	}
	ids := map[string]bool{}
	for id := range preA {
		ids[id] = true
	}
	for id := range postA {
		ids[id] = true
	}
	var il []string
	for id := range ids {
		il = append(il, id)
	}
	sort.Strings(il)
	for _, id := range il {
		want := int64(0)
		switch id {
		case s.Txn.ClientID:
			want = -int64(moved) - int64(fee)
		case zcnsc.ADDRESS:
			want = int64(moved)
		case minersc.ADDRESS:
			want = int64(fee)
		}
		if got := int64(postA[id].Bal) - int64(preA[id].Bal); got != want {
			role := "third-party"
			switch id {
			case s.Txn.ClientID:
				role = "burner"
			case zcnsc.ADDRESS:
				role = "bridge-wallet"
			case minersc.ADDRESS:
				role = "fee-wallet"
			}
			v(fmt.Sprintf("C19:balance-delta:%s:%s:%s", outcomeOf(s), inputClass, role),
				fmt.Sprintf("balance of %s (%s) changed by %d, expected %d (burn value %d, fee %d)", id, role, got, want, value, fee))
		}
	}
	s.Tag("burn:" + outcomeOf(s) + ":" + inputClass)
	// observation (not a clause of the statement): the contract keys the burn nonce by the exact string
	if ok && inputClass == "valid-input" {
		if strings.TrimSpace(pl.Addr) == "" {
			s.Tag("observation:burn-accepted-with-blank-address")
		}
		for a := range postN {
			if a != pl.Addr && strings.EqualFold(strings.TrimSpace(a), strings.TrimSpace(pl.Addr)) {
				s.Tag("observation:same-ethereum-address-in-two-spellings-has-two-burn-nonce-counters")
				break
			}
		}
	}
}

func burnAlphabet(w *world.World, min currency.Coin) []chainsim.Action {
	var acts []chainsim.Action
	for _, who := range []string{"c0", "c1"} {
		for _, addr := range []string{ethA, ethB, ""} {
			for _, val := range []currency.Coin{min - 1, min, min + 1} {
				if who == "c1" && (addr == ethB || val == min+1) {
					continue // second burner: collisions on address A and the empty address only
				}
				acts = append(acts, call(w, who, "zcnsc", "burn", map[string]string{"ethereum_address": addr}, val, 0,
					fmt.Sprintf("[addr=%.4s,v=min%+d]", addr, int64(val)-int64(min))))
			}
		}
	}
	acts = append(acts,
		call(w, "c0", "zcnsc", "burn", map[string]string{"ethereum_address": ethA}, 0, 5, "[addr=0xAA,v=0,fee=5]"),
		call(w, "c0", "zcnsc", "burn", map[string]string{"ethereum_address": ethA}, min, 7, "[addr=0xAA,v=min,fee=7]"),
		call(w, "c0", "zcnsc", "burn", `"not an object"`, min, 0, "[malformed]"),
		call(w, "c0", "zcnsc", "burn", map[string]any{"ethereum_address": ethA, "nonce": 5}, min, 0, "[addr=0xAA,extra-nonce-field]"),
		// c2 is poor (see world options): value above the balance
		call(w, "c2", "zcnsc", "burn", map[string]string{"ethereum_address": ethB}, min, 0, "[addr=0xBB,v=min,poor]"),
		call(w, "c2", "zcnsc", "burn", map[string]string{"ethereum_address": ethB}, 3*min, 0, "[addr=0xBB,v=3min,poor]"),
		// the same things spelled differently: address A in lower case, address A with blanks around it, a blank
		// address, the address key written twice (the last one wins in Go's decoder)
		call(w, "c0", "zcnsc", "burn", map[string]string{"ethereum_address": strings.ToLower(ethA)}, min, 0, "[addr=0xaa-lowercase,v=min]"),
		call(w, "c1", "zcnsc", "burn", map[string]string{"ethereum_address": " " + ethA + " "}, min, 0, "[addr=0xAA-padded,v=min]"),
		call(w, "c0", "zcnsc", "burn", map[string]string{"ethereum_address": " "}, min, 0, "[addr=blank,v=min]"),
		call(w, "c0", "zcnsc", "burn", `{"ethereum_address":"","ethereum_address":"`+ethA+`"}`, min, 0, "[addr-key-twice(empty,0xAA),v=min]"),
		call(w, "c0", "zcnsc", "burn", `{"ethereum_address":"`+ethA+`","ethereum_address":""}`, min, 0, "[addr-key-twice(0xAA,empty),v=min]"),
	)
	return acts
}

// c19warm: burns interleaved with owner updates of the bridge configuration under a WARM state cache.
// A rejected update must not leak into what later burns see: the oracle is the unchanged one (the
// minimum is read from the trie of the pre-state).
func c19warm(run *ev.Run) {
	w := world.New(world.Options{SC: map[string]any{"smart_contracts.zcnsc.min_burn": 0.0000001}})
	upd := func(fields map[string]string, tag string) chainsim.Action {
		return call(w, "owner", "zcnsc", zcnsc.UpdateGlobalConfigFunc, map[string]any{"fields": fields}, 0, 0, tag)
	}
	burn := func(who, addr string, v currency.Coin) chainsim.Action {
		return call(w, who, "zcnsc", "burn", map[string]string{"ethereum_address": addr}, v, 0, fmt.Sprintf("[addr=%.4s,v=%d]", addr, uint64(v)))
	}
	acts := []chainsim.Action{
		// docker.local min_stake 0 does not pass the contract's Validate: a valid update must raise it
		upd(map[string]string{"min_burn": "0.00000005", "min_stake": "1"}, "{valid:min_burn=500,min_stake=1}"),
		upd(map[string]string{"min_stake": "1"}, "{valid:min_stake=1}"),
		upd(map[string]string{"min_burn": "0"}, "{rejected:min_burn=0}"),
		upd(map[string]string{"min_burn": "0.00000001", "max_delegates": "0"}, "{rejected:min_burn=100,max_delegates=0}"),
		upd(map[string]string{"min_burn": "0.00000001", "zzz": "1"}, "{rejected:min_burn=100,unknown-key-sorting-after}"),
		upd(map[string]string{"min_burn": "0.00000001", "aaa": "1"}, "{rejected:min_burn=100,unknown-key-sorting-before}"),
		call(w, "c0", "zcnsc", zcnsc.UpdateGlobalConfigFunc, map[string]any{"fields": map[string]string{"min_burn": "0.00000001", "min_stake": "1"}}, 0, 0, "{not-owner:min_burn=100}"),
		burn("c0", ethA, 1000), burn("c0", ethA, 999), burn("c0", ethA, 500), burn("c0", ethA, 499), burn("c0", ethA, 150), burn("c0", ethA, 1),
		burn("c1", ethA, 150), burn("c1", "", 1000),
	}
	run.Rule = "WARM state cache: BFS over sequences of owner update-global-config {valid lowering of min_burn (with min_stake), valid other key, rejected: min_burn 0 / min_burn lowered together with an invalid max_delegates / with an unknown key sorting after resp. before it, same by a non-owner} interleaved with burns of {1000, 999, 500, 499, 150, 1} to address A by two burners and an address-less burn; oracle unchanged: the minimum is the one stored in the trie of the pre-state; a burn below it or without address changes nothing, a successful burn moves exactly the value and raises exactly that address's nonce by one"
	warmCache = true
	explore(run, w, acts, nil, run.Pick(4, 5), true, 50, 780, burnMonitor, func(s *chainsim.Step, v func(key, what string)) {
		if s.Txn.FunctionName != zcnsc.UpdateGlobalConfigFunc || s.Err != nil {
			return
		}
		a, b := zcnGlobal(s.Pre.Leaves), zcnGlobal(s.Post.Leaves)
		res := "stored-min-unchanged"
		if a.MinBurnAmount != b.MinBurnAmount {
			res = "stored-min-changed"
		}
		s.Tag("config-update:" + outcomeOf(s) + ":" + res)
		if s.Txn.Status != transaction.TxnSuccess && a.MinBurnAmount != b.MinBurnAmount {
			v("C19:rejected-config-update-changed-stored-min-burn", fmt.Sprintf("stored min_burn %d -> %d by a rejected update", uint64(a.MinBurnAmount), uint64(b.MinBurnAmount)))
		}
	})
}

func c19(run *ev.Run) {
	if a := argsAfterTier(); len(a) > 0 && a[0] == "warm" {
		c19warm(run)
		return
	}
	w := world.New(world.Options{SC: map[string]any{"smart_contracts.zcnsc.min_burn": 0.0000001}})
	min := currency.Coin(1000)
	// make c2 poor: it sends away all but 2*min+? tokens in the root script
	poor := chainsim.Action{Name: "c2-sends-away-all-but-2500", Build: func(x *chainsim.Ctx) *world.TxnSpec {
		f := w.Actors["c2"]
		return &world.TxnSpec{From: f, To: w.Actors["c0"].ID, Type: transaction.TxnTypeSend, Value: x.Bal(f.ID) - 2500, Nonce: x.Nonce(f) + 1}
	}}
	acts := burnAlphabet(w, min)
	if !run.Thorough() {
		// quick tier: 18 of the 24 letters (the thorough tier keeps all)
		var keep []chainsim.Action
		for _, a := range acts {
			n := a.Name
			if strings.Contains(n, "(c0)[addr=0xBB,v=min+1]") || strings.Contains(n, "(c0)[addr=,v=min+1]") || strings.Contains(n, "(c0)[addr=,v=min-1]") ||
				strings.Contains(n, "extra-nonce-field") || strings.Contains(n, "padded") || strings.Contains(n, "addr-key-twice(0xAA,empty)") {
				continue
			}
			keep = append(keep, a)
		}
		acts = keep
	}
	run.Rule = "BFS over all sequences of bridge burns (2 burners + 1 poor burner, target addresses {A, B, empty}, values {min-1, min, min+1, 0, above balance}, malformed payload, with fee) up to the depth bound; oracle per transition: success => burner -(value+fee), bridge wallet +value, burn nonce of exactly the target address +1, every other bridge user node and account unchanged; below-minimum / no-address / failed / rejected => no ledger change beyond fee"
	explore(run, w, acts, [][]chainsim.Action{{poor}}, run.Pick(4, 6), true, 50, 780, burnMonitor)
}
