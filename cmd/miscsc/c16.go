package main

import (
	"fmt"
	"math/big"
	"sort"
	"strings"
	"time"

	"0chain.net/chaincore/transaction"
	"0chain.net/core/common"
	"0chain.net/smartcontract/vestingsc"
	"github.com/0chain/common/core/currency"
	"verif/lib/chainsim"
	"verif/lib/ev"
	"verif/lib/world"
)

func init() { checks["C16"] = c16 }

// vestingPools decodes every vesting pool of a state, oldest first (start time, then id).
func vestingPools(ls []world.Leaf) []*vestingsc.VerifMiscPool {
	prefix := vestingsc.VerifMiscPoolKeyPrefix()
	var out []*vestingsc.VerifMiscPool
	for _, l := range ls {
		k := world.Tap.KeyOf(l.Path)
		if !strings.HasPrefix(k, prefix) {
			continue
		}
		p, err := vestingsc.VerifMiscDecodePool(l.Value)
		if err != nil {
			ev.Fatal("vesting pool %s: %v", k, err)
		}
		if p.ID != k {
			ev.Fatal("vesting pool id %s stored under key %s", p.ID, k)
		}
		out = append(out, p)
	}
	sort.Slice(out, func(i, j int) bool {
		if out[i].StartTime != out[j].StartTime {
			return out[i].StartTime < out[j].StartTime
		}
		return out[i].ID < out[j].ID
	})
	return out
}

// scheduleCeil = ceil(amount * clamp(now-start, 0, dur) / dur) in big integers.
func scheduleCeil(amount uint64, start, end, now common.Timestamp) *big.Int {
	a := new(big.Int).SetUint64(amount)
	switch {
	case now <= start:
		return new(big.Int)
	case now >= end:
		return a
	}
	num := new(big.Int).Mul(a, big.NewInt(int64(now-start)))
	den := big.NewInt(int64(end - start))
	q, r := new(big.Int).QuoRem(num, den, new(big.Int))
	if r.Sign() != 0 {
		q.Add(q, big.NewInt(1))
	}
	return q
}

func magnitude(x uint64) string {
	if x >= 1<<53 {
		return "amount>=2^53"
	}
	return "amount<2^53"
}

// vestingMonitor (C16).
func vestingMonitor(w *world.World) chainsim.Monitor {
	return func(s *chainsim.Step, v func(key, what string)) {
		fn := s.Txn.FunctionName
		isV := s.Txn.ToClientID == vestingsc.ADDRESS
		if s.Err != nil {
			if len(s.Diff) > 0 {
				v("C16:rejected-txn-changed-state", fmt.Sprintf("%d leaves changed by a rejected transaction", len(s.Diff)))
			}
		}
		now := s.Txn.CreationDate
		pre, post := map[string]*vestingsc.VerifMiscPool{}, map[string]*vestingsc.VerifMiscPool{}
		for _, p := range vestingPools(s.Pre.Leaves) {
			pre[p.ID] = p
		}
		for _, p := range vestingPools(s.Post.Leaves) {
			post[p.ID] = p
		}
		// tokens the vesting contract paid to each account in this transition
		paid := map[string]uint64{}
		ts, _ := effectiveTransfers(s)
		if s.Err == nil {
			for _, t := range ts {
				if t.ClientID == vestingsc.ADDRESS {
					paid[t.ToClientID] += uint64(t.Amount)
				}
			}
		}
		var ids []string
		for id := range pre {
			ids = append(ids, id)
		}
		for id := range post {
			if pre[id] == nil {
				ids = append(ids, id)
			}
		}
		sort.Strings(ids)
		for _, id := range ids {
			p0, p1 := pre[id], post[id]
			changed := p0 == nil || p1 == nil || fmt.Sprint(*p0) != fmt.Sprint(*p1)
			if !isV && changed {
				v("C16:pool-changed-by-foreign-transaction", "vesting pool "+id+" changed by a transaction not addressed to the vesting contract")
				continue
			}
			// state invariants of the post state, reported on the transition that breaks them
			if p1 != nil && changed {
				need := new(big.Int)
				pd := map[string]vestingsc.VerifMiscDest{}
				if p0 != nil {
					for _, d := range p0.Dests {
						pd[d.ID] = d
					}
				}
				for _, d := range p1.Dests {
					o, had := pd[d.ID]
					if d.Vested > d.Amount {
						if !had || o.Vested <= o.Amount {
							v("C16:destination-paid-more-than-amount:"+magnitude(uint64(d.Amount)), fmt.Sprintf("%s: destination %.8s vested %d > amount %d", fn, d.ID, uint64(d.Vested), uint64(d.Amount)))
						}
					} else {
						need.Add(need, new(big.Int).SetUint64(uint64(d.Amount-d.Vested)))
						if lim := scheduleCeil(uint64(d.Amount), p1.StartTime, p1.ExpireAt, now); (!had || d.Vested != o.Vested) && new(big.Int).SetUint64(uint64(d.Vested)).Cmp(lim) > 0 {
							v("C16:vested-ahead-of-schedule:"+magnitude(uint64(d.Amount)), fmt.Sprintf("%s: destination %.8s vested %d at t=start%+d of [start, start+%d], linear schedule allows at most %s of %d",
								fn, d.ID, uint64(d.Vested), now-p1.StartTime, p1.ExpireAt-p1.StartTime, lim, uint64(d.Amount)))
						}
					}
				}
				overpaidNow := false
				now1 := map[string]bool{}
				for _, d := range p1.Dests {
					now1[d.ID] = true
					if d.Vested > d.Amount {
						overpaidNow = true // reported above; the shortfall below is its consequence
					}
				}
				for id, d := range pd {
					if !now1[id] && uint64(d.Vested)+paid[id] > uint64(d.Amount) {
						overpaidNow = true // a destination removed by this call was overpaid (reported below)
					}
				}
				if new(big.Int).SetUint64(uint64(p1.Balance)).Cmp(need) < 0 && (p0 == nil || !poolUnderfunded(p0)) && !overpaidNow {
					v("C16:pool-balance-below-unvested-remainder", fmt.Sprintf("%s: pool balance %d < sum of unvested remainders %s", fn, uint64(p1.Balance), need))
				}
			}
			if p0 == nil {
				continue
			}
			// destinations of an existing pool
			d1 := map[string]vestingsc.VerifMiscDest{}
			if p1 != nil {
				if p1.StartTime != p0.StartTime || p1.ExpireAt != p0.ExpireAt || p1.ClientID != p0.ClientID {
					v("C16:schedule-or-owner-changed", fmt.Sprintf(fn+": start/expiry/owner %d/%d/%.8s -> %d/%d/%.8s", p0.StartTime, p0.ExpireAt, p0.ClientID, p1.StartTime, p1.ExpireAt, p1.ClientID))
				}
				for _, d := range p1.Dests {
					d1[d.ID] = d
				}
			}
			for _, d := range p0.Dests {
				lim := scheduleCeil(uint64(d.Amount), p0.StartTime, p0.ExpireAt, now)
				if uint64(d.Amount) < lim.Uint64() {
					lim.SetUint64(uint64(d.Amount))
				}
				got := paid[d.ID]
				if d.ID == p0.ClientID && p1 == nil {
					got = 0 // owner-destination of a deleted pool: the payment is mixed with the refunded excess (not used by the scenarios)
				}
				if n, ok := d1[d.ID]; ok {
					if n.Amount != d.Amount {
						v("C16:assigned-amount-changed", fmt.Sprintf(fn+": destination %.8s amount %d -> %d", d.ID, uint64(d.Amount), uint64(n.Amount)))
					}
					if n.Vested < d.Vested {
						v("C16:vested-decreased", fmt.Sprintf(fn+": destination %.8s vested %d -> %d", d.ID, uint64(d.Vested), uint64(n.Vested)))
					}
					if changed && n.Vested >= d.Vested && uint64(n.Vested-d.Vested) != got && d.ID != p0.ClientID {
						v("C16:tokens-paid-differ-from-vested-increase", fmt.Sprintf(fn+": destination %.8s: vested rose by %d, contract paid it %d", d.ID, uint64(n.Vested-d.Vested), got))
					}
				} else if s.Err == nil && changed {
					// destination removed (stop / delete): what it was paid on the way out obeys the same bounds
					tot := new(big.Int).Add(new(big.Int).SetUint64(uint64(d.Vested)), new(big.Int).SetUint64(got))
					switch {
					case d.ID == p0.ClientID || d.Vested > d.Amount:
					case tot.Cmp(new(big.Int).SetUint64(uint64(d.Amount))) > 0:
						v("C16:destination-paid-more-than-amount:"+magnitude(uint64(d.Amount)), fmt.Sprintf("%s removes destination %.8s: vested %d + paid %d > amount %d", fn, d.ID, uint64(d.Vested), got, uint64(d.Amount)))
					case tot.Cmp(lim) > 0:
						v("C16:vested-ahead-of-schedule:"+magnitude(uint64(d.Amount)), fmt.Sprintf("%s removes destination %.8s: vested %d + paid %d > %s allowed at t=start%+d of %d (amount %d)",
							fn, d.ID, uint64(d.Vested), got, lim, now-p0.StartTime, p0.ExpireAt-p0.StartTime, uint64(d.Amount)))
					}
				}
			}
		}
		if !isV || s.Err != nil && !strings.Contains(fn, "unlock") && fn != "delete" {
			return
		}
		// liveness-type clauses, evaluated on the call that exercises them
		var req struct {
			PoolID string `json:"pool_id"`
		}
		jsonUnmarshal(scInput(s.Txn), &req)
		p0 := pre[req.PoolID]
		if p0 == nil {
			return
		}
		ok := s.Err == nil && s.Txn.Status == transaction.TxnSuccess
		caller := s.Txn.ClientID
		health := ":pool-consistent"
		if poolUnderfunded(p0) {
			// the pool is already overpaid / underfunded (reported when it happened): what follows is a consequence
			s.Tag("call-on-already-inconsistent-pool:" + fn + ":" + outcomeOf(s))
			return
		}
		// magnitude class of the pool (the float-rounding finding concerns amounts >= 2^53 only; its keys stay as they are)
		poolMag := ""
		small := true
		for _, d := range p0.Dests {
			if uint64(d.Amount) >= 1<<53 {
				small = false
			}
		}
		if small {
			poolMag = ":amounts<2^53"
		}
		// tokens vested by the exact schedule but not yet paid, per destination (floor, big integers)
		outstanding := func(d vestingsc.VerifMiscDest) uint64 {
			lim := scheduleCeil(uint64(d.Amount), p0.StartTime, p0.ExpireAt, now)
			if now > p0.StartTime && now < p0.ExpireAt {
				num := new(big.Int).Mul(new(big.Int).SetUint64(uint64(d.Amount)), big.NewInt(int64(now-p0.StartTime)))
				lim = num.Quo(num, big.NewInt(int64(p0.ExpireAt-p0.StartTime)))
			}
			if lim.Cmp(new(big.Int).SetUint64(uint64(d.Vested))) <= 0 {
				return 0
			}
			return new(big.Int).Sub(lim, new(big.Int).SetUint64(uint64(d.Vested))).Uint64()
		}
		running := now > p0.StartTime && now < p0.ExpireAt
		switch {
		case fn == "trigger" && caller == p0.ClientID && running:
			// on schedule: with vested tokens outstanding (margin of 2 units for rounding) the owner's trigger pays them
			for _, d := range p0.Dests {
				if outstanding(d) >= 2 && !ok {
					v("C16:owner-trigger-fails-with-vested-tokens-outstanding:"+magnitude(uint64(d.Amount)), fmt.Sprintf("trigger at t=start%+d of %d failed (err=%v, output %.160s) although %d tokens of destination %.8s (amount %d, vested %d) are due by the linear schedule",
						now-p0.StartTime, p0.ExpireAt-p0.StartTime, s.Err, s.Txn.TransactionOutput, outstanding(d), d.ID, uint64(d.Amount), uint64(d.Vested)))
					break
				}
			}
			s.Tag("owner-trigger-while-running:" + outcomeOf(s))
		case fn == "unlock" && caller != p0.ClientID && running:
			for _, d := range p0.Dests {
				if d.ID == caller && outstanding(d) >= 2 {
					if !ok {
						v("C16:destination-cannot-collect-vested-tokens-before-expiry:"+magnitude(uint64(d.Amount)), fmt.Sprintf("unlock by destination %.8s at t=start%+d of %d failed (err=%v, output %.160s) although %d tokens (amount %d, vested %d) are due by the linear schedule",
							d.ID, now-p0.StartTime, p0.ExpireAt-p0.StartTime, s.Err, s.Txn.TransactionOutput, outstanding(d), uint64(d.Amount), uint64(d.Vested)))
					}
					s.Tag("destination-unlock-while-running-with-tokens-due:" + outcomeOf(s))
				}
			}
		case fn == "delete" && caller == p0.ClientID:
			// the owner can always delete the pool
			if !ok {
				v("C16:owner-cannot-delete-pool"+health+poolMag, fmt.Sprintf("delete by the owner failed (err=%v): %s", s.Err, s.Txn.TransactionOutput))
			} else if post[req.PoolID] != nil {
				v("C16:deleted-pool-still-present", "pool still in the state after a successful delete")
			}
			s.Tag("owner-delete:" + outcomeOf(s))
		case fn == "unlock" && caller == p0.ClientID:
			// the owner can always withdraw the excess
			need := new(big.Int)
			for _, d := range p0.Dests {
				if d.Amount >= d.Vested {
					need.Add(need, new(big.Int).SetUint64(uint64(d.Amount-d.Vested)))
				}
			}
			excess := new(big.Int).Sub(new(big.Int).SetUint64(uint64(p0.Balance)), need)
			if excess.Sign() > 0 {
				if !ok {
					v("C16:owner-cannot-withdraw-excess"+health, fmt.Sprintf("excess %s, unlock by the owner failed (err=%v): %s", excess, s.Err, s.Txn.TransactionOutput))
				} else if new(big.Int).SetUint64(paid[caller]).Cmp(excess) != 0 {
					v("C16:owner-unlock-paid-not-the-excess", fmt.Sprintf("excess %s, owner was paid %d", excess, paid[caller]))
				}
				s.Tag("owner-unlock-excess:" + outcomeOf(s))
			} else if ok && paid[caller] > 0 {
				v("C16:owner-withdrew-without-excess", fmt.Sprintf("no excess (balance %d, remainders %s) but the owner was paid %d", uint64(p0.Balance), need, paid[caller]))
			}
		case fn == "unlock":
			// a destination at/after expiry can receive exactly its amount: a call that makes no progress while
			// something is still owed means it cannot
			for _, d := range p0.Dests {
				if d.ID != caller || now < p0.ExpireAt || d.Vested >= d.Amount {
					continue
				}
				after := d.Vested
				if ok {
					for _, n := range post[req.PoolID].Dests {
						if n.ID == caller {
							after = n.Vested
						}
					}
				}
				switch {
				case after == d.Amount:
					s.Tag("destination-fully-paid-at-expiry")
				case after > d.Vested:
					s.Tag("destination-paid-partially-at-expiry")
				default:
					v("C16:destination-cannot-receive-amount-after-expiry:"+magnitude(uint64(d.Amount))+health, fmt.Sprintf("destination %.8s: vested %d of %d at t=expiry%+d, unlock made no progress (err=%v, output %.120s), pool balance %d",
						d.ID, uint64(d.Vested), uint64(d.Amount), now-p0.ExpireAt, s.Err, s.Txn.TransactionOutput, uint64(p0.Balance)))
				}
			}
		}
	}
}

type vdest struct {
	ID     string        `json:"id"`
	Amount currency.Coin `json:"amount"`
}

func addPool(w *world.World, owner string, dests [][2]any, extra currency.Coin, startOff int64, dur int, tag string) chainsim.Action {
	var sum currency.Coin
	var ds []vdest
	for _, d := range dests {
		amt := currency.Coin(d[1].(uint64))
		ds = append(ds, vdest{w.Actors[d[0].(string)].ID, amt})
		sum += amt
	}
	a := callF(w, owner, "vestingsc", "add", func(x *chainsim.Ctx) any {
		st := common.Timestamp(0)
		if startOff != 0 {
			st = x.Now + common.Timestamp(startOff)
		}
		return map[string]any{"description": "p", "start_time": st, "duration": time.Duration(dur) * time.Second, "destinations": ds}
	}, sum+extra, 0, tag)
	return a
}

// poolOp builds a call on the idx-th oldest pool of the state.
func poolOp(w *world.World, from, fn string, idx int, dest string, tag string) chainsim.Action {
	return callF(w, from, "vestingsc", fn, func(x *chainsim.Ctx) any {
		ps := vestingPools(x.N.Leaves)
		if idx >= len(ps) {
			return skip
		}
		in := map[string]any{"pool_id": ps[idx].ID}
		if dest != "" {
			in["destination"] = w.Actors[dest].ID
		}
		return in
	}, 0, 0, fmt.Sprintf("[p%d%s]", idx, tag))
}

func vestingScenario(run *ev.Run) *scenario {
	sc := &scenario{}
	sc.w = world.New(world.Options{NumClients: 4, ClientFund: 2e17, SC: map[string]any{
		"smart_contracts.vestingsc.min_duration": "1s", "smart_contracts.vestingsc.max_duration": "10s",
		"smart_contracts.vestingsc.min_lock": units(1)}})
	w := sc.w
	const big53 = uint64(1<<53 + 3)
	sc.roots = [][]chainsim.Action{
		{addPool(w, "c0", [][2]any{{"c1", uint64(10)}, {"c2", uint64(7)}}, 3, 0, 3, "[A:10+7,excess3,3s]")},
		{addPool(w, "c0", [][2]any{{"c1", big53}, {"c2", uint64(5)}}, 2, 1, 2, "[B:2^53+3+5,excess2,start+1,2s]")},
		{addPool(w, "c0", [][2]any{{"c1", uint64(1)}, {"c2", uint64(3)}, {"c3", uint64(1e17 + 1)}}, 0, 0, 4, "[C:1+3+(1e17+1),4s]")},
		{addPool(w, "c0", [][2]any{{"c1", uint64(7)}}, 0, 0, 1, "[D:7,1s]")},
	}
	tick := send(w, "c3", "c0", 1, 0)
	sc.acts = []chainsim.Action{
		poolOp(w, "c0", "trigger", 0, "", ""),
		poolOp(w, "c1", "unlock", 0, "", ""),
		poolOp(w, "c2", "unlock", 0, "", ""),
		poolOp(w, "c0", "unlock", 0, "", ",owner"),
		poolOp(w, "c0", "stop", 0, "c1", ",dest=c1"),
		poolOp(w, "c0", "delete", 0, "", ""),
		tick,
		withDt(tick, 3),
		addPool(w, "c0", [][2]any{{"c1", uint64(3)}}, 1, 0, 2, "[E:3,excess1,2s]"),
		poolOp(w, "c1", "unlock", 1, "", ""),
		poolOp(w, "c1", "trigger", 0, "", ",stranger"),
	}
	if run.Thorough() {
		sc.acts = append(sc.acts,
			poolOp(w, "c3", "unlock", 0, "", ""),
			poolOp(w, "c1", "delete", 0, "", ",stranger"),
			poolOp(w, "c0", "stop", 0, "c2", ",dest=c2"),
			poolOp(w, "c0", "delete", 1, "", ""))
	}
	sc.dq, sc.dt = 4, 4
	sc.rule = "BFS from 4 scripted pools (2 small destinations with excess / 2^53+3 and 5 with delayed start / 3 destinations incl. 1e17+1 without excess / one destination with the minimum duration) over {trigger, unlock by each destination, unlock by owner, stop, delete, add a second pool, stranger calls, clock ticks of 1 and 3 s}, one virtual second per step so that every second of [start-1, expiry+2] is visited; oracle per transition and destination: vested never decreases, <= amount, <= ceil(amount*elapsed/duration) (big integers), tokens paid == vested increase, amount/schedule immutable, pool balance >= sum of unvested remainders, owner delete always succeeds, owner unlock pays exactly the excess, an unlock at/after expiry always makes progress until vested == amount"
	return sc
}

// vestingLongScenario: long-running pools with mid-magnitude amounts and long gaps without payout.
func vestingLongScenario(run *ev.Run) *scenario {
	sc := &scenario{}
	sc.w = world.New(world.Options{NumClients: 4, ClientFund: 2e17, SC: map[string]any{
		"smart_contracts.vestingsc.min_duration": "1s", "smart_contracts.vestingsc.max_duration": "2000h",
		"smart_contracts.vestingsc.min_lock": units(1)}})
	w := sc.w
	const day = 86400
	sc.roots = [][]chainsim.Action{
		{addPool(w, "c0", [][2]any{{"c1", uint64(1e15)}, {"c2", uint64(1e13)}}, 5, 0, 40*day, "[L1:1e15+1e13,excess5,40d]")},
		{addPool(w, "c0", [][2]any{{"c1", uint64(1e13)}, {"c2", uint64(1e13)}}, 0, 0, 45*day, "[L2:1e13+1e13,45d]")},
		{addPool(w, "c0", [][2]any{{"c1", uint64(1e17)}}, 1, 0, 40*day, "[L3:1e17,excess1,40d]")},
		{addPool(w, "c0", [][2]any{{"c1", uint64(1e15)}}, 0, 1, 12*3600, "[L4:1e15,start+1,12h]")},
	}
	tick := send(w, "c3", "c0", 1, 0)
	sc.acts = []chainsim.Action{
		poolOp(w, "c0", "trigger", 0, "", ""),
		poolOp(w, "c1", "unlock", 0, "", ""),
		poolOp(w, "c2", "unlock", 0, "", ""),
		poolOp(w, "c0", "stop", 0, "c1", ",dest=c1"),
		poolOp(w, "c0", "delete", 0, "", ""),
		withDt(tick, 3600),
		withDt(tick, 6*3600),
		withDt(tick, 30*day),
	}
	if run.Thorough() {
		sc.acts = append(sc.acts, poolOp(w, "c0", "unlock", 0, "", ",owner"), withDt(poolOp(w, "c1", "unlock", 0, "", ""), 6*3600), withDt(tick, 10*day))
	}
	sc.dq, sc.dt = 4, 5
	sc.rule = "long-running pools (1e15+1e13 over 40 d with excess; 1e13+1e13 over 45 d; 1e17 over 40 d; 1e15 over 12 h with delayed start) and clock steps of 1 h, 6 h and 30 d between operations, so that destinations go without payout for long stretches: BFS over {trigger, unlock by each destination, stop, delete, ticks}; same per-destination oracle as part chain plus: while the pool is running, the owner's trigger and a destination's unlock succeed whenever at least 2 tokens are due by the exact linear schedule, and the owner's delete always succeeds"
	return sc
}

func c16(run *ev.Run) {
	if a := argsAfterTier(); len(a) > 0 && a[0] == "arith" {
		c16arith(run)
		return
	}
	if a := argsAfterTier(); len(a) > 0 && a[0] == "long" {
		sc := vestingLongScenario(run)
		run.Rule = sc.rule
		explore(run, sc.w, sc.acts, sc.roots, run.Pick(sc.dq, sc.dt), false, 50, 780, vestingMonitor(sc.w))
		return
	}
	sc := vestingScenario(run)
	run.Rule = sc.rule
	explore(run, sc.w, sc.acts, sc.roots, run.Pick(sc.dq, sc.dt), false, 50, 780, vestingMonitor(sc.w))
}

// poolUnderfunded: the pool balance does not cover the unvested remainders (or a destination is overpaid).
func poolUnderfunded(p *vestingsc.VerifMiscPool) bool {
	need := new(big.Int)
	for _, d := range p.Dests {
		if d.Vested > d.Amount {
			return true
		}
		need.Add(need, new(big.Int).SetUint64(uint64(d.Amount-d.Vested)))
	}
	return new(big.Int).SetUint64(uint64(p.Balance)).Cmp(need) < 0
}
