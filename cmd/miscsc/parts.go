package main

import (
	"0chain.net/smartcontract/stakepool/spenum"
	"0chain.net/smartcontract/zcnsc"
	"verif/lib/chainsim"
	"verif/lib/ev"
)

func init() {
	checks["C09"] = c09
	checks["C04"] = c04
}

// bridgeLedgerActions: burns, staking, unstaking and reward collection on top of the mint scenario.
func bridgeLedgerActions(sc *scenario) []chainsim.Action {
	w := sc.w
	a0 := w.Actors["a0"].ID
	req := map[string]any{"provider_type": spenum.Authorizer, "provider_id": a0}
	return []chainsim.Action{
		call(w, "c0", "zcnsc", zcnsc.BurnFunc, map[string]string{"ethereum_address": ethA}, 1e10, 0, "[addr=0xAA,v=min]"),
		call(w, "c1", "zcnsc", zcnsc.BurnFunc, map[string]string{"ethereum_address": ethA}, 1e10+1, 0, "[addr=0xAA,v=min+1]"),
		call(w, "c0", "zcnsc", zcnsc.BurnFunc, map[string]string{"ethereum_address": ""}, 1e10, 0, "[no-address]"),
		call(w, "c1", "zcnsc", zcnsc.AddToDelegatePoolFunc, req, 2e10, 0, "[a0,2e10]"),
		call(w, "c2", "zcnsc", zcnsc.AddToDelegatePoolFunc, req, 1e10, 0, "[a0,1e10,again]"),
		call(w, "c2", "zcnsc", zcnsc.DeleteFromDelegatePoolFunc, req, 0, 0, "[a0]"),
		call(w, "c1", "zcnsc", zcnsc.DeleteFromDelegatePoolFunc, req, 0, 0, "[a0,stranger-or-second-delegate]"),
		call(w, "c2", "zcnsc", zcnsc.CollectRewardsFunc, req, 0, 0, "[a0]"),
		call(w, "c1", "zcnsc", zcnsc.CollectRewardsFunc, req, 0, 0, "[a0]"),
	}
}

// pickMints keeps a representative subset of the mint alphabet (accepted and rejected payloads).
func pickMints(acts []chainsim.Action) []chainsim.Action {
	var out []chainsim.Action
	for _, a := range acts {
		mc := mintCases[a.Name]
		if mc == nil {
			continue
		}
		all := true
		for _, e := range mc.Sigs {
			if e.Kind != "valid" || e.As == "u" {
				all = false
			}
		}
		if all && len(mc.Sigs) >= 2 || len(out)%9 == 0 {
			out = append(out, a)
		}
	}
	return out
}

// c09: part misc of "liabilities never grow without backing": the liability monitor over the
// vesting, bridge and faucet scenarios (selected by the first argument).
func c09(run *ev.Run) {
	which := "vesting"
	if a := argsAfterTier(); len(a) > 0 {
		which = a[0]
	}
	var sc *scenario
	switch which {
	case "vesting":
		sc = vestingScenario(run)
		sc.dq, sc.dt = 3, 4
	case "faucet":
		sc = faucetScenario(run, false)
		sc.dq, sc.dt = 3, 4
	case "bridge":
		sc = bridgeScenario(run, 0.7)
		sc.acts = append(pickMints(sc.acts), bridgeLedgerActions(sc)...)
		sc.dq, sc.dt = 3, 3
		sc.ignoreTime = true
	default:
		ev.Fatal("unknown scenario %s", which)
	}
	run.Rule = "liability oracle on every transition of the " + which + " scenario (L(vestingsc) = sum of vesting pool balances, L(zcnsc) = authorizer stake pools: delegate balances + delegate rewards + unpaid provider reward, L(faucetsc) = 0): L(c) may grow by at most the tokens the transaction moved into c's wallet plus, for a successful mint, the authorizer fee (<= max_fee); scenario: " + sc.rule
	explore(run, sc.w, sc.acts, sc.roots, run.Pick(sc.dq, sc.dt), sc.ignoreTime, 40, 600, liabilityMonitor)
}

// c04: part misc of "debits only what the sender authorised": the debit-authorisation oracle over
// the multisig and bridge alphabets.
func c04(run *ev.Run) {
	which := "multisig"
	if a := argsAfterTier(); len(a) > 0 {
		which = a[0]
	}
	var sc *scenario
	switch which {
	case "multisig":
		sc, _ = multisigScenario(run)
		sc.dq, sc.dt = 3, 4
	case "bridge":
		sc = bridgeScenario(run, 0.7)
		sc.acts = append(pickMints(sc.acts), bridgeLedgerActions(sc)...)
		sc.dq, sc.dt = 3, 3
		sc.ignoreTime = true
	default:
		ev.Fatal("unknown scenario %s", which)
	}
	run.Rule = "debit-authorisation oracle on every transition of the " + which + " scenario: an account that loses tokens is the sender (at most value+fee), the called contract's own wallet, or the source of a signed transfer of exactly that amount whose signature verifies under a key hashing to the account; scenario: " + sc.rule
	explore(run, sc.w, sc.acts, sc.roots, run.Pick(sc.dq, sc.dt), sc.ignoreTime, 40, 600, debitMonitor(sc.w))
}
