package main

import (
	"encoding/json"
	"fmt"
	"os"
	"sort"
	"time"

	"0chain.net/chaincore/state"
	"0chain.net/chaincore/transaction"
	"0chain.net/core/encryption"
	"github.com/0chain/common/core/currency"
	"github.com/0chain/common/core/util"
	"verif/lib/chainsim"
	"verif/lib/ev"
	"verif/lib/world"
)

// --- alphabet helpers (copied from cmd/chain) -----------------------------------------------------

func send(w *world.World, from, to string, value currency.Coin, fee currency.Coin) chainsim.Action {
	return chainsim.Action{
		Name: fmt.Sprintf("send(%s->%s,%d,fee=%d)", from, to, value, fee),
		Build: func(x *chainsim.Ctx) *world.TxnSpec {
			f := w.Actors[from]
			toID := to
			if a, ok := w.Actors[to]; ok {
				toID = a.ID
			}
			return &world.TxnSpec{From: f, To: toID, Type: transaction.TxnTypeSend, Value: value, Fee: fee, Nonce: x.Nonce(f) + 1}
		},
	}
}

// call builds a smart-contract call action with a fixed input.
func call(w *world.World, from, sc, fn string, input any, value, fee currency.Coin, tag string) chainsim.Action {
	return callF(w, from, sc, fn, func(*chainsim.Ctx) any { return input }, value, fee, tag)
}

// callF builds a smart-contract call whose input depends on the state it is applied to
// (input func returning errSkip = action not applicable).
func callF(w *world.World, from, sc, fn string, input func(x *chainsim.Ctx) any, value, fee currency.Coin, tag string) chainsim.Action {
	return chainsim.Action{
		Name: fmt.Sprintf("%s.%s(%s)%s", sc, fn, from, tag),
		Build: func(x *chainsim.Ctx) *world.TxnSpec {
			f := w.Actors[from]
			in := input(x)
			if in == skip {
				return nil
			}
			return &world.TxnSpec{From: f, To: world.SCAddresses[sc], Type: transaction.TxnTypeSmartContract, Value: value, Fee: fee,
				Nonce: x.Nonce(f) + 1, Data: world.SC(fn, in)}
		},
	}
}

type skipT struct{}

var skip any = skipT{}

func withDt(a chainsim.Action, dt int64) chainsim.Action {
	a.Dt = dt
	a.Name = fmt.Sprintf("%s@+%d", a.Name, dt)
	return a
}

// actionClass strips the arguments from an action name.
func actionClass(n string) string {
	for i, c := range n {
		if c == '(' {
			return n[:i]
		}
	}
	return n
}

// --- state helpers --------------------------------------------------------------------------------

type acct struct {
	Bal   uint64
	Nonce int64
	Has   bool
}

func accounts(ls []world.Leaf) map[string]acct {
	m := map[string]acct{}
	for _, l := range ls {
		if world.Tap.IsAccount(l.Path) {
			if st, ok := chainsim.DecodeAccount(l.Value); ok {
				m[l.Path] = acct{uint64(st.Balance), st.Nonce, true}
			}
		}
	}
	return m
}

// leafByKey returns the value of the contract node stored under the plaintext key (nil = absent).
func leafByKey(ls []world.Leaf, key string) []byte {
	p := string(util.Path(encryption.Hash(key)))
	i := sort.Search(len(ls), func(i int) bool { return ls[i].Path >= p })
	if i < len(ls) && ls[i].Path == p {
		return ls[i].Value
	}
	return nil
}

// effectiveTransfers returns the transfers of the final state context of the transition (those
// queued after the last EmitError reset), in order, followed by the signed transfers.
func effectiveTransfers(s *chainsim.Step) (ts []*state.Transfer, sts []*state.SignedTransfer) {
	for _, r := range s.Tap {
		switch r.Op {
		case "emit_error":
			ts, sts = nil, nil
		case "add_transfer":
			t := r.Obj.(*state.Transfer)
			if encryption.IsHash(t.ToClientID) {
				ts = append(ts, t)
			}
		case "add_signed_transfer":
			sts = append(sts, r.Obj.(*state.SignedTransfer))
		}
	}
	return
}

// scInput returns the raw input of a contract call transaction.
func scInput(t *transaction.Transaction) []byte {
	var d struct {
		Name  string          `json:"name"`
		Input json.RawMessage `json:"input"`
	}
	if json.Unmarshal([]byte(t.TransactionData), &d) != nil {
		return nil
	}
	return d.Input
}

// outcomeTag tags the step with "<fn>:<ok|fail|rejected>" so that evidence shows success paths are reached.
func outcomeOf(s *chainsim.Step) string {
	switch {
	case s.Err != nil:
		return "rejected"
	case s.Txn.Status == transaction.TxnError:
		return "charged-failure"
	}
	return "ok"
}

// warmCache: when set before explore, the global state cache is kept across transitions (and shared by
// all forks a worker explores) instead of being reset per transition.
var warmCache bool

func explore(run *ev.Run, w *world.World, acts []chainsim.Action, roots [][]chainsim.Action, depth int, ignoreTime bool, budgetQ, budgetT int, mons ...chainsim.Monitor) {
	mons = append(mons, func(s *chainsim.Step, v func(key, what string)) {
		s.Tag("fn:" + s.Txn.FunctionName + ":" + outcomeOf(s))
	})
	e := &chainsim.Explorer{Run: run, W: w, Actions: acts, Roots: roots, Depth: depth, Monitors: mons,
		Budget: time.Duration(run.Pick(budgetQ, budgetT)) * time.Second, IgnoreTimeInKey: ignoreTime, WarmCache: warmCache}
	cache := "cold state cache per transition"
	if warmCache {
		cache = "warm state cache: the chain's global state cache is kept across transitions and shared by all forks a worker explores"
	}
	run.Assumptions = append(run.Assumptions, "account leaves = every leaf written through StateContext.SetClientState since genesis (keytap seam)",
		"contract nodes are found by their plaintext key through the keytap dictionary and decoded with the repository's own msgp decoders",
		cache, "grocksdb replaced by the in-memory stand-in", "one transaction per block")
	e.Explore()
}

// --- C04 debit-authorisation oracle (copied from cmd/chain/monitors.go) ---------------------------

func debitMonitor(w *world.World) chainsim.Monitor {
	contracts := map[string]bool{}
	for _, a := range world.SCAddresses {
		contracts[a] = true
	}
	return func(s *chainsim.Step, v func(key, what string)) {
		if s.Err != nil {
			return
		}
		cls := actionClass(s.Action.Name)
		pre, post := accounts(s.Pre.Leaves), accounts(s.Post.Leaves)
		_, sts := effectiveTransfers(s)
		var ids []string
		for id := range pre {
			ids = append(ids, id)
		}
		sort.Strings(ids)
		for _, id := range ids {
			a, b := pre[id], post[id]
			if b.Bal >= a.Bal {
				continue
			}
			lost := a.Bal - b.Bal
			switch {
			case id == s.Txn.ClientID:
				if allowed := uint64(s.Txn.Value) + uint64(s.Txn.Fee); lost > allowed {
					v("C04:sender-debited-beyond-value-plus-fee:"+cls, fmt.Sprintf("sender lost %d, value+fee = %d", lost, allowed))
				}
			case id == s.Txn.ToClientID && contracts[id]:
				// the called contract's own wallet
			default:
				ok := false
				why := "no-signed-transfer"
				for _, st := range sts {
					if st.ClientID == id && uint64(st.Amount) == lost {
						if st.VerifySignature(true) == nil {
							ok = true
							s.Tag("debit-by-valid-signed-transfer")
						} else {
							why = "signed-transfer-with-invalid-signature"
						}
					}
				}
				if !ok {
					v("C04:third-party-debited:"+cls+":"+why, fmt.Sprintf("account %s lost %d in a transaction of %s to %s (%s)", id, lost, s.Txn.ClientID, s.Txn.ToClientID, why))
				}
			}
		}
	}
}

// argsAfterTier returns the scenario arguments of the invocation (after <PropId> [tier]).
func argsAfterTier() []string {
	var out []string
	for _, a := range os.Args[2:] {
		if a == "quick" || a == "thorough" {
			continue
		}
		out = append(out, a)
	}
	return out
}

func jsonUnmarshal(b []byte, v any) { _ = json.Unmarshal(b, v) }

func os_Getenv(k string) string { return os.Getenv(k) }

// purger drops per-path monitor state of levels the BFS has left behind (the search is level by
// level: once a pre-state of depth d is seen, no state of depth < d is expanded again), so that a
// monitor's map keyed by *SNode does not keep every visited state alive.
type purger struct{ depth int }

func purgeOld[V any](p *purger, m map[*chainsim.SNode]V, pre *chainsim.SNode) {
	if pre.Depth <= p.depth {
		return
	}
	p.depth = pre.Depth
	for k := range m {
		if k.Depth < pre.Depth {
			delete(m, k)
		}
	}
}
