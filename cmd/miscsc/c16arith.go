package main

import (
	"fmt"
	"math/big"

	"0chain.net/core/common"
	"0chain.net/smartcontract/vestingsc"
	"github.com/0chain/common/core/currency"
	"github.com/0chain/common/core/logging"
	"go.uber.org/zap"
	"verif/lib/ev"
)

// c16arith drives the real destination.unlock (export shim) without a chain: for every amount of a
// boundary alphabet, every duration and EVERY increasing sequence of call times in [start, end]
// followed by up to three calls at the end, the same per-destination oracle as the chain part.
func c16arith(run *ev.Run) {
	logging.Logger = zap.NewNop()
	amounts := []uint64{1, 2, 3, 7, 10, 1e10, 1<<53 - 1, 1 << 53, 1<<53 + 1, 1<<53 + 2, 1<<53 + 3, 1<<53 + 5, 1<<54 + 2, 1<<54 + 6, 1e16, 1e16 + 1, 1e17 + 1, 1<<60 + 129, 4e18, 4e18 - 1}
	durs := []int64{1, 2, 3, 4, 7}
	if run.Thorough() {
		amounts = append(amounts, 1<<55+12, 1<<56+24, 3e18+1, 1<<61+257, 123456789012345679, 999999999999999999)
		durs = append(durs, 10, 13)
	}
	const start = common.Timestamp(1000)
	for _, A := range amounts {
		for _, D := range durs {
			end := start + common.Timestamp(D)
			// subsets of the interior+end call times {start+1 .. end}; bit i = call at start+1+i
			for mask := 0; mask < 1<<uint(D); mask++ {
				d := vestingsc.VerifMiscDest{ID: "d", Amount: currency.Coin(A), Last: start, Move: start}
				var calls []int64
				times := []common.Timestamp{}
				for i := int64(0); i < D; i++ {
					if mask>>uint(i)&1 == 1 {
						times = append(times, start+1+common.Timestamp(i))
					}
				}
				times = append(times, end, end, end) // at/after expiry every call is clamped to the end
				bad := false
				for k, now := range times {
					nd, amt, err := vestingsc.VerifMiscUnlock(d, now, end)
					run.Add(0, 1, 1)
					calls = append(calls, int64(now-start))
					replay := map[string]any{"amount": A, "duration": D, "call_times_after_start": calls}
					if err != nil {
						// an error is a refusal to pay; being stuck below the amount at the end is judged below
						run.Outcome("err:" + err.Error())
						if now == end && d.Vested < d.Amount && !bad {
							run.Violation("C16:destination-cannot-receive-amount-after-expiry:"+magnitude(A)+":arith", fmt.Sprintf("destination.unlock(now=end) fails with %v while vested %d < amount %d", err, uint64(d.Vested), A), replay)
							bad = true
						}
						continue
					}
					if nd.Vested < d.Vested {
						run.Violation("C16:vested-decreased", fmt.Sprintf("vested %d -> %d", uint64(d.Vested), uint64(nd.Vested)), replay)
					}
					if uint64(nd.Vested-d.Vested) != uint64(amt) {
						run.Violation("C16:tokens-paid-differ-from-vested-increase", fmt.Sprintf("vested rose by %d, amount to pay %d", uint64(nd.Vested-d.Vested), uint64(amt)), replay)
					}
					if nd.Vested > nd.Amount {
						if !bad {
							run.Violation("C16:destination-paid-more-than-amount:"+magnitude(A), fmt.Sprintf("destination.unlock: amount %d, duration %d s, calls at start+%v: vested %d > amount (last call pays %d with %d left)", A, D, calls, uint64(nd.Vested), uint64(amt), A-uint64(d.Vested)), replay)
						}
						bad = true
					} else if lim := scheduleCeil(A, start, end, now); new(big.Int).SetUint64(uint64(nd.Vested)).Cmp(lim) > 0 {
						run.Violation("C16:vested-ahead-of-schedule:"+magnitude(A), fmt.Sprintf("destination.unlock: amount %d, duration %d s, calls at start+%v: vested %d > ceil(linear) %s", A, D, calls, uint64(nd.Vested), lim), replay)
					}
					d = nd
					if k == len(times)-1 && d.Vested != d.Amount && !bad {
						run.Violation("C16:destination-cannot-receive-amount-after-expiry:"+magnitude(A)+":arith", fmt.Sprintf("amount %d, duration %d, calls at start+%v: vested %d after three calls at the end", A, D, calls, uint64(d.Vested)), replay)
					}
				}
				key := fmt.Sprintf("%s/D=%d/calls=%d/exact=%v", magnitude(A), D, len(times), !bad)
				run.Outcome(key)
				if mask == 1 {
					run.Sample(map[string]any{"amount": A, "duration": D, "calls_after_start": calls, "vested_at_end": uint64(d.Vested)})
				}
				run.States++
			}
		}
	}
	run.Bounds["amounts"] = amounts
	run.Bounds["durations_s"] = durs
	run.Rule = "for every amount of the boundary alphabet x every duration x EVERY subset of the seconds (start, end] as call times, followed by three calls at the end: the real destination.unlock is called in sequence; oracle: vested monotone, <= amount, <= ceil(amount*elapsed/duration) in big integers, paid == vested increase, vested == amount after the calls at the end"
	run.Assumptions = []string{"destination.unlock is reached through a forwarding export shim; pool-level effects (balance, transfers) are covered by the chain part"}
}
