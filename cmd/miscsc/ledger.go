package main

import (
	"verif/lib/chainsim"
	"verif/lib/ev"
	"verif/lib/mon"
)

// C01 / C05 parts "misc-<scenario>": the supply and balance oracles of the chain-level group over
// the small-contract scenarios (contract wallets that are created by a first deposit, drained to
// exactly zero by unlock / delete / mint / vote execution, refilled ...).
func init() {
	checks["C01"] = func(run *ev.Run) { ledger(run, "supply", mon.SupplyMonitor) }
	checks["C05"] = func(run *ev.Run) { ledger(run, "balance", mon.BalanceMonitor, mon.SupplyMonitor) }
}

func ledger(run *ev.Run, what string, mons ...chainsim.Monitor) {
	which := "vesting"
	if a := argsAfterTier(); len(a) > 0 {
		which = a[0]
	}
	var sc *scenario
	switch which {
	case "vesting":
		sc = vestingScenario(run)
		sc.dq, sc.dt = 3, 4
	case "faucet":
		sc = faucetScenario(run, false)
		sc.dq, sc.dt = 3, 4
	case "multisig":
		sc, _ = multisigScenario(run)
		sc.dq, sc.dt = 3, 4
	case "bridge":
		sc = bridgeScenario(run, 0.7)
		sc.acts = append(pickMints(sc.acts), bridgeLedgerActions(sc)...)
		sc.dq, sc.dt = 3, 3
		sc.ignoreTime = true
	default:
		ev.Fatal("unknown scenario %s", which)
	}
	run.Rule = what + " oracle of the chain-level group (lib/mon) on every transition of the " + which + " scenario: " + sc.rule
	explore(run, sc.w, sc.acts, sc.roots, run.Pick(sc.dq, sc.dt), sc.ignoreTime, 40, 240, mons...)
}
