package main

import (
	"encoding/json"
	"fmt"
	"math"
	"math/big"
	"sort"
	"strings"

	"0chain.net/chaincore/state"
	"0chain.net/chaincore/transaction"
	"0chain.net/smartcontract/stakepool"
	"0chain.net/smartcontract/stakepool/spenum"
	"0chain.net/smartcontract/zcnsc"
	"github.com/0chain/common/core/currency"
	"github.com/herumi/bls-go-binary/bls"
	"verif/lib/chainsim"
	"verif/lib/ev"
	"verif/lib/world"
)

func init() { checks["C18"] = c18 }

const ethTxn = "0x1111111111111111111111111111111111111111111111111111111111111111"

// sigEntry: one element of the signatures list of a mint payload.
type sigEntry struct {
	As   string // authorizer whose id the entry carries ("a0".."a2", "u" = unregistered key)
	Kind string // valid | forged (signed by the unregistered key) | amount | nonce | receiver (valid signature over a different field)
}

func (e sigEntry) String() string {
	if e.Kind == "valid" {
		return e.As
	}
	return e.As + ":" + e.Kind
}

type mintCase struct {
	Amount    currency.Coin
	Nonce     int64
	Receiver  string
	Submitter string
	Sigs      []sigEntry
}

var mintCases = map[string]*mintCase{}

func mintPayload(w *world.World, mc *mintCase) *zcnsc.MintPayload {
	p := &zcnsc.MintPayload{EthereumTxnID: ethTxn, Amount: mc.Amount, Nonce: mc.Nonce, ReceivingClientID: w.Actors[mc.Receiver].ID}
	for _, e := range mc.Sigs {
		q := *p
		q.Signatures = nil
		signer := w.Actors[e.As]
		switch e.Kind {
		case "forged":
			signer = w.Actors["u"]
		case "amount":
			q.Amount = p.Amount + 1
		case "nonce":
			q.Nonce = p.Nonce + 1
		case "receiver":
			q.ReceivingClientID = w.Actors["c1"].ID
		}
		sig, err := signer.Scheme.Sign(q.GetStringToSign())
		if err != nil {
			panic(err)
		}
		id := w.Actors[e.As].ID
		switch e.Kind {
		case "upper", "mixed", "miracl":
			sig = respell(sig, e.Kind)
		case "idupper":
			id = strings.ToUpper(id)
		}
		p.Signatures = append(p.Signatures, &zcnsc.AuthorizerSignature{ID: id, Signature: sig})
	}
	return p
}

// respell returns another spelling of the same BLS signature that BLS0ChainScheme.Verify accepts:
// upper-case hex, mixed-case hex, or the MIRACL "(x,y)" form (affine coordinates in hex).
func respell(sig, how string) string {
	switch how {
	case "upper":
		return strings.ToUpper(sig)
	case "mixed":
		b := []byte(strings.ToLower(sig))
		for i := 0; i < len(b); i += 2 {
			if b[i] >= 'a' && b[i] <= 'f' {
				b[i] -= 'a' - 'A'
			}
		}
		if string(b) == strings.ToLower(sig) || string(b) == strings.ToUpper(sig) {
			panic("mixed-case spelling coincides with another spelling")
		}
		return string(b)
	case "miracl":
		var sg bls.Sign
		if err := sg.DeserializeHexStr(sig); err != nil {
			panic(err)
		}
		f := strings.Fields(sg.GetHexString()) // "1 x y"
		if len(f) != 3 {
			panic("unexpected signature string " + sg.GetHexString())
		}
		return "(" + f[1] + "," + f[2] + ")"
	}
	return sig
}

func mintAction(w *world.World, mc mintCase) chainsim.Action {
	var ss []string
	for _, e := range mc.Sigs {
		ss = append(ss, e.String())
	}
	tag := fmt.Sprintf("[n=%d,amt=%d,to=%s,sigs=%s]", mc.Nonce, uint64(mc.Amount), mc.Receiver, strings.Join(ss, ","))
	a := call(w, mc.Submitter, "zcnsc", zcnsc.MintFunc, mintPayload(w, &mc), 0, 0, tag)
	c := mc
	mintCases[a.Name] = &c
	return a
}

// authorizers registered in a state: id -> public key (decoded from the provider nodes).
func registeredAuthorizers(ls []world.Leaf, w *world.World, names []string) map[string]string {
	out := map[string]string{}
	for _, n := range names {
		a := w.Actors[n]
		b := leafByKey(ls, zcnsc.NewAuthorizerNode(a.ID).GetKey())
		if b == nil {
			continue
		}
		an := zcnsc.NewAuthorizerNode(a.ID)
		if _, err := an.UnmarshalMsg(b); err != nil {
			ev.Fatal("authorizer node: %v", err)
		}
		out[an.ID] = an.PublicKey
	}
	return out
}

// mintMonitor (C18).
func mintMonitor(w *world.World, authNames []string) chainsim.Monitor {
	minted := map[*chainsim.SNode]map[int64]bool{} // nonces already minted along the path
	pg := &purger{}
	return func(s *chainsim.Step, v func(key, what string)) {
		purgeOld(pg, minted, s.Pre)
		h := minted[s.Pre]
		defer func() {
			if s.Err == nil {
				minted[s.Post] = h
			}
		}()
		preA, postA := accounts(s.Pre.Leaves), accounts(s.Post.Leaves)
		walletOut := int64(preA[zcnsc.ADDRESS].Bal) - int64(postA[zcnsc.ADDRESS].Bal)
		isMint := s.Txn.ToClientID == zcnsc.ADDRESS && s.Txn.FunctionName == zcnsc.MintFunc
		if !isMint {
			return
		}
		if s.Err != nil {
			if len(s.Diff) > 0 {
				v("C18:rejected-mint-changed-state", fmt.Sprintf("%d leaves changed by a rejected transaction", len(s.Diff)))
			}
			return
		}
		p := &zcnsc.MintPayload{}
		if err := p.Decode(scInput(s.Txn)); err != nil {
			return
		}
		gn := zcnGlobal(s.Pre.Leaves)
		reg := registeredAuthorizers(s.Pre.Leaves, w, authNames)
		// distinct registered authorizers with a valid signature over exactly (txn id, amount, nonce, receiver)
		toSign := p.GetStringToSign()
		valid := map[string]bool{}
		for _, e := range p.Signatures {
			pk, ok := reg[e.ID]
			if !ok {
				continue
			}
			for _, n := range authNames {
				if a := w.Actors[n]; a.ID == e.ID && a.PublicKey == pk {
					if ok, err := a.Scheme.Verify(e.Signature, toSign); ok && err == nil {
						valid[e.ID] = true
					}
				}
			}
		}
		threshold := int(math.RoundToEven(gn.PercentAuthorizers * float64(len(reg))))
		strict := int(math.Ceil(gn.PercentAuthorizers*float64(len(reg)) - 1e-9))
		received := int64(postA[p.ReceivingClientID].Bal) - int64(preA[p.ReceivingClientID].Bal)
		if p.ReceivingClientID == s.Txn.ClientID {
			received += int64(s.Txn.Fee)
		}
		accepted := s.Txn.Status == transaction.TxnSuccess && walletOut > 0
		class := fmt.Sprintf("valid=%d-of-%d", len(valid), len(reg))
		if !accepted {
			s.Tag("mint:not-minted:" + class)
			// nothing may be minted by a failed call
			if walletOut != 0 || received != 0 {
				v("C18:failed-mint-moved-tokens", fmt.Sprintf("bridge wallet lost %d, receiver gained %d in a mint that was not accepted", walletOut, received))
			}
			return
		}
		s.Tag("mint:minted:" + class)
		mc := mintCases[s.Action.Name]
		shape := "?"
		if mc != nil {
			var ss []string
			for _, e := range mc.Sigs {
				ss = append(ss, e.Kind)
			}
			shape = strings.Join(ss, ",")
		}
		if len(valid) < threshold || len(valid) == 0 {
			// which kind of entry was wrongly counted?
			invalidUnderRegisteredID := false
			for _, e := range p.Signatures {
				if _, ok := reg[e.ID]; ok && !valid[e.ID] {
					invalidUnderRegisteredID = true
				}
			}
			cause := "too-few-distinct-signers-all-signatures-valid"
			spellings := map[string]bool{}
			for _, e := range p.Signatures {
				spellings[e.ID+":"+e.Signature] = true
			}
			ids := map[string]bool{}
			for _, e := range p.Signatures {
				ids[e.ID] = true
			}
			if len(spellings) > len(ids) {
				cause = "one-authorizer-counted-several-times-through-respelled-signature-or-id"
			}
			if invalidUnderRegisteredID {
				cause = "invalid-signature-under-registered-authorizer-id-counted"
			}
			if len(p.Signatures) > len(reg) {
				cause += ":list-longer-than-registered-authorizers"
			}
			v("C18:minted-without-quorum:"+cause, fmt.Sprintf("mint accepted with %d distinct registered authorizers validly signing (txn id, amount, nonce, receiver); threshold round(%.2f*%d)=%d; signature entries: %s", len(valid), gn.PercentAuthorizers, len(reg), threshold, shape))
		} else if len(valid) < strict {
			s.Tag(fmt.Sprintf("minted-with-%d-of-%d-below-ceil(%.2f*n)=%d", len(valid), len(reg), gn.PercentAuthorizers, strict))
		}
		if s.Txn.ClientID != p.ReceivingClientID {
			v("C18:minted-for-submitter-other-than-receiver", fmt.Sprintf("submitter %.8s, receiving client %.8s", s.Txn.ClientID, p.ReceivingClientID))
		}
		if h[p.Nonce] {
			v("C18:mint-nonce-accepted-twice", fmt.Sprintf("nonce %d minted again (amount %d)", p.Nonce, uint64(p.Amount)))
		}
		h2 := map[int64]bool{p.Nonce: true}
		for k := range h {
			h2[k] = true
		}
		h = h2
		// amounts: receiver gets amount - fee, the fee (<= max_fee) is credited to an authorizer's stake pool
		credited := new(big.Int).Sub(liabilities(s.Post.Leaves)[zcnsc.ADDRESS], liabilities(s.Pre.Leaves)[zcnsc.ADDRESS]).Int64()
		fee := int64(p.Amount) - received
		switch {
		case walletOut != received:
			v("C18:bridge-wallet-paid-differs-from-received", fmt.Sprintf("bridge wallet lost %d, receiver gained %d", walletOut, received))
		case fee < 0 || fee > int64(gn.MaxFee):
			v("C18:receiver-amount-not-requested-minus-fee", fmt.Sprintf("requested %d, received %d: difference %d is not within [0, max_fee=%d]", uint64(p.Amount), received, fee, uint64(gn.MaxFee)))
		case credited != fee:
			if credited == 0 && !anyEligiblePool(s.Pre.Leaves, w, authNames, gn) {
				s.Tag("fee-kept-by-bridge-wallet:no-authorizer-pool-has-min-stake")
			} else {
				v("C18:authorizer-fee-not-credited", fmt.Sprintf("receiver got requested %d minus %d, but authorizer stake pools were credited %d", uint64(p.Amount), fee, credited))
			}
		default:
			s.Tag("fee-credited-to-authorizer-pool")
		}
		for _, t := range effective(s) {
			if t.ClientID == zcnsc.ADDRESS && t.ToClientID != p.ReceivingClientID {
				v("C18:minted-to-other-than-receiver", fmt.Sprintf("bridge wallet paid %d to %.8s", uint64(t.Amount), t.ToClientID))
			}
		}
	}
}

func effective(s *chainsim.Step) []*state.Transfer {
	ts, _ := effectiveTransfers(s)
	return ts
}

func anyEligiblePool(ls []world.Leaf, w *world.World, names []string, gn *zcnsc.GlobalNode) bool {
	for _, n := range names {
		b := leafByKey(ls, stakepool.StakePoolKey(spenum.Authorizer, w.Actors[n].ID))
		if b == nil {
			continue
		}
		sp := zcnsc.NewStakePool()
		if _, err := sp.UnmarshalMsg(b); err != nil {
			continue
		}
		var tot currency.Coin
		for _, d := range sp.Pools {
			tot += d.Balance
		}
		if tot >= sp.Settings.MinStake && !sp.HasBeenKilled {
			return true
		}
	}
	return false
}

func bridgeScenario(run *ev.Run, percent float64) *scenario {
	sc := &scenario{}
	auth := []*world.Actor{world.DetKey("a0"), world.DetKey("a1"), world.DetKey("a2"), world.DetKey("u")}
	fund := map[string]currency.Coin{}
	for _, a := range auth {
		fund[a.ID] = 1e6
	}
	sc.w = world.New(world.Options{ExtraFund: fund, SC: map[string]any{"smart_contracts.zcnsc.percent_authorizers": percent, "smart_contracts.zcnsc.min_mint": units(500)}})
	w := sc.w
	for _, a := range auth {
		w.Actors[a.Name] = a
		w.ByID[a.ID] = a
	}
	var root []chainsim.Action
	for _, n := range []string{"a0", "a1", "a2"} {
		a := w.Actors[n]
		root = append(root, call(w, "owner", "zcnsc", zcnsc.AddAuthorizerFunc, map[string]any{"public_key": a.PublicKey, "url": "https://" + n,
			"stake_pool_settings": map[string]any{"delegate_wallet": w.Actors["c2"].ID, "num_delegates": 5, "service_charge": 0.1}}, 0, 0, "["+n+"]"))
	}
	for _, n := range []string{"a0", "a1", "a2"} {
		root = append(root, call(w, "c2", "zcnsc", zcnsc.AddToDelegatePoolFunc, map[string]any{"provider_type": spenum.Authorizer, "provider_id": w.Actors[n].ID}, 1e10, 0, "["+n+",1e10]"))
	}
	sc.roots = [][]chainsim.Action{root, root[:3]} // second start state: authorizers registered but unstaked
	if percent == 1.0 || !run.Thorough() {
		sc.roots = sc.roots[:1] // the unstaked start state is explored by the thorough tier of part main
	}
	// signature sets: every assignment of {absent, valid, forged} to the three authorizers, with and without an entry of the unregistered key
	kinds := []string{"", "valid", "forged"}
	for m := 0; m < 27; m++ {
		for _, withU := range []bool{false, true} {
			var sigs []sigEntry
			x := m
			for i := 0; i < 3; i++ {
				if k := kinds[x%3]; k != "" {
					sigs = append(sigs, sigEntry{fmt.Sprintf("a%d", i), k})
				}
				x /= 3
			}
			if withU {
				if !run.Thorough() && m%3 != 0 {
					continue // quick tier: the unregistered key's entry joins every third signature set only
				}
				sigs = append(sigs, sigEntry{"u", "valid"})
			}
			if len(sigs) == 0 {
				continue
			}
			sc.acts = append(sc.acts, mintAction(w, mintCase{1000, 1, "c0", "c0", sigs}))
		}
	}
	V := func(a string) sigEntry { return sigEntry{a, "valid"} }
	extra := []mintCase{
		// valid signatures over a different amount / nonce / receiver in place of one valid signature
		{1000, 1, "c0", "c0", []sigEntry{V("a0"), {"a1", "amount"}}},
		{1000, 1, "c0", "c0", []sigEntry{V("a0"), {"a1", "nonce"}}},
		{1000, 1, "c0", "c0", []sigEntry{V("a0"), {"a1", "receiver"}}},
		{1000, 1, "c0", "c0", []sigEntry{V("a0"), V("a1"), {"a2", "amount"}}},
		{1000, 1, "c0", "c0", []sigEntry{{"a0", "amount"}, {"a1", "amount"}, {"a2", "amount"}}},
		// duplicates
		{1000, 1, "c0", "c0", []sigEntry{V("a0"), V("a0")}},
		{1000, 1, "c0", "c0", []sigEntry{V("a0"), V("a0"), V("a0")}},
		{1000, 1, "c0", "c0", []sigEntry{V("a0"), V("a0"), V("a1")}},
		{1000, 1, "c0", "c0", []sigEntry{{"a0", "forged"}, V("a0"), V("a1")}},
		{1000, 1, "c0", "c0", []sigEntry{V("a0"), {"a0", "forged"}, V("a1")}},
		{1000, 1, "c0", "c0", []sigEntry{V("u"), V("u")}},
		// more entries than authorizers (the contract looks at the first three only)
		{1000, 1, "c0", "c0", []sigEntry{V("a0"), V("a1"), V("a2"), V("u")}},
		{1000, 1, "c0", "c0", []sigEntry{V("u"), V("a0"), V("a1"), V("a2")}},
		{1000, 1, "c0", "c0", []sigEntry{V("a0"), V("a0"), V("a0"), V("a1")}},
		// submitter is not the receiver
		{1000, 1, "c0", "c1", []sigEntry{V("a0"), V("a1"), V("a2")}},
		{1000, 1, "c1", "c1", []sigEntry{V("a0"), V("a1"), V("a2")}}, // same nonce, other receiver (signed for c1)
		// nonce reuse with other content, second nonce, amounts at the fee / minimum
		{2000, 1, "c0", "c0", []sigEntry{V("a0"), V("a1"), V("a2")}},
		{1000, 2, "c0", "c0", []sigEntry{V("a0"), V("a1")}},
		{1000, 0, "c0", "c0", []sigEntry{V("a0"), V("a1")}},
		{500, 3, "c0", "c0", []sigEntry{V("a0"), V("a1"), V("a2")}},
		{499, 3, "c0", "c0", []sigEntry{V("a0"), V("a1"), V("a2")}},
		{100, 4, "c0", "c0", []sigEntry{V("a0"), V("a1"), V("a2")}},
	}
	// the same valid signature of ONE authorizer listed k times in different spellings (lower / upper / mixed
	// case hex, MIRACL "(x,y)" form - Verify accepts all of them), k = threshold and threshold+1, alone and
	// together with one other honest signer; plus the same entry under an upper-cased authorizer id
	threshold := int(math.RoundToEven(percent * 3))
	spell := []string{"valid", "upper", "mixed", "miracl"}
	for i := 0; i < 3; i++ {
		if i == 2 && !run.Thorough() {
			break // quick tier: respellings for two of the three authorizers
		}
		a, other := fmt.Sprintf("a%d", i), fmt.Sprintf("a%d", (i+1)%3)
		for _, k := range []int{threshold, threshold + 1} {
			for _, start := range []int{0, 1} { // two different selections of spellings
				var sigs []sigEntry
				for j := 0; j < k; j++ {
					sigs = append(sigs, sigEntry{a, spell[(start+j)%len(spell)]})
				}
				extra = append(extra, mintCase{1000, 1, "c0", "c0", sigs})
				if start == 0 {
					extra = append(extra, mintCase{1000, 1, "c0", "c0", append([]sigEntry{V(other)}, sigs...)})
					extra = append(extra, mintCase{1000, 1, "c0", "c0", append(append([]sigEntry{}, sigs...), V(other))})
				}
			}
		}
		extra = append(extra, mintCase{1000, 1, "c0", "c0", []sigEntry{V(a), {a, "idupper"}}})
		extra = append(extra, mintCase{1000, 1, "c0", "c0", []sigEntry{{a, "miracl"}, {other, "upper"}}}) // honest quorum, respelled
	}
	// lists LONGER than the number of registered authorizers (the contract cuts the list off after numAuth
	// entries): one authorizer's valid signature repeated, a forged signature under another authorizer's id,
	// an unregistered id and another authorizer's valid signature in every placement before / after the cut-off
	A, Bf, U, Bv := V("a0"), sigEntry{"a1", "forged"}, V("u"), V("a1")
	E := []sigEntry{A, Bf, U, Bv}
	var heads [][]sigEntry
	if run.Thorough() {
		for i := 0; i < 64; i++ { // every head of three entries that contains the repeated authorizer at least once
			h := []sigEntry{E[i%4], E[i/4%4], E[i/16]}
			if h[0] == A || h[1] == A || h[2] == A {
				heads = append(heads, h)
			}
		}
	} else {
		heads = append(heads, []sigEntry{A, A, A})
		for _, x := range []sigEntry{Bf, U, Bv} {
			heads = append(heads, []sigEntry{A, A, x}, []sigEntry{A, x, A}, []sigEntry{x, A, A})
		}
	}
	tails2 := [][]sigEntry{{Bf, Bf}, {Bf, U}, {U, Bv}, {Bv, Bf}, {A, Bf}, {U, U}}
	if run.Thorough() {
		tails2 = nil
		for i := 0; i < 16; i++ {
			tails2 = append(tails2, []sigEntry{E[i%4], E[i/4]})
		}
	}
	for _, h := range heads {
		for _, y := range E { // numAuth+1 entries
			extra = append(extra, mintCase{1000, 1, "c0", "c0", append(append([]sigEntry{}, h...), y)})
		}
	}
	for hi, h := range heads { // numAuth+2 entries
		if !run.Thorough() && hi > 0 {
			break
		}
		for _, t := range tails2 {
			extra = append(extra, mintCase{1000, 1, "c0", "c0", append(append([]sigEntry{}, h...), t...)})
		}
	}
	have := map[string]bool{}
	for _, a := range sc.acts {
		have[a.Name] = true
	}
	for _, mc := range extra {
		a := mintAction(w, mc)
		if have[a.Name] {
			continue
		}
		have[a.Name] = true
		sc.acts = append(sc.acts, a)
	}
	sc.acts = append(sc.acts, rawMintActions(w)...)
	sc.dq, sc.dt = 2, 4
	sc.rule = "3 authorizers registered and staked through transactions (+1 unregistered key; second start state: registered but unstaked); BFS over mint payloads: every assignment of {absent, valid, forged-under-that-id} to the three authorizers with/without an entry of the unregistered key (53 sets), valid signatures over a different amount / nonce / receiver, duplicated entries in both orders, lists of numAuth+1 and numAuth+2 entries with {one authorizer's valid signature repeated, forged under another authorizer's id, unregistered id, another valid signature} in every placement before / after the contract's cut-off, submitter != receiver, nonce reuse with the same and with other content, amounts at min_mint and max_fee; oracle: minted => >= round(fraction*n) DISTINCT registered authorizers validly signed exactly (txn id, amount, nonce, receiver) (every signature re-verified by the monitor), submitter == receiver, nonce not minted before on this path, receiver gets amount - fee with 0 <= fee <= max_fee, bridge wallet pays exactly that, fee credited to authorizer stake pools; not minted => no tokens move"
	return sc
}

func c18(run *ev.Run) {
	percent := 0.7
	if a := argsAfterTier(); len(a) > 0 && a[0] == "unanimous" {
		percent = 1.0
	}
	sc := bridgeScenario(run, percent)
	run.Rule = sc.rule
	run.Bounds["percent_authorizers"] = percent
	_ = json.Marshal
	explore(run, sc.w, sc.acts, sc.roots, run.Pick(sc.dq, sc.dt), true, 50, 780, mintMonitor(sc.w, []string{"a0", "a1", "a2"}))
}

// rawMintActions: payloads whose JSON spells the same thing differently (duplicated keys - the last one wins in
// the contract's decoder -, numbers written as 1.0 / 1e0, upper-cased receiver id). The monitor decodes the
// payload with the contract's own decoder, so what it judges is what the contract saw.
func rawMintActions(w *world.World) []chainsim.Action {
	sign := func(amount currency.Coin, nonce int64, receiver string, who ...string) string {
		p := &zcnsc.MintPayload{EthereumTxnID: ethTxn, Amount: amount, Nonce: nonce, ReceivingClientID: receiver}
		var parts []string
		for _, n := range who {
			sig, err := w.Actors[n].Scheme.Sign(p.GetStringToSign())
			if err != nil {
				panic(err)
			}
			parts = append(parts, fmt.Sprintf(`{"authorizer_id":%q,"signature":%q}`, w.Actors[n].ID, sig))
		}
		return "[" + strings.Join(parts, ",") + "]"
	}
	c0 := w.Actors["c0"].ID
	raw := map[string]string{
		// nonce written twice: signatures are over nonce 2 (the value the decoder keeps)
		"[raw:nonce-key-twice(1,2),signed-for-2]": fmt.Sprintf(`{"ethereum_txn_id":%q,"amount":1000,"nonce":1,"receiving_client_id":%q,"signatures":%s,"nonce":2}`, ethTxn, c0, sign(1000, 2, c0, "a0", "a1")),
		// ... and over nonce 1 (the value the decoder drops)
		"[raw:nonce-key-twice(1,2),signed-for-1]": fmt.Sprintf(`{"ethereum_txn_id":%q,"amount":1000,"nonce":1,"receiving_client_id":%q,"signatures":%s,"nonce":2}`, ethTxn, c0, sign(1000, 1, c0, "a0", "a1")),
		// amount written twice
		"[raw:amount-key-twice(1000,5000),signed-for-1000]": fmt.Sprintf(`{"ethereum_txn_id":%q,"amount":1000,"nonce":1,"receiving_client_id":%q,"signatures":%s,"amount":5000}`, ethTxn, c0, sign(1000, 1, c0, "a0", "a1")),
		// signatures list written twice: an empty honest-looking first list, the second one wins
		"[raw:signatures-key-twice]": fmt.Sprintf(`{"ethereum_txn_id":%q,"amount":1000,"nonce":1,"receiving_client_id":%q,"signatures":%s,"signatures":%s}`, ethTxn, c0, sign(1000, 1, c0, "a0", "a1", "a2"), sign(1000, 1, c0, "a0")),
		// numbers in another spelling
		"[raw:nonce=1.0]":    fmt.Sprintf(`{"ethereum_txn_id":%q,"amount":1000,"nonce":1.0,"receiving_client_id":%q,"signatures":%s}`, ethTxn, c0, sign(1000, 1, c0, "a0", "a1")),
		"[raw:amount=1e3]":   fmt.Sprintf(`{"ethereum_txn_id":%q,"amount":1e3,"nonce":1,"receiving_client_id":%q,"signatures":%s}`, ethTxn, c0, sign(1000, 1, c0, "a0", "a1")),
		"[raw:amount=-1000]": fmt.Sprintf(`{"ethereum_txn_id":%q,"amount":-1000,"nonce":1,"receiving_client_id":%q,"signatures":%s}`, ethTxn, c0, sign(1000, 1, c0, "a0", "a1")),
		// receiver id in upper case (signed as spelled)
		"[raw:receiver-id-upper]": fmt.Sprintf(`{"ethereum_txn_id":%q,"amount":1000,"nonce":1,"receiving_client_id":%q,"signatures":%s}`, ethTxn, strings.ToUpper(c0), sign(1000, 1, strings.ToUpper(c0), "a0", "a1")),
	}
	var names []string
	for n := range raw {
		names = append(names, n)
	}
	sort.Strings(names)
	var out []chainsim.Action
	for _, n := range names {
		out = append(out, call(w, "c0", "zcnsc", zcnsc.MintFunc, raw[n], 0, 0, n))
	}
	return out
}
