package main

import (
	"fmt"
	"time"

	"0chain.net/chaincore/state"
	"0chain.net/chaincore/transaction"
	"verif/lib/world"
)

func main() {
	t0 := time.Now()
	w := world.New(world.Options{})
	fmt.Println("world built in", time.Since(t0))
	g := w.GenesisNode()
	ls := world.Leaves(g.State)
	fmt.Println("leaves", len(ls))
	var sum uint64
	n := 0
	for _, l := range ls {
		s := &state.State{}
		if _, err := s.UnmarshalMsg(l.Value); err == nil {
			n++
		}
		_ = sum
	}
	fmt.Println("decodable as state:", n)
	c0, c1 := w.Clients[0], w.Clients[1]
	b0, n0 := world.Balance(g.State, c0.ID)
	fmt.Println("c0", b0, n0)
	nd := w.Open(g, 1, w.Genesis.CreationDate+10, w.Miners[0], 777, "")
	t1 := time.Now()
	tx := w.Txn(world.TxnSpec{From: c0, To: c1.ID, Type: transaction.TxnTypeSend, Value: 5, Fee: 100, Nonce: 1, Time: nd.Block.CreationDate})
	_, err := w.Exec(nd, tx)
	fmt.Println("exec", err, time.Since(t1), tx.Status)
	w.CloseBlock(nd)
	b0, n0 = world.Balance(nd.State, c0.ID)
	b1, _ := world.Balance(nd.State, c1.ID)
	fmt.Println("c0", b0, n0, "c1", b1)
	tx = w.Txn(world.TxnSpec{From: c0, To: world.SCAddresses["faucetsc"], Type: transaction.TxnTypeSmartContract, Value: 0, Fee: 0, Nonce: 2, Time: nd.Block.CreationDate + 1, Data: world.SC("pour", nil)})
	nd2 := w.Open(nd, 2, nd.Block.CreationDate+1, w.Miners[1], 778, "")
	_, err = w.Exec(nd2, tx)
	fmt.Println("pour", err, tx.Status, tx.TransactionOutput)
	b0, n0 = world.Balance(nd2.State, c0.ID)
	fmt.Println("c0", b0, n0)
}
