// C27: pruning never deletes state that a retained block still needs.
// Histories of real blocks (trie operations issued through the harness test contract kvsc on the
// real chain) are finalized one by one through the real Chain.finalizeBlock (save changes + record
// dead nodes) and pruned through the real Chain.pruneClientState and, for every version v, through
// the real PNodeDB.PruneBelowVersion(v) — including a crash at every prefix of the prune's write
// log followed by a re-run. Oracle: every finalized block with round >= v is completely readable
// from the persistent node DB alone and equals the leaf set it had when it was executed.
package main

import (
	"bytes"
	"errors"
	"context"
	"encoding/json"
	"fmt"
	"os"
	"os/exec"
	"runtime"
	"sort"
	"strings"
	"time"

	"0chain.net/chaincore/block"
	"0chain.net/chaincore/chain"
	"0chain.net/chaincore/round"
	"0chain.net/chaincore/transaction"
	"0chain.net/core/common"
	"0chain.net/core/datastore"
	"github.com/0chain/common/core/statecache"
	"github.com/0chain/common/core/util"
	"github.com/linxGnu/grocksdb"
	"verif/lib/ev"
	"verif/lib/kvsc"
	"verif/lib/world"
)

type bsh struct{ fail bool }

func (bsh) SaveMagicBlock() chain.MagicBlockSaveFunc                                       { return nil }
func (bsh) UpdatePendingBlock(context.Context, *block.Block, []datastore.Entity)          {}
func (h bsh) UpdateFinalizedBlock(context.Context, *block.Block) error {
	if h.fail {
		return errors.New("verif: injected failure in UpdateFinalizedBlock")
	}
	return nil
}

// a block action = list of transactions, each a list of kvsc ops
type blockAct struct {
	Name string
	Txns [][]kvsc.Op
}

func put(k, v string) kvsc.Op { return kvsc.Op{Op: "put", K: k, V: v} }
func del(k string) kvsc.Op    { return kvsc.Op{Op: "del", K: k} }

func alphabet(thorough bool) []blockAct {
	a := []blockAct{
		{"put(a,1)", [][]kvsc.Op{{put("a", "1")}}},
		{"put(a,2)", [][]kvsc.Op{{put("a", "2")}}},
		{"del(a)", [][]kvsc.Op{{del("a")}}},
		{"txn[del(a);put(a,1)]", [][]kvsc.Op{{del("a"), put("a", "1")}}},
		{"txn[put(a,1)];txn[del(a)];txn[put(a,1)]", [][]kvsc.Op{{put("a", "1")}, {del("a")}, {put("a", "1")}}},
		{"txn[del(a)];txn[put(a,1)]", [][]kvsc.Op{{del("a")}, {put("a", "1")}}},
		{"empty", nil},
	}
	if thorough {
		a = append(a,
			blockAct{"put(b,1)", [][]kvsc.Op{{put("b", "1")}}},
			blockAct{"txn[put(b,1);del(b)]", [][]kvsc.Op{{put("b", "1"), del("b")}}},
			blockAct{"del(b)", [][]kvsc.Op{{del("b")}}},
			blockAct{"txn[put(a,1)];txn[put(a,2)];txn[put(a,1)]", [][]kvsc.Op{{put("a", "1")}, {put("a", "2")}, {put("a", "1")}}},
			blockAct{"txn[put(a,1);fail]", [][]kvsc.Op{{put("a", "1"), {Op: "fail"}}}},
		)
	}
	return a
}

type finalized struct {
	round  int64
	root   []byte
	leaves string
	name   string
}

func leafKey(ls []world.Leaf) string {
	var b bytes.Buffer
	for _, l := range ls {
		b.WriteString(l.Path)
		b.WriteByte(0)
		b.Write(l.Value)
		b.WriteByte(1)
	}
	return b.String()
}

// readPersistent iterates the whole state of root over the persistent DB alone.
func readPersistent(w *world.World, root []byte, version int64) (string, error) {
	mpt := util.NewMerklePatriciaTrie(w.Chain.GetStateDB(), util.Sequence(version), root, statecache.NewEmpty())
	var out []world.Leaf
	err := mpt.Iterate(context.Background(), func(ctx context.Context, path util.Path, key util.Key, node util.Node) error {
		if ln, ok := node.(*util.LeafNode); ok {
			var v []byte
			if ln.Value != nil {
				v = ln.GetValueBytes()
			}
			out = append(out, world.Leaf{Path: string(path) + string(ln.Path), Value: append([]byte{}, v...)})
		}
		return nil
	}, util.NodeTypeLeafNode|util.NodeTypeFullNode|util.NodeTypeExtensionNode)
	if err != nil {
		return "", err
	}
	sort.Slice(out, func(i, j int) bool { return out[i].Path < out[j].Path })
	return leafKey(out), nil
}

type shardOut struct {
	Histories   int64             `json:"histories"`
	Blocks      int64             `json:"blocks"`
	Prunes      int64             `json:"prunes"`
	CrashPoints int64             `json:"crash_points"`
	Reads       int64             `json:"reads"`
	Violations  []map[string]any  `json:"violations"`
	Outcomes    map[string]int64  `json:"outcomes"`
	Capped      string            `json:"capped"`
	Samples     [][]string        `json:"samples"`
	Pruned      int64             `json:"nodes_pruned"`
}

var firstRound = 99

func main() {
	if len(os.Args) < 2 || os.Args[1] != "C27" {
		ev.Fatal("usage: prune C27 [quick|thorough]")
	}
	run := ev.Start("C27")
	depth := run.Pick(4, 5)
	firstRound = 104 - depth // blocks of a history of depth-1 end at round 102 and those of a full history at 103: the production prune (version 100) fires
	// part "young": the same histories on a YOUNG chain (rounds 1..depth): the production prune walks
	// its ring of finalized blocks back to the start of the chain and must then prune nothing
	if (len(os.Args) > 3 && os.Args[3] == "young") || os.Getenv("VERIF_C27_YOUNG") != "" {
		os.Setenv("VERIF_C27_YOUNG", "1") // inherited by the worker processes
		firstRound = 1
	}
	acts := alphabet(run.Thorough())
	if os.Getenv("VERIF_SHARD") == "" {
		parent(run, depth, acts)
		return
	}
	worker(run, depth, acts)
}

func parent(run *ev.Run, depth int, acts []blockAct) {
	n := runtime.NumCPU()
	bin := os.Getenv("VERIF_BIN")
	dir, _ := os.MkdirTemp(ev.Root()+"/.work", "c27")
	defer os.RemoveAll(dir)
	type res struct {
		i   int
		err error
		log string
	}
	ch := make(chan res, n)
	for i := 0; i < n; i++ {
		go func(i int) {
			cmd := exec.Command(bin, os.Args[1:]...)
			cmd.Env = append(os.Environ(), fmt.Sprintf("VERIF_SHARD=%d/%d", i, n), fmt.Sprintf("VERIF_SHARD_OUT=%s/%d.json", dir, i), "GOMAXPROCS=2")
			out, err := cmd.CombinedOutput()
			ch <- res{i, err, string(out)}
		}(i)
	}
	outcomes := map[string]int64{}
	var hist, blocks, prunes, crashes, reads, pruned int64
	for k := 0; k < n; k++ {
		r := <-ch
		data, rerr := os.ReadFile(fmt.Sprintf("%s/%d.json", dir, r.i))
		if r.err != nil || rerr != nil {
			tail := r.log
			if len(tail) > 2000 {
				tail = tail[len(tail)-2000:]
			}
			ev.Fatal("worker %d failed: %v\n%s", r.i, r.err, tail)
		}
		var so shardOut
		if err := json.Unmarshal(data, &so); err != nil {
			ev.Fatal("shard output: %v", err)
		}
		hist += so.Histories
		blocks += so.Blocks
		prunes += so.Prunes
		crashes += so.CrashPoints
		reads += so.Reads
		pruned += so.Pruned
		for _, v := range so.Violations {
			run.Violation(v["key"].(string), v["what"].(string), v["replay"])
		}
		for k, c := range so.Outcomes {
			outcomes[k] += c
			run.Outcome(k)
		}
		for _, s := range so.Samples {
			run.Sample(s)
		}
		if so.Capped != "" {
			run.Capped(so.Capped)
		}
	}
	run.Add(hist, blocks+prunes+crashes, reads)
	run.Rule = "all histories of depth blocks without faults, and all histories of depth-1 blocks with ONE failed finalization attempt of a different block for the same round (fault injected in UpdateFinalizedBlock, after save-changes and dead-node recording) at every position, over the block alphabet (puts, deletes, delete-and-recreate-identical within one transaction / across transactions of one block / across blocks, failed transaction, empty block) at rounds 98.. so that the production prune version (a multiple of 100) is crossed; after every finalization: real pruneClientState, and for every version v the real PruneBelowVersion(v) on a restored copy of the DB, with a crash at every prefix of the prune's write log followed by a re-run; distinct = distinct (action, prune outcome) classes"
	run.Bounds["depth"] = depth
	run.Bounds["alphabet"] = len(acts)
	run.Bounds["first_round"] = firstRound
	run.Extra["histories"] = hist
	run.Extra["blocks_finalized"] = blocks
	run.Extra["prunes"] = prunes
	run.Extra["crash_points"] = crashes
	run.Extra["full_state_reads"] = reads
	run.Extra["nodes_pruned"] = pruned
	run.Extra["transition_outcomes"] = outcomes
	var names []string
	for _, a := range acts {
		names = append(names, a.Name)
	}
	run.Extra["alphabet"] = names
	run.Assumptions = []string{"process-crash semantics of the node DB: completed writes persist in order, a WriteBatch is atomic (as in RocksDB); the DB is the in-memory grocksdb stand-in", "crash points are enumerated inside the prune; a crash during finalization itself is recovered by re-syncing the block in the real system and is not modelled", "trie operations are issued through the harness test contract kvsc over the real UpdateState path"}
	run.Finish()
}

func worker(run *ev.Run, depth int, acts []blockAct) {
	var idx, n int
	fmt.Sscanf(os.Getenv("VERIF_SHARD"), "%d/%d", &idx, &n)
	deadline := time.Now().Add(time.Duration(run.Pick(60, 800)) * time.Second)
	w := world.New(world.Options{Viper: map[string]any{"server_chain.state.prune_below_count": 2}})
	kvsc.Register()
	so := shardOut{Outcomes: map[string]int64{}}
	vs := grocksdb.VerifOpen(w.WorkDir + "/data/rocksdb/state")
	base := vs.Snapshot()
	c0 := w.Clients[0]
	counter := 0
	violate := func(key, what string, hist []string) {
		for _, v := range so.Violations {
			if v["key"] == key {
				return
			}
		}
		so.Violations = append(so.Violations, map[string]any{"key": key, "what": what + " | history: " + strings.Join(hist, " -> "), "replay": map[string]any{"history": hist, "first_round": firstRound}})
	}
	checkAll := func(fin []finalized, v int64, where string, hist []string) {
		for _, f := range fin {
			if f.round < v {
				continue
			}
			so.Reads++
			got, err := readPersistent(w, f.root, f.round)
			if err != nil {
				violate("C27:retained-block-unreadable:"+where, fmt.Sprintf("after pruning below %d the state of the retained block at round %d cannot be read: %v", v, f.round, err), hist)
				so.Outcomes["unreadable:"+where]++
				continue
			}
			if got != f.leaves {
				violate("C27:retained-block-state-differs:"+where, fmt.Sprintf("after pruning below %d the state of the retained block at round %d differs from what was executed", v, f.round), hist)
			}
		}
	}
	var rec func(prefix []int)
	// failAt >= 0: before block failAt is finalized, a DIFFERENT block for the same round (action
	// failAct on the same parent) is executed and its finalization fails inside UpdateFinalizedBlock
	// (after its changes were saved and its dead nodes recorded) - the retried-finalization fault.
	runHistory := func(seq []int, failAt, failAct int) {
		// fresh start: DB back to the genesis snapshot, chain back to genesis
		vs.Restore(base)
		w.Chain.SetupStateCache()
		w.Chain.VerifResetTo(w.Genesis, w.GenesisRound)
		parent := w.GenesisNode()
		var fin []finalized
		var hist []string
		nonce := int64(1)
		for i, ai := range seq {
			a := acts[ai]
			hist = append(hist, a.Name)
			rnd := int64(firstRound + i)
			if i == failAt {
				fa := acts[failAct]
				hist[len(hist)-1] = "[failed attempt: " + fa.Name + "] " + a.Name
				alt := w.Open(parent, rnd, w.Genesis.CreationDate+common.Timestamp(10+i), w.Miners[1], 2000+rnd, strings.Join(hist, "/")+"#alt")
				n2 := nonce
				for _, ops := range fa.Txns {
					n2++
					data, _ := json.Marshal(ops)
					t := w.Txn(world.TxnSpec{From: c0, To: kvsc.Address, Type: transaction.TxnTypeSmartContract, Nonce: n2, Data: world.SC("run", json.RawMessage(data)), Time: alt.Block.CreationDate})
					if _, err := w.Exec(alt, t); err != nil {
						ev.Fatal("exec alt %s: %v", fa.Name, err)
					}
				}
				w.CloseBlock(alt)
				w.Chain.AddRound(round.NewRound(rnd))
				w.Chain.AddBlock(alt.Block)
				alt.Block.RoundRank = 0
				if err := w.Chain.VerifFinalizeBlock(w.Ctx, alt.Block, bsh{fail: true}); err == nil {
					ev.Fatal("injected finalization failure did not fail")
				}
				so.Outcomes["failed-finalization-attempt:"+fa.Name]++
			}
			nd := w.Open(parent, rnd, w.Genesis.CreationDate+common.Timestamp(10+i), w.Miners[0], 1000+rnd, strings.Join(hist, "/"))
			for _, ops := range a.Txns {
				nonce++
				data, _ := json.Marshal(ops)
				t := w.Txn(world.TxnSpec{From: c0, To: kvsc.Address, Type: transaction.TxnTypeSmartContract, Nonce: nonce, Data: world.SC("run", json.RawMessage(data)), Time: nd.Block.CreationDate})
				if _, err := w.Exec(nd, t); err != nil {
					ev.Fatal("exec %s: %v", a.Name, err)
				}
			}
			w.CloseBlock(nd)
			leaves := leafKey(world.Leaves(nd.State))
			w.Chain.AddRound(round.NewRound(rnd))
			w.Chain.AddBlock(nd.Block)
			nd.Block.RoundRank = 0
			if err := w.Chain.VerifFinalizeBlock(w.Ctx, nd.Block, bsh{}); err != nil {
				ev.Fatal("finalize %s: %v", a.Name, err)
			}
			so.Blocks++
			fin = append(fin, finalized{round: rnd, root: append([]byte{}, nd.Block.ClientStateHash...), leaves: leaves, name: a.Name})
			// (0) before any pruning everything finalized is readable from the persistent DB
			checkAll(fin, 0, "no-prune", hist)
			// (1) the production prune
			before := len(vs.Keys("default"))
			w.Chain.VerifPruneClientState(w.Ctx)
			after := len(vs.Keys("default"))
			so.Prunes++
			so.Pruned += int64(before - after)
			lfb := w.Chain.GetLatestFinalizedBlock().Round
			prodV := int64(0)
			if before != after {
				so.Outcomes[fmt.Sprintf("production-prune-deleted-%d-nodes@lfb%d", before-after, lfb)]++
			} else {
				so.Outcomes["production-prune-noop"]++
			}
			// whatever version it used is a multiple of 100 <= lfb-2: blocks at rounds >= that stay readable
			if lfb-2 >= 100 {
				prodV = 100
			}
			_ = prodV
			checkAll(fin, prodV, "pruneClientState", hist)
			// (2) every version v directly, on a copy, with crash points
			snap := vs.Snapshot()
			for v := int64(firstRound); v <= rnd+1; v++ {
				vs.Restore(snap)
				l0 := vs.LogLen()
				if err := w.Chain.VerifPNodeDB().PruneBelowVersion(w.Ctx, v); err != nil {
					ev.Fatal("prune: %v", err)
				}
				log := vs.Log()[l0:]
				so.Prunes++
				so.Outcomes[fmt.Sprintf("%s:prune-below-%d:%d-log-records", a.Name, v-int64(firstRound), len(log))]++
				checkAll(fin, v, "PruneBelowVersion", hist)
				for k := 0; k < len(log); k++ { // crash after k of the prune's writes, then recover by pruning again
					vs.RestorePrefix(snap, log, k)
					so.CrashPoints++
					checkAll(fin, v, "PruneBelowVersion-crash", hist)
					if err := w.Chain.VerifPNodeDB().PruneBelowVersion(w.Ctx, v); err != nil {
						ev.Fatal("re-prune: %v", err)
					}
					checkAll(fin, v, "PruneBelowVersion-crash-recovered", hist)
				}
			}
			vs.Restore(snap)
			parent = nd
		}
		so.Histories++
		if len(so.Samples) < 2 {
			so.Samples = append(so.Samples, hist)
		}
	}
	one := func(seq []int, failAt, failAct int) {
		counter++
		if counter%n != idx {
			return
		}
		if time.Now().After(deadline) {
			so.Capped = "time budget hit"
			return
		}
		runHistory(seq, failAt, failAct)
	}
	rec = func(prefix []int) {
		if len(prefix) == depth-1 { // shorter histories carry the fault dimension: one failed attempt at any position
			for at := 0; at < len(prefix); at++ {
				for _, fa := range []int{1, 2} { // put(a,2), del(a)
					one(prefix, at, fa)
				}
			}
		}
		if len(prefix) == depth {
			one(prefix, -1, 0)
			return
		}
		for ai := range acts {
			rec(append(append([]int{}, prefix...), ai))
		}
	}
	rec(nil)
	data, _ := json.Marshal(so)
	os.WriteFile(os.Getenv("VERIF_SHARD_OUT"), data, 0o644)
	os.Exit(0)
}
