// Binary crypto: bounded exhaustive enumeration (engine E3) for the cryptographic properties
// C29 C30 C32 C34 C47 against the real repository code. One file per property.
package main

import (
	"crypto/ed25519"
	"crypto/sha256"
	"encoding/hex"
	"fmt"
	"os"
	"sort"
	"strings"
	"sync"

	"0chain.net/core/encryption"
	"github.com/0chain/common/core/logging"
	hbls "github.com/herumi/bls-go-binary/bls"
	"go.uber.org/zap"
	"golang.org/x/crypto/sha3"
	"verif/lib/ev"
)

func main() {
	if len(os.Args) < 2 {
		ev.Fatal("usage: crypto <C29|C30|C32|C34|C47> <quick|thorough>")
	}
	logging.Logger = zap.NewNop()
	logging.N2n = zap.NewNop()
	logging.MemUsage = zap.NewNop()
	// every random draw of the herumi library (polynomial coefficients in GetMasterSecretKey,
	// SetByCSPRNG in MakeDKG / GenerateSplitKeys) comes from this deterministic stream
	hbls.SetRandFunc(&detRand{})
	switch os.Args[1] {
	case "C29":
		c29()
	case "C30":
		c30()
	case "C32":
		c32()
	case "C34":
		c34()
	case "C47":
		c47()
	default:
		ev.Fatal("unknown property %s", os.Args[1])
	}
}

// detRand is a deterministic byte stream (SHA-256 in counter mode) used as the herumi RNG.
type detRand struct {
	mu  sync.Mutex
	ctr uint64
	buf []byte
}

func (d *detRand) Read(p []byte) (int, error) {
	d.mu.Lock()
	defer d.mu.Unlock()
	for i := range p {
		if len(d.buf) == 0 {
			h := sha256.Sum256([]byte(fmt.Sprintf("verif-crypto-rand-%d", d.ctr)))
			d.ctr++
			d.buf = h[:]
		}
		p[i] = d.buf[0]
		d.buf = d.buf[1:]
	}
	return len(p), nil
}

// refHash is the reference for "hash" in the statements: SHA3-256, lower-case hex.
func refHash(b []byte) string {
	h := sha3.Sum256(b)
	return hex.EncodeToString(h[:])
}

type keyPair struct {
	Scheme string
	Pub    string // hex
	Priv   string // hex
}

// detKey derives key pair number i of a scheme from a fixed label (no CSPRNG).
func detKey(scheme string, i int) keyPair {
	seed := sha256.Sum256([]byte(fmt.Sprintf("verif-key-%s-%d", scheme, i)))
	switch scheme {
	case encryption.SignatureSchemeEd25519:
		priv := ed25519.NewKeyFromSeed(seed[:])
		return keyPair{scheme, hex.EncodeToString(priv[32:]), hex.EncodeToString(priv)}
	case encryption.SignatureSchemeBls0chain:
		var sk hbls.SecretKey
		seed[31] &= 0x0f // below the group order
		if err := sk.SetLittleEndian(seed[:]); err != nil {
			ev.Fatal("bls secret key: %v", err)
		}
		return keyPair{scheme, sk.GetPublicKey().SerializeToHexStr(), hex.EncodeToString(sk.GetLittleEndian())}
	}
	ev.Fatal("unknown scheme %s", scheme)
	return keyPair{}
}

// signer returns a repository signature scheme holding the private key of kp (through ReadKeys).
func signer(kp keyPair) encryption.SignatureScheme {
	ss := encryption.GetSignatureScheme(kp.Scheme)
	if err := ss.ReadKeys(strings.NewReader(kp.Pub + "\n" + kp.Priv + "\n")); err != nil {
		ev.Fatal("ReadKeys(%s): %v", kp.Scheme, err)
	}
	return ss
}

// verifyWith runs the repository's public-key-only path: fresh scheme, SetPublicKey, Verify.
// Result classes: "ok" (true,nil), "false", "err:setkey", "err:verify", "panic".
func verifyWith(scheme, pub, sig, hash string) (res string) {
	defer func() {
		if r := recover(); r != nil {
			res = "panic"
		}
	}()
	ss := encryption.GetSignatureScheme(scheme)
	if err := ss.SetPublicKey(pub); err != nil {
		return "err:setkey"
	}
	ok, err := ss.Verify(sig, hash)
	if err != nil {
		return "err:verify"
	}
	if ok {
		return "ok"
	}
	return "false"
}

func flipBit(h string, bit int) string {
	b, _ := hex.DecodeString(h)
	b[bit/8] ^= 1 << uint(bit%8)
	return hex.EncodeToString(b)
}

func msgHash(i int) string { return refHash([]byte(fmt.Sprintf("message-%d", i))) }

// listOutcomes copies the distinct outcome classes into the evidence (when few enough to read).
func listOutcomes(run *ev.Run) {
	if len(run.Distinct) > 2000 {
		return
	}
	var ks []string
	for k := range run.Distinct {
		ks = append(ks, k)
	}
	sort.Strings(ks)
	run.Extra["outcome_classes"] = ks
}

func sortStrings(s []string) { sort.Strings(s) }

func mustHex(s string) []byte {
	b, err := hex.DecodeString(s)
	if err != nil {
		ev.Fatal("bad hex %q", s)
	}
	return b
}
