// C32 through the two call sites named in the statement, on a real chain object without a network:
//
//	chain.Chain.VerifyTickets     (tickets of miners k0,k1 over one block hash)
//	miner.Chain.ValidateTransactions (transactions of clients k0,k1, two payloads)
//
// Same transformation families and the same oracle as the API part.
package main

import (
	"context"
	"fmt"

	"0chain.net/chaincore/block"
	"0chain.net/chaincore/chain"
	"0chain.net/chaincore/node"
	"0chain.net/chaincore/transaction"
	"0chain.net/core/common"
	"0chain.net/core/config"
	"0chain.net/core/datastore"
	"0chain.net/core/memorystore"
	"0chain.net/core/viper"
	"0chain.net/miner"
	"verif/lib/ev"
)

var entitiesReady bool

// setupEntities registers the entity metadata the real constructors look up (no store is touched).
func setupEntities() {
	if entitiesReady {
		return
	}
	entitiesReady = true
	config.SetServerChainID("")
	sp := memorystore.GetStorageProvider()
	setupClientEntity()
	block.SetupEntity(sp)
	em := datastore.MetadataProvider()
	em.Name = "txn"
	em.Provider = transaction.Provider
	em.Store = sp
	datastore.RegisterEntityMetadata("txn", em)
	transaction.SetTxnTimeout(3600)
}

func newMinerNode(kp keyPair, idx int) *node.Node {
	pb := mustHex(kp.Pub)
	n, err := node.NewNode(map[interface{}]interface{}{
		"type": node.NodeTypeMiner, "public_ip": "127.0.0.1", "n2n_ip": "127.0.0.1", "port": 7000 + idx,
		"id": refHash(pb), "public_key": kp.Pub,
	})
	if err != nil {
		ev.Fatal("NewNode: %v", err)
	}
	return n
}

// c32Chains builds the chain objects sequentially (chain.Provider reads process-global config).
func c32Chains(run *ev.Run) (c *chain.Chain, mcs map[int]*chain.Chain, batches []int) {
	setupEntities()
	viper.Set("server_chain.client.signature_scheme", blsScheme)
	viper.Set("server_chain.block.validation.batch_size", 2)
	c = chain.Provider().(*chain.Chain)
	mcs = map[int]*chain.Chain{}
	batches = []int{1, 2, run.Pick(3, 4)}
	for _, b := range append(append([]int{}, batches...), 8) { // 8: keeps every identity-sum case in one batch
		viper.Set("server_chain.block.validation.batch_size", b)
		mcs[b] = chain.Provider().(*chain.Chain)
	}
	return
}

func c32Tickets(run *ev.Run, w *c32world, c *chain.Chain) {
	maxN := run.Pick(3, 4)
	mb := block.NewMagicBlock()
	mb.Miners = node.NewPool(node.NodeTypeMiner)
	mb.Sharders = node.NewPool(node.NodeTypeSharder)
	var minerIDs []string
	for i, kp := range w.keys {
		n := newMinerNode(kp, i)
		if err := mb.Miners.AddNode(n); err != nil {
			ev.Fatal("AddNode: %v", err)
		}
		minerIDs = append(minerIDs, n.GetKey())
	}
	mb.StartingRound = 0
	c.SetMagicBlock(mb)
	ctx := context.Background()
	blockHash := w.msgs[0]
	for n := 1; n <= maxN; n++ {
		for _, kv := range allVectors(n, 2) {
			mi := make([]int, n) // every ticket is over the same block hash (message 0)
			for _, x := range xforms(n) {
				sigs := w.apply(kv, mi, x)
				allValid := true
				bvts := make([]*block.VerificationTicket, n)
				for i := 0; i < n; i++ {
					if !w.vcache.ok(w.keys[kv[i]].Pub, sigs[i], blockHash) {
						allValid = false
					}
					bvts[i] = &block.VerificationTicket{VerifierID: minerIDs[kv[i]], Signature: sigs[i]}
				}
				err := c.VerifyTickets(ctx, blockHash, bvts, 1)
				run.Add(0, 0, 1)
				cls := sigClass(x, sigs, w.apply(kv, mi, xform{"perm", identity(n)}))
				run.Outcome(fmt.Sprintf("VerifyTickets/%s/valid=%v/accept=%v", cls, allValid, err == nil))
				if (err == nil) != allValid {
					key := "C32:VerifyTickets:" + cls
					what := "VerifyTickets accepts although an individual ticket signature is invalid"
					if allValid {
						key = "C32:VerifyTickets:rejects-all-valid:" + cls
						what = fmt.Sprintf("VerifyTickets rejects although every ticket is valid: %v", err)
					}
					run.Violation(key, fmt.Sprintf("%s: n=%d verifiers=%v %s=%v", what, n, kv, x.Family, x.Code),
						map[string]any{"site": "chain.VerifyTickets", "block_hash": blockHash, "tickets": bvts, "transformation": x})
				}
			}
		}
	}
	// identity-sum prefixes (tickets are aggregated as one batch)
	for _, ic := range identityCases(func(k, m int) string { return w.sigOf[k][m] }, true) {
		n := len(ic.ki)
		allValid := true
		bvts := make([]*block.VerificationTicket, n)
		for i := 0; i < n; i++ {
			if !w.vcache.ok(w.keys[ic.ki[i]].Pub, ic.sigs[i], blockHash) {
				allValid = false
			}
			bvts[i] = &block.VerificationTicket{VerifierID: minerIDs[ic.ki[i]], Signature: ic.sigs[i]}
		}
		err := c.VerifyTickets(ctx, blockHash, bvts, 1)
		run.Add(0, 0, 1)
		run.Outcome(fmt.Sprintf("VerifyTickets/identity-sum-prefix:%s/valid=%v/accept=%v", ic.class, allValid, err == nil))
		if (err == nil) != allValid {
			run.Violation("C32:VerifyTickets:identity-sum-prefix:"+ic.class,
				fmt.Sprintf("VerifyTickets returns %v, all tickets individually valid = %v: %s", err, allValid, ic.desc),
				map[string]any{"site": "chain.VerifyTickets", "block_hash": blockHash, "tickets": bvts, "layout": ic.desc})
		}
	}

}

func c32Txns(run *ev.Run, w *c32world, mcs map[int]*chain.Chain, batches []int) {
	maxN := run.Pick(3, 4)
	ctx := context.Background()
	var tcache verifyMemo
	for _, batch := range batches {
		miner.SetupMinerChain(mcs[batch])
		mc := miner.GetMinerChain()
		if mc.ValidationBatchSize() != batch || mc.ClientSignatureScheme() != blsScheme {
			ev.Fatal("miner chain config not applied: batch=%d scheme=%s", mc.ValidationBatchSize(), mc.ClientSignatureScheme())
		}
		now := common.Now()
		// the message of an entry is the hash of the transaction (client key k, payload m)
		mkTxn := func(k, m int) *transaction.Transaction {
			t := transaction.Provider().(*transaction.Transaction)
			t.ClientID = refHash(mustHex(w.keys[k].Pub))
			t.PublicKey = w.keys[k].Pub
			t.ToClientID = refHash([]byte("recipient"))
			t.TransactionData = fmt.Sprintf("payload-%d", m)
			t.Value = 5
			t.Fee = 1
			t.Nonce = 1
			t.CreationDate = now
			t.TransactionType = transaction.TxnTypeData
			t.OutputHash = t.ComputeOutputHash()
			return t
		}
		// signature of key k2 over the hash of txn (k,m): sigT[k2][k][m]
		var sigT [2][2][2]string
		var hashT [2][2]string
		for k := 0; k < 2; k++ {
			for m := 0; m < 2; m++ {
				hashT[k][m] = mkTxn(k, m).ComputeHash()
				for k2 := 0; k2 < 2; k2++ {
					s, err := signer(w.keys[k2]).Sign(hashT[k][m])
					if err != nil {
						ev.Fatal("sign: %v", err)
					}
					sigT[k2][k][m] = s
				}
			}
		}
		for n := 1; n <= maxN; n++ {
			for _, kv := range allVectors(n, 2) {
				for _, mv := range allVectors(n, 2) {
					valid := make([]string, n)
					for i := range valid {
						valid[i] = sigT[kv[i]][kv[i]][mv[i]]
					}
					for _, x := range xforms(n) {
						sigs := make([]string, n)
						for i := 0; i < n; i++ {
							switch x.Family {
							case "offset":
								sigs[i] = sigAdd(valid[i], w.delta, x.Code[i])
							case "perm":
								sigs[i] = valid[x.Code[i]]
							case "replace":
								switch x.Code[i] {
								case 0:
									sigs[i] = valid[i]
								case 1: // other key signs this transaction's hash
									sigs[i] = sigT[1-kv[i]][kv[i]][mv[i]]
								case 2: // same key, signature over the other payload's transaction hash
									sigs[i] = sigT[kv[i]][kv[i]][1-mv[i]]
								case 3:
									sigs[i] = flipBit(valid[i], 0)
								}
							}
						}
						b := block.Provider().(*block.Block)
						b.Round = 1
						b.CreationDate = now
						allValid := true
						for i := 0; i < n; i++ {
							t := mkTxn(kv[i], mv[i])
							t.Hash = hashT[kv[i]][mv[i]]
							t.Signature = sigs[i]
							if err := t.ComputeProperties(); err != nil {
								ev.Fatal("txn ComputeProperties: %v", err)
							}
							// individual check = the real per-transaction path (memoised on identical inputs)
							if !tcache.get(t.PublicKey+"|"+t.Signature+"|"+t.Hash, func() bool { return t.VerifySignature(ctx) == nil }) {
								allValid = false
							}
							b.Txns = append(b.Txns, t)
						}
						err := mc.ValidateTransactions(ctx, b)
						run.Add(0, 0, 1)
						cls := sigClass(x, sigs, valid)
						run.Outcome(fmt.Sprintf("ValidateTransactions/%s/valid=%v/accept=%v", cls, allValid, err == nil))
						if (err == nil) != allValid {
							key := "C32:ValidateTransactions:" + cls
							what := "ValidateTransactions accepts although an individual transaction signature is invalid"
							if allValid {
								key = "C32:ValidateTransactions:rejects-all-valid:" + cls
								what = fmt.Sprintf("ValidateTransactions rejects although every transaction signature is valid: %v", err)
							}
							run.Violation(key, fmt.Sprintf("%s: n=%d clients=%v payloads=%v batch=%d %s=%v", what, n, kv, mv, batch, x.Family, x.Code),
								map[string]any{"site": "miner.ValidateTransactions", "batch_size": batch, "clients": kv, "payloads": mv, "signatures": sigs, "txn_hashes": hashT, "transformation": x})
						}
					}
				}
			}
		}
		// identity-sum prefixes; additionally with a batch size that keeps every case in one batch
		idBatches := []int{batch}
		if batch == batches[len(batches)-1] {
			idBatches = append(idBatches, 8)
		}
		for _, ib := range idBatches {
			imc := mc
			if ib != batch {
				miner.SetupMinerChain(mcs[ib])
				imc = miner.GetMinerChain()
				if imc.ValidationBatchSize() != ib {
					ev.Fatal("batch size %d not applied", ib)
				}
			}
			for _, ic := range identityCases(func(k, m int) string { return sigT[k][k][m] }, false) {
				n := len(ic.ki)
				b := block.Provider().(*block.Block)
				b.Round = 1
				b.CreationDate = now
				allValid := true
				for i := 0; i < n; i++ {
					t := mkTxn(ic.ki[i], ic.mi[i])
					t.Hash = hashT[ic.ki[i]][ic.mi[i]]
					t.Signature = ic.sigs[i]
					if err := t.ComputeProperties(); err != nil {
						ev.Fatal("txn ComputeProperties: %v", err)
					}
					if !tcache.get(t.PublicKey+"|"+t.Signature+"|"+t.Hash, func() bool { return t.VerifySignature(ctx) == nil }) {
						allValid = false
					}
					b.Txns = append(b.Txns, t)
				}
				err := imc.ValidateTransactions(ctx, b)
				run.Add(0, 0, 1)
				run.Outcome(fmt.Sprintf("ValidateTransactions/identity-sum-prefix:%s/valid=%v/accept=%v", ic.class, allValid, err == nil))
				if (err == nil) != allValid {
					run.Violation("C32:ValidateTransactions:identity-sum-prefix:"+ic.class,
						fmt.Sprintf("ValidateTransactions returns %v, all transactions individually valid = %v: %s, batch=%d", err, allValid, ic.desc, ib),
						map[string]any{"site": "miner.ValidateTransactions", "batch_size": ib, "clients": ic.ki, "payloads": ic.mi, "signatures": ic.sigs, "layout": ic.desc})
				}
			}
		}
	}
}

func identity(n int) []int {
	p := make([]int, n)
	for i := range p {
		p[i] = i
	}
	return p
}

// sigClass names the shape of the transformed vector relative to the all-valid vector.
func sigClass(x xform, sigs, valid []string) string {
	same := true
	for i := range sigs {
		if sigs[i] != valid[i] {
			same = false
		}
	}
	if same {
		return "identity"
	}
	a := append([]string{}, sigs...)
	b := append([]string{}, valid...)
	sortStrings(a)
	sortStrings(b)
	multiset := true
	for i := range a {
		if a[i] != b[i] {
			multiset = false
		}
	}
	if multiset {
		return "swapped-signatures"
	}
	return x.class()
}

type verifyMemo struct{ m map[string]bool }

func (v *verifyMemo) get(k string, f func() bool) bool {
	if v.m == nil {
		v.m = map[string]bool{}
	}
	if r, ok := v.m[k]; ok {
		return r
	}
	r := f()
	v.m[k] = r
	return r
}
