package main

func c29() {}
func c30() {}
func c34() {}
