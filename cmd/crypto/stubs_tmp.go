package main

func c29() {}
