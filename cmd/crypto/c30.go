// C30: transaction signatures bind every field that affects execution.
//
// Base transactions: scheme {ed25519, bls0chain} x 2 clients x {send, data, smart-contract}.
// Tampering: reflect walk over every wire-visible field of transaction.Transaction (a field added
// later is covered automatically), every value of a per-kind alphabet, in three attacker variants:
//
//	plain   - only the field is changed (hash and signature stale)
//	rehash  - the field is changed and Hash is recomputed with the real ComputeHash (no private key)
//	resender- (sender only) ClientID and PublicKey replaced by another real client's, rehashed
//
// Each tampered transaction goes through the node's real intake: JSON encode -> JSON decode into a
// fresh entity -> ComputeProperties -> ValidateWrtTime.
// Oracle (statement): untampered accepted; if after intake any of time, nonce, sender, recipient,
// value, data, fee, type differs from what was signed, the transaction must be rejected; an accepted
// transaction has Hash == hash of contents, a signature valid under PublicKey, ClientID == hash(PublicKey).
package main

import (
	"context"
	"encoding/hex"
	"encoding/json"
	"fmt"
	"math"
	"reflect"
	"sort"
	"strings"

	"0chain.net/chaincore/client"
	"0chain.net/chaincore/transaction"
	"0chain.net/core/common"
	"0chain.net/core/datastore"
	"0chain.net/core/encryption"
	"github.com/0chain/common/core/currency"
	hbls "github.com/herumi/bls-go-binary/bls"
	"verif/lib/ev"
)

// statement name of each effect-relevant field
var c30Effect = map[string]string{
	"CreationDate": "time", "Nonce": "nonce", "ClientID": "sender", "PublicKey": "sender",
	"ToClientID": "recipient", "Value": "value", "TransactionData": "data", "Fee": "fee", "TransactionType": "type",
}

// fields the statement does not list as signed content (set by miners / transport)
var c30Other = map[string]bool{"Hash": true, "Signature": true, "Version": true, "ChainID": true,
	"TransactionOutput": true, "OutputHash": true, "Status": true}

type fieldPath struct {
	Name  string
	Index []int
}

// wireFields lists the exported leaf fields that are visible in JSON, flattening embedded structs.
func wireFields(t reflect.Type, prefix []int) []fieldPath {
	var out []fieldPath
	for i := 0; i < t.NumField(); i++ {
		f := t.Field(i)
		if !f.IsExported() || strings.HasPrefix(f.Tag.Get("json"), "-") {
			continue
		}
		idx := append(append([]int{}, prefix...), i)
		ft := f.Type
		if f.Anonymous && ft.Kind() == reflect.Struct {
			out = append(out, wireFields(ft, idx)...)
			continue
		}
		if f.Anonymous && ft.Kind() == reflect.Ptr {
			continue // only *SmartContractData, json:"-"
		}
		out = append(out, fieldPath{f.Name, idx})
	}
	return out
}

// tamperValues returns the alphabet of replacement values for a field.
func tamperValues(name string, v reflect.Value, other reflect.Value) []reflect.Value {
	var out []reflect.Value
	add := func(x any) {
		nv := reflect.ValueOf(x)
		if nv.Type().ConvertibleTo(v.Type()) {
			nv = nv.Convert(v.Type())
			if !reflect.DeepEqual(nv.Interface(), v.Interface()) {
				for _, o := range out {
					if reflect.DeepEqual(o.Interface(), nv.Interface()) {
						return
					}
				}
				out = append(out, nv)
			}
		}
	}
	switch v.Kind() {
	case reflect.String:
		s := v.String()
		add("")
		add(s + "0")
		if len(s) > 0 {
			last := s[len(s)-1]
			r := byte('0')
			if last == '0' {
				r = '1'
			}
			add(s[:len(s)-1] + string(r)) // same length, last character changed
			first := byte('1')
			if s[0] == '1' {
				first = '2'
			}
			add(string(first) + s[1:])
		}
		add(other.String())
	case reflect.Int, reflect.Int64:
		x := v.Int()
		if name == "TransactionType" { // the defined types first, so that a reported case is a meaningful one
			for _, y := range []int64{transaction.TxnTypeSend, transaction.TxnTypeData, transaction.TxnTypeSmartContract, transaction.TxnTypeLockIn} {
				add(y)
			}
		}
		for _, y := range []int64{x + 1, x - 1, 0, 2*x + 1, math.MaxInt64, -x} {
			add(y)
		}
		add(other.Int())
	case reflect.Uint64:
		x := v.Uint()
		for _, y := range []uint64{x + 1, 0, 2*x + 1, math.MaxUint64, 1 << 53} {
			add(y)
		}
		if x > 0 {
			add(x - 1)
		}
		add(other.Uint())
	}
	return out
}

type c30base struct {
	name string
	txn  *transaction.Transaction
	kp   keyPair
}

func errClass(err error) string {
	if err == nil {
		return "accepted"
	}
	s := err.Error()
	if ce, ok := err.(*common.Error); ok {
		s = ce.Code
	}
	s = strings.SplitN(s, ":", 2)[0]
	// keep the leading words only (library errors embed the offending data)
	var words []string
	for _, w := range strings.Fields(s) {
		if strings.ContainsAny(w, "0123456789") || len(words) == 4 {
			break
		}
		words = append(words, w)
	}
	return "rejected(" + strings.Join(words, " ") + ")"
}

// intake is what a node does with a transaction received on the wire.
func intake(wire []byte, ts common.Timestamp) (*transaction.Transaction, string, error) {
	ent := datastore.GetEntityMetadata("txn").Instance()
	if err := json.Unmarshal(wire, ent); err != nil {
		return nil, "decode", err
	}
	if err := ent.ComputeProperties(); err != nil {
		return nil, "ComputeProperties", err
	}
	t := ent.(*transaction.Transaction)
	if err := t.ValidateWrtTime(context.Background(), ts); err != nil {
		return t, "ValidateWrtTime", err
	}
	return t, "", nil
}

func effectView(t *transaction.Transaction) map[string]string {
	return map[string]string{
		"time": fmt.Sprint(t.CreationDate), "nonce": fmt.Sprint(t.Nonce), "sender": t.ClientID + "/" + canonicalKey(t.PublicKey),
		"recipient": t.ToClientID, "value": fmt.Sprint(uint64(t.Value)), "data": t.TransactionData,
		"fee": fmt.Sprint(uint64(t.Fee)), "type": fmt.Sprint(t.TransactionType),
	}
}

func c30() {
	run := ev.Start("C30")
	setupEntities()
	schemes := []string{encryption.SignatureSchemeEd25519, encryption.SignatureSchemeBls0chain}
	nClients := run.Pick(2, 3)
	run.Rule = "scheme x client x {send,data,smart-contract} base transactions; every wire-visible field (reflect walk) x every value of its kind's alphabet x attacker variant {plain, rehash, resender}; each through JSON -> ComputeProperties -> ValidateWrtTime. distinct = (scheme, field, variant, result class)"
	run.Bounds["schemes"] = schemes
	run.Bounds["clients_per_scheme"] = nClients
	run.Bounds["base_kinds"] = []string{"send", "data", "smart-contract"}
	run.Bounds["variants"] = []string{"plain", "rehash", "resender", "respell-{upper,mixed,miracl}/{plain,rehash} for every hex-valued field"}
	fields := wireFields(reflect.TypeOf(transaction.Transaction{}), nil)
	var fnames, unclassified []string
	for _, f := range fields {
		fnames = append(fnames, f.Name)
		if _, ok := c30Effect[f.Name]; !ok && !c30Other[f.Name] {
			unclassified = append(unclassified, f.Name)
		}
	}
	run.Bounds["fields"] = fnames
	run.Extra["fields_not_classified_by_the_harness"] = unclassified
	ts := common.Timestamp(1700000000)
	scAddr := refHash([]byte("some-smart-contract"))

	for _, scheme := range schemes {
		client.SetClientSignatureScheme(scheme)
		var bases []c30base
		for ci := 0; ci < nClients; ci++ {
			kp := detKey(scheme, 20+ci)
			mk := func(kind string, typ int, to, data string, value, fee uint64, nonce int64) {
				t := datastore.GetEntityMetadata("txn").Instance().(*transaction.Transaction)
				t.ClientID = refHash(mustHex(kp.Pub))
				t.PublicKey = kp.Pub
				t.ToClientID = to
				t.TransactionData = data
				t.TransactionType = typ
				t.CreationDate = ts + common.Timestamp(ci)
				t.Value = currency.Coin(value)
				t.Fee = currency.Coin(fee)
				t.Nonce = nonce
				if _, err := t.Sign(signer(kp)); err != nil {
					ev.Fatal("sign txn: %v", err)
				}
				bases = append(bases, c30base{fmt.Sprintf("%s/client%d/%s", scheme, ci, kind), t, kp})
			}
			mk("data", transaction.TxnTypeData, refHash([]byte("data-sink")), fmt.Sprintf("hello-%d", ci), 40, 3, 2)
			mk("send", transaction.TxnTypeSend, refHash([]byte(fmt.Sprintf("recipient-%d", ci))), "", 100+uint64(ci), 10, 1)
			mk("smart-contract", transaction.TxnTypeSmartContract, scAddr, fmt.Sprintf(`{"name":"pour","input":{"n":%d}}`, ci), 5, 7, 3)
		}
		for bi, base := range bases {
			other := bases[(bi+3)%len(bases)] // same kind, next client
			wire, _ := json.Marshal(base.txn)
			// untampered
			got, stage, err := intake(wire, ts)
			run.Add(1, 0, 1)
			run.Outcome(scheme + "/untampered/" + errClass(err))
			if err != nil {
				run.Violation("C30:"+stage+":untampered-rejected", fmt.Sprintf("%s: correctly signed transaction rejected: %v", base.name, err), json.RawMessage(wire))
				continue
			}
			// clause 1 cross-checks on an accepted transaction
			if got.Hash != got.ComputeHash() || verifyWith(scheme, got.PublicKey, got.Signature, got.Hash) != "ok" || refHash(mustHex(got.PublicKey)) != got.ClientID {
				run.Violation("C30:ValidateWrtTime:accepted-without-valid-hash-signature-id", base.name, json.RawMessage(wire))
			}
			if bi == 0 {
				run.Sample(map[string]any{"base": base.name, "wire": json.RawMessage(wire)})
			}
			signed := effectView(base.txn)

			try := func(field, variant string, t *transaction.Transaction, desc string) {
				w, _ := json.Marshal(t)
				got, stage, err := intake(w, ts)
				run.Add(0, 0, 1)
				res := errClass(err)
				altered := ""
				if err == nil {
					now := effectView(got)
					var diff []string
					for k, v := range signed {
						if now[k] != v {
							diff = append(diff, k)
						}
					}
					sort.Strings(diff)
					altered = strings.Join(diff, "+")
					if altered == "" {
						res = "accepted(effect-unchanged)"
					} else {
						res = "accepted(altered:" + altered + ")"
					}
				} else {
					res = stage + ":" + res
				}
				run.Outcome(fmt.Sprintf("%s/%s/%s/%s", scheme, field, variant, res))
				if err == nil && altered != "" {
					run.Violation("C30:ValidateWrtTime:altered-"+altered+"-accepted",
						fmt.Sprintf("%s: %s (%s) is accepted by ComputeProperties+ValidateWrtTime although %s differs from what the client signed", base.name, desc, variant, altered),
						map[string]any{"base": base.name, "signed": json.RawMessage(wire), "tampered": json.RawMessage(w), "field": field, "variant": variant})
				}
			}
			clone := func() *transaction.Transaction {
				t := datastore.GetEntityMetadata("txn").Instance().(*transaction.Transaction)
				if err := json.Unmarshal(wire, t); err != nil {
					ev.Fatal("clone: %v", err)
				}
				return t
			}
			for _, f := range fields {
				bv := reflect.ValueOf(base.txn).Elem().FieldByIndex(f.Index)
				ov := reflect.ValueOf(other.txn).Elem().FieldByIndex(f.Index)
				vals := tamperValues(f.Name, bv, ov)
				if len(vals) == 0 {
					run.Extra["field_without_alphabet:"+f.Name] = bv.Kind().String()
				}
				for _, nv := range vals {
					desc := fmt.Sprintf("%s %v -> %v", f.Name, bv.Interface(), nv.Interface())
					t := clone()
					reflect.ValueOf(t).Elem().FieldByIndex(f.Index).Set(nv)
					try(f.Name, "plain", t, desc)
					if f.Name != "Hash" {
						t2 := clone()
						reflect.ValueOf(t2).Elem().FieldByIndex(f.Index).Set(nv)
						t2.Hash = t2.ComputeHash()
						try(f.Name, "rehash", t2, desc)
					}
				}
			}
			// respellings: the same bytes / the same group element written differently (hex letter case,
			// MIRACL forms). Nothing but the spelling of ONE field changes.
			for _, f := range fields {
				bv := reflect.ValueOf(base.txn).Elem().FieldByIndex(f.Index)
				if bv.Kind() != reflect.String {
					continue
				}
				for _, rs := range respellings(f.Name, bv.String(), scheme) {
					desc := fmt.Sprintf("%s respelled (%s): %s -> %s", f.Name, rs.how, bv.String(), rs.val)
					t := clone()
					reflect.ValueOf(t).Elem().FieldByIndex(f.Index).SetString(rs.val)
					try(f.Name, "respell-"+rs.how+"/plain", t, desc)
					if f.Name != "Hash" {
						t2 := clone()
						reflect.ValueOf(t2).Elem().FieldByIndex(f.Index).SetString(rs.val)
						t2.Hash = t2.ComputeHash()
						try(f.Name, "respell-"+rs.how+"/rehash", t2, desc)
					}
				}
			}
			// sender replaced as a whole by another real client
			t := clone()
			t.ClientID, t.PublicKey = other.txn.ClientID, other.txn.PublicKey
			try("ClientID+PublicKey", "resender-plain", t, "sender replaced by another client")
			t = clone()
			t.ClientID, t.PublicKey = other.txn.ClientID, other.txn.PublicKey
			t.Hash = t.ComputeHash()
			try("ClientID+PublicKey", "resender", t, "sender replaced by another client")
			// signature of the other client's transaction of the same kind
			t = clone()
			t.Signature = other.txn.Signature
			try("Signature", "foreign-signature", t, "signature taken from another transaction")
		}
	}
	run.Assumptions = []string{
		"intake path = JSON decode + ComputeProperties + ValidateWrtTime (what /v1/transaction/put and block verification apply before any state-dependent check)",
		"a tampering that the intake normalises back to the signed value (e.g. empty ClientID recomputed from PublicKey) does not alter the transaction and may be accepted",
		"fields outside the statement's list (Version, ChainID, TransactionOutput, OutputHash, Status) are enumerated and recorded but nothing is demanded of them",
	}
	listOutcomes(run)
	run.Finish()
}

// canonicalKey: a public key is the bytes it decodes to; hex letter case is not part of it.
func canonicalKey(pk string) string {
	if b, err := hex.DecodeString(pk); err == nil {
		return hex.EncodeToString(b)
	}
	return pk
}

type respelling struct{ how, val string }

// respellings of a hex-valued field: upper case, mixed case, and for bls0chain signatures / public
// keys the MIRACL forms that MiraclToHerumiSig / MiraclToHerumiPK convert back.
func respellings(field, v, scheme string) []respelling {
	if _, err := hex.DecodeString(v); err != nil || v == "" || strings.ToUpper(v) == v {
		return nil
	}
	out := []respelling{{"upper", strings.ToUpper(v)}}
	b := []byte(v)
	n := 0
	for i := range b {
		if b[i] >= 'a' && b[i] <= 'f' {
			if n%2 == 0 {
				b[i] -= 'a' - 'A'
			}
			n++
		}
	}
	if m := string(b); m != v && m != strings.ToUpper(v) {
		out = append(out, respelling{"mixed", m})
	}
	if scheme == encryption.SignatureSchemeBls0chain {
		pad := func(x string) string { return strings.Repeat("0", 64-len(x)) + x }
		switch field {
		case "Signature":
			var sg hbls.Sign
			if sg.DeserializeHexStr(v) == nil {
				if f := strings.Fields(sg.GetHexString()); len(f) == 3 { // "1 x y"
					out = append(out, respelling{"miracl", "(" + f[1] + "," + f[2] + ")"})
				}
			}
		case "PublicKey":
			var pk hbls.PublicKey
			if pk.DeserializeHexStr(v) == nil {
				if f := strings.Fields(pk.GetHexString()); len(f) == 5 { // "1 a b c d"; MiraclToHerumiPK reads 04|n1|n2|n3|n4 as "1 n2 n1 n4 n3"
					out = append(out, respelling{"miracl", "04" + pad(f[2]) + pad(f[1]) + pad(f[4]) + pad(f[3])})
				}
			}
		}
	}
	return out
}
