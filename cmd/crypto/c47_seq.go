// C47, operation sequences on ONE object: every sequence up to depth 4 (5 thorough) over the
// operations a signature scheme / a client exposes, against a reference model.
//
// Model: the object's verifying key is the key of the last successful key-setting operation
// (SetPublicKey / ReadKeys / GenerateKeys); GetPublicKey reports it; Verify(sig, m) accepts exactly
// the signature made with that key's private key over m; Sign (private key present) produces that
// signature. After a key-setting operation that returned an error the state is not defined by the
// property: what the real object does is recorded, and only the invariant "Verify never accepts a
// signature of a key other than the one the object reports" is compared, under a separate key.
package main

import (
	"fmt"
	"runtime"
	"sort"
	"strings"
	"sync"

	"0chain.net/chaincore/client"
	"0chain.net/core/encryption"
	"verif/lib/ev"
)

type seqOp struct {
	Name string
	Kind string // setpub | readkeys | genkeys | sign | verify
	Key  int    // 0=A 1=B 2=non-hex 3=undecodable/short
	Msg  int    // verify: message the signature was made over (checked against message 0)
}

// seqObject abstracts the two kinds of long-lived objects that hold a verifying key.
type seqObject interface {
	SetPub(s string) error
	ReadKeys(kp keyPair) error
	GenerateKeys() error
	Sign(h string) (string, error)
	Verify(sig, h string) (bool, error)
	Reported() string // the public key the object reports
	Extra() string    // "" or a description of an internal inconsistency (client: id != hash(key))
}

type schemeObj struct{ ss encryption.SignatureScheme }

func (o *schemeObj) SetPub(s string) error { return o.ss.SetPublicKey(s) }
func (o *schemeObj) ReadKeys(kp keyPair) error {
	return o.ss.ReadKeys(strings.NewReader(kp.Pub + "\n" + kp.Priv + "\n"))
}
func (o *schemeObj) GenerateKeys() error                { return o.ss.GenerateKeys() }
func (o *schemeObj) Sign(h string) (string, error)      { return o.ss.Sign(h) }
func (o *schemeObj) Verify(sig, h string) (bool, error) { return o.ss.Verify(sig, h) }
func (o *schemeObj) Reported() string                   { return o.ss.GetPublicKey() }
func (o *schemeObj) Extra() string                      { return "" }

type clientObj struct{ c *client.Client }

func (o *clientObj) SetPub(s string) error              { return o.c.SetPublicKey(s) }
func (o *clientObj) ReadKeys(kp keyPair) error          { return fmt.Errorf("n/a") }
func (o *clientObj) GenerateKeys() error                { return fmt.Errorf("n/a") }
func (o *clientObj) Sign(h string) (string, error)      { return "", fmt.Errorf("n/a") }
func (o *clientObj) Verify(sig, h string) (bool, error) { return o.c.Verify(sig, h) }
func (o *clientObj) Reported() string                   { return o.c.PublicKey }
func (o *clientObj) Extra() string {
	if o.c.PublicKey == "" {
		return ""
	}
	if id, err := client.GetIDFromPublicKey(o.c.PublicKey); err == nil && id != o.c.ID {
		return "client id is not the hash of the reported public key"
	}
	return ""
}

func guard(f func() (string, error)) (res string, err error, panicked bool) {
	defer func() {
		if r := recover(); r != nil {
			panicked = true
		}
	}()
	res, err = f()
	return
}

type seqVio struct {
	order     int
	key, what string
	replay    any
}

func c47Sequences(run *ev.Run) {
	depth := run.Pick(4, 5)
	run.Bounds["sequence_depth"] = depth
	run.Bounds["sequence_targets"] = []string{"scheme:ed25519", "scheme:bls0chain", "client:ed25519", "client:bls0chain"}
	schemeOps := []seqOp{
		{"SetPublicKey(A)", "setpub", 0, 0}, {"SetPublicKey(B)", "setpub", 1, 0},
		{"SetPublicKey(non-hex)", "setpub", 2, 0}, {"SetPublicKey(undecodable)", "setpub", 3, 0},
		{"ReadKeys(A)", "readkeys", 0, 0}, {"ReadKeys(B)", "readkeys", 1, 0}, {"GenerateKeys", "genkeys", 0, 0},
		{"Sign(m)", "sign", 0, 0},
		{"Verify(sigA(m),m)", "verify", 0, 0}, {"Verify(sigB(m),m)", "verify", 1, 0}, {"Verify(sigA(m'),m)", "verify", 0, 1},
	}
	var clientOps []seqOp
	for _, o := range schemeOps {
		if o.Kind == "setpub" || o.Kind == "verify" {
			clientOps = append(clientOps, o)
		}
	}
	var opNames []string
	for _, o := range schemeOps {
		opNames = append(opNames, o.Name)
	}
	run.Bounds["sequence_ops_scheme"] = opNames
	run.Bounds["sequence_ops_client"] = "the SetPublicKey and Verify operations of the scheme alphabet; GetPublicKey / PublicKey+ID observed after every step"

	var mu sync.Mutex
	var vios []seqVio
	orderBase := 0
	for _, target := range []string{"scheme", "client"} {
		for _, scheme := range []string{encryption.SignatureSchemeEd25519, encryption.SignatureSchemeBls0chain} {
			ops := schemeOps
			if target == "client" {
				ops = clientOps
			}
			tname := target + ":" + scheme
			keys := []keyPair{detKey(scheme, 0), detKey(scheme, 1)}
			msgs := []string{msgHash(0), msgHash(1)}
			undec := strings.Repeat("ff", len(keys[0].Pub)/2) // right length, not a curve point (bls)
			if scheme == encryption.SignatureSchemeEd25519 {
				undec = keys[0].Pub[:len(keys[0].Pub)-2] // ed25519 does not validate: a short key is stored as is
			}
			pubArg := []string{keys[0].Pub, keys[1].Pub, "zz" + keys[0].Pub[2:], undec}
			var sig [2][2]string // [key][msg]
			for k := 0; k < 2; k++ {
				for m := 0; m < 2; m++ {
					s, err := signer(keys[k]).Sign(msgs[m])
					if err != nil {
						ev.Fatal("sign: %v", err)
					}
					sig[k][m] = s
				}
			}
			client.SetClientSignatureScheme(scheme) // process-global default, set before the workers start
			// all sequences of length 1..depth, shortest first
			var seqs [][]int
			for d := 1; d <= depth; d++ {
				seqs = append(seqs, allVectors(d, len(ops))...)
			}
			runSeq := func(si int, seq []int) {
				var obj seqObject
				if target == "scheme" {
					obj = &schemeObj{encryption.GetSignatureScheme(scheme)}
				} else {
					obj = &clientObj{client.NewClient(client.SignatureScheme(scheme))}
				}
				// model
				mPub, mPriv, afterFailure := "", false, false
				var names []string
				report := func(key, what string) {
					mu.Lock()
					vios = append(vios, seqVio{orderBase + si, "C47:sequence:" + tname + ":" + key,
						fmt.Sprintf("%s: after %v: %s", tname, names, what),
						map[string]any{"target": tname, "sequence": append([]string{}, names...), "key_A": keys[0].Pub, "key_B": keys[1].Pub, "undecodable": undec}})
					mu.Unlock()
				}
				for _, oi := range seq {
					op := ops[oi]
					names = append(names, op.Name)
					switch op.Kind {
					case "setpub", "readkeys", "genkeys":
						_, err, pan := guard(func() (string, error) {
							switch op.Kind {
							case "setpub":
								return "", obj.SetPub(pubArg[op.Key])
							case "readkeys":
								return "", obj.ReadKeys(keys[op.Key])
							}
							return "", obj.GenerateKeys()
						})
						okSet := err == nil && !pan
						run.Outcome(fmt.Sprintf("seq/%s/%s/ok=%v/had-private-key=%v", tname, op.Name, okSet, mPriv))
						if okSet {
							afterFailure = false
							switch op.Kind {
							case "setpub":
								mPub = pubArg[op.Key]
							case "readkeys":
								mPub, mPriv = keys[op.Key].Pub, true
							case "genkeys":
								mPub, mPriv = obj.Reported(), true
							}
						} else {
							afterFailure = true
							run.Outcome(fmt.Sprintf("seq/%s/after-failed-%s/reports-previous-key=%v", tname, op.Name, obj.Reported() == mPub))
						}
					case "sign":
						s, err, pan := guard(func() (string, error) { return obj.Sign(msgs[0]) })
						run.Outcome(fmt.Sprintf("seq/%s/Sign/private-key=%v/ok=%v/panic=%v", tname, mPriv, err == nil && !pan, pan))
						if mPriv && !afterFailure {
							if err != nil || pan || verifyWith(scheme, mPub, s, msgs[0]) != "ok" {
								report("sign-does-not-verify-under-own-key", fmt.Sprintf("Sign with a private key present: err=%v panic=%v, signature does not verify under the object's key", err, pan))
							}
						}
					case "verify":
						r, err, pan := guard(func() (string, error) {
							ok, err := obj.Verify(sig[op.Key][op.Msg], msgs[0])
							return fmt.Sprint(ok), err
						})
						got := r == "true" && err == nil && !pan
						want := mPub == keys[op.Key].Pub && op.Msg == 0
						run.Outcome(fmt.Sprintf("seq/%s/Verify/matches-last-set-key=%v/accepted=%v/after-failure=%v", tname, want, got, afterFailure))
						if afterFailure {
							// only: never accept a signature of a key other than the one the object reports
							if got && (obj.Reported() != keys[op.Key].Pub || op.Msg != 0) {
								report("after-failed-SetPublicKey:verify-accepts-key-other-than-reported",
									fmt.Sprintf("Verify accepts the signature of key %s while the object reports public key %q", []string{"A", "B"}[op.Key], obj.Reported()))
							}
						} else if got && !want {
							report("verify-accepts-key-other-than-last-set", fmt.Sprintf("%s accepted; last successfully set key is %s, object reports %s", op.Name, short(mPub), short(obj.Reported())))
						} else if !got && want {
							report("verify-rejects-last-set-key", fmt.Sprintf("%s rejected (err=%v panic=%v); last successfully set key is %s, object reports %s", op.Name, err, pan, short(mPub), short(obj.Reported())))
						}
					}
					run.Add(0, 1, 0)
					if !afterFailure {
						if rp := obj.Reported(); rp != mPub {
							report("reported-key-differs-from-last-set", fmt.Sprintf("object reports %s, last successfully set key is %s", short(rp), short(mPub)))
						}
					}
					if x := obj.Extra(); x != "" {
						report("client-id-not-hash-of-reported-key", x)
					}
				}
				run.Add(0, 0, 1)
			}
			var wg sync.WaitGroup
			ch := make(chan int)
			for wk := 0; wk < runtime.NumCPU(); wk++ {
				wg.Add(1)
				go func() {
					defer wg.Done()
					for si := range ch {
						runSeq(si, seqs[si])
					}
				}()
			}
			for si := range seqs {
				ch <- si
			}
			close(ch)
			wg.Wait()
			run.Add(int64(len(seqs)), 0, 0)
			orderBase += len(seqs)
			if tname == "scheme:bls0chain" {
				run.Sample(map[string]any{"target": tname, "sequence": []string{"SetPublicKey(A)", "SetPublicKey(B)", "Verify(sigA(m),m)"}, "model": "rejected: the last set key is B"})
			}
		}
	}
	// shortest sequence first, one report per key
	sort.SliceStable(vios, func(i, j int) bool { return vios[i].order < vios[j].order })
	for _, v := range vios {
		run.Violation(v.key, v.what, v.replay)
	}
}

func short(s string) string {
	if len(s) > 12 {
		return s[:12] + "…"
	}
	return fmt.Sprintf("%q", s)
}
