// C34: threshold key generation and signing.
//
// For every 1<=t<=n<=N (N=4 quick, 5 thorough), three party-id families and two messages:
//
//	A  real DKG (chaincore/threshold/bls): every share s_ij validates against sender i's published
//	   polynomial (and against nobody else's / for nobody else / when altered it does not);
//	   aggregated keys sign, every party verifies every signer under the group-derived key;
//	   every t-subset in every order recovers one and the same group signature
//	   (RecoverGroupSig and CalBlsGpSign).
//	B  BLS0GenerateThresholdKeyShares + BLS0ChainReconstruction: every t-subset in every order
//	   reconstructs a signature that verifies under the original key.
//	C  GenerateSplitKeys(k), k<=n: split signatures aggregated in every order verify under the
//	   original key.
//	D  block.ShareOrSigns.Validate: every assignment {absent, valid share, foreign share, valid
//	   signature, invalid signature} to the n-1 recipients of every sender.
//
// Randomness of the library (polynomial coefficients) is a fixed deterministic stream.
package main

import (
	"fmt"
	"sort"
	"strings"

	"0chain.net/chaincore/block"
	tbls "0chain.net/chaincore/threshold/bls"
	"0chain.net/core/encryption"
	"verif/lib/ev"
)

// subsets of size k of {0..n-1}
func subsets(n, k int) [][]int {
	var out [][]int
	var rec func(start int, cur []int)
	rec = func(start int, cur []int) {
		if len(cur) == k {
			out = append(out, append([]int{}, cur...))
			return
		}
		for i := start; i < n; i++ {
			rec(i+1, append(cur, i))
		}
	}
	rec(0, nil)
	return out
}

func partyIDs(family string, n int) []string {
	ids := make([]string, n)
	for i := range ids {
		switch family {
		case "hash":
			ids[i] = refHash([]byte(fmt.Sprintf("party-%d", i)))
		case "small": // PartyID = 0x1000..0(i+1): tiny differences in the last used digit
			ids[i] = strings.Repeat("0", 30) + fmt.Sprintf("%x", i+1) + strings.Repeat("0", 33)
		case "high": // all-f prefix, differing in one digit
			ids[i] = strings.Repeat("f", 29) + fmt.Sprintf("%x", i) + "f" + strings.Repeat("f", 33)
		}
	}
	return ids
}

func c34() {
	run := ev.Start("C34")
	maxN := run.Pick(4, 5)
	families := []string{"hash", "small", "high"}
	msgs := []string{msgHash(0), msgHash(1)}
	run.Rule = "all 1<=t<=n<=N x 3 party-id families x 2 messages; all ordered pairs (sender, receiver); all t-subsets in all orders; all 5^(n-1) share-or-sign assignments per sender (n<=4; n=5 in thorough); distinct = (part, case class, result)"
	run.Bounds["max_n"] = maxN
	run.Bounds["id_families"] = families
	run.Bounds["messages"] = len(msgs)
	run.Bounds["subset_orders"] = "all t! orders of every t-subset"

	for n := 1; n <= maxN; n++ {
		for t := 1; t <= n; t++ {
			for _, fam := range families {
				c34DKG(run, t, n, fam, msgs)
			}
			c34Threshold(run, t, n, msgs, false)
		}
		c34Split(run, n, msgs)
	}
	// many shares: share indices >= 10 and >= 16 (where decimal, hex and longer id strings differ),
	// every t-subset, reconstructed both from the share objects and through the id-string path
	large := [][2]int{{2, 11}, {3, 17}}
	if run.Thorough() {
		large = [][2]int{{2, 11}, {2, 17}, {3, 17}, {4, 12}, {4, 17}}
	}
	run.Bounds["many_shares_(t,n)"] = large
	for _, tn := range large {
		c34Threshold(run, tn[0], tn[1], msgs, true)
	}
	run.Assumptions = []string{
		"party ids are distinct in their first 31 hex digits (ComputeIDdkg uses only those); ids that collide there are outside the alphabet",
		"library randomness replaced by a fixed deterministic stream (bls.SetRandFunc)",
		"'fewer than t shares do not reconstruct' and 'a tampered share does not reconstruct' are recorded as outcomes for non-vacuity, not demanded",
	}
	listOutcomes(run)
	run.Finish()
}

func c34DKG(run *ev.Run, t, n int, fam string, msgs []string) {
	ids := partyIDs(fam, n)
	tag := fmt.Sprintf("t=%d n=%d ids=%s", t, n, fam)
	rep := func(extra map[string]any) map[string]any {
		m := map[string]any{"part": "dkg", "t": t, "n": n, "id_family": fam, "ids": ids}
		for k, v := range extra {
			m[k] = v
		}
		return m
	}
	dkgs := make([]*tbls.DKG, n)
	pids := make([]tbls.PartyID, n)
	mpks := block.NewMpks()
	for i := range dkgs {
		dkgs[i] = tbls.MakeDKG(t, n, ids[i])
		pids[i] = tbls.ComputeIDdkg(ids[i])
		if !dkgs[i].ID.IsEqual(&pids[i]) {
			run.Violation("C34:MakeDKG:id-differs-from-ComputeIDdkg", tag, rep(nil))
		}
		mpk := &block.MPK{ID: ids[i]}
		for _, pk := range dkgs[i].GetMPKs() {
			mpk.Mpk = append(mpk.Mpk, pk.GetHexString())
		}
		if len(mpk.Mpk) != t {
			run.Violation("C34:MakeDKG:polynomial-degree", fmt.Sprintf("%s: %d public coefficients, want t", tag, len(mpk.Mpk)), rep(nil))
		}
		mpks.Mpks[ids[i]] = mpk
	}
	run.Add(1, 0, 0)
	// the published polynomials as the other parties see them (string round trip through block.Mpks)
	mpkMap, err := mpks.GetMpkMap()
	if err != nil {
		run.Violation("C34:Mpks.GetMpkMap:error", tag+": "+err.Error(), rep(nil))
		return
	}
	// shares s_ij and clause 1
	shares := make([][]tbls.Key, n)
	for i := 0; i < n; i++ {
		shares[i] = make([]tbls.Key, n)
		for j := 0; j < n; j++ {
			s, err := dkgs[i].ComputeDKGKeyShare(pids[j])
			if err != nil {
				run.Violation("C34:ComputeDKGKeyShare:error", tag+": "+err.Error(), rep(map[string]any{"from": i, "to": j}))
				return
			}
			shares[i][j] = s
		}
	}
	for i := 0; i < n; i++ {
		for j := 0; j < n; j++ {
			ok := dkgs[j].ValidateShare(mpkMap[pids[i]], shares[i][j])
			ok2 := tbls.ValidateShare(mpkMap[pids[i]], shares[i][j], pids[j])
			run.Add(0, 0, 2)
			run.Outcome(fmt.Sprintf("dkg/share-own-sender/%v", ok && ok2))
			if !ok || !ok2 {
				run.Violation("C34:ValidateShare:valid-share-rejected", fmt.Sprintf("%s: share of party %d for party %d does not validate against %d's published polynomial", tag, i, j, i), rep(map[string]any{"from": i, "to": j}))
			}
			// non-vacuity: the same share against another sender's polynomial / for another receiver / altered
			for k := 0; k < n; k++ {
				if k != i {
					r := dkgs[j].ValidateShare(mpkMap[pids[k]], shares[i][j])
					run.Add(0, 0, 1)
					run.Outcome(fmt.Sprintf("dkg/share-against-other-sender/%v", r))
					if r {
						run.Violation("C34:ValidateShare:foreign-share-accepted", fmt.Sprintf("%s: share of %d for %d validates against %d's polynomial", tag, i, j, k), rep(map[string]any{"from": i, "to": j, "against": k}))
					}
				}
				if k != j && t > 1 {
					r := dkgs[k].ValidateShare(mpkMap[pids[i]], shares[i][j])
					run.Add(0, 0, 1)
					run.Outcome(fmt.Sprintf("dkg/share-for-other-receiver/%v", r))
					if r {
						run.Violation("C34:ValidateShare:share-of-other-receiver-accepted", fmt.Sprintf("%s: share of %d for %d validates for receiver %d", tag, i, j, k), rep(map[string]any{"from": i, "to": j, "receiver": k}))
					}
				}
			}
			alt := shares[i][j]
			var one tbls.Key
			_ = one.SetDecString("1")
			alt.Add(&one)
			r := dkgs[j].ValidateShare(mpkMap[pids[i]], alt)
			run.Add(0, 0, 1)
			run.Outcome(fmt.Sprintf("dkg/share-plus-one/%v", r))
			if r {
				run.Violation("C34:ValidateShare:altered-share-accepted", fmt.Sprintf("%s: share+1 of %d for %d validates", tag, i, j), rep(map[string]any{"from": i, "to": j}))
			}
		}
	}
	// aggregation
	for j := 0; j < n; j++ {
		for i := 0; i < n; i++ {
			if err := dkgs[j].AddSecretShare(pids[i], shares[i][j].GetHexString(), false); err != nil {
				run.Violation("C34:AddSecretShare:error", tag+": "+err.Error(), rep(map[string]any{"from": i, "to": j}))
			}
		}
		dkgs[j].AggregateSecretKeyShares()
		if err := dkgs[j].AggregatePublicKeyShares(mpkMap); err != nil {
			run.Violation("C34:AggregatePublicKeyShares:error", tag+": "+err.Error(), rep(nil))
			return
		}
	}
	// clause 2: aggregated keys sign, everybody verifies under the group-derived key of the signer
	for mi, m := range msgs {
		sigs := make([]*tbls.Sign, n)
		for j := 0; j < n; j++ {
			sigs[j] = dkgs[j].Sign(m)
		}
		for j := 0; j < n; j++ {
			for k := 0; k < n; k++ {
				ok := dkgs[k].VerifySignature(sigs[j], m, pids[j])
				run.Add(0, 0, 1)
				run.Outcome(fmt.Sprintf("dkg/verify-share-signature/%v", ok))
				if !ok {
					run.Violation("C34:DKG.VerifySignature:valid-share-signature-rejected", fmt.Sprintf("%s: signature of party %d does not verify at party %d under the group-derived key", tag, j, k), rep(map[string]any{"signer": j, "verifier": k, "message": m}))
				}
				pk := dkgs[k].GetPublicKeyByID(pids[j])
				if !pk.IsEqual(dkgs[j].Pi) {
					run.Violation("C34:AggregatePublicKeyShares:derived-key-differs-from-signer-key", fmt.Sprintf("%s: party %d derives another public key for party %d", tag, k, j), rep(map[string]any{"signer": j, "verifier": k}))
				}
				// non-vacuity: other signer id / other message
				if n > 1 && t > 1 {
					o := (j + 1) % n
					r := dkgs[k].VerifySignature(sigs[j], m, pids[o])
					run.Add(0, 0, 1)
					run.Outcome(fmt.Sprintf("dkg/verify-under-other-party-key/%v", r))
					if r {
						run.Violation("C34:DKG.VerifySignature:verifies-under-other-party", fmt.Sprintf("%s: signature of %d verifies as %d", tag, j, o), rep(map[string]any{"signer": j, "as": o}))
					}
				}
				r := dkgs[k].VerifySignature(sigs[j], msgs[1-mi], pids[j])
				run.Add(0, 0, 1)
				run.Outcome(fmt.Sprintf("dkg/verify-other-message/%v", r))
				if r {
					run.Violation("C34:DKG.VerifySignature:verifies-other-message", fmt.Sprintf("%s: signature of %d verifies for another message", tag, j), rep(map[string]any{"signer": j}))
				}
			}
		}
		// clause 3: every t-subset in every order recovers the same group signature
		var group string
		var first []int
		for _, sub := range subsets(n, t) {
			for _, perm := range allPerms(t) {
				order := make([]int, t)
				for x, p := range perm {
					order[x] = sub[p]
				}
				var from []tbls.PartyID
				var shs []tbls.Sign
				var hexSigs, hexIDs []string
				for _, p := range order {
					from = append(from, pids[p])
					shs = append(shs, *sigs[p])
					hexSigs = append(hexSigs, sigs[p].GetHexString())
					hexIDs = append(hexIDs, pids[p].GetHexString())
				}
				g1, err1 := dkgs[order[0]].RecoverGroupSig(from, shs)
				g2, err2 := dkgs[order[0]].CalBlsGpSign(hexSigs, hexIDs)
				run.Add(0, 1, 2)
				if err1 != nil || err2 != nil {
					run.Outcome("dkg/recover/error")
					run.Violation("C34:RecoverGroupSig:error", fmt.Sprintf("%s: order %v: %v %v", tag, order, err1, err2), rep(map[string]any{"order": order, "message": m}))
					continue
				}
				s1, s2 := g1.SerializeToHexStr(), g2.SerializeToHexStr()
				if s1 != s2 {
					run.Violation("C34:CalBlsGpSign:differs-from-RecoverGroupSig", fmt.Sprintf("%s: order %v", tag, order), rep(map[string]any{"order": order, "message": m}))
				}
				if group == "" {
					group, first = s1, order
					if t == 2 && n == 3 && fam == "hash" && mi == 0 {
						run.Sample(rep(map[string]any{"order": order, "message": m, "group_signature": s1}))
					}
				}
				run.Outcome(fmt.Sprintf("dkg/recover/same=%v", s1 == group))
				if s1 != group {
					run.Violation("C34:RecoverGroupSig:subsets-disagree", fmt.Sprintf("%s: shares %v recover %s, shares %v recovered %s", tag, order, s1[:16], first, group[:16]), rep(map[string]any{"order": order, "first": first, "message": m}))
				}
			}
		}
		// non-vacuity: t-1 shares give something else
		if t > 1 {
			sub := subsets(n, t-1)[0]
			var from []tbls.PartyID
			var shs []tbls.Sign
			for _, p := range sub {
				from = append(from, pids[p])
				shs = append(shs, *sigs[p])
			}
			g, err := dkgs[0].RecoverGroupSig(from, shs)
			run.Add(0, 0, 1)
			run.Outcome(fmt.Sprintf("dkg/recover-from-fewer-than-t/same=%v", err == nil && g.SerializeToHexStr() == group))
		}
	}
	c34SOS(run, t, n, fam, ids, pids, shares, mpks, rep)
}

// c34SOS drives block.ShareOrSigns.Validate with every assignment to the recipients of each sender.
func c34SOS(run *ev.Run, t, n int, fam string, ids []string, pids []tbls.PartyID, shares [][]tbls.Key, mpks *block.Mpks, rep func(map[string]any) map[string]any) {
	if n < 2 || (n > 4 && !run.Thorough()) {
		return
	}
	tag := fmt.Sprintf("t=%d n=%d ids=%s", t, n, fam)
	// node (signing) keys of the parties, independent of the DKG
	nodeKeys := make([]keyPair, n)
	pubs := map[string]string{}
	for i := range nodeKeys {
		nodeKeys[i] = detKey(blsScheme, 10+i)
		pubs[ids[i]] = nodeKeys[i].Pub
	}
	msg := msgHash(7)
	const (
		absent = iota
		shareOK
		shareForeign
		signOK
		signBad
	)
	names := []string{"absent", "share", "foreign-share", "sign", "bad-sign"}
	for i := 0; i < n; i++ {
		var others []int
		for j := 0; j < n; j++ {
			if j != i {
				others = append(others, j)
			}
		}
		for _, asg := range allVectors(n-1, 5) {
			sos := block.NewShareOrSigns()
			sos.ID = ids[i]
			wantOK := true
			var wantKeys []string
			var desc []string
			for x, j := range others {
				desc = append(desc, names[asg[x]])
				switch asg[x] {
				case absent:
					if x%2 == 0 {
						sos.ShareOrSigns[ids[j]] = nil
					}
				case shareOK:
					sos.ShareOrSigns[ids[j]] = &tbls.DKGKeyShare{Share: shares[i][j].GetHexString()}
					wantKeys = append(wantKeys, ids[j])
				case shareForeign: // a share that party j got from somebody else, presented as sender i's
					k := others[(x+1)%len(others)] // k != i; for n == 2 this is j's own share for itself
					sos.ShareOrSigns[ids[j]] = &tbls.DKGKeyShare{Share: shares[k][j].GetHexString()}
					wantOK = false
				case signOK:
					sg, _ := signer(nodeKeys[j]).Sign(msg)
					sos.ShareOrSigns[ids[j]] = &tbls.DKGKeyShare{Message: msg, Sign: sg}
				case signBad: // signed by the sender instead of the receiver
					sg, _ := signer(nodeKeys[i]).Sign(msg)
					sos.ShareOrSigns[ids[j]] = &tbls.DKGKeyShare{Message: msg, Sign: sg}
					wantOK = false
				}
			}
			keys, ok := sos.Validate(mpks, pubs, encryption.NewBLS0ChainScheme())
			run.Add(0, 0, 1)
			sort.Strings(keys)
			sort.Strings(wantKeys)
			run.Outcome(fmt.Sprintf("sos/want=%v/got=%v", wantOK, ok))
			r := rep(map[string]any{"part": "share-or-signs", "sender": i, "assignment": desc})
			if wantOK && !ok {
				run.Violation("C34:ShareOrSigns.Validate:valid-rejected", fmt.Sprintf("%s: sender %d, recipients %v: all shares/signatures are genuine but Validate fails", tag, i, desc), r)
			}
			if !wantOK && ok {
				run.Violation("C34:ShareOrSigns.Validate:invalid-accepted", fmt.Sprintf("%s: sender %d, recipients %v: Validate accepts a foreign share or a wrong signature", tag, i, desc), r)
			}
			if wantOK && ok && strings.Join(keys, ",") != strings.Join(wantKeys, ",") {
				run.Violation("C34:ShareOrSigns.Validate:wrong-revealed-set", fmt.Sprintf("%s: sender %d, recipients %v: returned %d share keys, want %d", tag, i, desc, len(keys), len(wantKeys)), r)
			}
		}
	}
}

// c34Threshold: client threshold keys (core/encryption).
//
// large: n >= 10; every t-subset in ascending and descending order (instead of all t! orders), one key.
// In both modes every reconstruction is also done through the id-string path that
// smartcontract/multisigsc constructTransferSignature uses: a fresh threshold scheme gets
// SetPublicKey(share public key) and SetID(share.GetID()) and is then handed to rec.Add.
func c34Threshold(run *ev.Run, t, n int, msgs []string, large bool) {
	tag := fmt.Sprintf("t=%d n=%d", t, n)
	nKeys := 2
	if large {
		nKeys = 1
	}
	vmemo := map[string]string{}
	for ki := 0; ki < nKeys; ki++ {
		orig := detKey(blsScheme, ki)
		rep := func(extra map[string]any) map[string]any {
			m := map[string]any{"part": "threshold-client-key", "t": t, "n": n, "original_key": orig}
			for k, v := range extra {
				m[k] = v
			}
			return m
		}
		shares, err := encryption.GenerateThresholdKeyShares(blsScheme, t, n, signer(orig))
		run.Add(1, 0, 0)
		if err != nil || len(shares) != n {
			run.Violation("C34:BLS0GenerateThresholdKeyShares:error", fmt.Sprintf("%s: %v (%d shares)", tag, err, len(shares)), rep(nil))
			continue
		}
		// direct oracle: the id of every share survives the string round trip SetID(GetID())
		for i, sh := range shares {
			tss := encryption.GetThresholdSignatureScheme(blsScheme)
			id := sh.GetID()
			err := tss.SetID(id)
			run.Add(0, 0, 1)
			back := ""
			if err == nil {
				back = tss.GetID()
			}
			cls := "index<10"
			if i+1 >= 16 {
				cls = "index>=16"
			} else if i+1 >= 10 {
				cls = "index>=10"
			}
			run.Outcome(fmt.Sprintf("threshold/id-round-trip/%s/%v", cls, err == nil && back == id))
			if err != nil || back != id {
				run.Violation("C34:BLS0ChainThresholdScheme:id-string-round-trip", fmt.Sprintf("%s: share #%d: GetID()=%q, SetID(that) then GetID()=%q (err %v)", tag, i+1, id, back, err), rep(map[string]any{"share_index": i + 1, "id": id, "after_round_trip": back}))
			}
		}
		for _, m := range msgs {
			want, _ := signer(orig).Sign(m)
			verify := func(sig string) string {
				k := orig.Pub + "|" + sig + "|" + m
				if r, ok := vmemo[k]; ok {
					return r
				}
				r := verifyWith(blsScheme, orig.Pub, sig, m)
				vmemo[k] = r
				return r
			}
			sigs := make([]string, n)
			for i, sh := range shares {
				sigs[i], err = sh.Sign(m)
				if err != nil {
					run.Violation("C34:threshold-share:Sign:error", tag+": "+err.Error(), rep(nil))
				}
				// each share signature verifies under the share's own public key (public-only path)
				res := verifyWith(blsScheme, sh.GetPublicKey(), sigs[i], m)
				run.Add(0, 0, 1)
				run.Outcome("threshold/share-signature/" + res)
				if res != "ok" {
					run.Violation("C34:threshold-share:own-signature-rejected", fmt.Sprintf("%s share %d: %s", tag, i, res), rep(map[string]any{"share": i}))
				}
			}
			reconstruct := func(order []int, tamper bool) (string, error) {
				rec := encryption.GetReconstructSignatureScheme(blsScheme, t, n)
				for x, p := range order {
					s := sigs[p]
					if tamper && x == 0 {
						s = sigs[(p+1)%n]
					}
					if err := rec.Add(shares[p], s); err != nil {
						return "", err
					}
				}
				return rec.Reconstruct()
			}
			// the multisig smart contract's path: ids and public keys travel as strings
			reconstructViaIDs := func(order []int) (string, error) {
				rec := encryption.GetReconstructSignatureScheme(blsScheme, t, n)
				for _, p := range order {
					tss := encryption.GetThresholdSignatureScheme(blsScheme)
					if err := tss.SetPublicKey(shares[p].GetPublicKey()); err != nil {
						return "", err
					}
					if err := tss.SetID(shares[p].GetID()); err != nil {
						return "", err
					}
					if err := rec.Add(tss, sigs[p]); err != nil {
						return "", err
					}
				}
				return rec.Reconstruct()
			}
			perms := allPerms(t)
			if large {
				asc, desc := make([]int, t), make([]int, t)
				for x := range asc {
					asc[x], desc[x] = x, t-1-x
				}
				perms = [][]int{asc}
				if t > 1 {
					perms = append(perms, desc)
				}
			}
			firstViaIDs, firstOrder := "", []int(nil)
			for _, sub := range subsets(n, t) {
				for _, perm := range perms {
					order := make([]int, t)
					for x, p := range perm {
						order[x] = sub[p]
					}
					hi := "indices<10"
					for _, p := range order {
						if p+1 >= 16 {
							hi = "has-index>=16"
						} else if p+1 >= 10 && hi == "indices<10" {
							hi = "has-index>=10"
						}
					}
					vid, verr := reconstructViaIDs(order)
					run.Add(0, 1, 1)
					if verr != nil {
						run.Outcome("threshold/reconstruct-via-id-strings/" + hi + "/error")
						run.Violation("C34:BLS0ChainReconstruction:id-string-path:error", fmt.Sprintf("%s shares %v (1-based %v): %v", tag, order, plus1(order), verr), rep(map[string]any{"order": order, "message": m}))
					} else {
						vres := verify(vid)
						if firstViaIDs == "" {
							firstViaIDs, firstOrder = vid, order
						}
						run.Outcome(fmt.Sprintf("threshold/reconstruct-via-id-strings/%s/%s/same-as-other-subsets=%v", hi, vres, vid == firstViaIDs))
						if vres != "ok" {
							run.Violation("C34:BLS0ChainReconstruction:id-string-path:does-not-verify-under-original-key",
								fmt.Sprintf("%s: shares #%v reconstructed through SetID(GetID()) give a signature that does not verify under the original key (%s)", tag, plus1(order), vres),
								rep(map[string]any{"order": order, "message": m, "reconstructed": vid}))
						}
						if vid != firstViaIDs {
							run.Violation("C34:BLS0ChainReconstruction:id-string-path:subsets-disagree",
								fmt.Sprintf("%s: shares #%v reconstruct %s..., shares #%v reconstructed %s...", tag, plus1(order), vid[:16], plus1(firstOrder), firstViaIDs[:16]),
								rep(map[string]any{"order": order, "first": firstOrder, "message": m}))
						}
					}
					got, err := reconstruct(order, false)
					run.Add(0, 1, 1)
					if err != nil {
						run.Outcome("threshold/reconstruct/error")
						run.Violation("C34:BLS0ChainReconstruction:error", fmt.Sprintf("%s order %v: %v", tag, order, err), rep(map[string]any{"order": order, "message": m}))
						continue
					}
					res := verify(got)
					run.Outcome(fmt.Sprintf("threshold/reconstruct/%s/equals-direct=%v", res, got == want))
					if res != "ok" {
						run.Violation("C34:BLS0ChainReconstruction:does-not-verify-under-original-key", fmt.Sprintf("%s: shares %v reconstruct a signature that does not verify under the original key (%s)", tag, order, res), rep(map[string]any{"order": order, "message": m, "reconstructed": got}))
					}
				}
				// non-vacuity: one share signature replaced by another party's
				if n > 1 && t > 1 {
					got, err := reconstruct(sub, true)
					res := "error"
					if err == nil {
						res = verifyWith(blsScheme, orig.Pub, got, m)
					}
					run.Add(0, 0, 1)
					run.Outcome("threshold/reconstruct-with-misattributed-share/" + res)
				}
			}
			if t > 1 {
				got, err := reconstruct(subsets(n, t-1)[0], false)
				res := "error"
				if err == nil {
					res = verifyWith(blsScheme, orig.Pub, got, m)
				}
				run.Add(0, 0, 1)
				run.Outcome("threshold/reconstruct-from-fewer-than-t/" + res)
			}
		}
	}
}

// c34Split: split keys (BLS0ChainScheme.GenerateSplitKeys / AggregateSignatures).
func c34Split(run *ev.Run, k int, msgs []string) {
	for ki := 0; ki < 2; ki++ {
		orig := detKey(blsScheme, ki)
		rep := func(extra map[string]any) map[string]any {
			m := map[string]any{"part": "split-key", "splits": k, "original_key": orig}
			for kk, v := range extra {
				m[kk] = v
			}
			return m
		}
		primary, ok := signer(orig).(encryption.SplittableSignatureScheme)
		if !ok {
			ev.Fatal("BLS scheme is not splittable")
		}
		parts, err := primary.GenerateSplitKeys(k)
		run.Add(1, 0, 0)
		if err != nil || len(parts) != k {
			run.Violation("C34:GenerateSplitKeys:error", fmt.Sprintf("splits=%d: %v", k, err), rep(nil))
			continue
		}
		for _, m := range msgs {
			sigs := make([]string, k)
			for i, p := range parts {
				sigs[i], err = p.Sign(m)
				if err != nil {
					run.Violation("C34:split-key:Sign:error", err.Error(), rep(nil))
				}
				res := verifyWith(blsScheme, p.GetPublicKey(), sigs[i], m)
				run.Add(0, 0, 1)
				run.Outcome("split/part-signature/" + res)
				if res != "ok" {
					run.Violation("C34:split-key:own-signature-rejected", fmt.Sprintf("splits=%d part %d: %s", k, i, res), rep(map[string]any{"part_index": i}))
				}
			}
			for _, perm := range allPerms(k) {
				ord := make([]string, k)
				for x, p := range perm {
					ord[x] = sigs[p]
				}
				agg, err := primary.AggregateSignatures(ord)
				run.Add(0, 1, 1)
				res := "error"
				if err == nil {
					res = verifyWith(blsScheme, orig.Pub, agg, m)
				}
				run.Outcome("split/aggregate-all/" + res)
				if res != "ok" {
					run.Violation("C34:GenerateSplitKeys:aggregate-does-not-verify-under-original-key", fmt.Sprintf("splits=%d order %v: %s", k, perm, res), rep(map[string]any{"order": perm, "message": m}))
				}
			}
			if k > 1 {
				agg, err := primary.AggregateSignatures(sigs[:k-1])
				res := "error"
				if err == nil {
					res = verifyWith(blsScheme, orig.Pub, agg, m)
				}
				run.Add(0, 0, 1)
				run.Outcome("split/aggregate-missing-one/" + res)
			}
		}
	}
}

func plus1(a []int) []int {
	out := make([]int, len(a))
	for i, x := range a {
		out[i] = x + 1
	}
	return out
}
